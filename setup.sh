#!/bin/bash
# MANIFEST.setup_cmd: builds the framework offline from files on disk and warms the go build cache.
cd "$(dirname "$0")"
export GOFLAGS=-mod=mod GOPROXY=off
unset GOSUMDB
mkdir -p bin evidence replays
tools/sync-gomod.sh
rc=0
# only the checks registered in MANIFEST.json are built (work-in-progress harness directories are ignored)
for id in $(sed -n 's/.*"quick_cmd": "\.\/check \(C[0-9]*\) .*/\1/p' MANIFEST.json | tr 'A-Z' 'a-z'); do
  d=mc/$id
  if [ -f "$d/OVERLAY" ]; then
    OV=$(tools/instrument.sh "$id") || { echo "instrument $id failed"; rc=1; continue; }
    (cd mc && go build -overlay "$OV" -o ../bin/$id ./$id) || rc=1
  else
    (cd mc && go build -o ../bin/$id ./$id) || rc=1
  fi
done
exit $rc
