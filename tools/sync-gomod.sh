#!/bin/bash
# keeps mc/go.mod's replace directives and go.sum in step with /repo (dependency replaces are not inherited)
cd "$(dirname "$0")/../mc" || exit 2
cp /repo/go.sum go.sum.repo 2>/dev/null && cat go.sum.repo go.sum.extra 2>/dev/null | sort -u > go.sum.new && mv go.sum.new go.sum; rm -f go.sum.repo
exit 0
