#!/opt/veriftools/pyvenv/bin/python3
"""Regenerates MANIFEST.json from tools/manifest_src.json (checks) + properties.jsonl (not_applicable for
everything not yet claimed) and validates it and every evidence file against the schemas."""
import json, sys, os, subprocess
V='/verif'
src=json.load(open(f'{V}/tools/manifest_src.json'))
props=[json.loads(l)['id'] for l in open(f'{V}/properties.jsonl')]
checks=[]
for pid in props:
    c=src['checks'].get(pid)
    if not c: continue
    checks.append({
        "property_id": pid,
        "quick_cmd": f"./check {pid} --tier quick",
        "thorough_cmd": f"./check {pid} --tier thorough",
        "evidence_file": f"/verif/evidence/{pid}.json",
        "replay_cmd_template": f"./check {pid} --replay {{path}}",
        "engine": c["engine"],
        "level_claimed": {"category": c["category"], "text": c["text"], "design_ref": c["design_ref"]},
        "level_note": c["note"],
        "technique": c["technique"],
    })
na=[{"property_id":p,"reason":src["not_applicable"].get(p,"check not built yet (work in progress; see DESIGN.md section 3)")} for p in props if p not in src['checks']]
m={"version":1,"setup_cmd":"./setup.sh","hooks":src["hooks"],"engines":src["engines"],"checks":checks,"notes":src["notes"],"not_applicable":na}
json.dump(m,open(f'{V}/MANIFEST.json','w'),indent=1)
try:
    import jsonschema
except ImportError:
    sys.exit(0)
jsonschema.validate(m,json.load(open('/root/.vp/MANIFEST.schema.json')))
es=json.load(open('/root/.vp/EVIDENCE.schema.json'))
for c in checks:
    p=c['evidence_file']
    if os.path.exists(p):
        jsonschema.validate(json.load(open(p)),es)
        print("evidence ok:",p)
print("MANIFEST ok:",len(checks),"checks,",len(na),"not_applicable")
