// rewrite: source-to-source instrumenter producing a `go build -overlay` file for the CURRENT working tree
// of /repo. Every rewritten file is otherwise byte-identical to its source: edits are textual, at AST
// positions, applied innermost-first until a fixpoint.
//
//	rewrite -repo /repo -shim /verif/shim -out DIR [-os pkgdir,...] [-add target=source,...] pkgdir...
//
// pkgdir are directories relative to -repo (e.g. embedded/store). An unsupported construct in a target
// package is a hard error (exit 2), never silently skipped.
package main

import (
	"encoding/json"
	"flag"
	"fmt"
	"go/ast"
	"go/parser"
	"go/token"
	"go/types"
	"os"
	"path/filepath"
	"sort"
	"strings"

	"golang.org/x/tools/go/packages"
)

const hooks = "github.com/codenotary/immudb/embedded/vhooks/"

type edit struct {
	start, end int
	text       string
}

func fatal(f string, a ...any) {
	fmt.Fprintf(os.Stderr, "rewrite: "+f+"\n", a...)
	os.Exit(2)
}

var nsites = map[string]int{}

func main() {
	repo := flag.String("repo", "/repo", "repository root")
	shim := flag.String("shim", "/verif/shim", "directory with vsched/ vsync/ vos/")
	out := flag.String("out", "", "output directory")
	osPkgs := flag.String("os", "", "comma-separated package dirs whose os import is replaced by the vos façade")
	add := flag.String("add", "", "comma-separated target=source pairs of extra files to inject (target relative to repo)")
	nosched := flag.Bool("nosched", false, "do not instrument concurrency (journaling only)")
	flag.Parse()
	if *out == "" {
		fatal("-out required")
	}
	os.MkdirAll(*out, 0755)
	osSet := map[string]bool{}
	for _, p := range strings.Split(*osPkgs, ",") {
		if p != "" {
			osSet[p] = true
		}
	}
	overlay := map[string]string{}

	// type information (map ranges, channel ranges) for the target packages
	var patterns []string
	for _, d := range flag.Args() {
		patterns = append(patterns, "./"+d)
	}
	cfg := &packages.Config{Mode: packages.NeedName | packages.NeedFiles | packages.NeedSyntax | packages.NeedTypes | packages.NeedTypesInfo,
		Dir: *repo, Env: append(os.Environ(), "GOFLAGS=-mod=mod", "GOPROXY=off")}
	pkgs, err := packages.Load(cfg, patterns...)
	if err != nil {
		fatal("loading packages: %v", err)
	}
	// per file: header edits for map ranges, computed on the original source
	mapEdits := map[string][]edit{}
	for _, p := range pkgs {
		for _, e := range p.Errors {
			fatal("type error in %s: %v", p.PkgPath, e)
		}
		for i, f := range p.Syntax {
			_ = i
			fn := p.Fset.Position(f.Pos()).Filename
			src, err := os.ReadFile(fn)
			if err != nil {
				fatal("%v", err)
			}
			off := func(pos token.Pos) int { return p.Fset.Position(pos).Offset }
			text := func(n ast.Node) string { return string(src[off(n.Pos()):off(n.End())]) }
			ast.Inspect(f, func(n ast.Node) bool {
				r, ok := n.(*ast.RangeStmt)
				if !ok {
					return true
				}
				tv, ok := p.TypesInfo.Types[r.X]
				if !ok {
					return true
				}
				switch ut := tv.Type.Underlying().(type) {
				case *types.Chan:
					fatal("%s: range over channel is not supported", p.Fset.Position(r.Pos()))
				case *types.Map:
					if *nosched {
						return true
					}
					if r.Key == nil {
						return true // `for range m`: order cannot be observed
					}
					if _, isPtr := ut.Key().Underlying().(*types.Pointer); isPtr {
						fatal("%s: range over a map with pointer keys cannot be made deterministic", p.Fset.Position(r.Pos()))
					}
					if r.Tok != token.DEFINE {
						fatal("%s: range over map with '=' assignment is not supported", p.Fset.Position(r.Pos()))
					}
					if !pure(r.X) {
						fatal("%s: range over map expression with possible side effects: %s", p.Fset.Position(r.Pos()), text(r.X))
					}
					key := text(r.Key)
					if key == "_" {
						key = "_vk"
					}
					x := text(r.X)
					hdr := "for _, " + key + " := range vsched.SortedKeys(" + x + ") {"
					if r.Value != nil && text(r.Value) != "_" {
						hdr += " " + text(r.Value) + ", _vok := (" + x + ")[" + key + "]; if !_vok { continue };"
					} else {
						hdr += " if _, _vok := (" + x + ")[" + key + "]; !_vok { continue };"
					}
					mapEdits[fn] = append(mapEdits[fn], edit{off(r.Pos()), off(r.Body.Lbrace) + 1, hdr})
					nsites["range-map"]++
				}
				return true
			})
		}
	}

	for _, d := range flag.Args() {
		dir := filepath.Join(*repo, d)
		ents, err := os.ReadDir(dir)
		if err != nil {
			fatal("%v", err)
		}
		for _, e := range ents {
			n := e.Name()
			if e.IsDir() || !strings.HasSuffix(n, ".go") || strings.HasSuffix(n, "_test.go") {
				continue
			}
			p := filepath.Join(dir, n)
			src, err := os.ReadFile(p)
			if err != nil {
				fatal("%v", err)
			}
			res, changed, err := rewriteFile(p, src, mapEdits[p], osSet[d], *nosched)
			if err != nil {
				fatal("%s: %v", p, err)
			}
			if changed {
				o := filepath.Join(*out, strings.ReplaceAll(strings.TrimPrefix(p, "/"), "/", "__"))
				if err := os.WriteFile(o, res, 0644); err != nil {
					fatal("%v", err)
				}
				overlay[p] = o
			}
		}
	}
	for _, sp := range []string{"vsched", "vsync", "vos"} {
		ents, err := os.ReadDir(filepath.Join(*shim, sp))
		if err != nil {
			fatal("%v", err)
		}
		for _, e := range ents {
			overlay[filepath.Join(*repo, "embedded/vhooks", sp, e.Name())] = filepath.Join(*shim, sp, e.Name())
		}
	}
	// x/sync/singleflight: files under GOMODCACHE cannot be overlaid, so an instrumented copy lives in vhooks
	if sf := findSingleflight(*repo); sf != "" {
		src, err := os.ReadFile(sf)
		if err != nil {
			fatal("%v", err)
		}
		res, _, err := rewriteFile(sf, src, nil, false, *nosched)
		if err != nil {
			fatal("singleflight: %v", err)
		}
		o := filepath.Join(*out, "singleflight.go")
		os.WriteFile(o, res, 0644)
		overlay[filepath.Join(*repo, "embedded/vhooks/singleflight/singleflight.go")] = o
	}
	for _, kv := range strings.Split(*add, ",") {
		if kv == "" {
			continue
		}
		p := strings.SplitN(kv, "=", 2)
		if len(p) != 2 {
			fatal("bad -add %q", kv)
		}
		overlay[filepath.Join(*repo, p[0])] = p[1]
	}
	bs, _ := json.MarshalIndent(map[string]any{"Replace": overlay}, "", " ")
	if err := os.WriteFile(filepath.Join(*out, "overlay.json"), bs, 0644); err != nil {
		fatal("%v", err)
	}
	keys := []string{}
	for k := range nsites {
		keys = append(keys, k)
	}
	sort.Strings(keys)
	for _, k := range keys {
		fmt.Fprintf(os.Stderr, "%s=%d ", k, nsites[k])
	}
	fmt.Fprintf(os.Stderr, "files=%d\n", len(overlay))
	fmt.Println(filepath.Join(*out, "overlay.json"))
}

func findSingleflight(repo string) string {
	cfg := &packages.Config{Mode: packages.NeedFiles, Dir: repo, Env: append(os.Environ(), "GOFLAGS=-mod=mod", "GOPROXY=off")}
	pkgs, err := packages.Load(cfg, "golang.org/x/sync/singleflight")
	if err != nil || len(pkgs) == 0 {
		return ""
	}
	for _, f := range pkgs[0].GoFiles {
		if strings.HasSuffix(f, "singleflight.go") {
			return f
		}
	}
	return ""
}

// pure: expression that can be evaluated repeatedly (identifiers, selectors, parenthesised, index by literal)
func pure(e ast.Expr) bool {
	switch x := e.(type) {
	case *ast.Ident:
		return true
	case *ast.SelectorExpr:
		return pure(x.X)
	case *ast.ParenExpr:
		return pure(x.X)
	case *ast.StarExpr:
		return pure(x.X)
	case *ast.IndexExpr:
		return pure(x.X) && pure(x.Index)
	case *ast.BasicLit:
		return true
	}
	return false
}

func rewriteFile(path string, src []byte, pre []edit, osMode, noSched bool) ([]byte, bool, error) {
	changed := false
	needSched := false
	hadTime, hadContext := false, false
	apply := func(edits []edit) {
		sort.Slice(edits, func(i, j int) bool { return edits[i].start > edits[j].start })
		for _, e := range edits {
			src = append(append(append([]byte{}, src[:e.start]...), []byte(e.text)...), src[e.end:]...)
		}
	}
	if len(pre) > 0 {
		apply(pre)
		changed, needSched = true, true
	}
	for pass := 0; pass < 30; pass++ {
		fset := token.NewFileSet()
		f, err := parser.ParseFile(fset, path, src, parser.ParseComments)
		if err != nil {
			return nil, false, fmt.Errorf("pass %d: %v", pass, err)
		}
		off := func(p token.Pos) int { return fset.Position(p).Offset }
		text := func(n ast.Node) string { return string(src[off(n.Pos()):off(n.End())]) }

		timeName, ctxName := "", ""
		for _, im := range f.Imports {
			if im.Path.Value == `"time"` && im.Name == nil {
				timeName = "time"
				hadTime = true
			}
			if im.Path.Value == `"context"` && im.Name == nil {
				ctxName = "context"
				hadContext = true
			}
		}

		type cand struct {
			n    ast.Node
			kind string
			par  ast.Node
		}
		var cands []cand
		var stack []ast.Node
		commOf := map[ast.Node]bool{}
		var ferr error
		ast.Inspect(f, func(n ast.Node) bool {
			if n == nil {
				stack = stack[:len(stack)-1]
				return true
			}
			var par ast.Node
			if len(stack) > 0 {
				par = stack[len(stack)-1]
			}
			stack = append(stack, n)
			if noSched {
				return true
			}
			switch x := n.(type) {
			case *ast.GoStmt:
				cands = append(cands, cand{n, "go", par})
			case *ast.SelectStmt:
				for _, c := range x.Body.List {
					cc := c.(*ast.CommClause)
					if cc.Comm != nil {
						commOf[cc.Comm] = true
					}
				}
				cands = append(cands, cand{n, "select", par})
			case *ast.SendStmt:
				if !commOf[n] {
					cands = append(cands, cand{n, "send", par})
				}
			case *ast.UnaryExpr:
				if x.Op == token.ARROW {
					isComm := false
					for i := len(stack) - 2; i >= 0 && i >= len(stack)-3; i-- {
						if commOf[stack[i]] {
							isComm = true
						}
					}
					if !isComm {
						cands = append(cands, cand{n, "recv", par})
					}
				}
			case *ast.CallExpr:
				if id, ok := x.Fun.(*ast.Ident); ok && id.Name == "close" && id.Obj == nil && len(x.Args) == 1 {
					cands = append(cands, cand{x.Fun, "close", par})
				}
				if se, ok := x.Fun.(*ast.SelectorExpr); ok {
					if id, ok := se.X.(*ast.Ident); ok && id.Obj == nil {
						if timeName != "" && id.Name == timeName {
							switch se.Sel.Name {
							case "Sleep", "Now", "Since", "Until":
								cands = append(cands, cand{x.Fun, "time." + se.Sel.Name, par})
							case "After", "NewTimer", "NewTicker", "AfterFunc", "Tick":
								ferr = fmt.Errorf("%s: time.%s is not supported by the scheduler shim", fset.Position(x.Pos()), se.Sel.Name)
							}
						}
						if ctxName != "" && id.Name == ctxName && (se.Sel.Name == "WithCancel" || se.Sel.Name == "WithTimeout" || se.Sel.Name == "WithDeadline") {
							cands = append(cands, cand{x.Fun, "context." + se.Sel.Name, par})
						}
					}
				}
			}
			return true
		})
		if ferr != nil {
			return nil, false, ferr
		}
		var edits []edit
		for i, c := range cands {
			contains := false
			for j, d := range cands {
				if i != j && d.n.Pos() >= c.n.Pos() && d.n.End() <= c.n.End() && !(d.n.Pos() == c.n.Pos() && d.n.End() == c.n.End()) {
					contains = true
					break
				}
			}
			if contains {
				continue
			}
			var t string
			switch c.kind {
			case "go":
				g := c.n.(*ast.GoStmt)
				var sb strings.Builder
				fname := "_vf"
				if id, ok := g.Call.Fun.(*ast.Ident); ok && id.Obj == nil && (id.Name == "panic" || id.Name == "close" || id.Name == "print" || id.Name == "println") {
					fname = id.Name // builtins cannot be bound to a variable
					sb.WriteString("{ ")
				} else {
					sb.WriteString("{ _vf := " + text(g.Call.Fun) + "; ")
				}
				args := []string{}
				for k, a := range g.Call.Args {
					sb.WriteString(fmt.Sprintf("_va%d := %s; ", k, text(a)))
					args = append(args, fmt.Sprintf("_va%d", k))
				}
				al := strings.Join(args, ", ")
				if g.Call.Ellipsis.IsValid() {
					al += "..."
				}
				sb.WriteString("vsched.Go(func() { " + fname + "(" + al + ") }) }")
				t = sb.String()
			case "send":
				s := c.n.(*ast.SendStmt)
				t = "vsched.Send(" + text(s.Chan) + ", " + text(s.Value) + ")"
			case "recv":
				u := c.n.(*ast.UnaryExpr)
				fn := "vsched.Recv"
				if as, ok := c.par.(*ast.AssignStmt); ok && len(as.Lhs) == 2 && len(as.Rhs) == 1 {
					fn = "vsched.Recv2"
				}
				if vs, ok := c.par.(*ast.ValueSpec); ok && len(vs.Names) == 2 && len(vs.Values) == 1 {
					fn = "vsched.Recv2"
				}
				t = fn + "(" + text(u.X) + ")"
			case "close":
				t = "vsched.Close"
			case "time.Sleep":
				t = "vsched.Sleep"
			case "time.Now":
				t = "vsched.Now"
			case "time.Since":
				t = "vsched.Since"
			case "time.Until":
				t = "vsched.Until"
			case "context.WithCancel":
				t = "vsched.WithCancel"
			case "context.WithTimeout":
				t = "vsched.WithTimeout"
			case "context.WithDeadline":
				t = "vsched.WithDeadline"
			case "select":
				s := c.n.(*ast.SelectStmt)
				var pre, sw strings.Builder
				names := []string{}
				idx := 0
				hasDefault := false
				for _, cl := range s.Body.List {
					cc := cl.(*ast.CommClause)
					body := ""
					if len(cc.Body) > 0 {
						body = string(src[off(cc.Body[0].Pos()):off(cc.Body[len(cc.Body)-1].End())])
					}
					if cc.Comm == nil {
						hasDefault = true
						sw.WriteString("case -1:\n" + body + "\n")
						continue
					}
					var rx *ast.UnaryExpr
					bind := ""
					cn := fmt.Sprintf("_vc%d", idx)
					switch cm := cc.Comm.(type) {
					case *ast.ExprStmt:
						rx, _ = cm.X.(*ast.UnaryExpr)
					case *ast.AssignStmt:
						rx, _ = cm.Rhs[0].(*ast.UnaryExpr)
						if len(cm.Lhs) == 1 {
							bind = text(cm.Lhs[0]) + " " + cm.Tok.String() + " " + cn + ".Val; "
						} else {
							bind = text(cm.Lhs[0]) + ", " + text(cm.Lhs[1]) + " " + cm.Tok.String() + " " + cn + ".Val, " + cn + ".Ok; "
						}
					}
					if rx == nil || rx.Op != token.ARROW {
						return nil, false, fmt.Errorf("%s: select send case not supported", fset.Position(s.Pos()))
					}
					pre.WriteString(cn + " := vsched.NewRecvCase(" + text(rx.X) + "); ")
					names = append(names, cn)
					sw.WriteString(fmt.Sprintf("case %d:\n%s\n%s\n", idx, bind, body))
					idx++
				}
				dflt := "default:\npanic(\"vsched: unreachable select case\")\n"
				lbl := ""
				if ls, ok := c.par.(*ast.LabeledStmt); ok {
					_ = ls // a labelled select: `break L` inside still refers to the label on the enclosing block
				}
				t = lbl + "{ " + pre.String() + "\nswitch vsched.Select(" + fmt.Sprint(hasDefault) + ", " + strings.Join(names, ", ") + ") {\n" + sw.String() + dflt + "}\n}"
			}
			nsites[c.kind]++
			edits = append(edits, edit{off(c.n.Pos()), off(c.n.End()), t})
			needSched = true
		}
		for _, im := range f.Imports {
			if im.Name != nil {
				continue
			}
			switch im.Path.Value {
			case `"os"`:
				if osMode {
					edits = append(edits, edit{off(im.Pos()), off(im.End()), `os "` + hooks + `vos"`})
					nsites["import-os"]++
				}
			case `"sync"`:
				if !noSched {
					edits = append(edits, edit{off(im.Pos()), off(im.End()), `sync "` + hooks + `vsync"`})
					nsites["import-sync"]++
				}
			case `"golang.org/x/sync/singleflight"`:
				if !noSched {
					edits = append(edits, edit{off(im.Pos()), off(im.End()), `"` + hooks + `singleflight"`})
					nsites["import-singleflight"]++
				}
			}
		}
		if len(edits) == 0 {
			break
		}
		changed = true
		apply(edits)
	}
	if needSched {
		fset := token.NewFileSet()
		f, err := parser.ParseFile(fset, path, src, parser.PackageClauseOnly)
		if err != nil {
			return nil, false, err
		}
		p := fset.Position(f.Name.End()).Offset
		ins := "\nimport vsched \"" + hooks + "vsched\"\n"
		tail := "\nvar _ = vsched.Active\n"
		if hadTime {
			tail += "var _ time.Duration\n"
		}
		if hadContext {
			tail += "var _ = context.Background\n"
		}
		src = append(append(append([]byte{}, src[:p]...), []byte(ins)...), append(src[p:], []byte(tail)...)...)
	}
	return src, changed, nil
}
