#!/bin/bash
# confirm.sh <mutdir> <pkgdir> <run-regexp> : in scratch worktree /tmp/cf (at /repo HEAD) check that the demo
# passes without the change, fails with it, and that the touched package's own tests pass with it.
set -u
mut=$1; pkg=$2; re=$3
export GOFLAGS=-mod=mod GOPROXY=off
cf=/tmp/cf
if [ ! -d $cf ]; then git -C /repo worktree add --detach $cf HEAD >/dev/null 2>&1; fi
cd $cf && git checkout -q --detach $(git -C /repo rev-parse HEAD) && git checkout -- . && git clean -fdq
cp $mut/*_test.go $cf/$pkg/
echo "== without change"; go test -count=1 -vet=off -run "$re" ./$pkg/ 2>&1 | tail -3
git apply $mut/patch.diff || exit 2
echo "== with change"; go test -count=1 -vet=off -run "$re" ./$pkg/ 2>&1 | grep -E '^(--- |FAIL|ok|\s+Error:|\s+Messages:)' | head -12
rm -f $cf/$pkg/$(basename $(ls $mut/*_test.go | head -1))
echo "== package tests with change"; go test -count=1 -vet=off ./$pkg/ 2>&1 | grep -E '^(--- FAIL|FAIL|ok)' | head
git checkout -- . ; git clean -fdq
