#!/bin/bash
# instrument.sh <id>: (re)generates the go-build overlay for harness mc/<id> from /repo's CURRENT sources
# according to mc/<id>/OVERLAY and prints the path of overlay.json.
#   OVERLAY lines:  pkgs: <dirs relative to /repo>   os: <dirs whose os import becomes the vos façade>
#                   add: <target relative to /repo>=<source relative to /verif> ...   flags: -nosched
set -e
cd "$(dirname "$0")/.."
id=$1
export GOFLAGS=-mod=mod GOPROXY=off
unset GOSUMDB
if [ ! -x bin/rewrite ] || [ tools/rewrite/main.go -nt bin/rewrite ]; then
  (cd tools/rewrite && go build -o ../../bin/rewrite .) >&2
fi
spec=mc/$id/OVERLAY
pkgs=$(sed -n 's/^pkgs://p' $spec | tr '\n' ' ')
ospk=$(sed -n 's/^os://p' $spec | tr '\n' ' ' | xargs | tr ' ' ',')
flags=$(sed -n 's/^flags://p' $spec | tr '\n' ' ')
add=""
for kv in $(sed -n 's/^add://p' $spec); do
  add="$add,${kv%%=*}=/verif/${kv#*=}"
done
out=/verif/.overlay/$id
rm -rf $out; mkdir -p $out
bin/rewrite -repo /repo -shim /verif/shim -out $out -os "$ospk" -add "${add#,}" $flags $pkgs
