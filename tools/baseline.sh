#!/bin/bash
# Runs the repository's pinned test suite (command from /root/.vp/BASELINE.json) against a tree
# (default /repo, no verif instrumentation is ever compiled in: all hooks are go-build overlays) and
# compares with the stable baseline. usage: baseline.sh [repo-dir] ; exit 0 iff no stable test fails.
REPO=${1:-/repo}
export GOFLAGS=-mod=mod GOPROXY=off
LOG=$(mktemp /tmp/baseline.XXXXXX.json)
. /w/out/goenv.sh
for m in $(cat /w/out/gomods.txt); do
  MF=$(cd $REPO/$m && gomodflag)
  (cd $REPO/$m && go test $MF -json -vet=off -count=1 -timeout 25m ./... ) >> $LOG 2>/dev/null
done
python3 - "$LOG" <<'PY'
import json,sys
res={}
for l in open(sys.argv[1],errors='replace'):
    try: e=json.loads(l)
    except Exception: continue
    if e.get('Action') in('pass','fail','skip') and e.get('Test'):
        res[e['Package']+'::'+e['Test']]=e['Action']
b=json.load(open('/root/.vp/BASELINE.json'))
stable=b['stable_pass']
bad=[t for t in stable if res.get(t)!='pass']
print(f"stable={len(stable)} passed={sum(1 for t in stable if res.get(t)=='pass')} not_passing={len(bad)} total_results={len(res)}")
for t in bad[:40]: print("  NOT PASSING:",t,res.get(t))
sys.exit(1 if bad else 0)
PY
rc=$?
rm -f $LOG
exit $rc
