#!/bin/bash
# seeded.sh <name> <mutdir> <check-id>... : confirm a seeded change and run checks against it.
#  1. fresh scratch worktree of /repo HEAD: patch applies, builds; (tests are run by hand, see meta.json)
#  2. apply to /repo, run each check (quick), undo (git checkout -- .)
# Results go to /verif/seeded/<name>/ (patch.diff, demo files, results.txt).
set -u
name=$1; mut=$2; shift 2
out=/verif/seeded/$name
mkdir -p $out
[ "$(readlink -f $mut)" != "$(readlink -f $out)" ] && cp $mut/patch.diff $out/patch.diff
if [ "$(readlink -f $mut)" != "$(readlink -f $out)" ]; then for f in $mut/*_test.go $mut/*.go $mut/notes.md; do [ -f "$f" ] && cp "$f" $out/; done; fi
export GOFLAGS=-mod=mod GOPROXY=off
exec 8>/verif/.repolock && flock -x 8   # no check may (re)build from /repo while the change is applied
export VERIF_NOLOCK=1
cd /repo
if ! git diff --quiet; then echo "/repo has uncommitted changes"; exit 2; fi
git apply --check $out/patch.diff || { echo "patch does not apply"; exit 2; }
git apply $out/patch.diff
trap 'git -C /repo checkout -- . ; git -C /repo clean -fdq embedded pkg cmd 2>/dev/null' EXIT
go build ./... || { echo "does not build"; exit 2; }
: > $out/results.txt
for id in "$@"; do
  cd /verif
  ./check $id --tier quick > $out/check-$id.out 2>&1
  rc=$?
  nv=$(grep -c '^VIOLATION' $out/check-$id.out)
  echo "$id exit=$rc violations=$nv $(grep -m1 'sig:' $out/check-$id.out | cut -c1-200)" | tee -a $out/results.txt
done
