// Package vos: façade over package os for the storage packages of the instrumented immudb copy
// (injected as github.com/codenotary/immudb/embedded/vhooks/vos and imported under the name "os").
// It (a) tracks every open file so that an aborted execution can be cleaned up, and (b) when Recording,
// journals every mutation with enough detail to materialise any crash image (engine E2).
package vos

import (
	"io/fs"
	"os"
	"sync"
	"time"
)

type FileMode = os.FileMode
type FileInfo = os.FileInfo
type DirEntry = os.DirEntry
type PathError = os.PathError

const (
	O_RDONLY = os.O_RDONLY
	O_WRONLY = os.O_WRONLY
	O_RDWR   = os.O_RDWR
	O_APPEND = os.O_APPEND
	O_CREATE = os.O_CREATE
	O_EXCL   = os.O_EXCL
	O_SYNC   = os.O_SYNC
	O_TRUNC  = os.O_TRUNC
	ModePerm = os.ModePerm
	ModeDir  = os.ModeDir
)

var Stderr = os.Stderr
var Stdout = os.Stdout
var Stdin = os.Stdin
var ErrNotExist = os.ErrNotExist
var ErrExist = os.ErrExist
var ErrPermission = os.ErrPermission
var ErrClosed = os.ErrClosed

func IsNotExist(err error) bool   { return os.IsNotExist(err) }
func IsExist(err error) bool      { return os.IsExist(err) }
func IsPermission(err error) bool { return os.IsPermission(err) }
func Getenv(k string) string      { return os.Getenv(k) }
func TempDir() string             { return os.TempDir() }
func Getpid() int                 { return os.Getpid() }

// Op is one journal record.
type Op struct {
	Kind string // create mkdir remove removeall rename write fsync fdatasync syncdir mark
	Path string
	To   string
	Off  int64
	Data []byte
	Note string
}

var mu sync.Mutex
var Journal []Op
var Recording bool
var open = map[*File]struct{}{}

func rec(op Op) {
	if !Recording {
		return
	}
	mu.Lock()
	Journal = append(Journal, op)
	mu.Unlock()
}

// Mark adds a harness marker (e.g. "ack tx 3") to the journal.
func Mark(note string) { rec(Op{Kind: "mark", Note: note}) }

// Reset clears the journal and closes every file an earlier (aborted) execution left open.
func Reset(recording bool) {
	CloseAll()
	mu.Lock()
	Journal = nil
	Recording = recording
	mu.Unlock()
}

// CloseAll closes all files still open; returns how many there were.
func CloseAll() int {
	mu.Lock()
	fs := make([]*File, 0, len(open))
	for f := range open {
		fs = append(fs, f)
	}
	open = map[*File]struct{}{}
	mu.Unlock()
	for _, f := range fs {
		f.f.Close()
	}
	return len(fs)
}

func OpenCount() int { mu.Lock(); defer mu.Unlock(); return len(open) }

type File struct {
	f     *os.File
	path  string
	pos   int64
	isDir bool
}

func wrap(f *os.File, path string, err error) (*File, error) {
	if err != nil {
		return nil, err
	}
	w := &File{f: f, path: path}
	if st, e := f.Stat(); e == nil && st.IsDir() {
		w.isDir = true
	}
	mu.Lock()
	open[w] = struct{}{}
	mu.Unlock()
	return w, nil
}

func OpenFile(name string, flag int, perm FileMode) (*File, error) {
	_, serr := os.Stat(name)
	f, err := os.OpenFile(name, flag, perm)
	if err == nil && serr != nil && flag&os.O_CREATE != 0 {
		rec(Op{Kind: "create", Path: name})
	}
	if err == nil && flag&os.O_TRUNC != 0 && serr == nil {
		rec(Op{Kind: "remove", Path: name})
		rec(Op{Kind: "create", Path: name})
	}
	return wrap(f, name, err)
}

func Open(name string) (*File, error) {
	f, err := os.Open(name)
	return wrap(f, name, err)
}

func Create(name string) (*File, error) {
	_, serr := os.Stat(name)
	f, err := os.Create(name)
	if err == nil {
		if serr == nil {
			rec(Op{Kind: "remove", Path: name})
		}
		rec(Op{Kind: "create", Path: name})
	}
	return wrap(f, name, err)
}

func CreateTemp(dir, pattern string) (*File, error) {
	f, err := os.CreateTemp(dir, pattern)
	if err != nil {
		return nil, err
	}
	rec(Op{Kind: "create", Path: f.Name()})
	return wrap(f, f.Name(), nil)
}

func Stat(name string) (FileInfo, error)      { return os.Stat(name) }
func Lstat(name string) (FileInfo, error)     { return os.Lstat(name) }
func ReadDir(name string) ([]DirEntry, error) { return os.ReadDir(name) }
func ReadFile(name string) ([]byte, error)    { return os.ReadFile(name) }

func WriteFile(name string, data []byte, perm FileMode) error {
	f, err := OpenFile(name, O_WRONLY|O_CREATE|O_TRUNC, perm)
	if err != nil {
		return err
	}
	_, err = f.Write(data)
	if e := f.Close(); err == nil {
		err = e
	}
	return err
}

func Mkdir(name string, perm FileMode) error {
	err := os.Mkdir(name, perm)
	if err == nil {
		rec(Op{Kind: "mkdir", Path: name})
	}
	return err
}

func MkdirAll(name string, perm FileMode) error {
	_, serr := os.Stat(name)
	err := os.MkdirAll(name, perm)
	if err == nil && serr != nil {
		rec(Op{Kind: "mkdir", Path: name, Note: "all"})
	}
	return err
}

func Remove(name string) error {
	err := os.Remove(name)
	if err == nil {
		rec(Op{Kind: "remove", Path: name})
	}
	return err
}

func RemoveAll(name string) error {
	err := os.RemoveAll(name)
	if err == nil {
		rec(Op{Kind: "removeall", Path: name})
	}
	return err
}

func Rename(a, b string) error {
	err := os.Rename(a, b)
	if err == nil {
		rec(Op{Kind: "rename", Path: a, To: b})
	}
	return err
}

func (f *File) Name() string { return f.f.Name() }

func (f *File) Write(b []byte) (int, error) {
	n, err := f.f.Write(b)
	if n > 0 {
		rec(Op{Kind: "write", Path: f.path, Off: f.pos, Data: append([]byte{}, b[:n]...)})
	}
	f.pos += int64(n)
	return n, err
}

func (f *File) WriteString(s string) (int, error) { return f.Write([]byte(s)) }

func (f *File) WriteAt(b []byte, off int64) (int, error) {
	n, err := f.f.WriteAt(b, off)
	if n > 0 {
		rec(Op{Kind: "write", Path: f.path, Off: off, Data: append([]byte{}, b[:n]...)})
	}
	return n, err
}

func (f *File) Read(b []byte) (int, error) {
	n, err := f.f.Read(b)
	f.pos += int64(n)
	return n, err
}

func (f *File) ReadAt(b []byte, off int64) (int, error) { return f.f.ReadAt(b, off) }

func (f *File) Seek(off int64, whence int) (int64, error) {
	p, err := f.f.Seek(off, whence)
	if err == nil {
		f.pos = p
	}
	return p, err
}

func (f *File) Sync() error {
	err := f.f.Sync()
	if err == nil {
		if f.isDir {
			rec(Op{Kind: "syncdir", Path: f.path})
		} else {
			rec(Op{Kind: "fsync", Path: f.path})
		}
	}
	return err
}

// Fd is only used by fileutils.fdatasync: journalled as a data sync of this file.
func (f *File) Fd() uintptr {
	rec(Op{Kind: "fdatasync", Path: f.path})
	return f.f.Fd()
}

func (f *File) Truncate(size int64) error {
	err := f.f.Truncate(size)
	if err == nil {
		rec(Op{Kind: "truncate", Path: f.path, Off: size})
	}
	return err
}

func (f *File) Close() error {
	mu.Lock()
	delete(open, f)
	mu.Unlock()
	return f.f.Close()
}

func (f *File) Stat() (fs.FileInfo, error)           { return f.f.Stat() }
func (f *File) Readdir(n int) ([]fs.FileInfo, error) { return f.f.Readdir(n) }
func (f *File) ReadDir(n int) ([]fs.DirEntry, error) { return f.f.ReadDir(n) }
func (f *File) Readdirnames(n int) ([]string, error) { return f.f.Readdirnames(n) }
func (f *File) Chmod(mode FileMode) error            { return f.f.Chmod(mode) }

// ---- rarely used parts of package os: present so that an edited source tree that starts using them still builds
// under the façade (a hard link shares the inode: crashfs maps both names to one file state)

func Link(oldname, newname string) error {
	err := os.Link(oldname, newname)
	if err == nil {
		rec(Op{Kind: "link", Path: oldname, To: newname})
	}
	return err
}

func Symlink(oldname, newname string) error { return os.Symlink(oldname, newname) }
func Readlink(name string) (string, error)  { return os.Readlink(name) }

func Truncate(name string, size int64) error {
	err := os.Truncate(name, size)
	if err == nil {
		rec(Op{Kind: "truncate", Path: name, Off: size})
	}
	return err
}

func Chmod(name string, mode FileMode) error { return os.Chmod(name, mode) }
func Chtimes(name string, atime, mtime time.Time) error {
	return os.Chtimes(name, atime, mtime)
}
func SameFile(a, b FileInfo) bool       { return os.SameFile(a, b) }
func Getwd() (string, error)            { return os.Getwd() }
func Hostname() (string, error)         { return os.Hostname() }
func LookupEnv(k string) (string, bool) { return os.LookupEnv(k) }
func Environ() []string                 { return os.Environ() }
func UserHomeDir() (string, error)      { return os.UserHomeDir() }
func Executable() (string, error)       { return os.Executable() }
func Exit(code int)                     { os.Exit(code) }
func MkdirTemp(dir, pattern string) (string, error) {
	d, err := os.MkdirTemp(dir, pattern)
	if err == nil {
		rec(Op{Kind: "mkdir", Path: d})
	}
	return d, err
}
