// Package vsync: scheduler-aware replacements for package sync, injected as
// github.com/codenotary/immudb/embedded/vhooks/vsync; instrumented files import it under the name "sync".
// In free-running mode (vsched inactive) every type delegates to the real primitive.
package vsync

import (
	"sync"

	"github.com/codenotary/immudb/embedded/vhooks/vsched"
)

type Locker = sync.Locker
type Pool = sync.Pool
type Map = sync.Map

type Mutex struct {
	real   sync.Mutex
	locked bool
	h      uint64
	ep     uint64
}

func (m *Mutex) fresh() {
	if e := vsched.Epoch(); m.ep != e {
		m.ep, m.locked, m.h = e, false, 0
	}
}

func (m *Mutex) Lock() {
	if !vsched.Active() {
		m.real.Lock()
		return
	}
	if vsched.Killed() {
		return
	}
	m.fresh()
	vsched.Op(&m.h, 1, func() bool { return !m.locked }, "Mutex.Lock")
	m.locked = true
}

func (m *Mutex) TryLock() bool {
	if !vsched.Active() {
		return m.real.TryLock()
	}
	if vsched.Killed() {
		return false
	}
	m.fresh()
	vsched.Op(&m.h, 2, nil, "Mutex.TryLock")
	if m.locked {
		return false
	}
	m.locked = true
	return true
}

func (m *Mutex) Unlock() {
	if !vsched.Active() {
		m.real.Unlock()
		return
	}
	if vsched.Killed() {
		return
	}
	m.fresh()
	if !m.locked {
		panic("sync: unlock of unlocked mutex")
	}
	vsched.Rel(&m.h, 3)
	m.locked = false
}

// RWMutex models Go's writer preference: a blocked writer excludes new readers.
type RWMutex struct {
	real    sync.RWMutex
	writer  bool
	readers int
	wpend   int
	h       uint64
	ep      uint64
}

func (m *RWMutex) fresh() {
	if e := vsched.Epoch(); m.ep != e {
		m.ep, m.writer, m.readers, m.wpend, m.h = e, false, 0, 0, 0
	}
}

func (m *RWMutex) Lock() {
	if !vsched.Active() {
		m.real.Lock()
		return
	}
	if vsched.Killed() {
		return
	}
	m.fresh()
	vsched.Op(&m.h, 4, nil, "RWMutex.Lock")
	if m.writer || m.readers > 0 {
		m.wpend++
		vsched.Op(&m.h, 4, func() bool { return !m.writer && m.readers == 0 }, "RWMutex.Lock(blocked)")
		m.wpend--
	}
	m.writer = true
}

func (m *RWMutex) TryLock() bool {
	if !vsched.Active() {
		return m.real.TryLock()
	}
	if vsched.Killed() {
		return false
	}
	m.fresh()
	vsched.Op(&m.h, 4, nil, "RWMutex.TryLock")
	if m.writer || m.readers > 0 {
		return false
	}
	m.writer = true
	return true
}

func (m *RWMutex) Unlock() {
	if !vsched.Active() {
		m.real.Unlock()
		return
	}
	if vsched.Killed() {
		return
	}
	m.fresh()
	if !m.writer {
		panic("sync: Unlock of unlocked RWMutex")
	}
	vsched.Rel(&m.h, 5)
	m.writer = false
}

func (m *RWMutex) RLock() {
	if !vsched.Active() {
		m.real.RLock()
		return
	}
	if vsched.Killed() {
		return
	}
	m.fresh()
	vsched.ROp(&m.h, 6, func() bool { return !m.writer && m.wpend == 0 }, "RWMutex.RLock")
	m.readers++
}

func (m *RWMutex) TryRLock() bool {
	if !vsched.Active() {
		return m.real.TryRLock()
	}
	if vsched.Killed() {
		return false
	}
	m.fresh()
	vsched.ROp(&m.h, 6, nil, "RWMutex.TryRLock")
	if m.writer || m.wpend > 0 {
		return false
	}
	m.readers++
	return true
}

func (m *RWMutex) RUnlock() {
	if !vsched.Active() {
		m.real.RUnlock()
		return
	}
	if vsched.Killed() {
		return
	}
	m.fresh()
	if m.readers <= 0 {
		panic("sync: RUnlock of unlocked RWMutex")
	}
	vsched.RRel(&m.h, 7)
	m.readers--
}

type rlocker RWMutex

func (r *rlocker) Lock()   { (*RWMutex)(r).RLock() }
func (r *rlocker) Unlock() { (*RWMutex)(r).RUnlock() }

func (m *RWMutex) RLocker() Locker { return (*rlocker)(m) }

type WaitGroup struct {
	real sync.WaitGroup
	n    int
	h    uint64
	ep   uint64
}

func (w *WaitGroup) fresh() {
	if e := vsched.Epoch(); w.ep != e {
		w.ep, w.n, w.h = e, 0, 0
	}
}

func (w *WaitGroup) Add(n int) {
	if !vsched.Active() {
		w.real.Add(n)
		return
	}
	if vsched.Killed() {
		return
	}
	w.fresh()
	vsched.Rel(&w.h, 8)
	w.n += n
	if w.n < 0 {
		panic("sync: negative WaitGroup counter")
	}
}

func (w *WaitGroup) Done() { w.Add(-1) }

func (w *WaitGroup) Wait() {
	if !vsched.Active() {
		w.real.Wait()
		return
	}
	if vsched.Killed() {
		return
	}
	w.fresh()
	vsched.Op(&w.h, 9, func() bool { return w.n <= 0 }, "WaitGroup.Wait")
}

type Cond struct {
	L     Locker
	real  *sync.Cond
	wait  int
	grant int
	h     uint64
	ep    uint64
}

func (c *Cond) fresh() {
	if e := vsched.Epoch(); c.ep != e {
		c.ep, c.wait, c.grant, c.h = e, 0, 0, 0
	}
}

func NewCond(l Locker) *Cond { return &Cond{L: l, real: sync.NewCond(l)} }

func (c *Cond) Wait() {
	if !vsched.Active() {
		c.real.Wait()
		return
	}
	if vsched.Killed() {
		return
	}
	c.fresh()
	c.wait++
	c.L.Unlock()
	vsched.Op(&c.h, 10, func() bool { return c.grant > 0 }, "Cond.Wait")
	c.grant--
	c.L.Lock()
}

func (c *Cond) Signal() {
	if !vsched.Active() {
		c.real.Signal()
		return
	}
	if vsched.Killed() {
		return
	}
	c.fresh()
	vsched.Rel(&c.h, 11)
	if c.wait > 0 {
		c.wait--
		c.grant++
	}
}

func (c *Cond) Broadcast() {
	if !vsched.Active() {
		c.real.Broadcast()
		return
	}
	if vsched.Killed() {
		return
	}
	c.fresh()
	vsched.Rel(&c.h, 12)
	c.grant += c.wait
	c.wait = 0
}

type Once struct {
	real sync.Once
	done bool
	m    Mutex
}

func (o *Once) Do(f func()) {
	if !vsched.Active() {
		o.real.Do(f)
		return
	}
	if vsched.Killed() {
		return
	}
	o.m.Lock()
	if !o.done {
		o.done = true
		defer o.m.Unlock()
		f()
		return
	}
	o.m.Unlock()
}
