// Package vsched is the cooperative scheduler injected (go build -overlay) into the instrumented copy of
// immudb as github.com/codenotary/immudb/embedded/vhooks/vsched. Exactly one instrumented goroutine
// ("thread") runs at any time; every acquire-type synchronisation operation is a scheduling point at which
// the explorer (mc/sched) decides who continues. With E == nil (free-running mode) every entry point
// falls through to the real primitive, so the same binary also runs unscheduled (race-detector pass).
package vsched

import (
	"context"
	"fmt"
	"os"
	"reflect"
	"runtime"
	"runtime/debug"
	"sort"
	"strings"
	"sync"
	"time"
)

type Thread struct {
	ID      int
	wake    chan struct{}
	exited  chan struct{}
	done    bool
	daemon  bool
	parked  bool // waiting in fail() to be killed
	prevEn  bool // was enabled at the previous scheduling decision (a thread that is enabled now and was not has just been readied)
	woke    bool // a voluntary yield (sleep / poll) of this thread ended because another thread stepped; cleared when it runs
	work    bool // branched on in the explorer's workload-thread phase: harness threads and the library goroutines named in WorkDaemons
	killed  bool
	yielded bool
	pauses  int         // number of voluntary yields so far: threads that poll get lower default priority (fairness)
	enabled func() bool // nil => enabled; must be side-effect free
	What    string
	H       uint64 // happens-before hash of everything this thread has observed
	nspawn  uint64
}

// Point is one explorer choice point (only recorded when more than one alternative exists).
type Point struct {
	N          int    // number of alternatives
	Chosen     int    // index taken
	CurEnabled bool   // the running thread could have continued (switching away costs a preemption)
	Voluntary  bool   // the running thread yielded voluntarily / exited / made an environment choice
	Env        bool   // environment choice (Choose), not a thread switch
	Tid        int    // thread chosen (or -1 for Env)
	Work       uint64 // bit k: alternative k is a workload thread (spawned by the harness), not a library goroutine
}

type Exec struct {
	threads  []*Thread
	cur      *Thread
	prefix   []int
	Points   []Point
	Steps    int
	idle     int
	Deadlock bool
	Diverged bool
	Policy   int // default-order policy of this execution (see Policy)
	FocusAt  int // number of choice points passed when the harness called Focus (0: never): the explorer branches only from there on
	Pruned   bool
	Failure  string
	chans    map[uintptr]*chanState
	clock    time.Time
	MaxSteps int
	Trace    []string // "tid:what" per scheduling decision, kept when KeepTrace
	OnPoint  func(e *Exec, key uint64) bool
	cleanup  []func()
	abort    bool
	timers   []*vtimer
}

var debugTimers = os.Getenv("VSCHED_DEBUG_TIMERS") != ""

type vtimer struct {
	stack string
	at    time.Time
	fire  func()
	done  bool
}

// fireTimer fires the earliest pending virtual timer (only called at quiescence): virtual time jumps to it.
func (e *Exec) fireTimer() bool {
	var best *vtimer
	for _, tm := range e.timers {
		if !tm.done && (best == nil || tm.at.Before(best.at)) {
			best = tm
		}
	}
	if best == nil {
		return false
	}
	best.done = true
	if debugTimers {
		fmt.Printf("DEBUG fireTimer at=%v clock=%v created:\n%s\n", best.at, e.clock, best.stack)
	}
	if best.at.After(e.clock) {
		e.clock = best.at
	}
	best.fire()
	return true
}

type Options struct {
	MaxSteps  int
	KeepTrace bool
	OnPoint   func(e *Exec, key uint64) bool // return false to abort (state already explored)
}

// Policy selects the default order among the threads other than the running one (a choice list is only meaningful
// under the policy it was recorded with): 0 = fewest voluntary yields first; 1 = library goroutines first, then 0;
// 2 = a thread whose sleep / poll has just ended runs first (sleeps last one step), then the running thread, then
// goroutines it has just readied or spawned (Go's runnext), then thread order.
var Policy int

var E *Exec // nil => free-running mode
var keepTrace bool
var epoch uint64

// Epoch identifies the current execution: shim objects that outlive an execution (package-level mutexes,
// objects leaked by an aborted execution) reset their modelled state when they see a new epoch.
func Epoch() uint64 { return epoch }

func Active() bool { return E != nil }

type abortExec struct{}

var clockEpoch = time.Unix(1700000000, 0)

// Run executes body as thread 0 under the scheduler: replays prefix, then takes alternative 0 everywhere.
func Run(prefix []int, o Options, body func()) *Exec {
	if o.MaxSteps == 0 {
		o.MaxSteps = 200000
	}
	e := &Exec{prefix: prefix, chans: map[uintptr]*chanState{}, clock: clockEpoch, MaxSteps: o.MaxSteps, OnPoint: o.OnPoint, Policy: Policy}
	keepTrace = o.KeepTrace
	epoch++
	t0 := &Thread{ID: 0, work: true, wake: make(chan struct{}, 1), exited: make(chan struct{})}
	e.threads = []*Thread{t0}
	e.cur = t0
	E = e
	func() {
		defer func() {
			if r := recover(); r != nil {
				if _, ok := r.(abortExec); !ok {
					buf := make([]byte, 8192)
					n := runtime.Stack(buf, false)
					if e.Failure == "" {
						e.Failure = fmt.Sprintf("panic in thread 0: %v\n%s", r, buf[:n])
					}
				}
			}
		}()
		body()
	}()
	t0.done = true
	e.killAll()
	E = nil
	for _, f := range e.cleanup {
		f()
	}
	return e
}

// AtExit registers a function run after the execution ended (all threads unwound), e.g. closing files.
func AtExit(f func()) {
	if E != nil {
		E.cleanup = append(E.cleanup, f)
	}
}

func (e *Exec) killAll() {
	for i := 0; i < len(e.threads); i++ { // threads may still be appended? no: killed threads do not spawn
		t := e.threads[i]
		if t.ID == 0 {
			continue
		}
		if t.done {
			// a finished thread's goroutine has normally returned; one that reported a failure from its exit
			// scheduling point (pruned execution) is parked in fail() and must be released as well
			select {
			case <-t.exited:
				continue
			default:
			}
			if !t.parked {
				<-t.exited
				continue
			}
		}
		t.killed = true
		e.cur = t
		t.wake <- struct{}{}
		<-t.exited
	}
}

func isEnabled(t *Thread) bool {
	if t.done || t.yielded {
		return false
	}
	return t.enabled == nil || t.enabled()
}

func (e *Exec) enabledList() []*Thread {
	var en []*Thread
	c := e.cur
	if c != nil && isEnabled(c) {
		en = append(en, c)
	}
	k := len(en)
	for _, t := range e.threads {
		if t != c && isEnabled(t) {
			en = append(en, t)
		}
	}
	// fair default order: among the other threads, those that yielded (polled) less often come first, so that
	// two polling threads cannot starve a runnable one under the default schedule
	if e.Policy == 2 {
		// policy 2: a sleep / poll lasts exactly one step of another thread: a thread whose yield has just ended runs
		// next, even before the running thread (timers that fire early)
		// Among the other threads a goroutine that has just been readied (woken by a channel operation / unlock of
		// the running thread, or newly spawned) runs first, as with the Go runtime's runnext slot.
		rank := func(t *Thread) int {
			switch {
			case t.woke:
				return 0
			case t == c:
				return 1
			case !t.prevEn:
				return 2
			}
			return 3
		}
		sort.SliceStable(en, func(i, j int) bool { return rank(en[i]) < rank(en[j]) })
		return en
	}
	sort.SliceStable(en[k:], func(i, j int) bool {
		a, b := en[k+i], en[k+j]
		if e.Policy == 1 && a.daemon != b.daemon {
			return a.daemon // policy 1: library goroutines (indexers, syncers, ...) run before the harness's threads
		}
		return a.pauses < b.pauses
	})
	return en
}

func (e *Exec) choose(n int) int {
	i := len(e.Points)
	if i < len(e.prefix) {
		c := e.prefix[i]
		if c >= n {
			e.Diverged = true
			e.fail(e.cur, fmt.Sprintf("replay divergence: choice %d of %d at point %d", c, n, i))
		}
		return c
	}
	return 0
}

// Choose is an environment choice point with n alternatives (message order, fault, which select case...).
// Alternative 0 is the default; any other costs one unit of the deviation budget.
func Choose(n int, what string) int {
	e := E
	if e == nil || n <= 1 {
		return 0
	}
	t := e.cur
	if t.killed {
		return 0
	}
	c := e.choose(n)
	e.Points = append(e.Points, Point{N: n, Chosen: c, CurEnabled: true, Voluntary: false, Env: true, Tid: -1})
	t.H = mix(mix(t.H, 77), uint64(c))
	if keepTrace {
		e.Trace = append(e.Trace, fmt.Sprintf("T%d choose(%s)=%d/%d", t.ID, what, c, n))
	}
	return c
}

func (e *Exec) schedule(t *Thread, voluntary bool) {
	if t.killed {
		runtime.Goexit()
	}
	if e.abort && t.ID == 0 {
		panic(abortExec{}) // deferred harness code running while thread 0 unwinds
	}
	e.Steps++
	if e.Steps > e.MaxSteps {
		e.fail(t, "step limit exceeded (livelock?)")
	}
	var en []*Thread
	for {
		en = e.enabledList()
		if len(en) > 0 {
			break
		}
		// nobody enabled: let (virtual) time pass for yielded (polling/sleeping) threads
		any := false
		for _, x := range e.threads {
			if !x.done && x.yielded {
				x.yielded = false
				any = true
			}
		}
		e.idle++
		if !any && !e.fireTimer() {
			e.Deadlock = true
			e.fail(t, "deadlock: no enabled thread")
		}
		if e.idle > 200 {
			e.fail(t, "livelock: only polling threads remain enabled")
		}
	}
	curEnabled := en[0] == t
	ch := 0
	if len(en) > 1 {
		ch = e.choose(len(en))
		var work uint64
		for k, x := range en {
			if x.work && k < 64 {
				work |= 1 << uint(k)
			}
		}
		e.Points = append(e.Points, Point{N: len(en), Chosen: ch, CurEnabled: curEnabled, Voluntary: voluntary, Tid: en[ch].ID, Work: work})
		if e.OnPoint != nil && len(e.Points) > len(e.prefix) && !e.OnPoint(e, e.stateKey(en[ch])) {
			e.Pruned = true
			e.fail(t, "pruned")
		}
	}
	next := en[ch]
	for _, x := range e.threads {
		x.prevEn = false
	}
	for _, x := range en {
		x.prevEn = true
	}
	if keepTrace {
		e.Trace = append(e.Trace, fmt.Sprintf("T%d:%s", next.ID, next.What))
	}
	// a step by some thread re-enables yielded threads (they poll again)
	for _, x := range e.threads {
		if x != next {
			if x.yielded {
				x.woke = true
			}
			x.yielded = false
		}
	}
	next.woke = false
	if next != t {
		e.cur = next
		next.wake <- struct{}{}
		if t.done {
			return
		}
		<-t.wake
		if t.killed {
			runtime.Goexit()
		}
	}
	e.idle = 0
	t.H = mix(t.H, 1)
}

func (e *Exec) fail(t *Thread, msg string) {
	if e.Failure == "" {
		e.Failure = msg + "\n" + e.Dump()
	}
	e.abort = true
	if t.ID == 0 {
		panic(abortExec{})
	}
	// hand control back to thread 0 so that it unwinds
	m := e.threads[0]
	e.cur = m
	t.parked = true
	m.wake <- struct{}{}
	<-t.wake // woken again only to be killed
	runtime.Goexit()
}

// Fail aborts the execution with a failure reported by harness code running in any thread.
func Fail(msg string) {
	e := E
	if e == nil {
		panic(msg)
	}
	if e.cur.killed {
		return
	}
	e.fail(e.cur, msg)
}

func (e *Exec) Dump() string {
	s := ""
	for _, t := range e.threads {
		s += fmt.Sprintf("  T%d done=%v yielded=%v daemon=%v at %s\n", t.ID, t.done, t.yielded, t.daemon, t.What)
	}
	return s
}

func checkAbort(t *Thread) {
	if t.ID == 0 && E != nil && E.abort {
		panic(abortExec{})
	}
}

// Yield is a plain scheduling point (always enabled).
func Yield(what string) {
	e := E
	if e == nil {
		return
	}
	t := e.cur
	if t.killed {
		return
	}
	t.What = what
	e.schedule(t, false)
	checkAbort(t)
}

// Pause: voluntary yield of a polling/sleeping thread; disabled until another thread steps.
func Pause(what string) {
	e := E
	if e == nil {
		runtime.Gosched()
		return
	}
	t := e.cur
	if t.killed {
		return
	}
	t.What = what
	t.yielded = true
	t.pauses++
	e.schedule(t, true)
	checkAbort(t)
}

var freeWG sync.WaitGroup // workload threads started in free-running mode (race-detector pass)

func spawn(f func(), daemon bool) {
	e := E
	if e == nil {
		if daemon {
			go f()
			return
		}
		freeWG.Add(1)
		go func() {
			defer freeWG.Done()
			f()
		}()
		return
	}
	p := e.cur
	if p.killed {
		return
	}
	p.nspawn++
	t := &Thread{ID: len(e.threads), wake: make(chan struct{}, 1), exited: make(chan struct{}), daemon: daemon, work: !daemon, H: mix(mix(p.H, 99), p.nspawn), What: "start"}
	if daemon && len(WorkDaemons) > 0 {
		if pc, _, _, ok := runtime.Caller(2); ok {
			name := runtime.FuncForPC(pc).Name()
			for _, w := range WorkDaemons {
				if strings.Contains(name, w) {
					t.work = true
				}
			}
		}
	}
	p.H = mix(p.H, 98)
	e.threads = append(e.threads, t)
	go func() {
		defer close(t.exited)
		<-t.wake
		if t.killed {
			return
		}
		defer func() {
			if r := recover(); r != nil {
				if _, ok := r.(abortExec); ok {
					return
				}
				buf := make([]byte, 8192)
				n := runtime.Stack(buf, false)
				t.done = true
				if !t.killed {
					e.fail(t, fmt.Sprintf("panic in T%d: %v\n%s", t.ID, r, buf[:n]))
				}
			}
		}()
		defer func() {
			// normal return or Goexit
			if t.killed || t.done {
				return
			}
			if r := recover(); r != nil {
				panic(r) // handled by the outer handler
			}
			t.done = true
			t.What = "exit"
			e.schedule(t, true)
		}()
		f()
	}()
	Yield("spawn")
}

// WorkDaemons (set by a harness before exploring): library goroutines started from a function whose name contains
// one of these strings are treated like workload threads by the explorer's workload-thread phase.
var WorkDaemons []string

// Go is what rewritten `go` statements call (library goroutines are daemons).
func Go(f func()) { spawn(f, true) }

// Spawn starts a harness workload thread.
func Spawn(f func()) { spawn(f, false) }

// Join blocks until all non-daemon threads other than the caller are done.
func Join() {
	e := E
	if e == nil {
		freeWG.Wait()
		return
	}
	me := e.cur
	Block("join", func() bool {
		for _, t := range e.threads {
			if t != me && !t.daemon && !t.done {
				return false
			}
		}
		return true
	})
}

// Block parks the current thread until cond() holds (cond evaluated by the scheduler, must be pure).
func Block(what string, cond func() bool) {
	e := E
	t := e.cur
	if t.killed {
		return
	}
	t.What = what
	t.enabled = cond
	e.schedule(t, false)
	t.enabled = nil
	checkAbort(t)
}

// ---------------- virtual time ----------------

func Now() time.Time {
	if E == nil {
		return time.Now()
	}
	return E.clock
}

func Since(t time.Time) time.Duration { return Now().Sub(t) }
func Until(t time.Time) time.Duration { return t.Sub(Now()) }

func Sleep(d time.Duration) {
	if E == nil {
		time.Sleep(d)
		return
	}
	Pause("sleep")
}

// Focus marks the end of the scenario's setup phase (harness only): scheduling alternatives of earlier choice points
// are not explored, the setup always runs under the default schedule.
func Focus() {
	if E != nil && E.FocusAt == 0 {
		E.FocusAt = len(E.Points)
	}
}

// Advance moves the virtual clock (harness only).
func Advance(d time.Duration) {
	if E != nil {
		E.clock = E.clock.Add(d)
		E.cur.H = mix(E.cur.H, uint64(d))
	}
}

// WithCancel wraps context.WithCancel so that cancellation is a tracked release operation.
func WithCancel(parent context.Context) (context.Context, context.CancelFunc) {
	ctx, cancel := context.WithCancel(parent)
	if E == nil {
		return ctx, cancel
	}
	obj := new(uint64)
	return ctx, func() {
		if E != nil && !E.cur.killed {
			rel(obj, 31)
			// every thread that later observes ctx.Done() acquires through the channel state
			if d := ctx.Done(); d != nil {
				cs := cstate(d)
				rel(&cs.h, 31)
			}
		}
		cancel()
	}
}

// WithTimeout / WithDeadline: virtual timers. The context is cancelled when the virtual clock reaches the
// deadline, which by default happens only at quiescence (no thread can make progress).
func WithTimeout(parent context.Context, d time.Duration) (context.Context, context.CancelFunc) {
	if E == nil {
		return context.WithTimeout(parent, d)
	}
	return WithDeadline(parent, E.clock.Add(d))
}

func WithDeadline(parent context.Context, at time.Time) (context.Context, context.CancelFunc) {
	if E == nil {
		return context.WithDeadline(parent, at)
	}
	if !at.After(E.clock) {
		return context.WithDeadline(parent, time.Unix(0, 1)) // already expired, as with the real clock
	}
	ctx, cancel := WithCancel(parent)
	tm := &vtimer{at: at, fire: cancel}
	if debugTimers {
		tm.stack = string(debug.Stack())
	}
	E.timers = append(E.timers, tm)
	return ctx, func() { tm.done = true; cancel() }
}

// ---------------- channels ----------------

type waiter struct {
	t    *Thread
	val  any
	ok   bool
	done bool
}

type chanState struct {
	h      uint64
	pin    any // keeps the channel alive so that its address cannot be reused within one execution
	recvq  []*waiter
	sendq  []*waiter
	closed bool
}

func cstate(ch any) *chanState {
	p := reflect.ValueOf(ch).Pointer()
	cs := E.chans[p]
	if cs == nil {
		cs = &chanState{pin: ch}
		E.chans[p] = cs
	}
	return cs
}

func removeWaiter(q []*waiter, w *waiter) []*waiter {
	for i, x := range q {
		if x == w {
			return append(q[:i:i], q[i+1:]...)
		}
	}
	return q
}

// probeClosed: non-consuming test whether a channel with an empty buffer is closed (possibly by foreign code
// such as a context cancellation).
func probeClosed[T any](ch <-chan T) bool {
	if len(ch) > 0 {
		return false
	}
	select {
	case _, ok := <-ch:
		return !ok // with an empty buffer and no foreign senders only a closed channel is ready
	default:
		return false
	}
}

func Send[T any](ch chan<- T, v T) {
	if E == nil {
		ch <- v
		return
	}
	if E.cur.killed {
		return
	}
	cs := cstate(ch)
	w := &waiter{t: E.cur, val: v}
	canSend := func() bool {
		return w.done || cs.closed || len(cs.recvq) > 0 || (cap(ch) > 0 && len(ch) < cap(ch))
	}
	op(&cs.h, 21, nil, "chan send")
	if !canSend() {
		cs.sendq = append(cs.sendq, w)
		op(&cs.h, 25, canSend, "chan send (blocked)")
		cs.sendq = removeWaiter(cs.sendq, w)
		if w.done {
			return
		}
	}
	if cs.closed {
		panic("send on closed channel")
	}
	if len(cs.recvq) > 0 {
		r := cs.recvq[0]
		cs.recvq = cs.recvq[1:]
		r.val, r.ok, r.done = v, true, true
		return
	}
	ch <- v // buffer space available
}

func recv[T any](ch <-chan T) (T, bool) {
	var zero T
	if E == nil {
		v, ok := <-ch
		return v, ok
	}
	if E.cur.killed {
		return zero, false
	}
	cs := cstate(ch)
	w := &waiter{t: E.cur}
	canRecv := func() bool {
		return w.done || len(cs.sendq) > 0 || len(ch) > 0 || cs.closed || probeClosed(ch)
	}
	op(&cs.h, 22, nil, "chan recv")
	if !canRecv() {
		cs.recvq = append(cs.recvq, w)
		op(&cs.h, 26, canRecv, "chan recv (blocked)")
		cs.recvq = removeWaiter(cs.recvq, w)
	}
	if w.done { // a sender handed the value over directly
		return w.val.(T), w.ok
	}
	if len(ch) > 0 {
		v, ok := <-ch
		return v, ok
	}
	if len(cs.sendq) > 0 {
		s := cs.sendq[0]
		cs.sendq = cs.sendq[1:]
		s.done = true
		return s.val.(T), true
	}
	return zero, false // closed
}

func Recv[T any](ch <-chan T) T {
	v, _ := recv(ch)
	return v
}

func Recv2[T any](ch <-chan T) (T, bool) { return recv(ch) }

func Close[T any](ch chan T) {
	if E == nil {
		close(ch)
		return
	}
	if E.cur.killed {
		return
	}
	cs := cstate(ch)
	rel(&cs.h, 23)
	cs.closed = true
	close(ch)
}

// RecvCase is one receive case of a rewritten select statement.
type RecvCase[T any] struct {
	Ch  <-chan T
	Val T
	Ok  bool
}

type SelCase interface {
	ready() bool
	take()
	obj() *uint64
	refl() reflect.SelectCase
	set(v reflect.Value, ok bool)
}

func NewRecvCase[T any](ch <-chan T) *RecvCase[T] { return &RecvCase[T]{Ch: ch} }

func (c *RecvCase[T]) obj() *uint64 {
	if c.Ch == nil {
		return nil
	}
	return &cstate(c.Ch).h
}

func (c *RecvCase[T]) ready() bool {
	if c.Ch == nil {
		return false
	}
	cs := cstate(c.Ch)
	return len(cs.sendq) > 0 || len(c.Ch) > 0 || cs.closed || probeClosed(c.Ch)
}

func (c *RecvCase[T]) take() {
	cs := cstate(c.Ch)
	acq(&cs.h, 24)
	if len(c.Ch) > 0 {
		c.Val, c.Ok = <-c.Ch
		return
	}
	if len(cs.sendq) > 0 {
		s := cs.sendq[0]
		cs.sendq = cs.sendq[1:]
		s.done = true
		c.Val, c.Ok = s.val.(T), true
		return
	}
	var zero T
	c.Val, c.Ok = zero, false
}

func (c *RecvCase[T]) refl() reflect.SelectCase {
	return reflect.SelectCase{Dir: reflect.SelectRecv, Chan: reflect.ValueOf(c.Ch)}
}

func (c *RecvCase[T]) set(v reflect.Value, ok bool) {
	c.Ok = ok
	if ok {
		c.Val = v.Interface().(T)
	}
}

// Select blocks until one receive case is ready and returns its index; with hasDefault it returns -1
// instead of blocking. When several cases are ready the choice is an explorer choice point.
func Select(hasDefault bool, cases ...SelCase) int {
	if E == nil {
		rc := make([]reflect.SelectCase, 0, len(cases)+1)
		for _, c := range cases {
			rc = append(rc, c.refl())
		}
		if hasDefault {
			rc = append(rc, reflect.SelectCase{Dir: reflect.SelectDefault})
		}
		i, v, ok := reflect.Select(rc)
		if i == len(cases) {
			return -1
		}
		cases[i].set(v, ok)
		return i
	}
	if E.cur.killed {
		return 0
	}
	sobj := new(uint64)
	for _, c := range cases {
		if o := c.obj(); o != nil {
			sobj = o
			break
		}
	}
	readyList := func() []int {
		var r []int
		for i, c := range cases {
			if c.ready() {
				r = append(r, i)
			}
		}
		return r
	}
	op(sobj, 27, nil, "select")
	r := readyList()
	if len(r) == 0 {
		if hasDefault {
			return -1
		}
		op(sobj, 28, func() bool { return len(readyList()) > 0 }, "select (blocked)")
		r = readyList()
		if len(r) == 0 { // only when unwinding
			return 0
		}
	}
	k := 0
	if len(r) > 1 {
		k = Choose(len(r), "select-case")
	}
	cases[r[k]].take()
	return r[k]
}

// SortedKeys returns the keys of m in a canonical order (map iteration order is not under the explorer's
// control; iterating in sorted order is a legal refinement of Go's unspecified order).
var Descending bool

func SortedKeys[K comparable, V any](m map[K]V) []K {
	ks := make([]K, 0, len(m))
	for k := range m {
		ks = append(ks, k)
	}
	if len(ks) < 2 {
		return ks
	}
	ss := make([]string, len(ks))
	for i, k := range ks {
		ss[i] = fmt.Sprintf("%v", k)
	}
	idx := make([]int, len(ks))
	for i := range idx {
		idx[i] = i
	}
	sort.SliceStable(idx, func(a, b int) bool {
		if Descending {
			return ss[idx[a]] > ss[idx[b]]
		}
		return ss[idx[a]] < ss[idx[b]]
	})
	out := make([]K, len(ks))
	for i, j := range idx {
		out[i] = ks[j]
	}
	return out
}

// ---------------- happens-before hashing ----------------

func mix(a, b uint64) uint64 {
	x := a ^ (b + 0x9e3779b97f4a7c15 + (a << 6) + (a >> 2))
	x ^= x >> 33
	x *= 0xff51afd7ed558ccd
	x ^= x >> 33
	return x
}

// acq: the current thread observes the object's history.
func acq(obj *uint64, kind uint64) {
	t := E.cur
	t.H = mix(mix(t.H, kind), *obj)
	*obj = mix(*obj, t.H)
}

// rel: the current thread publishes its history into the object (no scheduling point).
func rel(obj *uint64, kind uint64) {
	t := E.cur
	t.H = mix(t.H, kind)
	*obj = mix(*obj, t.H)
}

// racq: read-acquire that commutes with other read-acquires (RWMutex readers): does not modify the object.
func racq(obj *uint64, kind uint64) {
	t := E.cur
	t.H = mix(mix(t.H, kind), *obj)
}

// rrel: read-release: commutative accumulation into the object.
func rrel(obj *uint64, kind uint64) {
	t := E.cur
	t.H = mix(t.H, kind)
	*obj += mix(t.H, 0x5bd1e995)
}

func (e *Exec) stateKey(next *Thread) uint64 {
	var k uint64
	for _, t := range e.threads {
		if t.done {
			k += mix(t.H, 7)
			continue
		}
		y := uint64(1)
		if t.yielded {
			y = 2
		}
		k += mix(mix(t.H, y), 11) // commutative: thread ids are not part of the state
	}
	return mix(mix(k, uint64(e.clock.UnixNano())), mix(next.H, 13))
}

// Op is a scheduling point followed by an acquire on obj; cond == nil means always enabled.
func Op(obj *uint64, kind uint64, cond func() bool, what string) {
	if E == nil || E.cur.killed {
		return
	}
	op(obj, kind, cond, what)
}

func op(obj *uint64, kind uint64, cond func() bool, what string) {
	e := E
	t := e.cur
	t.What = what
	t.enabled = cond
	e.schedule(t, false)
	t.enabled = nil
	checkAbort(t)
	acq(obj, kind)
}

// Rel is a release on obj by the current thread (not a scheduling point).
func Rel(obj *uint64, kind uint64) {
	if E == nil || E.cur.killed {
		return
	}
	rel(obj, kind)
}

// ROp / RRel: reader-side operations of a readers-writer lock.
func ROp(obj *uint64, kind uint64, cond func() bool, what string) {
	if E == nil || E.cur.killed {
		return
	}
	e := E
	t := e.cur
	t.What = what
	t.enabled = cond
	e.schedule(t, false)
	t.enabled = nil
	checkAbort(t)
	racq(obj, kind)
}

func RRel(obj *uint64, kind uint64) {
	if E == nil || E.cur.killed {
		return
	}
	rrel(obj, kind)
}

// Killed reports whether the calling thread is being unwound (shims then behave as no-ops).
func Killed() bool { return E != nil && E.cur.killed }
