// Package lib: shared plumbing of every check — tiers, evidence, known findings, replay files,
// worker fan-out. It contains no verification logic.
package lib

import (
	"crypto/sha256"
	"encoding/hex"
	"bytes"
	"encoding/json"
	"flag"
	"fmt"
	"os"
	"os/exec"
	"path/filepath"
	"regexp"
	"runtime"
	"sort"
	"strconv"
	"strings"
	"sync"
	"time"
)

const VerifDir = "/verif"

// Violation is one counterexample. Sig identifies the specific failing input/history/schedule
// (it is what known_findings.json matches against); Detail is free text; Replay is the artefact.
type Violation struct {
	Sig    string `json:"sig"`
	Detail string `json:"detail"`
	Replay any    `json:"replay,omitempty"`
}

type Finding struct {
	Property string `json:"property"`
	Status   string `json:"status"` // "known" or "fixed"
	Match    string `json:"match"`  // regexp over Violation.Sig (anchored by the author)
	What     string `json:"what"`
	Commit   string `json:"commit,omitempty"`
	re       *regexp.Regexp
}

type Check struct {
	ID    string
	Level string // exploration | fault_enumeration | model_checking
	Tier  string
	Seed  int64
	Start time.Time
	// Deadline is the internal budget: enumeration loops poll Expired() and stop (exhaustive:false).
	Deadline time.Time

	mu          sync.Mutex
	Cov         map[string]any
	Assumptions []string
	samples     []any
	distinct    map[string]struct{}
	evals       int64
	states      int64
	transitions int64
	viol        []Violation
	violSeen    map[string]bool
	violClass   map[string]int
	known       map[string]int
	knownOrder  []string
	findings    []Finding
	capHit      []string
	ReplayPath  string
	Workers     int

	// process sharding (checks whose harness has process-global state, e.g. the controlled scheduler)
	child          bool
	shardI, shardN int
	extraDistinct  int64
}

var (
	flagTier   = flag.String("tier", "", "quick|thorough (default: $VERIF_TIER or quick)")
	flagReplay = flag.String("replay", "", "replay file: re-run exactly that case")
	flagBudget = flag.Duration("budget", 0, "override the internal time budget")
)

// New parses flags/env and loads known findings. quickBudget/thoroughBudget bound enumeration time.
func New(id, level string, quickBudget, thoroughBudget time.Duration) *Check {
	if !flag.Parsed() {
		flag.Parse()
	}
	tier := *flagTier
	if tier == "" {
		tier = os.Getenv("VERIF_TIER")
	}
	if tier != "thorough" {
		tier = "quick"
	}
	seed, _ := strconv.ParseInt(os.Getenv("VERIF_SEED"), 10, 64)
	c := &Check{ID: id, Level: level, Tier: tier, Seed: seed, Start: time.Now(), Cov: map[string]any{},
		distinct: map[string]struct{}{}, violSeen: map[string]bool{}, known: map[string]int{}, ReplayPath: *flagReplay}
	b := quickBudget
	if tier == "thorough" {
		b = thoroughBudget
	}
	if *flagBudget > 0 {
		b = *flagBudget
	}
	c.Deadline = c.Start.Add(b)
	c.Workers = runtime.NumCPU()
	if c.Workers > 16 {
		c.Workers = 16
	}
	if sh := os.Getenv("VERIF_SHARD"); sh != "" {
		fmt.Sscanf(sh, "%d/%d", &c.shardI, &c.shardN)
		c.child = c.shardN > 0
		c.Workers = 1
		if dl, err := strconv.ParseInt(os.Getenv("VERIF_DEADLINE"), 10, 64); err == nil && dl > 0 {
			c.Deadline = time.Unix(dl, 0)
		}
	}
	c.loadFindings()
	return c
}

// IsChild reports whether this process is one shard of a delegated run; Shard returns (index, count).
func (c *Check) IsChild() bool     { return c.child }
func (c *Check) Shard() (int, int) { return c.shardI, c.shardN }

type childReport struct {
	Evals       int64            `json:"evals"`
	Distinct    int64            `json:"distinct"`
	States      int64            `json:"states"`
	Transitions int64            `json:"transitions"`
	Counters    map[string]int64 `json:"counters"`
	Values      map[string]any   `json:"values"`
	Samples     []any            `json:"samples"`
	Caps        []string         `json:"caps"`
	Viol        []Violation      `json:"viol"`
	ViolCount   map[string]int   `json:"viol_count"`
	Known       map[string]int   `json:"known"`
}

// Delegate re-executes this binary as Workers shard processes (env VERIF_SHARD=i/n); every ParallelFor / RunSeq in
// a shard only handles its share of the indices. The parent merges the shards' reports and returns true: it must
// then call Finish without exploring anything itself. In a shard process (and for replays) it returns false.
func (c *Check) Delegate() bool {
	if c.child || c.ReplayPath != "" {
		return false
	}
	self, err := os.Executable()
	if err != nil {
		panic(err)
	}
	n := c.Workers
	reps := make([]childReport, n)
	errs := make([]error, n)
	var wg sync.WaitGroup
	for i := 0; i < n; i++ {
		wg.Add(1)
		go func(i int) {
			defer wg.Done()
			cmd := exec.Command(self, "-tier", c.Tier)
			cmd.Env = append(os.Environ(), fmt.Sprintf("VERIF_SHARD=%d/%d", i, n), fmt.Sprintf("VERIF_DEADLINE=%d", c.Deadline.Unix()), "GOMAXPROCS=2")
			cmd.Stderr = os.Stderr
			out, err := cmd.Output()
			if err != nil {
				errs[i] = fmt.Errorf("shard %d: %v", i, err)
				return
			}
			k := bytes.LastIndex(out, []byte("\nSHARD-REPORT "))
			if k < 0 {
				errs[i] = fmt.Errorf("shard %d: no report (%q)", i, trunc(string(out), 300))
				return
			}
			os.Stdout.Write(out[:k+1])
			if err := json.Unmarshal(out[k+len("\nSHARD-REPORT "):], &reps[i]); err != nil {
				errs[i] = fmt.Errorf("shard %d: %v", i, err)
			}
		}(i)
	}
	wg.Wait()
	for i, r := range reps {
		if errs[i] != nil {
			fmt.Fprintln(os.Stderr, "HARNESS ERROR:", errs[i])
			os.Exit(2)
		}
		c.evals += r.Evals
		c.extraDistinct += r.Distinct
		c.states += r.States
		c.transitions += r.Transitions
		for k, v := range r.Counters {
			x, _ := c.Cov[k].(int64)
			c.Cov[k] = x + v
		}
		if i == 0 {
			for k, v := range r.Values {
				c.Cov[k] = v
			}
		}
		for _, s := range r.Samples {
			c.Sample(s)
		}
		c.capHit = append(c.capHit, r.Caps...)
		for _, v := range r.Viol {
			c.Violate(v)
		}
		for k, v := range r.Known {
			if c.known[k] == 0 {
				c.knownOrder = append(c.knownOrder, k)
			}
			c.known[k] += v
		}
	}
	return true
}

func (c *Check) Thorough() bool { return c.Tier == "thorough" }
func (c *Check) Expired() bool  { return time.Now().After(c.Deadline) }

func (c *Check) loadFindings() {
	bs, err := os.ReadFile(filepath.Join(VerifDir, "known_findings.json"))
	if err != nil {
		return
	}
	var all struct {
		Findings []Finding `json:"findings"`
	}
	if err := json.Unmarshal(bs, &all); err != nil {
		fmt.Fprintf(os.Stderr, "known_findings.json: %v\n", err)
		os.Exit(2)
	}
	for _, f := range all.Findings {
		if f.Property != c.ID || f.Status != "known" {
			continue // "fixed" entries suppress nothing
		}
		re, err := regexp.Compile(f.Match)
		if err != nil {
			fmt.Fprintf(os.Stderr, "known_findings.json: bad match %q: %v\n", f.Match, err)
			os.Exit(2)
		}
		f.re = re
		c.findings = append(c.findings, f)
	}
}

// Eval counts one explored case; key (may be "") identifies a distinct non-trivial case.
func (c *Check) Eval(key string) {
	c.mu.Lock()
	c.evals++
	if key != "" {
		c.distinct[key] = struct{}{}
	}
	c.mu.Unlock()
}

func (c *Check) AddEvals(n int64) { c.mu.Lock(); c.evals += n; c.mu.Unlock() }
func (c *Check) Distinct(key string) {
	c.mu.Lock()
	c.distinct[key] = struct{}{}
	c.mu.Unlock()
}
func (c *Check) AddStates(s, t int64) { c.mu.Lock(); c.states += s; c.transitions += t; c.mu.Unlock() }
func (c *Check) Evals() int64         { c.mu.Lock(); defer c.mu.Unlock(); return c.evals }

// Sample keeps up to 8 written-out cases.
func (c *Check) Sample(s any) {
	c.mu.Lock()
	if len(c.samples) < 8 {
		c.samples = append(c.samples, s)
	}
	c.mu.Unlock()
}

func (c *Check) Set(k string, v any) { c.mu.Lock(); c.Cov[k] = v; c.mu.Unlock() }
func (c *Check) Add(k string, n int64) {
	c.mu.Lock()
	x, _ := c.Cov[k].(int64)
	c.Cov[k] = x + n
	c.mu.Unlock()
}
func (c *Check) CapHit(what string) {
	c.mu.Lock()
	c.capHit = append(c.capHit, what)
	c.mu.Unlock()
}
func (c *Check) Assume(s string) { c.Assumptions = append(c.Assumptions, s) }

// Violate records a counterexample; returns true if it is new and not a known finding.
func (c *Check) Violate(v Violation) bool {
	c.mu.Lock()
	defer c.mu.Unlock()
	for _, f := range c.findings {
		if f.re.MatchString(v.Sig) {
			if c.known[f.What] == 0 {
				c.knownOrder = append(c.knownOrder, f.What)
			}
			c.known[f.What]++
			return false
		}
	}
	if c.violSeen[v.Sig] {
		return false
	}
	c.violSeen[v.Sig] = true
	if c.violClass == nil {
		c.violClass = map[string]int{}
	}
	cl := strings.SplitN(v.Sig, " ", 2)[0]
	c.violClass[cl]++
	if c.violClass[cl] <= 6 && len(c.viol) < 60 {
		c.viol = append(c.viol, v)
	}
	return true
}

func (c *Check) NViolations() int { c.mu.Lock(); defer c.mu.Unlock(); return len(c.violSeen) }

// Finish writes evidence, prints KNOWN-FINDING / VIOLATION lines and exits.
func (c *Check) Finish(rule string, exhaustive bool) {
	c.mu.Lock()
	defer c.mu.Unlock()
	if len(c.capHit) > 0 {
		exhaustive = false
		c.Cov["caps_hit"] = c.capHit
	}
	if c.child {
		r := childReport{Evals: c.evals, Distinct: int64(len(c.distinct)), States: c.states, Transitions: c.transitions, Counters: map[string]int64{},
			Values: map[string]any{}, Samples: c.samples, Caps: c.capHit, Viol: c.viol, Known: c.known}
		for k, v := range c.Cov {
			if n, ok := v.(int64); ok {
				r.Counters[k] = n
			} else {
				r.Values[k] = v
			}
		}
		bs, _ := json.Marshal(r)
		fmt.Printf("\nSHARD-REPORT %s", bs)
		os.Exit(0)
	}
	cov := c.Cov
	cov["evaluations"] = c.evals
	cov["distinct_nontrivial"] = int64(len(c.distinct)) + c.extraDistinct
	cov["rule"] = rule
	if len(c.samples) == 0 {
		c.samples = append(c.samples, "no case explored")
	}
	cov["samples"] = c.samples
	cov["exhaustive"] = exhaustive
	if c.Level == "model_checking" {
		cov["states"] = c.states
		cov["transitions"] = c.transitions
		if _, ok := cov["traces_validated_against_impl"]; !ok {
			// the implementation is the model: every explored trace is an execution of the real code
			cov["traces_validated_against_impl"] = c.evals
		}
	}
	kf := []string{}
	for _, w := range c.knownOrder {
		fmt.Printf("KNOWN-FINDING: property=%s %s (%d occurrences in this run)\n", c.ID, w, c.known[w])
		kf = append(kf, fmt.Sprintf("%s (%d)", w, c.known[w]))
	}
	cov["known_findings_seen"] = kf
	ev := map[string]any{
		"property_id": c.ID, "tier": c.Tier, "seed": c.Seed, "level": c.Level, "coverage": cov,
		"assumptions": c.Assumptions, "wall_s": time.Since(c.Start).Seconds(), "violations": len(c.violSeen),
	}
	os.MkdirAll(filepath.Join(VerifDir, "evidence"), 0755)
	bs, _ := json.MarshalIndent(ev, "", " ")
	if c.ReplayPath == "" {
		if err := os.WriteFile(filepath.Join(VerifDir, "evidence", c.ID+".json"), bs, 0644); err != nil {
			fmt.Fprintln(os.Stderr, err)
			os.Exit(2)
		}
	}
	fmt.Printf("%s tier=%s evaluations=%d distinct=%d states=%d transitions=%d exhaustive=%v wall=%.1fs violations=%d\n",
		c.ID, c.Tier, c.evals, int64(len(c.distinct))+c.extraDistinct, c.states, c.transitions, exhaustive, time.Since(c.Start).Seconds(), len(c.violSeen))
	if p := os.Getenv("VERIF_DUMP_SIGS"); p != "" {
		var all []string
		for k := range c.violSeen {
			all = append(all, k)
		}
		sort.Strings(all)
		os.WriteFile(p, []byte(strings.Join(all, "\n")+"\n"), 0644)
	}
	for k, n := range c.violClass {
		fmt.Printf("  violation class %s: %d distinct signatures\n", k, n)
	}
	if len(c.viol) > 0 {
		os.MkdirAll(filepath.Join(VerifDir, "replays"), 0755)
		sort.Slice(c.viol, func(i, j int) bool { return c.viol[i].Sig < c.viol[j].Sig })
		for _, v := range c.viol {
			h := sha256.Sum256([]byte(v.Sig))
			p := filepath.Join(VerifDir, "replays", c.ID+"-"+hex.EncodeToString(h[:6])+".json")
			rb, _ := json.MarshalIndent(map[string]any{"property": c.ID, "sig": v.Sig, "detail": v.Detail, "replay": v.Replay}, "", " ")
			os.WriteFile(p, rb, 0644)
			fmt.Printf("VIOLATION property=%s replay=%s\n", c.ID, p)
			fmt.Printf("  sig: %s\n  %s\n", v.Sig, strings.ReplaceAll(trunc(v.Detail, 1500), "\n", "\n  "))
		}
		os.Exit(1)
	}
	os.Exit(0)
}

func trunc(s string, n int) string {
	if len(s) > n {
		return s[:n] + "…"
	}
	return s
}

// LoadReplay reads the "replay" member of a replay file into v.
func (c *Check) LoadReplay(v any) {
	bs, err := os.ReadFile(c.ReplayPath)
	if err != nil {
		fmt.Fprintln(os.Stderr, err)
		os.Exit(2)
	}
	var w struct {
		Replay json.RawMessage `json:"replay"`
	}
	if err := json.Unmarshal(bs, &w); err != nil || json.Unmarshal(w.Replay, v) != nil {
		fmt.Fprintln(os.Stderr, "bad replay file")
		os.Exit(2)
	}
}

// ParallelFor runs f(i) for i in [0,n) on Workers goroutines (work stealing by counter).
func (c *Check) ParallelFor(n int, f func(i int)) {
	var wg sync.WaitGroup
	var mu sync.Mutex
	next := 0
	w := c.Workers
	if w > n {
		w = n
	}
	for k := 0; k < w; k++ {
		wg.Add(1)
		go func() {
			defer wg.Done()
			for {
				mu.Lock()
				i := next
				next++
				mu.Unlock()
				if i >= n {
					return
				}
				if c.child && i%c.shardN != c.shardI {
					continue
				}
				f(i)
			}
		}()
	}
	wg.Wait()
}

// Scratch returns a fresh directory under /dev/shm (falls back to os.TempDir()).
func Scratch(prefix string) string {
	base := "/dev/shm"
	if st, err := os.Stat(base); err != nil || !st.IsDir() {
		base = os.TempDir()
	}
	d, err := os.MkdirTemp(base, "verif-"+prefix+"-")
	if err != nil {
		panic(err)
	}
	return d
}

// Catch runs f and converts a panic into an error string with stack.
func Catch(f func()) (panicked string) {
	defer func() {
		if r := recover(); r != nil {
			buf := make([]byte, 2048)
			n := runtime.Stack(buf, false)
			panicked = fmt.Sprintf("%v\n%s", r, buf[:n])
		}
	}()
	f()
	return ""
}
