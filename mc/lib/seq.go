package lib

import (
	"fmt"
	"strings"
	"sync"
	"sync/atomic"
)

// SeqSpec describes one bounded exhaustive operation-sequence exploration (engine E3).
// Real objects cannot be cloned, so every node of the search tree re-creates the object by replaying its
// path on a fresh instance: Run(path) executes all operations of path (checking the oracle as it sees
// fit, at least after the last one) and returns a canonical key of the reached state.
//
// key == "" disables deduplication for that node. With a key, a state that was already expanded with at
// least as much remaining depth is not expanded again (sound only if equal keys imply equal futures: the
// harness is responsible for including implementation-private state in the key when it has any).
type SeqSpec struct {
	Name  string
	NOps  int
	Depth int
	// Run returns (state key, stop): stop=true means do not extend this path (operation not applicable in
	// this state, or a violation was recorded).
	Run func(path []int) (key string, stop bool)
}

type SeqStats struct {
	Sequences   int64 // paths executed (= transitions: one new operation each)
	States      int64 // distinct state keys (or paths when no key)
	Pruned      int64
	MaxDepth    int
	Interrupted bool
}

// RunSeq explores spec exhaustively, sharding the level-2 subtrees over the check's workers.
func (c *Check) RunSeq(spec SeqSpec) SeqStats {
	var st SeqStats
	var mu sync.Mutex
	seen := map[string]int{} // key -> largest remaining depth it was expanded with
	var interrupted atomic.Bool

	var explore func(path []int)
	quiet := false // level-1 nodes are visited by every shard but counted by shard 0 only
	visit := func(path []int) (expand bool) {
		var key string
		var stop bool
		if p := Catch(func() { key, stop = spec.Run(path) }); p != "" {
			// a panic of the implementation under test is a violation of every property ("never crashes"), not a
			// harness failure
			first := strings.SplitN(p, "\n", 2)[0]
			c.Violate(Violation{Sig: fmt.Sprintf("panic %s: %s path=%v", spec.Name, first, path), Detail: p, Replay: map[string]any{"path": path, "spec": spec.Name}})
			key, stop = "", true
		}
		if quiet {
			return !stop && spec.Depth-len(path) > 0
		}
		atomic.AddInt64(&st.Sequences, 1)
		rem := spec.Depth - len(path)
		mu.Lock()
		defer mu.Unlock()
		if len(path) > st.MaxDepth {
			st.MaxDepth = len(path)
		}
		if key == "" {
			st.States++
			return !stop && rem > 0
		}
		prev, ok := seen[key]
		if !ok {
			st.States++
		}
		if ok && prev >= rem {
			st.Pruned++
			return false
		}
		seen[key] = rem
		return !stop && rem > 0
	}
	explore = func(path []int) {
		for op := 0; op < spec.NOps; op++ {
			if interrupted.Load() {
				return
			}
			if c.Expired() {
				interrupted.Store(true)
				return
			}
			p := append(append(make([]int, 0, len(path)+1), path...), op)
			if visit(p) {
				explore(p)
			}
		}
	}
	if spec.Depth <= 0 {
		return st
	}
	// level 1 sequentially (cheap), level 2 subtrees in parallel
	var roots [][]int
	quiet = c.child && c.shardI != 0
	defer func() { quiet = false }()
	for op := 0; op < spec.NOps; op++ {
		p := []int{op}
		if visit(p) {
			roots = append(roots, p)
		}
	}
	var subs [][]int
	if spec.Depth >= 2 {
		for _, r := range roots {
			for op := 0; op < spec.NOps; op++ {
				subs = append(subs, []int{r[0], op})
			}
		}
	}
	quiet = false
	c.ParallelFor(len(subs), func(i int) {
		if interrupted.Load() || c.Expired() {
			interrupted.Store(true)
			return
		}
		if visit(subs[i]) {
			explore(subs[i])
		}
	})
	st.Interrupted = interrupted.Load()
	if st.Interrupted {
		c.CapHit(fmt.Sprintf("%s: time budget reached after %d sequences (depth bound %d not completed)", spec.Name, st.Sequences, spec.Depth))
	}
	c.AddEvals(st.Sequences)
	c.AddStates(st.States, st.Sequences)
	return st
}
