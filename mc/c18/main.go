// C18 — access control: every operation is gated by the caller's database permission.
//
// Level "exploration": exhaustive enumeration of a finite matrix against the REAL in-process server
// (server.ImmuServer with auth enabled, its real interceptor chain, reached through a bufconn listener).
//
// Alphabet (cell = method x request x role x database selection x session state x auth mechanism):
//   - methods: every RPC found in the generated service descriptors of immudb.schema.ImmuService,
//     immudb.model.DocumentService and immudb.model.AuthorizationService (unary and streaming); a new RPC is
//     picked up automatically (request "zero", class "unclassified" => oracle (i) and the marker check only).
//   - requests: the zero request of the method plus the hand written valid requests of variantsFor().
//   - roles: none / r / rw / admin on database "dbown", and the sysadmin.
//   - database selection: own (credentials on dbown, requests name dbown), other (credentials are requested
//     for dbother — must be refused — then fall back to dbown; requests name dbother), system (the role is also
//     granted on systemdb as far as the server lets the sysadmin do so; credentials on systemdb; requests
//     name systemdb), none (token without UseDatabase / OpenSession without database).
//   - session state: nocreds, bogus (unknown session id / malformed token), valid, expired (session: the real
//     guard removes it after its last activity was back-dated; token: issued with an expiry in the past),
//     deactivated (SetActiveUser false after login), revoked (ChangePermission REVOKE after login), downgraded
//     (GRANT R after login).
//   - mechanism: session (OpenSession, "sessionid" header), token (legacy Login+UseDatabase, "authorization"
//     header), token2 (token while a second client of the same user is logged in as well).
//
// Bound: quick = all methods and requests x {valid session of every role x selection, nocreds, bogus} plus a
// 6 group sample of the other states; thorough = the full product (states that do not apply to a role are left out).
// One server is shared by the groups that a worker runs one after the other (its start costs seconds); every group
// brings its own users; a server is replaced after a breach that touched anything but dbown/dbother data.
//
// Oracle (independent of the server's permission tables, see mayChange / forbidden): before and after every call
// the sysadmin takes a snapshot of EVERY database: tx state (CurrentState), settings, SQL tables, collections,
// plus the user list and the set of database directories.
//
//	(i)   a component may change only if the principal holds the required right on it (RW/admin/sysadmin for
//	      the content of a database, admin for settings/users/database list); never for an invalid session;
//	      systemdb never through data RPCs.
//	(ii)  no response may contain the marker stored in a database the principal cannot read; a principal without
//	      any right / with an invalid session gets an error from every method that needs authentication.
//	(iii) administrative methods fail for non-admins.
//	(iv)  positive controls are counted (not demanded by the property): authorised calls succeed and change state.
//
// Signature: acl-breach method=<full> role=<role> db=<sel> session=<state> effect=<...> auth=<mech> req=<request>
package main

import (
	"bytes"
	"context"
	"encoding/binary"
	"fmt"
	"io"
	"net"
	"os"
	"sort"
	"strings"
	"sync"
	"sync/atomic"
	"time"

	"github.com/codenotary/immudb/embedded/logger"
	"github.com/codenotary/immudb/pkg/api/protomodel"
	"github.com/codenotary/immudb/pkg/api/schema"
	"github.com/codenotary/immudb/pkg/server"
	"github.com/codenotary/immudb/pkg/server/sessions"
	"google.golang.org/grpc"
	"google.golang.org/grpc/credentials/insecure"
	"google.golang.org/grpc/metadata"
	"google.golang.org/grpc/test/bufconn"
	"google.golang.org/protobuf/proto"
	"google.golang.org/protobuf/reflect/protoreflect"
	"google.golang.org/protobuf/reflect/protoregistry"
	"google.golang.org/protobuf/types/known/emptypb"
	"google.golang.org/protobuf/types/known/structpb"
	"verif/mc/lib"
)

const (
	dbOwn, dbOther, dbSys, dbDef = "dbown", "dbother", "systemdb", "defaultdb"
	userPw                       = "Passw0rd!c18"
	kSeed                        = "k-seed"
)

var (
	c        *lib.Check
	allDBs   = []string{dbSys, dbDef, dbOwn, dbOther}
	markers  = map[string]string{dbOwn: "S3CR3T-OWN", dbOther: "S3CR3T-OTHER", dbDef: "S3CR3T-DEFAULT"}
	services = []string{"immudb.schema.ImmuService", "immudb.model.DocumentService", "immudb.model.AuthorizationService"}
	uidCtr   atomic.Int64
)

// ---------- levels, needs, groups ----------

const (
	lvNone = iota
	lvR
	lvRW
	lvAdmin
	lvSys
)

var roleLevel = map[string]int{"none": lvNone, "r": lvR, "rw": lvRW, "admin": lvAdmin, "sysadmin": lvSys}
var permCode = map[int]uint32{lvR: 1, lvRW: 2, lvAdmin: 254}

type need int

const (
	nUnclassified need = iota // not in the table: oracle (i) and the marker check only
	nNoAuth                   // legitimately needs no session: Login, OpenSession, Health, ServerInfo
	nAuth                     // needs an authenticated caller but no database permission
	nRead                     // needs >= R on the selected (or named) database
	nWrite                    // needs >= RW on the selected database
	nAdmin                    // needs admin / sysadmin rights
	nNever                    // must fail for everybody (wrong password)
)

// methodNeed: hand written classification of the public API by what the call does (NOT derived from
// pkg/auth/permissions.go). Methods that legitimately need no database or no permission are listed here explicitly.
var methodNeed = map[string]need{
	// no session needed: they establish one or expose only liveness / aggregate server information
	"Login": nNoAuth, "OpenSession": nNoAuth, "Health": nNoAuth, "ServerInfo": nNoAuth,
	// authenticated caller, no database permission: session housekeeping and "what am I allowed to see" listings
	// (ListUsers returns only the caller's own record to non-admins, DatabaseList only the caller's databases)
	"Logout": nAuth, "CloseSession": nAuth, "KeepAlive": nAuth, "ListUsers": nAuth, "DatabaseList": nAuth, "DatabaseListV2": nAuth,
	// read
	"NewTx": nRead, "Rollback": nRead, "TxSQLQuery": nRead, "Get": nRead, "VerifiableGet": nRead, "GetAll": nRead, "Scan": nRead, "Count": nRead,
	"CountAll": nRead, "TxById": nRead, "VerifiableTxById": nRead, "TxScan": nRead, "History": nRead, "DatabaseHealth": nRead,
	"CurrentState": nRead, "ZScan": nRead, "UseDatabase": nRead, "GetDatabaseSettings": nRead, "GetDatabaseSettingsV2": nRead,
	"UnarySQLQuery": nRead, "SQLQuery": nRead, "ListTables": nRead, "DescribeTable": nRead, "VerifiableSQLGet": nRead,
	"streamGet": nRead, "streamVerifiableGet": nRead, "streamScan": nRead, "streamZScan": nRead, "streamHistory": nRead,
	"exportTx": nRead, "streamExportTx": nRead, "GetCollection": nRead, "GetCollections": nRead, "SearchDocuments": nRead,
	"CountDocuments": nRead, "AuditDocument": nRead, "ProofDocument": nRead,
	// write
	"Commit": nWrite, "TxSQLExec": nWrite, "Set": nWrite, "VerifiableSet": nWrite, "Delete": nWrite, "ExecAll": nWrite,
	"SetReference": nWrite, "VerifiableSetReference": nWrite, "ZAdd": nWrite, "VerifiableZAdd": nWrite, "SQLExec": nWrite,
	"streamSet": nWrite, "streamVerifiableSet": nWrite, "streamExecAll": nWrite, "replicateTx": nWrite,
	"CreateCollection": nWrite, "UpdateCollection": nWrite, "DeleteCollection": nWrite, "AddField": nWrite, "RemoveField": nWrite,
	"CreateIndex": nWrite, "DeleteIndex": nWrite, "InsertDocuments": nWrite, "ReplaceDocuments": nWrite, "DeleteDocuments": nWrite,
	// user / database / maintenance administration
	"CreateUser": nAdmin, "ChangePassword": nAdmin, "ChangePermission": nAdmin, "ChangeSQLPrivileges": nAdmin, "SetActiveUser": nAdmin,
	"UpdateAuthConfig": nAdmin, "UpdateMTLSConfig": nAdmin, "CreateDatabase": nAdmin, "CreateDatabaseWith": nAdmin, "CreateDatabaseV2": nAdmin,
	"LoadDatabase": nAdmin, "UnloadDatabase": nAdmin, "DeleteDatabase": nAdmin, "UpdateDatabase": nAdmin, "UpdateDatabaseV2": nAdmin,
	"FlushIndex": nAdmin, "CompactIndex": nAdmin, "TruncateDatabase": nAdmin,
}

type group struct {
	Role, Sel, State, Mech string
}

func (g group) String() string { return g.Role + "/" + g.Sel + "/" + g.State + "/" + g.Mech }
func (g group) valid() bool    { return g.State == "valid" || g.away() }

// away: the principal also holds its role on dbother and its session is bound to dbother when the right on dbown
// is revoked / downgraded; afterwards the session tries to switch to dbown. The credentials stay legitimate for
// dbother; on dbown they carry what is left of the right.
func (g group) away() bool { return strings.HasSuffix(g.State, "-away") }

// level: the right the principal's CURRENT CREDENTIALS legitimately carry on db (none for every invalid session).
func (g group) level(db string, sysGrant bool) int {
	if !g.valid() {
		return lvNone
	}
	return g.userLevel(db, sysGrant)
}

// userLevel: the right the principal's ACCOUNT holds on db after the state transition (-1: deactivated account).
func (g group) userLevel(db string, sysGrant bool) int {
	rl := roleLevel[g.Role]
	if rl == lvSys {
		return lvSys
	}
	switch g.State {
	case "deactivated":
		return -1
	case "revoked":
		return lvNone
	case "downgraded":
		rl = lvR
	case "revoked-away", "downgraded-away":
		switch {
		case db == dbOther:
			return rl
		case db == dbOwn && g.State == "downgraded-away":
			return lvR
		}
		return lvNone
	}
	switch {
	case db == dbOwn:
		return rl
	case db == dbSys && g.Sel == "system" && sysGrant:
		return rl
	}
	return lvNone
}

func (g group) maxLevel(sysGrant bool) int { return g.level(dbOwn, sysGrant) }

// curLevel: the right on the database the credentials are bound to (requests that name no database act on it).
func (g group) curLevel(e *env) int {
	if g.away() && e.sessDB != "" {
		return g.level(e.sessDB, e.sysGrant)
	}
	return g.maxLevel(e.sysGrant)
}

func (g group) named() string {
	switch g.Sel {
	case "other":
		return dbOther
	case "system":
		return dbSys
	}
	return dbOwn
}

// ---------- methods and request variants ----------

type method struct {
	Full, Service, Short       string
	In, Out                    protoreflect.MessageType
	ClientStream, ServerStream bool
	Need                       need
	Classified                 bool
	Variants                   []*variant
}

type variant struct {
	Name   string
	need   need // 0: the method's
	Named  bool // the request names the group's named database: rights are evaluated on it
	Admin  bool // kind "administration" (may legitimately write user/db records to systemdb) even if the method is a data method
	build  func(e *env) proto.Message
	chunks func(e *env) []proto.Message                      // client streaming
	pre    func(e *env, ctx context.Context) context.Context // prerequisite calls with the principal's credentials
	prep   func(e *env)                                      // prerequisite by the sysadmin (forces fresh snapshots)
	post   func(e *env)                                      // repair by the sysadmin
	forbid func(g group, e *env) bool                        // overrides the default "success is a breach" rule
	// positive control: minimal level on the target at which the call is expected to succeed (0 = no expectation)
	okFrom  int
	changes bool // ... and to change state
}

func chunk(b []byte) proto.Message {
	buf := make([]byte, 8+len(b))
	binary.BigEndian.PutUint64(buf, uint64(len(b)))
	copy(buf[8:], b)
	return &schema.Chunk{Content: buf}
}

func sv(s string) *structpb.Value { return structpb.NewStringValue(s) }
func doc(m map[string]interface{}) *structpb.Struct {
	s, err := structpb.NewStruct(m)
	if err != nil {
		panic(err)
	}
	return s
}
func kv(k, v string) *schema.KeyValue { return &schema.KeyValue{Key: []byte(k), Value: []byte(v)} }
func newTx(e *env, ctx context.Context) context.Context {
	r, err := e.cl.NewTx(ctx, &schema.NewTxRequest{Mode: schema.TxMode_ReadWrite})
	if err != nil {
		return ctx
	}
	return metadata.AppendToOutgoingContext(ctx, "transactionid", r.TransactionID)
}
func adminUnload(e *env) {
	e.cl.UnloadDatabase(e.actx(dbDef), &schema.UnloadDatabaseRequest{Database: e.named})
}
func adminLoad(e *env) {
	e.cl.LoadDatabase(e.actx(dbDef), &schema.LoadDatabaseRequest{Database: e.named})
}

func variantsFor(full, short string) []*variant {
	one := func(name string, okFrom int, changes bool, b func(e *env) proto.Message) []*variant {
		return []*variant{{Name: name, okFrom: okFrom, changes: changes, build: b}}
	}
	ownCreds := func(e *env) (string, string) { return e.user, e.pass }
	seedQ := func(e *env) *protomodel.Query { return &protomodel.Query{CollectionName: e.col()} }
	switch short {
	// ----- users
	case "CreateUser":
		return []*variant{{Name: "new-user", Named: true, okFrom: lvAdmin, changes: true, build: func(e *env) proto.Message {
			return &schema.CreateUserRequest{User: []byte(e.fresh("nu")), Password: []byte(userPw), Permission: 1, Database: e.named}
		}}}
	case "ChangePassword":
		return one("victim", lvSys, true, func(e *env) proto.Message {
			return &schema.ChangePasswordRequest{User: []byte(e.victim), NewPassword: []byte("N3w" + userPw)}
		})
	case "ChangePermission":
		return []*variant{{Name: "grant-victim", Named: true, okFrom: lvAdmin, changes: true, build: func(e *env) proto.Message {
			p := uint32(2)
			if e.named == dbSys {
				p = 1
			}
			return &schema.ChangePermissionRequest{Action: schema.PermissionAction_GRANT, Username: e.victim, Database: e.named, Permission: p}
		}}}
	case "ChangeSQLPrivileges":
		return []*variant{{Name: "grant-victim", Named: true, okFrom: lvAdmin, changes: true, build: func(e *env) proto.Message {
			return &schema.ChangeSQLPrivilegesRequest{Action: schema.PermissionAction_GRANT, Username: e.victim, Database: e.named, Privileges: []string{"DROP"}}
		}}}
	case "SetActiveUser":
		return one("deactivate-victim", lvSys, true, func(e *env) proto.Message {
			return &schema.SetActiveUserRequest{Username: e.victim, Active: false}
		})
	// ----- sessions
	case "OpenSession":
		mk := func(u, p, db string) proto.Message {
			if strings.HasPrefix(full, "/immudb.model.") {
				return &protomodel.OpenSessionRequest{Username: u, Password: p, Database: db}
			}
			return &schema.OpenSessionRequest{Username: []byte(u), Password: []byte(p), DatabaseName: db}
		}
		return []*variant{
			{Name: "own-creds", Named: true, okFrom: lvR, build: func(e *env) proto.Message { u, p := ownCreds(e); return mk(u, p, e.named) },
				forbid: func(g group, e *env) bool { return g.userLevel(e.named, e.sysGrant) < lvR }},
			{Name: "bad-password", need: nNever, build: func(e *env) proto.Message { return mk("immudb", "wrong-"+userPw, dbDef) }},
		}
	case "Login":
		return []*variant{
			{Name: "own-creds", build: func(e *env) proto.Message {
				u, p := ownCreds(e)
				return &schema.LoginRequest{User: []byte(u), Password: []byte(p)}
			},
				forbid: func(g group, e *env) bool { return g.userLevel(dbOwn, e.sysGrant) < 0 }},
			{Name: "bad-password", need: nNever, build: func(e *env) proto.Message {
				return &schema.LoginRequest{User: []byte("immudb"), Password: []byte("wrong-" + userPw)}
			}},
		}
	case "NewTx":
		return one("read-write", 0, false, func(e *env) proto.Message { return &schema.NewTxRequest{Mode: schema.TxMode_ReadWrite} })
	case "Commit":
		return []*variant{{Name: "insert-commit", okFrom: lvRW, changes: true, build: func(e *env) proto.Message { return &emptypb.Empty{} },
			pre: func(e *env, ctx context.Context) context.Context {
				ctx = newTx(e, ctx)
				e.cl.TxSQLExec(ctx, &schema.SQLExecRequest{Sql: fmt.Sprintf("INSERT INTO tseed(id, v) VALUES (%d, 'tx')", e.freshN())})
				return ctx
			}}, {Name: "create-table-commit", okFrom: lvRW, changes: true, build: func(e *env) proto.Message { return &emptypb.Empty{} },
			pre: func(e *env, ctx context.Context) context.Context {
				ctx = newTx(e, ctx)
				e.cl.TxSQLExec(ctx, &schema.SQLExecRequest{Sql: "CREATE TABLE " + e.fresh("t") + "(id INTEGER, PRIMARY KEY id)"})
				return ctx
			}}}
	case "Rollback":
		return []*variant{{Name: "open-tx", build: func(e *env) proto.Message { return &emptypb.Empty{} }, pre: newTx}}
	case "TxSQLExec":
		return []*variant{{Name: "insert", pre: newTx, build: func(e *env) proto.Message {
			return &schema.SQLExecRequest{Sql: fmt.Sprintf("INSERT INTO tseed(id, v) VALUES (%d, 'tx')", e.freshN())}
		}}, {Name: "insert-commit", okFrom: lvRW, changes: true, pre: newTx, build: func(e *env) proto.Message {
			return &schema.SQLExecRequest{Sql: fmt.Sprintf("INSERT INTO tseed(id, v) VALUES (%d, 'tx'); COMMIT;", e.freshN())}
		}}, {Name: "create-table-commit", okFrom: lvRW, changes: true, pre: newTx, build: func(e *env) proto.Message {
			return &schema.SQLExecRequest{Sql: "CREATE TABLE " + e.fresh("t") + "(id INTEGER, PRIMARY KEY id); COMMIT;"}
		}}}
	case "TxSQLQuery":
		return []*variant{{Name: "select", pre: newTx, build: func(e *env) proto.Message { return &schema.SQLQueryRequest{Sql: "SELECT id, v FROM tseed"} }}}
	// ----- KV
	case "Set":
		return one("new-key", lvRW, true, func(e *env) proto.Message { return &schema.SetRequest{KVs: []*schema.KeyValue{kv(e.fresh("k"), "v")}} })
	case "VerifiableSet":
		return one("new-key", lvRW, true, func(e *env) proto.Message {
			return &schema.VerifiableSetRequest{SetRequest: &schema.SetRequest{KVs: []*schema.KeyValue{kv(e.fresh("k"), "v")}}}
		})
	case "Get", "streamGet":
		return one("seed", lvR, false, func(e *env) proto.Message { return &schema.KeyRequest{Key: []byte(kSeed)} })
	case "VerifiableGet", "streamVerifiableGet":
		return one("seed", lvR, false, func(e *env) proto.Message {
			return &schema.VerifiableGetRequest{KeyRequest: &schema.KeyRequest{Key: []byte(kSeed)}, ProveSinceTx: 1}
		})
	case "Delete":
		return one("seed-key", lvRW, true, func(e *env) proto.Message { return &schema.DeleteKeysRequest{Keys: [][]byte{[]byte(e.kDel())}} })
	case "GetAll":
		return one("seed", lvRW, false, func(e *env) proto.Message { return &schema.KeyListRequest{Keys: [][]byte{[]byte(kSeed)}} })
	case "ExecAll":
		return one("new-key", lvRW, true, func(e *env) proto.Message {
			return &schema.ExecAllRequest{Operations: []*schema.Op{{Operation: &schema.Op_Kv{Kv: kv(e.fresh("k"), "v")}}}}
		})
	case "Scan", "streamScan":
		return one("prefix", lvR, false, func(e *env) proto.Message { return &schema.ScanRequest{Prefix: []byte("k-")} })
	case "Count":
		return one("prefix", 0, false, func(e *env) proto.Message { return &schema.KeyPrefix{Prefix: []byte("k-")} })
	case "TxById":
		return one("tx1", lvR, false, func(e *env) proto.Message { return &schema.TxRequest{Tx: 1} })
	case "VerifiableTxById":
		return one("tx1", lvR, false, func(e *env) proto.Message { return &schema.VerifiableTxRequest{Tx: 1, ProveSinceTx: 1} })
	case "TxScan":
		return one("from1", lvR, false, func(e *env) proto.Message { return &schema.TxScanRequest{InitialTx: 1} })
	case "History", "streamHistory":
		return one("seed", lvR, false, func(e *env) proto.Message { return &schema.HistoryRequest{Key: []byte(kSeed)} })
	case "SetReference":
		return one("to-seed", lvRW, true, func(e *env) proto.Message {
			return &schema.ReferenceRequest{Key: []byte(e.fresh("ref")), ReferencedKey: []byte(kSeed)}
		})
	case "VerifiableSetReference":
		return one("to-seed", lvRW, true, func(e *env) proto.Message {
			return &schema.VerifiableReferenceRequest{ReferenceRequest: &schema.ReferenceRequest{Key: []byte(e.fresh("ref")), ReferencedKey: []byte(kSeed)}}
		})
	case "ZAdd":
		return one("seed", lvRW, true, func(e *env) proto.Message {
			return &schema.ZAddRequest{Set: []byte("zs"), Score: 2, Key: []byte(kSeed)}
		})
	case "VerifiableZAdd":
		return one("seed", lvRW, true, func(e *env) proto.Message {
			return &schema.VerifiableZAddRequest{ZAddRequest: &schema.ZAddRequest{Set: []byte("zs"), Score: 3, Key: []byte(kSeed)}}
		})
	case "ZScan", "streamZScan":
		return one("seed-set", lvR, false, func(e *env) proto.Message { return &schema.ZScanRequest{Set: []byte("zs")} })
	case "exportTx", "streamExportTx":
		return one("tx1", lvAdmin, false, func(e *env) proto.Message { return &schema.ExportTxRequest{Tx: 1} })
	case "streamSet":
		return []*variant{{Name: "new-key", okFrom: lvRW, changes: true, chunks: func(e *env) []proto.Message {
			return []proto.Message{chunk([]byte(e.fresh("k"))), chunk([]byte("v"))}
		}}}
	case "streamVerifiableSet":
		return []*variant{{Name: "new-key", okFrom: lvRW, changes: true, chunks: func(e *env) []proto.Message {
			return []proto.Message{chunk(make([]byte, 8)), chunk([]byte(e.fresh("k"))), chunk([]byte("v"))}
		}}}
	case "streamExecAll":
		return []*variant{{Name: "new-key", okFrom: lvRW, changes: true, chunks: func(e *env) []proto.Message {
			return []proto.Message{chunk([]byte{1}), chunk([]byte(e.fresh("k"))), chunk([]byte("v"))}
		}}}
	case "replicateTx":
		return []*variant{{Name: "garbage", chunks: func(e *env) []proto.Message { return []proto.Message{chunk([]byte("not-a-transaction"))} }}}
	// ----- databases
	case "CreateDatabase":
		return one("new-db", lvSys, true, func(e *env) proto.Message { return &schema.Database{DatabaseName: e.fresh("ndb")} })
	case "CreateDatabaseWith":
		return one("new-db", lvSys, true, func(e *env) proto.Message { return &schema.DatabaseSettings{DatabaseName: e.fresh("ndb")} })
	case "CreateDatabaseV2":
		return one("new-db", lvSys, true, func(e *env) proto.Message { return &schema.CreateDatabaseRequest{Name: e.fresh("ndb")} })
	case "LoadDatabase":
		return []*variant{{Name: "unloaded", Named: true, okFrom: lvAdmin, prep: adminUnload, post: adminLoad,
			build: func(e *env) proto.Message { return &schema.LoadDatabaseRequest{Database: e.named} }}}
	case "UnloadDatabase":
		return []*variant{{Name: "loaded", Named: true, okFrom: lvAdmin, post: adminLoad,
			build: func(e *env) proto.Message { return &schema.UnloadDatabaseRequest{Database: e.named} }}}
	case "DeleteDatabase":
		return []*variant{{Name: "unloaded", Named: true, okFrom: lvAdmin, changes: true, prep: adminUnload, post: adminLoad,
			build: func(e *env) proto.Message { return &schema.DeleteDatabaseRequest{Database: e.named} }}}
	case "UseDatabase":
		return []*variant{{Name: "named", Named: true, okFrom: lvR, build: func(e *env) proto.Message { return &schema.Database{DatabaseName: e.named} }}}
	case "UpdateDatabase":
		return []*variant{{Name: "settings", Named: true, okFrom: 0, changes: true, build: func(e *env) proto.Message {
			return &schema.DatabaseSettings{DatabaseName: e.named, ExcludeCommitTime: true}
		}}}
	case "UpdateDatabaseV2":
		return []*variant{{Name: "settings", Named: true, okFrom: lvAdmin, changes: true, build: func(e *env) proto.Message {
			return &schema.UpdateDatabaseRequest{Database: e.named, Settings: &schema.DatabaseNullableSettings{SyncFrequency: &schema.NullableMilliseconds{Value: 17}}}
		}}}
	case "FlushIndex":
		return one("flush", lvAdmin, false, func(e *env) proto.Message { return &schema.FlushIndexRequest{CleanupPercentage: 0.1} })
	case "TruncateDatabase":
		return []*variant{{Name: "retention-1d", Named: true, build: func(e *env) proto.Message {
			return &schema.TruncateDatabaseRequest{Database: e.named, RetentionPeriod: (24 * time.Hour).Milliseconds()}
		}}}
	// ----- SQL
	case "SQLExec":
		sq := func(f func(e *env) string) func(e *env) proto.Message {
			return func(e *env) proto.Message { return &schema.SQLExecRequest{Sql: f(e)} }
		}
		return []*variant{
			{Name: "create-table", okFrom: lvRW, changes: true, build: sq(func(e *env) string { return "CREATE TABLE " + e.fresh("t") + "(id INTEGER, PRIMARY KEY id)" })},
			{Name: "insert", okFrom: lvRW, changes: true, build: sq(func(e *env) string { return fmt.Sprintf("INSERT INTO tseed(id, v) VALUES (%d, 'x')", e.freshN()) })},
			{Name: "use-named", need: nRead, Named: true, okFrom: lvRW, build: sq(func(e *env) string { return "USE DATABASE " + e.named })},
			{Name: "create-user", need: nAdmin, Admin: true, okFrom: lvAdmin, changes: true, build: sq(func(e *env) string {
				return "CREATE USER " + e.fresh("nu") + " WITH PASSWORD '" + userPw + "' READ"
			})},
			{Name: "drop-user", need: nAdmin, Admin: true, okFrom: lvSys, changes: true, build: sq(func(e *env) string { return "DROP USER " + e.victim })},
			{Name: "alter-user", need: nAdmin, Admin: true, okFrom: lvSys, changes: true, build: sq(func(e *env) string {
				return "ALTER USER " + e.victim + " WITH PASSWORD 'N3w" + userPw + "' READWRITE"
			})},
			{Name: "grant", need: nAdmin, Admin: true, Named: true, okFrom: lvAdmin, changes: true, build: sq(func(e *env) string {
				return "GRANT DROP ON DATABASE " + e.named + " TO USER " + e.victim
			})},
			{Name: "create-database", need: nAdmin, Admin: true, okFrom: lvSys, changes: true, build: sq(func(e *env) string { return "CREATE DATABASE " + e.fresh("ndb") })},
		}
	case "UnarySQLQuery", "SQLQuery":
		return one("select", lvR, false, func(e *env) proto.Message { return &schema.SQLQueryRequest{Sql: "SELECT id, v FROM tseed"} })
	case "DescribeTable":
		return one("seed", lvR, false, func(e *env) proto.Message { return &schema.Table{TableName: "tseed"} })
	case "VerifiableSQLGet":
		return one("seed-row", lvR, false, func(e *env) proto.Message {
			return &schema.VerifiableSQLGetRequest{SqlGetRequest: &schema.SQLGetRequest{Table: "tseed", PkValues: []*schema.SQLValue{{Value: &schema.SQLValue_N{N: 1}}}}, ProveSinceTx: 1}
		})
	// ----- documents
	case "CreateCollection":
		return one("new", lvRW, true, func(e *env) proto.Message {
			return &protomodel.CreateCollectionRequest{Name: e.fresh("c"), Fields: []*protomodel.Field{{Name: "name", Type: protomodel.FieldType_STRING}}}
		})
	case "GetCollection":
		return one("seed", lvR, false, func(e *env) proto.Message { return &protomodel.GetCollectionRequest{Name: e.col()} })
	case "UpdateCollection":
		return one("seed", lvRW, true, func(e *env) proto.Message {
			return &protomodel.UpdateCollectionRequest{Name: e.col(), DocumentIdFieldName: e.fresh("docid")}
		})
	case "DeleteCollection":
		return one("seed", lvRW, true, func(e *env) proto.Message { return &protomodel.DeleteCollectionRequest{Name: e.colDel()} })
	case "AddField":
		return one("new", lvRW, true, func(e *env) proto.Message {
			return &protomodel.AddFieldRequest{CollectionName: e.col(), Field: &protomodel.Field{Name: e.fresh("f"), Type: protomodel.FieldType_INTEGER}}
		})
	case "RemoveField":
		return one("seed", lvRW, true, func(e *env) proto.Message {
			return &protomodel.RemoveFieldRequest{CollectionName: e.col(), FieldName: "frem"}
		})
	case "CreateIndex":
		return one("seed", lvRW, true, func(e *env) proto.Message {
			return &protomodel.CreateIndexRequest{CollectionName: e.col(), Fields: []string{"fidx"}}
		})
	case "DeleteIndex":
		return one("seed", lvRW, true, func(e *env) proto.Message {
			return &protomodel.DeleteIndexRequest{CollectionName: e.col(), Fields: []string{"fidxdel"}}
		})
	case "InsertDocuments":
		return one("new", lvRW, true, func(e *env) proto.Message {
			return &protomodel.InsertDocumentsRequest{CollectionName: e.col(), Documents: []*structpb.Struct{doc(map[string]interface{}{"name": e.fresh("d")})}}
		})
	case "ReplaceDocuments":
		return one("all", lvRW, true, func(e *env) proto.Message {
			return &protomodel.ReplaceDocumentsRequest{Query: &protomodel.Query{CollectionName: e.col(), Expressions: []*protomodel.QueryExpression{{FieldComparisons: []*protomodel.FieldComparison{
				{Field: "name", Operator: protomodel.ComparisonOperator_EQ, Value: sv("to-replace")}}}}}, Document: doc(map[string]interface{}{"name": e.fresh("r")})}
		})
	case "DeleteDocuments":
		return one("one", lvRW, true, func(e *env) proto.Message {
			return &protomodel.DeleteDocumentsRequest{Query: &protomodel.Query{CollectionName: e.col(), Expressions: []*protomodel.QueryExpression{{FieldComparisons: []*protomodel.FieldComparison{
				{Field: "name", Operator: protomodel.ComparisonOperator_EQ, Value: sv("to-delete")}}}}, Limit: 1}}
		})
	case "SearchDocuments":
		return one("all", lvR, false, func(e *env) proto.Message {
			return &protomodel.SearchDocumentsRequest{Query: seedQ(e), Page: 1, PageSize: 10}
		})
	case "CountDocuments":
		return one("all", lvR, false, func(e *env) proto.Message { return &protomodel.CountDocumentsRequest{Query: seedQ(e)} })
	case "AuditDocument":
		return one("seed", lvR, false, func(e *env) proto.Message {
			return &protomodel.AuditDocumentRequest{CollectionName: e.col(), DocumentId: e.docID(), Page: 1, PageSize: 10}
		})
	case "ProofDocument":
		return one("seed", lvR, false, func(e *env) proto.Message {
			return &protomodel.ProofDocumentRequest{CollectionName: e.col(), DocumentId: e.docID()}
		})
	}
	return nil
}

func loadMethods() []*method {
	var ms []*method
	for _, svc := range services {
		d, err := protoregistry.GlobalFiles.FindDescriptorByName(protoreflect.FullName(svc))
		if err != nil {
			harnessBug("no descriptor for " + svc)
		}
		sd := d.(protoreflect.ServiceDescriptor)
		for i := 0; i < sd.Methods().Len(); i++ {
			md := sd.Methods().Get(i)
			it, err1 := protoregistry.GlobalTypes.FindMessageByName(md.Input().FullName())
			ot, err2 := protoregistry.GlobalTypes.FindMessageByName(md.Output().FullName())
			if err1 != nil || err2 != nil {
				harnessBug("no message type for " + string(md.FullName()))
			}
			m := &method{Full: fmt.Sprintf("/%s/%s", svc, md.Name()), Service: svc, Short: string(md.Name()), In: it, Out: ot,
				ClientStream: md.IsStreamingClient(), ServerStream: md.IsStreamingServer()}
			m.Need, m.Classified = methodNeed[m.Short]
			zero := &variant{Name: "zero"}
			if m.ClientStream {
				zero.chunks = func(e *env) []proto.Message { return []proto.Message{it.New().Interface()} }
			} else {
				zero.build = func(e *env) proto.Message { return it.New().Interface() }
			}
			m.Variants = append([]*variant{zero}, variantsFor(m.Full, m.Short)...)
			ms = append(ms, m)
		}
	}
	return ms
}

// ---------- host: one real server; env: one group's principals, seeds and credentials on it ----------

type cellRef struct{ Method, Variant string }

// host is one in-process immudb server (auth on, real interceptor chain, bufconn). Starting one is expensive
// (systemdb and defaultdb always use the large default store options), so a host serves several groups one after
// the other; every group brings its own users and consumable seeds.
type host struct {
	dir      string
	s        *server.ImmuServer
	conn     *grpc.ClientConn
	cl       schema.ImmuServiceClient
	dc       protomodel.DocumentServiceClient
	adminSes map[string]string
	gen      map[string]int64  // db -> generation of the consumable seeds (collections cs<gen>, cd<gen>, key k-del-<gen>)
	used     map[string]bool   // db -> a principal with write access has worked on the current generation
	docIDs   map[string]string // db -> id of the marker document of the current generation
	groups   int
	dirty    bool // unusable (a base database is gone): replace it now
	retire   bool // do not hand it to another group
}

type env struct {
	*host
	g        group
	uid      int64
	user     string
	pass     string
	victim   string
	named    string
	sysGrant bool
	md       []string // principal's outgoing metadata
	sessID   string
	sessDB   string // database the credentials were acquired on ("" none)

	transitioned bool
	n            int
	hist         []cellRef
	snap         map[string]string
	acqNotes     []string
	stale        bool                // the credentials may have been altered by a breach: continue with new principals
	created      map[string][]string // db -> collections / tables created by this group's requests (dropped at the end)
}

var (
	initMu   sync.Mutex
	initDone atomic.Bool
)

func (e *env) fresh(p string) string {
	e.n++
	name := fmt.Sprintf("%s%dx%d", p, e.uid, e.n)
	if p == "c" || p == "t" {
		e.created[p] = append(e.created[p], name)
	}
	return name
}
func (e *env) freshN() int { e.n++; return int(e.uid)*1000 + e.n }
func (e *env) credDB() string {
	if e.sessDB != "" && e.sessDB != dbSys {
		return e.sessDB
	}
	return dbOwn
}
func (e *env) col() string    { return fmt.Sprintf("cs%d", e.gen[e.credDB()]) }
func (e *env) colDel() string { return fmt.Sprintf("cd%d", e.gen[e.credDB()]) }
func (e *env) kDel() string   { return fmt.Sprintf("k-del-%d", e.gen[e.credDB()]) }
func (e *env) docID() string  { return e.docIDs[e.credDB()] }

func must(err error, what string) {
	if err != nil {
		harnessBug(what + ": " + err.Error())
	}
}

func harnessBug(msg string) {
	fmt.Fprintln(os.Stdout, "HARNESS ERROR:", msg)
	os.Exit(2)
}

func (h *host) actx(db string) context.Context {
	id := h.adminSes[db]
	if id == "" || !h.s.SessManager.SessionPresent(id) {
		r, err := h.cl.OpenSession(context.Background(), &schema.OpenSessionRequest{Username: []byte("immudb"), Password: []byte("immudb"), DatabaseName: db})
		must(err, "sysadmin OpenSession "+db)
		id = r.SessionID
		h.adminSes[db] = id
	} else if s, err := h.s.SessManager.GetSession(id); err == nil && s.GetDatabase().GetName() != db {
		harnessBug("sysadmin session moved")
	}
	return metadata.AppendToOutgoingContext(context.Background(), "sessionid", id)
}

var tEnv, tSnap, tInv, tHost atomic.Int64

func newHost() *host {
	t0 := time.Now()
	defer func() { tHost.Add(int64(time.Since(t0))) }()
	h := &host{adminSes: map[string]string{}, gen: map[string]int64{}, used: map[string]bool{}, docIDs: map[string]string{}}
	h.dir = lib.Scratch("c18")
	// sessions never expire by real time (a loaded machine must not change the matrix); the guard runs every 5 ms
	so := sessions.DefaultOptions().WithMaxSessions(1 << 20).WithSessionGuardCheckInterval(5 * time.Millisecond).
		WithTimeout(24 * time.Hour).WithMaxSessionInactivityTime(24 * time.Hour)
	opts := server.DefaultOptions().WithDir(h.dir).WithPort(0).WithAuth(true).WithMetricsServer(false).WithWebServer(false).
		WithPgsqlServer(false).WithAdminPassword("immudb").WithSynced(false).WithSessionOptions(so).
		WithGRPCReflectionServerEnabled(false).WithLogFormat(logger.LogFormatJSON).WithNoHistograms(true)
	h.s = server.DefaultServer().WithOptions(opts).WithLogger(logger.NewSimpleLogger("c18", io.Discard)).(*server.ImmuServer)
	// Initialize writes package level variables of pkg/auth and pkg/server (always the same values): the first one runs alone
	var err error
	if initDone.Load() {
		err = h.s.Initialize()
	} else {
		initMu.Lock()
		err = h.s.Initialize()
		initDone.Store(true)
		initMu.Unlock()
	}
	must(err, "server initialize")
	must(h.s.SessManager.StartSessionsGuard(), "session guard")
	lis := bufconn.Listen(1 << 20)
	go h.s.GrpcServer.Serve(lis)
	h.conn, err = grpc.Dial("bufnet", grpc.WithContextDialer(func(ctx context.Context, _ string) (net.Conn, error) { return lis.Dial() }),
		grpc.WithTransportCredentials(insecure.NewCredentials()), grpc.WithDefaultCallOptions(grpc.MaxCallRecvMsgSize(64<<20)))
	must(err, "dial")
	h.cl = schema.NewImmuServiceClient(h.conn)
	h.dc = protomodel.NewDocumentServiceClient(h.conn)
	for _, db := range []string{dbOwn, dbOther, dbDef} {
		h.createDB(db)
	}
	return h
}

// createDB creates dbown / dbother (small store options) and stores the permanent seeds: every value carries the
// marker of its database.
func (h *host) createDB(db string) {
	if db != dbDef {
		u32 := func(v uint32) *schema.NullableUint32 { return &schema.NullableUint32{Value: v} }
		// small buffers: the defaults allocate several hundred MB per server (systemdb and defaultdb keep them)
		small := &schema.DatabaseNullableSettings{MaxConcurrency: u32(2), MaxIOConcurrency: u32(1), MaxActiveTransactions: u32(10), MaxTxEntries: u32(64),
			WriteBufferSize: u32(1 << 16), TxLogCacheSize: u32(10), VLogCacheSize: u32(10), ReadTxPoolSize: u32(4),
			AhtSettings:   &schema.AHTNullableSettings{WriteBufferSize: u32(1 << 16)},
			IndexSettings: &schema.IndexNullableSettings{CacheSize: u32(100), MaxActiveSnapshots: u32(10), FlushBufferSize: u32(1 << 16)}}
		_, err := h.cl.CreateDatabaseV2(h.actx(dbDef), &schema.CreateDatabaseRequest{Name: db, Settings: small})
		must(err, "create "+db)
	}
	delete(h.adminSes, db)
	h.gen[db], h.used[db] = 0, false
	a := h.actx(db)
	mk := markers[db]
	_, err := h.cl.Set(a, &schema.SetRequest{KVs: []*schema.KeyValue{kv(kSeed, mk+"-kv")}})
	must(err, "seed kv "+db)
	_, err = h.cl.ZAdd(a, &schema.ZAddRequest{Set: []byte("zs"), Score: 1, Key: []byte(kSeed)})
	must(err, "seed zadd")
	if db == dbDef {
		return // a foreign database for every principal: the KV marker is enough (its store options cannot be made small)
	}
	_, err = h.cl.SQLExec(a, &schema.SQLExecRequest{Sql: "CREATE TABLE tseed(id INTEGER, v VARCHAR, PRIMARY KEY id); INSERT INTO tseed(id, v) VALUES (1, '" + mk + "-sql');"})
	must(err, "seed sql")
}

func (h *host) close() {
	h.conn.Close()
	h.s.GrpcServer.Stop()
	h.s.SessManager.StopSessionsGuard()
	h.s.CloseDatabases()
	os.RemoveAll(h.dir)
}

// consumables: objects that the hand written destructive requests delete / alter; a new generation is created
// when a principal with write access has worked on the current one.
func (h *host) consumables(db string, gen int64) {
	if h.gen[db] != 0 && !h.used[db] {
		return
	}
	a := h.actx(db)
	if old := h.gen[db]; old != 0 {
		for _, n := range []string{fmt.Sprintf("cs%d", old), fmt.Sprintf("cd%d", old)} {
			h.dc.DeleteCollection(a, &protomodel.DeleteCollectionRequest{Name: n})
		}
	}
	h.gen[db], h.used[db] = gen, false
	mk := markers[db]
	_, err := h.cl.Set(a, &schema.SetRequest{KVs: []*schema.KeyValue{kv(fmt.Sprintf("k-del-%d", gen), mk+"-del")}})
	must(err, "seed k-del "+db)
	_, err = h.dc.CreateCollection(a, &protomodel.CreateCollectionRequest{Name: fmt.Sprintf("cs%d", gen), Fields: []*protomodel.Field{
		{Name: "name", Type: protomodel.FieldType_STRING}, {Name: "frem", Type: protomodel.FieldType_INTEGER},
		{Name: "fidx", Type: protomodel.FieldType_INTEGER}, {Name: "fidxdel", Type: protomodel.FieldType_INTEGER}},
		Indexes: []*protomodel.Index{{Fields: []string{"fidxdel"}}}})
	must(err, "seed collection")
	_, err = h.dc.CreateCollection(a, &protomodel.CreateCollectionRequest{Name: fmt.Sprintf("cd%d", gen)})
	must(err, "seed collection cd")
	r, err := h.dc.InsertDocuments(a, &protomodel.InsertDocumentsRequest{CollectionName: fmt.Sprintf("cs%d", gen), Documents: []*structpb.Struct{
		doc(map[string]interface{}{"name": mk + "-doc"}), doc(map[string]interface{}{"name": "to-delete"}), doc(map[string]interface{}{"name": "to-replace"})}})
	must(err, "seed documents")
	h.docIDs[db] = r.DocumentIds[0]
}

func newEnv(h *host, g group) *env {
	t0 := time.Now()
	defer func() { tEnv.Add(int64(time.Since(t0))) }()
	e := &env{host: h, g: g, uid: uidCtr.Add(1), named: g.named(), created: map[string][]string{}}
	h.groups++
	a := h.actx(dbDef)
	for _, db := range []string{dbOwn, dbOther} {
		h.consumables(db, e.uid)
	}
	e.newVictim()
	rl := roleLevel[g.Role]
	if rl == lvSys {
		e.user, e.pass = "immudb", "immudb"
	} else {
		e.user, e.pass = fmt.Sprintf("p%d", e.uid), userPw
		p := permCode[rl]
		if rl == lvNone {
			p = 1
		}
		_, err := e.cl.CreateUser(a, &schema.CreateUserRequest{User: []byte(e.user), Password: []byte(e.pass), Permission: p, Database: dbOwn})
		must(err, "create principal")
		if rl == lvNone {
			_, err = e.cl.ChangePermission(a, &schema.ChangePermissionRequest{Action: schema.PermissionAction_REVOKE, Username: e.user, Database: dbOwn, Permission: 1})
			must(err, "revoke for role none")
		} else if g.away() {
			_, err = e.cl.ChangePermission(a, &schema.ChangePermissionRequest{Action: schema.PermissionAction_GRANT, Username: e.user, Database: dbOther, Permission: p})
			must(err, "grant principal on dbother")
		} else if g.Sel == "system" {
			// the role is also granted on systemdb as far as the server lets the sysadmin do that
			_, err = e.cl.ChangePermission(a, &schema.ChangePermissionRequest{Action: schema.PermissionAction_GRANT, Username: e.user, Database: dbSys, Permission: p})
			e.sysGrant = err == nil
			c.Set(fmt.Sprintf("systemdb_grant_%s_accepted", g.Role), e.sysGrant)
		}
	}
	e.acquire()
	e.transition()
	e.snap = e.snapshot()
	return e
}

// newVictim: the user that the administrative requests of the group target (R on dbown and dbother).
func (e *env) newVictim() {
	a := e.actx(dbDef)
	e.n++
	e.victim = fmt.Sprintf("v%dx%d", e.uid, e.n)
	_, err := e.cl.CreateUser(a, &schema.CreateUserRequest{User: []byte(e.victim), Password: []byte(userPw), Permission: 1, Database: dbOwn})
	must(err, "create victim")
	_, err = e.cl.ChangePermission(a, &schema.ChangePermissionRequest{Action: schema.PermissionAction_GRANT, Username: e.victim, Database: dbOther, Permission: 1})
	must(err, "grant victim")
}

// finish: the group is done; drop what its requests created, remember which consumables were at a writer's disposal.
func (e *env) finish() {
	for _, db := range []string{dbOwn, dbOther} {
		if e.g.level(db, e.sysGrant) >= lvRW {
			e.used[db] = true
			a := e.actx(db)
			for _, n := range e.created["c"] {
				e.dc.DeleteCollection(a, &protomodel.DeleteCollectionRequest{Name: n})
			}
			for _, n := range e.created["t"] {
				e.cl.SQLExec(a, &schema.SQLExecRequest{Sql: "DROP TABLE " + n})
			}
		}
	}
}

var bogusSession = strings.Repeat("A", 43) + "="

// acquire obtains the principal's credentials the way a client would; every refusal / grant is checked against
// the account's rights (a grant on a database the account cannot read is a breach of its own).
func (e *env) acquire() {
	g := e.g
	e.md, e.sessID, e.sessDB, e.acqNotes = nil, "", "", nil
	switch g.State {
	case "nocreds":
		return
	case "bogus":
		if g.Mech == "session" {
			e.md = []string{"sessionid", bogusSession}
		} else {
			e.md = []string{"authorization", "v2.public.Ym9ndXM.immudb"}
		}
		return
	}
	target := map[string]string{"own": dbOwn, "other": dbOther, "system": dbSys, "none": ""}[g.Sel]
	if g.away() {
		target = dbOther
	}
	bg := context.Background()
	check := func(full, db string, err error) {
		ok := err == nil
		e.acqNotes = append(e.acqNotes, fmt.Sprintf("%s(%q) granted=%v", full[strings.LastIndex(full, "/")+1:], db, ok))
		c.Eval("")
		ge := g
		if !g.away() {
			ge.State = "valid" // the acquisition itself happens before the state transition
		}
		if ok && ge.userLevel(db, e.sysGrant) < lvR {
			report(e, ge, full, "acquire", "succeeded", fmt.Sprintf("credentials for database %q were granted to user %s whose only rights are: role %s on %s", db, e.user, g.Role, dbOwn), nil)
		}
	}
	if g.Mech == "session" {
		try := func(db string) bool {
			r, err := e.cl.OpenSession(bg, &schema.OpenSessionRequest{Username: []byte(e.user), Password: []byte(e.pass), DatabaseName: db})
			check("/immudb.schema.ImmuService/OpenSession", db, err)
			if err == nil {
				e.sessID, e.sessDB, e.md = r.SessionID, db, []string{"sessionid", r.SessionID}
			}
			return err == nil
		}
		if !try(target) && target != dbOwn {
			try(dbOwn)
		}
		return
	}
	// legacy token: Login, then UseDatabase. An expired token is one issued with an expiry in the past.
	expired := g.State == "expired"
	login := func(exp bool) string {
		if exp {
			e.s.Options.TokenExpiryTimeMin = -1
		}
		lr, err := e.cl.Login(bg, &schema.LoginRequest{User: []byte(e.user), Password: []byte(e.pass)})
		e.s.Options.TokenExpiryTimeMin = 1440
		must(err, "principal login")
		return lr.Token
	}
	if g.Mech == "token2" {
		login(false) // a second client of the same user is logged in as well
	}
	if g.Sel == "none" {
		e.md = []string{"authorization", login(expired)}
		return
	}
	tok := login(false)
	e.md = []string{"authorization", tok}
	lctx := metadata.AppendToOutgoingContext(bg, "authorization", tok)
	try := func(db string) bool {
		if expired {
			e.s.Options.TokenExpiryTimeMin = -1
		}
		r, err := e.cl.UseDatabase(lctx, &schema.Database{DatabaseName: db})
		e.s.Options.TokenExpiryTimeMin = 1440
		check("/immudb.schema.ImmuService/UseDatabase", db, err)
		if err == nil {
			e.sessDB, e.md = db, []string{"authorization", r.Token}
		}
		return err == nil
	}
	if !try(target) && (target == dbOwn || !try(dbOwn)) && expired {
		e.md = []string{"authorization", login(true)} // no database can be selected: an expired login token
	}
}

// transition invalidates the credentials after login as the session state of the group says.
func (e *env) transition() {
	a := e.actx(dbDef)
	switch e.g.State {
	case "expired":
		if e.g.Mech == "session" && e.sessID != "" {
			s, err := e.s.SessManager.GetSession(e.sessID)
			must(err, "get session")
			s.SetLastActivityTime(time.Unix(0, 0))
			// wait for the real sessions guard (1 ms tick) to remove it; a wait, not an oracle
			for i := 0; e.s.SessManager.SessionPresent(e.sessID); i++ {
				if i > 60000 {
					harnessBug("sessions guard did not expire the session")
				}
				time.Sleep(time.Millisecond)
			}
		}
	case "deactivated":
		_, err := e.cl.SetActiveUser(a, &schema.SetActiveUserRequest{Username: e.user, Active: false})
		must(err, "deactivate principal")
	case "revoked-away", "downgraded-away":
		if e.transitioned {
			return // (a re-acquired session is a fresh one on dbother)
		}
		e.transitioned = true
		var err error
		if e.g.State == "revoked-away" {
			_, err = e.cl.ChangePermission(a, &schema.ChangePermissionRequest{Action: schema.PermissionAction_REVOKE, Username: e.user, Database: dbOwn, Permission: permCode[roleLevel[e.g.Role]]})
		} else {
			_, err = e.cl.ChangePermission(a, &schema.ChangePermissionRequest{Action: schema.PermissionAction_GRANT, Username: e.user, Database: dbOwn, Permission: 1})
		}
		must(err, "revoke / downgrade principal on dbown")
		// the session, opened on dbother before the change, now tries to switch to dbown
		if e.sessID != "" {
			sctx := metadata.AppendToOutgoingContext(context.Background(), "sessionid", e.sessID)
			_, err := e.cl.UseDatabase(sctx, &schema.Database{DatabaseName: dbOwn})
			e.acqNotes = append(e.acqNotes, fmt.Sprintf("UseDatabase(%q) after the change granted=%v", dbOwn, err == nil))
			c.Eval("")
			if err == nil {
				e.sessDB = dbOwn
				if e.g.userLevel(dbOwn, e.sysGrant) < lvR {
					report(e, e.g, "/immudb.schema.ImmuService/UseDatabase", "acquire", "succeeded", fmt.Sprintf("session of user %s, opened on %s, selected %s after the user's right on it was revoked", e.user, dbOther, dbOwn), nil)
				}
			}
		}
	case "revoked":
		_, err := e.cl.ChangePermission(a, &schema.ChangePermissionRequest{Action: schema.PermissionAction_REVOKE, Username: e.user, Database: dbOwn, Permission: 1})
		must(err, "revoke principal")
		if e.sysGrant {
			_, err := e.cl.ChangePermission(a, &schema.ChangePermissionRequest{Action: schema.PermissionAction_REVOKE, Username: e.user, Database: dbSys, Permission: 1})
			must(err, "revoke principal on systemdb")
		}
	case "downgraded":
		_, err := e.cl.ChangePermission(a, &schema.ChangePermissionRequest{Action: schema.PermissionAction_GRANT, Username: e.user, Database: dbOwn, Permission: 1})
		must(err, "downgrade principal")
		if e.sysGrant {
			_, err := e.cl.ChangePermission(a, &schema.ChangePermissionRequest{Action: schema.PermissionAction_REVOKE, Username: e.user, Database: dbSys, Permission: 1})
			must(err, "revoke principal on systemdb")
		}
	}
}

// snapshot: state of every database and of the user list as seen by the sysadmin.
func (e *env) snapshot() map[string]string {
	t0 := time.Now()
	defer func() { tSnap.Add(int64(time.Since(t0))) }()
	m := map[string]string{}
	es := func(err error) string { return "ERR " + err.Error() }
	det := proto.MarshalOptions{Deterministic: true}
	if ents, err := os.ReadDir(e.dir); err == nil {
		var ds []string
		for _, en := range ents {
			if en.IsDir() {
				ds = append(ds, en.Name())
			}
		}
		m["dblist"] = strings.Join(ds, ",")
	}
	for _, db := range allDBs {
		a := e.actx(db)
		if st, err := e.cl.CurrentState(a, &emptypb.Empty{}); err != nil {
			m["tx:"+db] = es(err)
		} else {
			m["tx:"+db] = fmt.Sprintf("tx=%d hash=%x precommitted=%d", st.TxId, st.TxHash, st.PrecommittedTxId)
		}
		if r, err := e.cl.GetDatabaseSettingsV2(a, &schema.DatabaseSettingsRequest{}); err != nil {
			m["settings:"+db] = es(err)
		} else {
			b, _ := det.Marshal(r)
			m["settings:"+db] = fmt.Sprintf("%x", b)
		}
		// tables and collections cannot change without a new (pre)committed transaction: re-read them only then
		if e.snap != nil && e.snap["tx:"+db] == m["tx:"+db] {
			m["tables:"+db], m["collections:"+db] = e.snap["tables:"+db], e.snap["collections:"+db]
			continue
		}
		if r, err := e.cl.ListTables(a, &emptypb.Empty{}); err != nil {
			m["tables:"+db] = es(err)
		} else {
			var ts []string
			for _, row := range r.Rows {
				for _, v := range row.Values {
					ts = append(ts, v.GetS())
				}
			}
			m["tables:"+db] = strings.Join(ts, ",")
		}
		if r, err := e.dc.GetCollections(a, &protomodel.GetCollectionsRequest{}); err != nil {
			m["collections:"+db] = es(err)
		} else {
			var cs []string
			for _, col := range r.Collections {
				b, _ := det.Marshal(col)
				cs = append(cs, fmt.Sprintf("%s:%x", col.Name, b))
			}
			sort.Strings(cs)
			m["collections:"+db] = strings.Join(cs, ",")
		}
	}
	if r, err := e.cl.ListUsers(e.actx(dbDef), &emptypb.Empty{}); err != nil {
		m["users"] = es(err)
	} else {
		var us []string
		for _, u := range r.Users {
			var ps []string
			for _, p := range u.Permissions {
				ps = append(ps, fmt.Sprintf("%s=%d", p.Database, p.Permission))
			}
			for _, p := range u.SqlPrivileges {
				ps = append(ps, fmt.Sprintf("%s:%s", p.Database, p.Privilege))
			}
			sort.Strings(ps)
			us = append(us, fmt.Sprintf("%s active=%v [%s]", u.User, u.Active, strings.Join(ps, " ")))
		}
		sort.Strings(us)
		m["users"] = strings.Join(us, "; ")
	}
	return m
}

// ---------- invocation ----------

type result struct {
	err   error
	resp  []byte // concatenated wire encoding of every response message
	nResp int
}

func (e *env) invoke(m *method, v *variant) result {
	t0 := time.Now()
	defer func() { tInv.Add(int64(time.Since(t0))) }()
	ctx, cancel := context.WithTimeout(context.Background(), 20*time.Second)
	defer cancel()
	if len(e.md) > 0 {
		ctx = metadata.AppendToOutgoingContext(ctx, e.md...)
	}
	if v.pre != nil {
		ctx = v.pre(e, ctx)
	}
	var res result
	if !m.ClientStream && !m.ServerStream {
		out := m.Out.New().Interface()
		res.err = e.conn.Invoke(ctx, m.Full, v.build(e), out)
		if res.err == nil {
			res.resp, _ = proto.Marshal(out)
			res.nResp = 1
		}
		return res
	}
	st, err := e.conn.NewStream(ctx, &grpc.StreamDesc{ClientStreams: m.ClientStream, ServerStreams: m.ServerStream}, m.Full)
	if err != nil {
		res.err = err
		return res
	}
	var msgs []proto.Message
	if v.chunks != nil {
		msgs = v.chunks(e)
	} else {
		msgs = []proto.Message{v.build(e)}
	}
	for _, msg := range msgs {
		if err := st.SendMsg(msg); err != nil {
			break // the status is delivered by RecvMsg
		}
	}
	st.CloseSend()
	for i := 0; i < 1000; i++ {
		out := m.Out.New().Interface()
		if err := st.RecvMsg(out); err != nil {
			if err != io.EOF {
				res.err = err
			}
			break
		}
		b, _ := proto.Marshal(out)
		res.resp = append(res.resp, b...)
		res.nResp++
		if !m.ServerStream {
			break
		}
	}
	return res
}

// ---------- oracle ----------

type verdict struct {
	effect, detail string
}

// mayChange: may snapshot component comp change through this call of this principal?
func mayChange(g group, e *env, m *method, v *variant, comp string) bool {
	if !g.valid() {
		return false
	}
	role := g.curLevel(e)
	nd := v.need
	if nd == 0 {
		nd = m.Need
	}
	dataKind := (nd == nRead || nd == nWrite) && !v.Admin
	namedOK := !v.Named || g.level(e.named, e.sysGrant) >= lvAdmin
	kind, db, _ := strings.Cut(comp, ":")
	switch kind {
	case "users":
		return role >= lvAdmin && namedOK
	case "dblist":
		return role >= lvAdmin
	case "settings":
		return g.level(db, e.sysGrant) >= lvAdmin
	case "tx", "tables", "collections":
		if db == dbSys {
			// user and database records live in systemdb: administration by an admin may write it, data RPCs never
			return role >= lvAdmin && namedOK && !dataKind
		}
		if v.Named && db == e.named && g.level(db, e.sysGrant) >= lvAdmin {
			return true // load / unload / delete of the named database by its admin
		}
		return g.level(db, e.sysGrant) >= lvRW
	}
	return false
}

// forbidden: is a successful return of this call a breach by itself?
func forbidden(g group, e *env, m *method, v *variant) bool {
	if v.forbid != nil {
		return v.forbid(g, e)
	}
	nd := v.need
	if nd == 0 {
		nd = m.Need
	}
	switch nd {
	case nUnclassified, nNoAuth:
		return false
	case nNever:
		return true
	}
	if !g.valid() {
		return true
	}
	target := g.curLevel(e)
	if v.Named {
		target = g.level(e.named, e.sysGrant)
	}
	switch nd {
	case nRead, nWrite:
		return target < lvR
	case nAdmin:
		return target < lvAdmin
	}
	return false
}

func diff(a, b map[string]string) []string {
	var d []string
	for k, v := range a {
		if b[k] != v {
			d = append(d, k)
		}
	}
	for k := range b {
		if _, ok := a[k]; !ok {
			d = append(d, k)
		}
	}
	sort.Strings(d)
	return d
}

type replay struct {
	Group group     `json:"group"`
	Cells []cellRef `json:"cells"`
}

func report(e *env, g group, full, vname, effect, detail string, hist []cellRef) {
	sig := fmt.Sprintf("acl-breach method=%s role=%s db=%s session=%s effect=%s auth=%s req=%s", full, g.Role, g.Sel, g.State, effect, g.Mech, vname)
	c.Violate(lib.Violation{Sig: sig, Detail: detail + "\nprincipal: " + e.user + "; credentials: " + strings.Join(e.acqNotes, ", "),
		Replay: replay{Group: e.g, Cells: append([]cellRef{}, hist...)}})
}

var debug = os.Getenv("C18_DEBUG") != ""

var (
	statMu    sync.Mutex
	posOK     = map[string]bool{} // "method req level" -> succeeded (and changed state when expected)
	posSeen   = map[string]bool{}
	outcomes  = map[string]int64{}
	cellCount atomic.Int64
)

func runCell(e *env, m *method, v *variant) {
	g := e.g
	e.hist = append(e.hist, cellRef{m.Full, v.Name})
	if v.prep != nil {
		v.prep(e)
		e.snap = e.snapshot()
	}
	before := e.snap
	res := e.invoke(m, v)
	after := e.snapshot()
	changed := diff(before, after)
	cellCount.Add(1)
	c.Add("cells_session_"+g.State, 1)
	c.Add("cells_auth_"+g.Mech, 1)

	var vs []verdict
	var bad []string
	for _, comp := range changed {
		if !mayChange(g, e, m, v, comp) {
			bad = append(bad, fmt.Sprintf("%s: %s -> %s", comp, trunc(before[comp], 160), trunc(after[comp], 160)))
		}
	}
	if len(bad) > 0 {
		vs = append(vs, verdict{"state-changed", "components that this principal must not be able to change: " + strings.Join(bad, " | ")})
	}
	for db, mk := range markers {
		if bytes.Contains(res.resp, []byte(mk)) && g.level(db, e.sysGrant) < lvR {
			vs = append(vs, verdict{"returned-data", fmt.Sprintf("the response contains %q, which is stored only in %s (principal's right on it: level %d)", mk, db, g.level(db, e.sysGrant))})
			break
		}
	}
	delivered := res.err == nil || res.nResp > 0 // a stream that delivered messages before failing did serve the caller
	if delivered && forbidden(g, e, m, v) {
		vs = append(vs, verdict{"succeeded", fmt.Sprintf("the call returned OK (%d response message(s), %d bytes)", res.nResp, len(res.resp))})
	}
	errs := "OK"
	if res.err != nil {
		errs = trunc(res.err.Error(), 200)
	}
	if len(vs) > 0 {
		var ds []string
		for _, x := range vs {
			ds = append(ds, x.effect+": "+x.detail)
		}
		report(e, g, m.Full, v.Name, vs[0].effect, fmt.Sprintf("group %s, call result: %s\n%s", g, errs, strings.Join(ds, "\n")), e.hist)
	}
	// bookkeeping: distinct outcomes and positive controls
	oc := "refused"
	if res.err == nil {
		oc = "ok"
		if len(changed) > 0 {
			oc = "ok+changed"
		}
	} else if len(changed) > 0 {
		oc = "refused+changed"
	}
	c.Eval(fmt.Sprintf("%s|%s|%s|%s", m.Full, v.Name, g, oc))
	statMu.Lock()
	outcomes[oc]++
	if v.okFrom > 0 && g.valid() && g.Mech == "session" && (g.Sel == "own" || roleLevel[g.Role] == lvSys && g.Sel != "system" && g.Sel != "none") {
		lv := g.maxLevel(e.sysGrant)
		if v.Named {
			lv = g.level(e.named, e.sysGrant)
		}
		if lv >= v.okFrom {
			k := fmt.Sprintf("%s %s by %s", m.Full, v.Name, g.Role)
			posSeen[k] = true
			if delivered && (!v.changes || len(changed) > 0) {
				posOK[k] = true
			} else if _, ok := posOK[k]; !ok {
				posOK[k] = false
			}
		}
	}
	statMu.Unlock()
	if debug {
		fmt.Printf("CELL %-22s %-60s %-18s %-16s changed=%v err=%s\n", g, m.Full, v.Name, oc, changed, errs)
	}

	if v.post != nil {
		v.post(e)
		after = e.snapshot()
	}
	e.snap = after
	// environment upkeep
	if len(vs) > 0 {
		// after a breach: data written to dbown/dbother does not disturb later cells (the consumables count as used);
		// anything else (systemdb, settings, database list) is a state nobody should have produced: the group goes on
		// (all comparisons are relative) but the server is not handed to another group
		for _, comp := range diff(before, after) {
			_, db, _ := strings.Cut(comp, ":")
			if comp == "users" {
				continue
			}
			if (db == dbOwn || db == dbOther) && !strings.HasPrefix(comp, "settings:") {
				e.used[db] = true
				continue
			}
			e.host.retire = true
		}
		if nd := m.Need; !g.valid() && (nd == nUnclassified || nd == nNoAuth || nd == nAuth) {
			e.stale = true // e.g. a Logout that should have been refused: the (wrongly accepted) credentials may be gone now
		}
	}
	for _, db := range allDBs {
		if strings.HasPrefix(after["tx:"+db], "ERR") {
			e.host.dirty = true // a base database was deleted by an authorised principal (its name cannot be reused on this server)
			return
		}
	}
	if before["users"] != after["users"] {
		e.newVictim() // the victim was (legitimately) altered: the next administrative request gets a pristine one
		e.snap = e.snapshot()
	}
	if g.valid() {
		lost := false
		if g.Mech == "session" {
			if e.sessID != "" {
				s, err := e.s.SessManager.GetSession(e.sessID)
				lost = err != nil || s.GetDatabase().GetName() != e.sessDB
			}
		} else {
			nd := m.Need
			lost = res.err == nil && (nd == nUnclassified || nd == nNoAuth || nd == nAuth)
		}
		if lost {
			e.acquire() // CloseSession / Logout / UseDatabase ... consumed the credentials
		}
	}
}

func trunc(s string, n int) string {
	if len(s) > n {
		return s[:n] + "…"
	}
	return s
}

// ---------- driver ----------

type cell struct {
	m *method
	v *variant
}

var hostPool = make(chan *host, 64)

func getHost() *host {
	select {
	case h := <-hostPool:
		return h
	default:
		return newHost()
	}
}

func putHost(h *host) {
	if h.dirty || h.retire || h.groups >= 30 {
		h.close()
		return
	}
	hostPool <- h
}

func runGroup(g group, cells []cell) {
	var e *env
	defer func() {
		if e != nil {
			e.finish()
			putHost(e.host)
		}
	}()
	for i, cl := range cells {
		if c.Expired() {
			c.CapHit(fmt.Sprintf("group %s: %d of %d cells not run (time budget)", g, len(cells)-i, len(cells)))
			return
		}
		if e == nil || e.host.dirty {
			if e != nil {
				putHost(e.host)
				c.Add("host_rebuilds", 1)
			}
			e = newEnv(getHost(), g)
		} else if e.stale {
			e.finish()
			e.host.groups--
			e = newEnv(e.host, g)
		}
		runCell(e, cl.m, cl.v)
	}
}

func groupsFor(thorough bool) (par []group, serial []group) {
	sels := []string{"own", "other", "system", "none"}
	roles := []string{"none", "r", "rw", "admin", "sysadmin"}
	add := func(g group) {
		// the token keys of a user are process wide (pkg/auth): sysadmin token groups of different servers would
		// invalidate each other, they run one after the other
		if g.Role == "sysadmin" && g.Mech == "token" {
			serial = append(serial, g)
		} else {
			par = append(par, g)
		}
	}
	mechs := []string{"session"}
	if thorough {
		mechs = []string{"session", "token"}
	}
	for _, mech := range mechs {
		for _, st := range []string{"nocreds", "bogus"} {
			if st == "nocreds" && mech == "token" {
				continue
			}
			add(group{"rw", "own", st, mech})
		}
		for _, r := range roles {
			for _, s := range sels {
				add(group{r, s, "valid", mech})
				if !thorough {
					continue
				}
				add(group{r, s, "expired", mech})
				if r != "sysadmin" {
					add(group{r, s, "deactivated", mech})
				}
				if r == "r" || r == "rw" || r == "admin" {
					add(group{r, s, "revoked", mech})
				}
				if r == "rw" || r == "admin" {
					add(group{r, s, "downgraded", mech})
				}
				if r == "rw" && s == "own" && mech == "session" {
					add(group{r, s, "revoked-away", mech})
					add(group{r, s, "downgraded-away", mech})
				}
			}
		}
	}
	if !thorough {
		// a sample of the other session states and of the token mechanism (the full product is the thorough tier)
		for _, g := range []group{{"rw", "own", "valid", "token"}, {"rw", "own", "expired", "session"}, {"rw", "own", "deactivated", "session"},
			{"rw", "own", "revoked", "session"}, {"rw", "own", "deactivated", "token"}, {"rw", "own", "deactivated", "token2"},
			{"rw", "own", "revoked-away", "session"}, {"rw", "own", "downgraded-away", "session"}} {
			add(g)
		}
	}
	// groups of writers and admins rebuild servers more often: start them first
	sort.SliceStable(par, func(i, j int) bool {
		w := func(g group) int {
			if g.valid() {
				return -roleLevel[g.Role]
			}
			return 1
		}
		return w(par[i]) < w(par[j])
	})
	if thorough {
		// legacy token while a second client of the same user is logged in too ("token2"), invalidated after login
		for _, r := range roles[:4] {
			add(group{r, "own", "deactivated", "token2"})
			if r != "none" {
				add(group{r, "own", "revoked", "token2"})
			}
			if r == "rw" || r == "admin" {
				add(group{r, "own", "downgraded", "token2"})
			}
		}
	}
	return
}

func main() {
	c = lib.New("C18", "exploration", 100*time.Second, 25*time.Minute)
	if null, err := os.OpenFile(os.DevNull, os.O_WRONLY, 0); err == nil {
		os.Stderr = null // the database manager of DefaultServer() logs to os.Stderr
	}
	methods := loadMethods()
	perSvc := map[string]int{}
	var unclassified []string
	nStream, nVariants := 0, 0
	for _, m := range methods {
		perSvc[m.Service]++
		if !m.Classified {
			unclassified = append(unclassified, m.Full)
		}
		if m.ClientStream || m.ServerStream {
			nStream++
		}
		nVariants += len(m.Variants)
	}
	c.Set("methods_per_service", perSvc)
	c.Set("methods_total", len(methods))
	c.Set("methods_streaming", nStream)
	c.Set("requests_total", nVariants)
	if unclassified == nil {
		unclassified = []string{}
	}
	c.Set("unclassified_methods", unclassified)
	c.Assume("rights are judged from what the sysadmin granted: role on dbown (plus the same role on systemdb in the db=system slice when the server accepts that grant); nothing on dbother/defaultdb")
	c.Assume("a response leaks data iff it contains the marker string stored only in a database the principal cannot read; metadata (database names, tx counts in ServerInfo, the caller's own user record) is not data")
	c.Assume("token expiry is produced by issuing the token with an expiry in the past (Options.TokenExpiryTimeMin=-1), session expiry by back-dating the last activity and letting the real guard remove it")

	if c.ReplayPath != "" {
		var r replay
		c.LoadReplay(&r)
		byName := map[string]*method{}
		for _, m := range methods {
			byName[m.Full] = m
		}
		e := newEnv(newHost(), r.Group)
		for _, cr := range r.Cells {
			m := byName[cr.Method]
			if m == nil {
				continue // the acquisition phase already ran inside newEnv
			}
			for _, v := range m.Variants {
				if v.Name == cr.Variant {
					runCell(e, m, v)
				}
			}
		}
		e.host.close()
		c.Finish("replay", false)
	}

	var cells []cell
	for _, m := range methods {
		for _, v := range m.Variants {
			cells = append(cells, cell{m, v})
		}
	}
	// a successful Login with the principal's own password re-registers the user at the server and thereby changes
	// what the group's (possibly invalidated) token means: these requests run after all the others
	// ... and the deletion of the named database comes last of all (an authorised deletion ends the life of the server)
	rank := func(x cell) int {
		switch {
		case x.m.Short == "DeleteDatabase" && x.v.Name != "zero":
			return 2
		case x.m.Short == "Login" && x.v.Name == "own-creds":
			return 1
		}
		return 0
	}
	sort.SliceStable(cells, func(i, j int) bool { return rank(cells[i]) < rank(cells[j]) })
	par, serial := groupsFor(true) // the full grid takes under a minute: both tiers run it
	c.Set("groups", len(par)+len(serial))
	if f := os.Getenv("C18_GROUP"); f != "" { // development aid: run only the groups whose name contains f
		keep := func(gs []group) (out []group) {
			for _, g := range gs {
				if strings.Contains(g.String(), f) {
					out = append(out, g)
				}
			}
			return
		}
		par, serial = keep(par), keep(serial)
	}
	if os.Getenv("C18_GROUP") == "" || os.Getenv("C18_GROUP") == "midstream" {
		midStreamPass(methods)
	}
	c.ParallelFor(len(par), func(i int) { runGroup(par[i], cells) })
	for _, g := range serial {
		runGroup(g, cells)
	}
	for len(hostPool) > 0 {
		(<-hostPool).close()
	}
	c.Set("cells", cellCount.Load())
	c.Set("seconds_host_env_snapshot_invoke", []float64{time.Duration(tHost.Load()).Seconds(), time.Duration(tEnv.Load()).Seconds(), time.Duration(tSnap.Load()).Seconds(), time.Duration(tInv.Load()).Seconds()})
	c.Set("outcomes", outcomes)
	var failed []string
	okN := 0
	for k := range posSeen {
		if posOK[k] {
			okN++
		} else {
			failed = append(failed, k)
		}
	}
	sort.Strings(failed)
	c.Set("positive_controls_ok", okN)
	c.Set("positive_controls_failed", failed)
	c.Sample(map[string]any{"method": "/immudb.model.DocumentService/InsertDocuments", "request": "new", "group": "none/none/valid/token", "expect": "refused, no component changes"})
	c.Sample(map[string]any{"method": "/immudb.schema.ImmuService/UnloadDatabase", "request": "loaded (names dbother)", "group": "admin/other/valid/session", "expect": "refused: admin of dbown only"})
	c.Sample(map[string]any{"method": "/immudb.schema.ImmuService/streamSet", "request": "new-key", "group": "rw/own/deactivated/session", "expect": "refused: user deactivated after login"})
	c.Sample(map[string]any{"cell": "method x request x role x db x session x auth", "example": "/immudb.schema.ImmuService/Set new-key by r/own/valid/session => must be refused, snapshot of all 4 databases unchanged"})
	c.Finish("every method of the 3 public services x every request variant x every (role, database selection, session state, auth mechanism) group of the tier; "+
		"snapshot of all databases + user list before/after each call; distinct = distinct (method, request, group, outcome)", !c.Expired())
}
