// Mid-stream pass of C18: a bidirectional stream serves several requests; the rights of the caller must be
// re-checked for each of them. For every bidirectional RPC x request variant x auth mechanism x invalidation
// (user deactivated, right revoked, right downgraded below what the call needs, session expired): a principal
// with admin rights opens the stream, has one request served completely, loses the rights, and sends the request
// again on the same stream: nothing may be served any more.
package main

import (
	"context"
	"encoding/binary"
	"fmt"

	"github.com/codenotary/immudb/pkg/api/schema"
	"google.golang.org/grpc"
	"google.golang.org/grpc/metadata"
	"verif/mc/lib"
)

func midStreamPass(methods []*method) {
	n, served := 0, 0
	for _, m := range methods {
		if !(m.ClientStream && m.ServerStream) {
			continue
		}
		for _, v := range m.Variants {
			if v.chunks != nil || v.pre != nil {
				continue
			}
			for _, mech := range []string{"session", "token"} {
				for _, inval := range []string{"deactivated", "revoked", "expired"} {
					if inval == "expired" && mech == "token" {
						continue // a token's expiry is fixed when it is issued
					}
					h := newHost()
					e := newEnv(h, group{"admin", "own", "valid", mech})
					ctx, cancel := context.WithCancel(context.Background())
					if len(e.md) > 0 {
						ctx = metadata.AppendToOutgoingContext(ctx, e.md...)
					}
					st, err := e.conn.NewStream(ctx, &grpc.StreamDesc{ClientStreams: true, ServerStreams: true}, m.Full)
					// one complete answer: immudb streams frame a value as 8 bytes of length + payload over chunks
					recvOne := func() (int, error) {
						got, want := 0, -1
						var head []byte
						for want < 0 || got < want {
							out := m.Out.New().Interface()
							if err := st.RecvMsg(out); err != nil {
								return got, err
							}
							ch, ok := out.(*schema.Chunk)
							if !ok {
								return got + 1, nil // not a chunked answer: one message is one answer
							}
							if want < 0 {
								head = append(head, ch.Content...)
								if len(head) >= 8 {
									want = 8 + int(binary.BigEndian.Uint64(head[:8]))
									got = len(head)
								}
							} else {
								got += len(ch.Content)
							}
						}
						return got, nil
					}
					n++
					c.Eval(fmt.Sprintf("midstream|%s|%s|%s|%s", m.Full, v.Name, mech, inval))
					if err == nil {
						err = st.SendMsg(v.build(e))
					}
					var first int
					if err == nil {
						first, err = recvOne()
					}
					if err != nil || first == 0 {
						c.Add("midstream_first_request_not_served", 1) // this variant is not served even with full rights: nothing to compare
						cancel()
						h.close()
						continue
					}
					served++
					e.g.State = inval
					e.transition()
					bytes2 := 0
					if err := st.SendMsg(v.build(e)); err == nil {
						bytes2, _ = recvOne()
					}
					cancel()
					if bytes2 > 0 {
						g := group{"admin", "own", inval + "-midstream", mech}
						sig := fmt.Sprintf("acl-breach method=%s role=%s db=%s session=%s effect=%s auth=%s req=%s", m.Full, g.Role, g.Sel, g.State, "served", g.Mech, v.Name)
						c.Violate(lib.Violation{Sig: sig, Detail: fmt.Sprintf("user %s (admin of %s) had one request served on an open stream (%d bytes), was then %s, and sent the same request again on the same stream: %d bytes were served", e.user, dbOwn, first, inval, bytes2)})
					}
					h.close()
				}
			}
		}
	}
	c.Set("midstream_cases", n)
	c.Set("midstream_cases_first_request_served", served)
}
