// Tree stage of C03: the recovery of the index (tbtree) on its own. The store trusts whatever state tbtree.Open
// recovers (it re-indexes from Ts()+1 only), so "the recovered index is consistent with the recovered history"
// needs: every crash image of an index directory opens, and the opened tree holds exactly the versions inserted
// up to its recovered logical time — every key readable, every history complete, scans ordered.
// Enumerated: every operation sequence up to a depth over {insert new key, overwrite, unsynced flush, synced
// flush, flush with full cleanup} after a synced prefix x every crash point x every per-file prefix / torn write.
package main

import (
	"crypto/sha256"
	"errors"
	"fmt"
	"os"
	"sort"
	"strings"
	"sync"
	"sync/atomic"
	"time"

	"github.com/codenotary/immudb/embedded/logger"
	"github.com/codenotary/immudb/embedded/tbtree"
	"github.com/codenotary/immudb/embedded/vhooks/vos"
	"github.com/codenotary/immudb/embedded/vhooks/vsched"
	"verif/mc/crashfs"
	"verif/mc/lib"
)

type treeCfg struct {
	Name               string
	NodeSize, FileSize int
	Prefill            int
}

func (cf treeCfg) opts() *tbtree.Options {
	return tbtree.DefaultOptions().WithLogger(logger.NewMemoryLoggerWithLevel(logger.LogError)).
		WithMaxKeySize(32).WithMaxValueSize(8).WithMaxNodeSize(cf.NodeSize).WithCacheSize(1 << 20).
		WithFlushThld(1 << 20).WithSyncThld(1 << 20).WithFileSize(cf.FileSize).WithFlushBufferSize(4096).
		WithCompactionThld(1).WithRenewSnapRootAfter(0).WithCleanupPercentage(0).WithMaxActiveSnapshots(10)
}

var treeOps = []string{"ins(new)", "ins(k0)", "flush", "flush(sync)", "flushWith(100)"}

type treeIns struct{ k, v string }

func treeKey(i int) string { return fmt.Sprintf("key-%02d-%s", i, strings.Repeat("k", 16)) }

// treeRecord runs prefix + path on a fresh tree under the journal and returns the journal and the insert history
// (the i-th insert has logical time i+1).
func treeRecord(cf treeCfg, path []int) (ops []vos.Op, live string, inserts []treeIns, fail string) {
	quiesce()
	live = lib.Scratch("c03tree")
	vos.Reset(true)
	e := vsched.Run(nil, vsched.Options{MaxSteps: 2000000}, func() {
		t, err := tbtree.Open(live, cf.opts())
		if err != nil {
			panic(err)
		}
		nkeys := 0
		ins := func(k, v string) {
			if err := t.Insert([]byte(k), []byte(v)); err != nil {
				panic(err)
			}
			inserts = append(inserts, treeIns{k, v})
		}
		for i := 0; i < cf.Prefill; i++ {
			ins(treeKey(nkeys), "p")
			nkeys++
		}
		if _, _, err := t.FlushWith(0, true); err != nil {
			panic(err)
		}
		for i, op := range path {
			var err error
			switch op {
			case 0:
				ins(treeKey(nkeys), fmt.Sprintf("n%d", i))
				nkeys++
			case 1:
				ins(treeKey(0), fmt.Sprintf("o%d", i))
			case 2:
				_, _, err = t.FlushWith(0, false)
			case 3:
				_, _, err = t.FlushWith(0, true)
			case 4:
				_, _, err = t.FlushWith(100, false)
			}
			if err != nil {
				panic(fmt.Sprintf("%s: %v", treeOps[op], err))
			}
		}
		if err := t.Close(); err != nil {
			panic(err)
		}
	})
	ops = append([]vos.Op{}, vos.Journal...)
	vos.Reset(false)
	return ops, live, inserts, e.Failure
}

type treeVer struct {
	v  string
	ts uint64
}

// treeSweep compares the whole content of an opened tree with the inserts up to its logical time.
func treeSweep(t *tbtree.TBtree, inserts []treeIns) (what, detail string) {
	ts := t.Ts()
	if ts > uint64(len(inserts)) {
		return "ts-beyond-history", fmt.Sprintf("recovered Ts()=%d, only %d inserts were made", ts, len(inserts))
	}
	ref := map[string][]treeVer{}
	for i, in := range inserts[:ts] {
		ref[in.k] = append(ref[in.k], treeVer{in.v, uint64(i + 1)})
	}
	var ks []string
	for k := range ref {
		ks = append(ks, k)
	}
	sort.Strings(ks)
	ss, err := t.SyncSnapshot()
	if err != nil {
		return "syncsnapshot", err.Error()
	}
	defer ss.Close()
	for _, k := range ks {
		vs := ref[k]
		w := vs[len(vs)-1]
		v, vts, hc, err := ss.Get([]byte(k))
		if err != nil || string(v) != w.v || vts != w.ts || int(hc) != len(vs) {
			return "get", fmt.Sprintf("recovered Ts()=%d: Get(%s) = %q@%d#%d err=%v, inserted %q@%d#%d", ts, k, v, vts, hc, err, w.v, w.ts, len(vs))
		}
		tvs, n, err := ss.History([]byte(k), 0, false, 100)
		if err != nil || int(n) != len(vs) || len(tvs) != len(vs) {
			return "history", fmt.Sprintf("recovered Ts()=%d: History(%s) = %d of %d versions err=%v, inserted %d", ts, k, len(tvs), n, err, len(vs))
		}
		for i, tv := range tvs {
			if string(tv.Value) != vs[i].v || tv.Ts != vs[i].ts {
				return "history", fmt.Sprintf("recovered Ts()=%d: History(%s)[%d] = %q@%d, inserted %q@%d", ts, k, i, tv.Value, tv.Ts, vs[i].v, vs[i].ts)
			}
		}
	}
	for _, desc := range []bool{false, true} {
		r, err := ss.NewReader(tbtree.ReaderSpec{DescOrder: desc})
		if err != nil {
			return "reader", err.Error()
		}
		var got []string
		for {
			key, _, _, _, err := r.Read()
			if err != nil {
				if !errors.Is(err, tbtree.ErrNoMoreEntries) {
					got = append(got, "ERR:"+err.Error())
				}
				break
			}
			got = append(got, string(key))
		}
		r.Close()
		want := append([]string{}, ks...)
		if desc {
			sort.Sort(sort.Reverse(sort.StringSlice(want)))
		}
		if fmt.Sprint(got) != fmt.Sprint(want) {
			return "scan", fmt.Sprintf("recovered Ts()=%d: reader desc=%v returned %v, want %v", ts, desc, got, want)
		}
	}
	return "", ""
}

// treeCheckImage: the oracle on one materialised image of an index directory.
func treeCheckImage(cf treeCfg, inserts []treeIns, dir string) (sig, detail string) {
	var t *tbtree.TBtree
	var err error
	if p := lib.Catch(func() { t, err = tbtree.Open(dir, cf.opts()) }); p != "" {
		return "tree-recovery-panic", p
	}
	if err != nil {
		return "tree-reopen-failed err=" + classify(err.Error()), err.Error()
	}
	closed := false
	defer func() {
		if !closed {
			t.Close()
		}
	}()
	var what, det string
	if p := lib.Catch(func() { what, det = treeSweep(t, inserts) }); p != "" {
		return "tree-read-panic", p
	}
	if what != "" {
		return "tree-recovered-" + what, det
	}
	// the recovered tree accepts what the indexer does next (the insert with the next logical time), persists it
	// and is the same after another restart
	ts := t.Ts()
	hist := append(append([]treeIns{}, inserts[:ts]...), treeIns{treeKey(0), "after"}, treeIns{"zz-after-crash", "nv"})
	for _, in := range hist[ts:] {
		if err := t.Insert([]byte(in.k), []byte(in.v)); err != nil {
			return "tree-insert-after-recovery-failed", err.Error()
		}
	}
	if what, det := treeSweep(t, hist); what != "" {
		return "tree-after-insert-" + what, det
	}
	closed = true
	if err := t.Close(); err != nil {
		if strings.Contains(err.Error(), "already closed") {
			return "tree-close-after-recovery-failed err=already-closed", err.Error()
		}
		return "tree-close-after-recovery-failed", err.Error()
	}
	t, err = tbtree.Open(dir, cf.opts())
	if err != nil {
		return "tree-second-reopen-failed", err.Error()
	}
	closed = false
	if t.Ts() != uint64(len(hist)) {
		return "tree-second-reopen-ts", fmt.Sprintf("Ts()=%d after a clean close at %d", t.Ts(), len(hist))
	}
	if what, det := treeSweep(t, hist); what != "" {
		return "tree-second-reopen-" + what, det
	}
	return "", ""
}

type treeReplay struct {
	Cfg   treeCfg `json:"tree_cfg"`
	Path  []int   `json:"tree_path"`
	Point int     `json:"point"`
	Desc  string  `json:"desc"`
}

func treeNames(path []int) []string {
	var s []string
	for _, o := range path {
		s = append(s, treeOps[o])
	}
	return s
}

var treeSeen = map[[32]byte]bool{}
var treeSeenMu sync.Mutex
var treeHangs atomic.Int64

// treeJournal crash-enumerates one sequence; only (r != nil) the image named by the replay file.
func treeJournal(cf treeCfg, path []int, r *treeReplay) (images, distinct int, ok bool) {
	ops, live, inserts, fail := treeRecord(cf, path)
	defer os.RemoveAll(live)
	if fail != "" {
		fmt.Fprintln(os.Stderr, "HARNESS ERROR: tree workload", cf.Name, treeNames(path), "failed:", fail)
		os.Exit(2)
	}
	type job struct{ img *crashfs.Image }
	jobs := make(chan job, 64)
	var wg sync.WaitGroup
	var n atomic.Int64
	for k := 0; k < c.Workers; k++ {
		wg.Add(1)
		go func() {
			defer wg.Done()
			dir := lib.Scratch("c03timg")
			defer os.RemoveAll(dir)
			for j := range jobs {
				if err := j.img.Materialise(live, dir); err != nil {
					panic(err)
				}
				// a read of the recovered tree that does not come back (a cycle followed in damaged logs) is reported, not
				// waited for: 60 s for a check that takes about a millisecond; the stuck goroutine is abandoned
				type res struct{ sig, det string }
				ch := make(chan res, 1)
				go func() { s, d := treeCheckImage(cf, inserts, dir); ch <- res{s, d} }()
				var sig, det string
				select {
				case r := <-ch:
					sig, det = r.sig, r.det
				case <-time.After(60 * time.Second):
					sig, det = "tree-recovered-hang", "Open / sweep of the recovered tree did not return within 60 s"
					treeHangs.Add(1)
					dir = lib.Scratch("c03timg") // the abandoned goroutine still uses the old one
				}
				n.Add(1)
				c.Eval(fmt.Sprintf("tree:%x", j.img.Hash[:8]))
				if sig != "" {
					c.Violate(lib.Violation{Sig: fmt.Sprintf("%s cfg=%s ops=%v torn=%s after=%q", sig, cf.Name, treeNames(path), tornFiles(j.img.Desc), j.img.LastOp),
						Detail: fmt.Sprintf("tbtree {%+v}: %d prefilled keys + synced flush, then %v, Close; crash point %d (after %s), un-fsynced writes applied: %s\n%s", cf, cf.Prefill, treeNames(path), j.img.Point, j.img.LastOp, j.img.Desc, det),
						Replay: treeReplay{cf, path, j.img.Point, j.img.Desc}})
				}
			}
		}()
	}
	st := crashfs.Enumerate(ops, crashfs.Options{Torn: true, Holes: true, MaxPerPoint: 4096}, map[[32]byte]bool{}, func(img *crashfs.Image) bool {
		if r != nil {
			if img.Point == r.Point && img.Desc == r.Desc {
				jobs <- job{img}
			}
			return true
		}
		if c.Expired() || treeHangs.Load() > 0 {
			return false
		}
		// images are deduplicated across sequences by content (paths relative to the tree directory)
		var names []string
		for p := range img.Files {
			names = append(names, p)
		}
		sort.Strings(names)
		h := sha256.New()
		fmt.Fprintf(h, "%s|", cf.Name)
		for _, p := range names {
			fmt.Fprintf(h, "F%s|%d|", strings.TrimPrefix(p, live), len(img.Files[p]))
			h.Write(img.Files[p])
		}
		var k [32]byte
		copy(k[:], h.Sum(nil))
		treeSeenMu.Lock()
		dup := treeSeen[k]
		treeSeen[k] = true
		treeSeenMu.Unlock()
		if !dup {
			jobs <- job{img}
		}
		return true
	})
	close(jobs)
	wg.Wait()
	if st.CapsHit > 0 {
		c.CapHit(fmt.Sprintf("tree stage %s %v: %d crash points exceeded 4096 images", cf.Name, treeNames(path), st.CapsHit))
	}
	return st.Images, int(n.Load()), !c.Expired() && treeHangs.Load() == 0
}

// the first four configurations are the quick grid; the file sizes move the chunk boundaries of the three logs
// relative to the flushes
var treeCfgs = []treeCfg{
	{"node200-file256-3leaves", 200, 256, 8},
	{"node200-file512-3leaves", 200, 512, 8},
	{"node200-file256", 200, 256, 3},
	{"node200-file4096", 200, 4096, 3},
	{"node200-file384-3leaves", 200, 384, 8},
	{"node200-file640-3leaves", 200, 640, 8},
	{"node200-file768-3leaves", 200, 768, 8},
	{"node430-file256", 430, 256, 5},
}

// treeStage: iterative deepening over the sequences, all configurations at depth d before d+1.
func treeStage(maxDepth int, cfgs []treeCfg) map[string]any {
	sum := map[string]any{"stage": "tbtree recovery", "alphabet": treeOps}
	seqs, images, distinct, completed := 0, 0, 0, 0
	for d := 1; d <= maxDepth; d++ {
		n := 1
		for i := 0; i < d; i++ {
			n *= len(treeOps)
		}
		full := true
		for _, cf := range cfgs {
			for i := 0; i < n && full; i++ {
				path := make([]int, d)
				for k, x := d-1, i; k >= 0; k-- {
					path[k] = x % len(treeOps)
					x /= len(treeOps)
				}
				im, di, ok := treeJournal(cf, path, nil)
				images += im
				distinct += di
				if !ok {
					full = false
					break
				}
				seqs++
				c.AddStates(1, int64(d))
			}
		}
		if !full {
			c.CapHit(fmt.Sprintf("tree stage: time share reached at depth %d", d))
			break
		}
		completed = d
	}
	sum["configurations"] = cfgs
	sum["sequences"], sum["images"], sum["distinct_images_checked"], sum["depth_completed"] = seqs, images, distinct, completed
	return sum
}
