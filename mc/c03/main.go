// C03 — crash durability: acknowledged commits survive; recovery is a consistent prefix.
// Engine E2 (crashfs): every crash point of the journal of a short workload on the real synced store x every
// per-file prefix of un-fsynced writes (+ torn variants); each distinct image is reopened with the real
// recovery code and checked against the ledger of acknowledged commits.
package main

import (
	"context"
	"crypto/sha256"
	"encoding/json"
	"fmt"
	"os"
	"path/filepath"
	"runtime"
	"sort"
	"strings"
	"sync"
	"time"

	"github.com/codenotary/immudb/embedded/store"
	"github.com/codenotary/immudb/embedded/vhooks/vos"
	"github.com/codenotary/immudb/embedded/vhooks/vsched"
	"verif/mc/crashfs"
	"verif/mc/lib"
	"verif/mc/sched"
	"verif/mc/storeh"
)

var c *lib.Check

type workload struct {
	name string
	opts func() *store.Options
	run  func(st *store.ImmuStore, ack func(h *store.TxHeader)) // runs as thread 0 under the scheduler
}

func syncedOpts() *store.Options {
	return storeh.SmallOptions().WithSynced(true).
		WithAHTOptions(store.DefaultAHTOptions().WithWriteBufferSize(4096).WithSyncThld(2)).
		WithIndexOptions(store.DefaultIndexOptions().WithFlushBufferSize(4096).WithCacheSize(64).WithBulkPreparationTimeout(time.Hour))
}

func commitN(n int, valLen func(i int) int) func(st *store.ImmuStore, ack func(h *store.TxHeader)) {
	return func(st *store.ImmuStore, ack func(h *store.TxHeader)) {
		ctx := context.Background()
		for i := 0; i < n; i++ {
			tx, err := st.NewWriteOnlyTx(ctx)
			if err != nil {
				panic(err)
			}
			tx.Set([]byte(fmt.Sprintf("k%d", i%2)), nil, []byte(fmt.Sprintf("v%d-%s", i, strings.Repeat("x", valLen(i)))))
			if i%3 == 2 {
				tx.Set([]byte("extra"), nil, []byte{byte('0' + i)})
			}
			h, err := tx.Commit(ctx)
			if err != nil {
				panic(err)
			}
			ack(h)
		}
	}
}

var workloads = []workload{
	{"seq4", syncedOpts, commitN(4, func(i int) int { return 10 * i })},
	{"rotate6", func() *store.Options { return syncedOpts().WithFileSize(256) }, commitN(6, func(i int) int { return 40 })},
	{"indexflush5", func() *store.Options {
		return syncedOpts().WithIndexOptions(store.DefaultIndexOptions().WithFlushBufferSize(4096).WithCacheSize(64).WithFlushThld(1).WithSyncThld(2).WithBulkPreparationTimeout(time.Hour))
	}, commitN(5, func(i int) int { return 5 })},
	// index flushed after every transaction, synced after the 3rd flush only, 256-byte chunks: the nodes log of the index
	// rotates between unsynced flushes (a finished chunk is flushed, not fsynced)
	{"indexflush-rotate5", func() *store.Options {
		return syncedOpts().WithFileSize(256).WithIndexOptions(store.DefaultIndexOptions().WithFlushBufferSize(4096).WithCacheSize(64).WithFlushThld(1).WithSyncThld(3).WithMaxNodeSize(430).WithBulkPreparationTimeout(time.Hour))
	}, func(st *store.ImmuStore, ack func(h *store.TxHeader)) {
		ctx := context.Background()
		for i := 0; i < 5; i++ {
			tx, err := st.NewWriteOnlyTx(ctx)
			if err != nil {
				panic(err)
			}
			tx.Set([]byte(fmt.Sprintf("key-%02d-%s", i, strings.Repeat("k", 16))), nil, []byte(fmt.Sprintf("v%d", i)))
			h, err := tx.Commit(ctx)
			if err != nil {
				panic(err)
			}
			ack(h)
			if err := st.WaitForIndexingUpto(ctx, h.ID); err != nil {
				panic(err)
			}
		}
	}},
	{"embedded-prealloc4", func() *store.Options {
		return syncedOpts().WithEmbeddedValues(true).WithPreallocFiles(true).WithFileSize(512)
	}, commitN(4, func(i int) int { return 30 })},
	{"ahtsync1-v0-io2", func() *store.Options {
		return syncedOpts().WithWriteTxHeaderVersion(0).WithMaxIOConcurrency(2).WithAHTOptions(store.DefaultAHTOptions().WithWriteBufferSize(4096).WithSyncThld(1))
	}, commitN(4, func(i int) int { return 8 })},
	{"allowance-backlog", func() *store.Options { return syncedOpts().WithExternalCommitAllowance(true) }, func(st *store.ImmuStore, ack func(h *store.TxHeader)) {
		// precommitted-but-uncommitted backlog: three committers block until the allowance is granted step by step.
		// What a replica reports to its primary as durably precommitted (PrecommittedAlh) is an acknowledgement as
		// well: it is sampled at every step of the driver, also while a later transaction is precommitted in memory
		// only; a crash after a report must not lose the reported transaction
		ctx := context.Background()
		var last uint64
		sample := func() {
			if id, _ := st.PrecommittedAlh(); id > last {
				last = id
				vos.Mark(fmt.Sprintf("dur %d", id))
			}
		}
		for i := 0; i < 3; i++ {
			i := i
			vsched.Spawn(func() {
				tx, _ := st.NewWriteOnlyTx(ctx)
				tx.Set([]byte(fmt.Sprintf("k%d", i%2)), nil, []byte(fmt.Sprintf("val%d", i)))
				h, err := tx.AsyncCommit(ctx)
				if err != nil {
					panic(err)
				}
				ack(h)
			})
			for st.LastPrecommittedTxID() < uint64(i+1) {
				sample()
				vsched.Pause("wait for the precommit")
			}
			sample()
			if i < 2 { // the next committer arrives once this transaction is durable
				for last < uint64(i+1) {
					vsched.Pause("wait for the syncer")
					sample()
				}
			}
		}
		for id := uint64(1); id <= 3; id++ {
			sample()
			if err := st.AllowCommitUpto(id); err != nil {
				panic(err)
			}
			sample()
			if err := st.WaitForTx(ctx, id, false); err != nil {
				panic(err)
			}
		}
		sample()
		vsched.Join()
	}},
	{"discard-then-recommit", func() *store.Options {
		return syncedOpts().WithExternalCommitAllowance(true).WithAHTOptions(store.DefaultAHTOptions().WithWriteBufferSize(4096).WithSyncThld(8))
	}, func(st *store.ImmuStore, ack func(h *store.TxHeader)) {
		// tx1 committed; tx2-A and tx3-A precommitted then discarded; a different tx2-B committed
		ctx := context.Background()
		commit := func(v string, c context.Context, mustAck bool) {
			vsched.Spawn(func() {
				tx, _ := st.NewWriteOnlyTx(c)
				tx.Set([]byte("k"), nil, []byte(v))
				h, err := tx.AsyncCommit(c)
				if err == nil && mustAck {
					ack(h)
				}
			})
		}
		waitPre := func(n uint64) {
			for st.LastPrecommittedTxID() < n {
				vsched.Pause("wait for precommit")
			}
		}
		commit("one", ctx, true)
		waitPre(1)
		st.AllowCommitUpto(1)
		st.WaitForTx(ctx, 1, false)
		cctx, cancel := context.WithCancel(ctx)
		commit("two-A", cctx, false)
		waitPre(2)
		commit("three-A", cctx, false)
		waitPre(3)
		if _, err := st.DiscardPrecommittedTxsSince(2); err != nil {
			panic(err)
		}
		cancel()
		vsched.Join()
		commit("two-B", ctx, true)
		waitPre(2)
		st.AllowCommitUpto(2)
		st.WaitForTx(ctx, 2, false)
		vsched.Join()
	}},
}

type result struct {
	ops    []vos.Op
	live   string
	ledger *storeh.Ledger
	order  []uint64 // acked ids in acknowledgement order
	fail   string
}

func record(w workload) result {
	quiesce()
	live := lib.Scratch("c03live")
	l := storeh.NewLedger()
	var order []uint64
	vos.Reset(true)
	e := vsched.Run(nil, vsched.Options{KeepTrace: os.Getenv("VERIF_DEBUG") != ""}, func() {
		st, err := store.Open(live, w.opts())
		if err != nil {
			panic(err)
		}
		w.run(st, func(h *store.TxHeader) {
			rec, err := storeh.ReadRec(st, h.ID, true)
			if err != nil {
				panic(fmt.Sprintf("acked tx %d unreadable: %v", h.ID, err))
			}
			l.Acked[h.ID] = rec
			order = append(order, h.ID)
			vos.Mark(fmt.Sprintf("ack %d", h.ID))
		})
		if err := st.Close(); err != nil {
			panic(err)
		}
	})
	if os.Getenv("VERIF_DEBUG") != "" && e.Failure != "" {
		t := e.Trace
		if len(t) > 4000 {
			t = t[:4000]
		}
		fmt.Fprintln(os.Stderr, strings.Join(t, "\n"))
	}
	ops := append([]vos.Op{}, vos.Journal...)
	vos.Reset(false)
	return result{ops: ops, live: live, ledger: l, order: order, fail: e.Failure}
}

// checkImage is the C03 oracle on one materialised image.
func checkImage(w workload, r result, img *crashfs.Image, dir string) (sig, detail string) {
	acked := map[uint64]*storeh.TxRec{}
	var reportedDurable uint64
	for _, m := range img.Marks {
		var id uint64
		if n, _ := fmt.Sscanf(m, "dur %d", &id); n == 1 {
			reportedDurable = max(reportedDurable, id)
			continue
		}
		fmt.Sscanf(m, "ack %d", &id)
		acked[id] = r.ledger.Acked[id]
	}
	l := &storeh.Ledger{Acked: acked}
	var st *store.ImmuStore
	var err error
	if p := lib.Catch(func() { st, err = store.Open(dir, w.opts()) }); p != "" {
		return "recovery-panic", p
	}
	if err != nil {
		return "reopen-failed err=" + classify(err.Error()), err.Error()
	}
	defer func() {
		if st != nil {
			st.Close()
		}
	}()
	ctx, cancel := context.WithTimeout(context.Background(), 30*time.Second)
	defer cancel()
	// recovery reloads precommitted-but-uncommitted transactions; without an external allowance the syncer commits
	// them shortly after Open returns: wait for that so that the committed frontier is stable while we look at it
	if w.name == "allowance-backlog" || w.name == "discard-then-recommit" {
		st.SetExternalCommitAllowance(false)
	}
	if pre := st.LastPrecommittedTxID(); pre > st.LastCommittedTxID() {
		if err := st.WaitForTx(ctx, pre, false); err != nil {
			return "recovered-precommitted-never-committed", fmt.Sprintf("precommitted tx %d reloaded by recovery is never committed: %v", pre, err)
		}
	}
	if d := l.CheckHistory(st, 0); d != "" {
		return "recovered-history " + classify(d), d
	}
	n, _ := st.CommittedAlh()
	if n < reportedDurable {
		return "reported-durable-precommit-lost", fmt.Sprintf("PrecommittedAlh() reported tx %d as durably precommitted before the crash; the recovered store holds %d transactions", reportedDurable, n)
	}
	// clients holding a state verified before the crash can still prove consistency
	if n > 0 {
		tgt, err := st.ReadTxHeader(n, false, false)
		if err != nil {
			return "read-header-failed", err.Error()
		}
		for id, a := range acked {
			src := a.Hdr
			dp, err := st.DualProof(&src, tgt)
			if err != nil {
				return "dualproof-failed", fmt.Sprintf("DualProof(%d,%d): %v", id, n, err)
			}
			if !store.VerifyDualProof(dp, id, n, a.Alh, tgt.Alh()) {
				return "dualproof-rejected", fmt.Sprintf("DualProof(acked %d -> recovered %d) does not verify", id, n)
			}
		}
	}
	// index agrees with the recovered history
	if err := st.WaitForIndexingUpto(ctx, n); err != nil {
		return "indexing-after-recovery-failed", err.Error()
	}
	want := map[string]string{}
	for id := uint64(1); id <= n; id++ {
		rec, err := storeh.ReadRec(st, id, true)
		if err != nil {
			return "recovered-tx-unreadable", err.Error()
		}
		for _, e := range rec.Ents {
			want[string(e.Key)] = string(e.Value)
		}
	}
	for k, v := range want {
		vr, err := st.Get(ctx, []byte(k))
		if err != nil {
			return "index-mismatch", fmt.Sprintf("Get(%s): %v, history says %q", k, err, v)
		}
		b, err := vr.Resolve()
		if err != nil || string(b) != v {
			return "index-mismatch", fmt.Sprintf("Get(%s)=%q err=%v, history says %q", k, b, err, v)
		}
	}
	// the database accepts new commits afterwards
	tx, err := st.NewWriteOnlyTx(ctx)
	if err != nil {
		return "commit-after-recovery-failed", err.Error()
	}
	tx.Set([]byte("after-crash"), nil, []byte("nv"))
	h, err := tx.Commit(ctx)
	if err != nil {
		return "commit-after-recovery-failed", err.Error()
	}
	if h.ID <= n {
		return "id-reused-after-recovery", fmt.Sprintf("new tx got id %d, recovered history had %d txs", h.ID, n)
	}
	vr, err := st.Get(ctx, []byte("after-crash"))
	if err != nil {
		return "commit-after-recovery-unreadable", err.Error()
	}
	if b, _ := vr.Resolve(); string(b) != "nv" {
		return "commit-after-recovery-unreadable", fmt.Sprintf("value %q", b)
	}
	rec, _ := storeh.ReadRec(st, h.ID, true)
	l.Acked[h.ID] = rec
	fp := storeh.Fingerprint(st)
	if err := st.Close(); err != nil {
		st = nil
		if msg := err.Error(); strings.Contains(msg, "returned: [") &&
			strings.Trim(strings.ReplaceAll(msg[strings.LastIndex(msg, "returned: [")+len("returned: ["):], "singleapp: already closed", ""), " ]") == "" {
			return "close-after-recovery-failed err=already-closed", err.Error()
		}
		return "close-after-recovery-failed", err.Error()
	}
	st, err = store.Open(dir, w.opts())
	if err != nil {
		st = nil
		return "second-reopen-failed", err.Error()
	}
	if d := l.CheckHistory(st, 0); d != "" {
		return "second-reopen-history " + classify(d), d
	}
	if fp2 := storeh.Fingerprint(st); fp2 != fp {
		return "second-reopen-changed-history", fp + " vs " + fp2
	}
	return "", ""
}

func classify(s string) string {
	for i, r := range s {
		if r >= '0' && r <= '9' {
			s = s[:i]
			break
		}
	}
	return strings.ReplaceAll(strings.TrimSpace(s), " ", "_")
}

var depth2 bool
var depth2Every = 8
var recoveryJobs = make(chan *crashfs.Image, 1<<16)

// recoverUnderJournal runs the real recovery (Open, wait for indexing, Close) on a materialised image under the
// controlled scheduler with journaling and returns its journal (paths are under dir).
var baseGoroutines int

// quiesce waits until the background goroutines of stores used in free-running mode (oracle checks) are gone:
// a scheduled execution must not share the process with free-running instrumented goroutines.
var quiesceWaits, quiesceTimeouts int

func quiesce() bool {
	for i := 0; i < 400; i++ {
		if runtime.NumGoroutine() <= baseGoroutines {
			return true
		}
		quiesceWaits++
		time.Sleep(5 * time.Millisecond)
	}
	quiesceTimeouts++
	if os.Getenv("VERIF_DEBUG") != "" {
		buf := make([]byte, 1<<16)
		fmt.Fprintf(os.Stderr, "quiesce timeout: %d goroutines (base %d)\n%s\n", runtime.NumGoroutine(), baseGoroutines, buf[:runtime.Stack(buf, true)])
	}
	return false
}

func recoverUnderJournal(w workload, dir string) ([]vos.Op, string) {
	if !quiesce() {
		return nil, "skip: background goroutines of earlier free-running checks did not terminate"
	}
	vos.Reset(true)
	e := vsched.Run(nil, vsched.Options{MaxSteps: 2000000}, func() {
		st, err := store.Open(dir, w.opts())
		if err != nil {
			return
		}
		if w.name == "allowance-backlog" || w.name == "discard-then-recommit" {
			st.SetExternalCommitAllowance(false)
		}
		ctx := context.Background()
		if pre := st.LastPrecommittedTxID(); pre > st.LastCommittedTxID() {
			st.WaitForTx(ctx, pre, false)
		}
		st.WaitForIndexingUpto(ctx, st.LastCommittedTxID())
		st.Close()
	})
	ops := append([]vos.Op{}, vos.Journal...)
	vos.Reset(false)
	return ops, e.Failure
}

// checkJournal enumerates and checks every crash image of one recorded execution.
func checkJournal(w workload, res result, seen map[[32]byte]bool, opts crashfs.Options) map[string]any {
	for len(recoveryJobs) > 0 { // images of an earlier journal whose time share ended: they belong to that journal's workload
		<-recoveryJobs
	}
	kinds := map[string]int{}
	for _, o := range res.ops {
		kinds[o.Kind]++
	}
	// enumerate images sequentially, check them in parallel
	type job struct{ img *crashfs.Image }
	jobs := make(chan job, 64)
	var wg sync.WaitGroup
	var mu sync.Mutex
	checked := 0
	for k := 0; k < c.Workers; k++ {
		wg.Add(1)
		go func() {
			defer wg.Done()
			dir := lib.Scratch("c03img")
			defer os.RemoveAll(dir)
			for j := range jobs {
				if err := j.img.Materialise(res.live, dir); err != nil {
					panic(err)
				}
				sig, det := checkImage(w, res, j.img, dir)
				mu.Lock()
				checked++
				n2 := checked
				mu.Unlock()
				if sig == "" && depth2 && n2%depth2Every == 0 {
					recoveryJobs <- j.img
				}
				c.Eval(fmt.Sprintf("%s:%x", w.name, j.img.Hash[:8]))
				if sig != "" {
					c.Violate(lib.Violation{Sig: fmt.Sprintf("%s workload=%s torn=%s after=%q acked=%d", sig, w.name, tornFiles(j.img.Desc), j.img.LastOp, len(j.img.Marks)),
						Detail: fmt.Sprintf("crash point %d (after %s), un-fsynced writes applied: %s\n%s", j.img.Point, j.img.LastOp, j.img.Desc, det),
						Replay: replay{Workload: w.name, Point: j.img.Point, Desc: j.img.Desc}})
				}
			}
		}()
	}
	st := crashfs.Enumerate(res.ops, opts, seen, func(img *crashfs.Image) bool {
		if c.Expired() {
			return false
		}
		jobs <- job{img}
		return true
	})
	close(jobs)
	wg.Wait()
	if c.Expired() {
		c.CapHit("workload " + w.name + ": time budget reached")
	}
	if st.CapsHit > 0 {
		c.CapHit(fmt.Sprintf("workload %s: %d crash points exceeded %d images", w.name, st.CapsHit, opts.MaxPerPoint))
	}
	checked2, recoveries := 0, 0
	for depth2 && !c.Expired() {
		var img *crashfs.Image
		select {
		case img = <-recoveryJobs:
		default:
		}
		if img == nil {
			break
		}
		base := lib.Scratch("c03rec")
		if err := img.Materialise(res.live, base); err != nil {
			panic(err)
		}
		ops2, fail := recoverUnderJournal(w, base)
		recoveries++
		if strings.HasPrefix(fail, "skip:") {
			c.CapHit("crash-during-recovery: " + fail)
			os.RemoveAll(base)
			continue
		}
		if fail != "" {
			c.Violate(lib.Violation{Sig: fmt.Sprintf("recovery-run-failed workload=%s %s", w.name, classify(strings.SplitN(fail, "\n", 2)[0])), Detail: fail})
			os.RemoveAll(base)
			continue
		}
		// second-level images: crash points of the recovery run on top of the first-level image
		o2 := opts
		o2.BaseFiles, o2.BaseDirs, o2.Marks = map[string][]byte{}, nil, img.Marks
		for p, cnt := range img.Files {
			o2.BaseFiles[base+strings.TrimPrefix(p, res.live)] = cnt
		}
		for _, d := range img.Dirs {
			o2.BaseDirs = append(o2.BaseDirs, base+strings.TrimPrefix(d, res.live))
		}
		o2.MaxPerPoint = 64
		var imgs []*crashfs.Image
		crashfs.Enumerate(ops2, o2, seen, func(i2 *crashfs.Image) bool { imgs = append(imgs, i2); return len(imgs) < 4000 })
		var wg2 sync.WaitGroup
		var mu2 sync.Mutex
		next := 0
		for k := 0; k < c.Workers; k++ {
			wg2.Add(1)
			go func() {
				defer wg2.Done()
				dir := lib.Scratch("c03img2")
				defer os.RemoveAll(dir)
				for {
					mu2.Lock()
					i := next
					next++
					mu2.Unlock()
					if i >= len(imgs) || c.Expired() {
						return
					}
					if err := imgs[i].Materialise(base, dir); err != nil {
						panic(err)
					}
					sig, det := checkImage(w, res, imgs[i], dir)
					c.Eval(fmt.Sprintf("%s:2:%x", w.name, imgs[i].Hash[:8]))
					mu2.Lock()
					checked2++
					mu2.Unlock()
					if sig != "" {
						c.Violate(lib.Violation{Sig: fmt.Sprintf("%s workload=%s second-crash-during-recovery torn=%s after=%q acked=%d", sig, w.name, tornFiles(imgs[i].Desc), imgs[i].LastOp, len(imgs[i].Marks)),
							Detail: fmt.Sprintf("first crash at point %d (%s), second crash during recovery at point %d (after %s), un-fsynced writes applied: %s\n%s", img.Point, img.Desc, imgs[i].Point, imgs[i].LastOp, imgs[i].Desc, det)})
					}
				}
			}()
		}
		wg2.Wait()
		os.RemoveAll(base)
	}
	return map[string]any{"workload": w.name, "journal_ops": len(res.ops), "op_kinds": kinds, "crash_points": st.Points, "images": st.Images, "distinct_images_checked": checked, "acked": len(res.order),
		"recovery_runs_crashed_again": recoveries, "second_level_images_checked": checked2}
}

type replay struct {
	AhtCfg   *ahtCfg  `json:"aht_cfg,omitempty"`
	AhtPath  []int    `json:"aht_path,omitempty"`
	TreeCfg  *treeCfg `json:"tree_cfg,omitempty"`
	TreePath []int    `json:"tree_path,omitempty"`
	Workload string   `json:"workload"`
	Point    int      `json:"point"`
	Desc     string   `json:"desc"`
	Ops      []vos.Op `json:"ops"`
}

func nonDefault(e *vsched.Exec) (r []string) {
	for i, p := range e.Points {
		if p.Chosen != 0 {
			r = append(r, fmt.Sprintf("%d:%d/%d->T%d", i, p.Chosen, p.N, p.Tid))
		}
	}
	return
}

func main() {
	c = lib.New("C03", "fault_enumeration", 170*time.Second, 25*time.Minute)
	baseGoroutines = runtime.NumGoroutine()
	c.Assume("persistence model: per-file prefix of un-fsynced writes + torn next write; directory entry durable once the file or its parent directory was fsynced; remove/rename atomic and ordered")
	c.Assume("tree stage: additionally, un-fsynced writes of one file may reach the disk out of order (every prefix with one earlier write missing); a recovered tree whose Open or sweep does not return within 60 s counts as a hang")
	c.Assume("workloads run under the cooperative scheduler with the default schedule, so the journal is reproducible")
	opts := crashfs.Options{Torn: true, MaxPerPoint: 4096}
	depth2 = true
	if c.Thorough() {
		depth2Every = 1
	}
	wls := workloads
	if only := os.Getenv("VERIF_ONLY"); only != "" {
		wls = nil
		for _, w := range workloads {
			if w.name == only {
				wls = append(wls, w)
			}
		}
	}
	if c.ReplayPath != "" {
		var r replay
		c.LoadReplay(&r)
		if r.AhtCfg != nil {
			ahtJournal(*r.AhtCfg, r.AhtPath, &ahtReplay{*r.AhtCfg, r.AhtPath, r.Point, r.Desc})
			c.Finish("replay", false)
		}
		if r.TreeCfg != nil {
			treeJournal(*r.TreeCfg, r.TreePath, &treeReplay{*r.TreeCfg, r.TreePath, r.Point, r.Desc})
			c.Finish("replay", false)
		}
		for _, w := range workloads {
			if w.name == r.Workload {
				res := record(w)
				defer os.RemoveAll(res.live)
				seen := map[[32]byte]bool{}
				crashfs.Enumerate(res.ops, opts, seen, func(img *crashfs.Image) bool {
					if img.Point == r.Point && img.Desc == r.Desc {
						dir := lib.Scratch("c03img")
						defer os.RemoveAll(dir)
						img.Materialise(res.live, dir)
						if sig, det := checkImage(w, res, img, dir); sig != "" {
							c.Violate(lib.Violation{Sig: sig + " workload=" + w.name, Detail: det})
						}
						c.AddEvals(1)
					}
					return true
				})
			}
		}
		c.Finish("replay", false)
	}
	var summaries []any
	seen := map[string]map[[32]byte]bool{}
	fullDeadline := c.Deadline
	// ---- tree stage: recovery of the index on its own (25% of the budget)
	if v := os.Getenv("C03_TREEJ"); v != "" { // debugging aid: "cfgname:op,op,..." prints the journal of one tree sequence
		parts := strings.SplitN(v, ":", 2)
		var path []int
		for _, x := range strings.Split(parts[1], ",") {
			var n int
			fmt.Sscan(x, &n)
			path = append(path, n)
		}
		for _, cf := range treeCfgs {
			if cf.Name == parts[0] {
				ops, live, _, fail := treeRecord(cf, path)
				for i, o := range ops {
					fmt.Println("JOURNAL", i, o.Kind, strings.TrimPrefix(o.Path, live), o.Off, len(o.Data), o.Note)
				}
				fmt.Println("failure:", fail)
			}
		}
		os.Exit(0)
	}
	if os.Getenv("VERIF_ONLY") == "" || os.Getenv("VERIF_ONLY") == "tree" {
		if os.Getenv("VERIF_ONLY") == "" {
			c.Deadline = c.Start.Add(fullDeadline.Sub(c.Start) * 25 / 100)
		}
		md, cfgs := 4, treeCfgs[:4]
		if c.Thorough() {
			md, cfgs = 6, treeCfgs
		}
		sm := treeStage(md, cfgs)
		summaries = append(summaries, sm)
		bs, _ := json.Marshal(sm)
		fmt.Println(" ", string(bs))
		c.Deadline = fullDeadline
	}
	// ---- AHT stage: recovery of the append-only hash tree on its own (10% of the budget)
	if os.Getenv("VERIF_ONLY") == "" || os.Getenv("VERIF_ONLY") == "aht" {
		if os.Getenv("VERIF_ONLY") == "" {
			c.Deadline = time.Now().Add(fullDeadline.Sub(c.Start) * 10 / 100)
		}
		md, cfgs := 4, ahtCfgs[:3]
		if c.Thorough() {
			md, cfgs = 8, ahtCfgs
		}
		sm := ahtStage(md, cfgs)
		summaries = append(summaries, sm)
		bs, _ := json.Marshal(sm)
		fmt.Println(" ", string(bs))
		c.Deadline = fullDeadline
	}
	stage2 := time.Now()
	// ---- concurrent committers: every schedule (preemption bound 1) of two committers on the synced store gives its
	// own journal; the first N distinct journals are crash-enumerated
	if os.Getenv("VERIF_ONLY") == "" || os.Getenv("VERIF_ONLY") == "concurrent2" {
		maxJournals := 100
		if v := os.Getenv("VERIF_MAXJOURNALS"); v != "" {
			fmt.Sscanf(v, "%d", &maxJournals)
		}
		if c.Thorough() {
			maxJournals = 1000
		}
		vsched.WorkDaemons = []string{"store.OpenWith", "(*ImmuStore).precommit", "(*ImmuStore).preCommitWith"} // syncer and value-appending goroutines take part in the workload-thread phase
		w := workload{name: "concurrent2", opts: syncedOpts}
		var cur result
		sc := sched.Scenario{Name: "concurrent2", Record: true, MaxSteps: 400000, Body: func(dir string) string {
			l := storeh.NewLedger()
			cur = result{live: dir, ledger: l}
			st, err := store.Open(dir, w.opts())
			if err != nil {
				panic(err)
			}
			vsched.Focus()
			for i := 0; i < 2; i++ {
				i := i
				vsched.Spawn(func() {
					tx, _ := st.NewWriteOnlyTx(context.Background())
					tx.Set([]byte("k"), nil, []byte(fmt.Sprintf("val-%d", i)))
					if i == 1 {
						tx.Set([]byte("k1"), nil, []byte("second"))
					}
					h, err := tx.Commit(context.Background())
					if err != nil {
						panic(err)
					}
					rec, err := storeh.ReadRec(st, h.ID, true)
					if err != nil {
						panic(err)
					}
					l.Acked[h.ID] = rec
					cur.order = append(cur.order, h.ID)
					vos.Mark(fmt.Sprintf("ack %d", h.ID))
				})
			}
			vsched.Join()
			st.Close()
			return fmt.Sprint(cur.order)
		}}
		journals := map[[32]byte]bool{}
		tot := map[string]any{"workload": "concurrent2", "journals": 0, "crash_points": 0, "images": 0, "distinct_images_checked": 0, "recovery_runs_crashed_again": 0, "second_level_images_checked": 0}
		seenImg := map[[32]byte]bool{}
		if v := os.Getenv("C03_TRACE"); v != "" { // debugging aid: "policy:choice,choice,..."
			var pol int
			var chs []int
			parts := strings.SplitN(v, ":", 2)
			fmt.Sscan(parts[0], &pol)
			if len(parts) > 1 && parts[1] != "" {
				for _, x := range strings.Split(parts[1], ",") {
					var n int
					fmt.Sscan(x, &n)
					chs = append(chs, n)
				}
			}
			tr, obs, e := sched.TraceOnce(sc, chs, pol)
			for i, l := range tr {
				fmt.Println("TRACE", i, l)
			}
			fmt.Println("TRACE obs", obs, "failure", e.Failure, "focus", e.FocusAt, "points", len(e.Points))
			for _, o := range vos.Journal {
				fmt.Println("JOURNAL", o.Kind, filepath.Base(filepath.Dir(o.Path))+"/"+filepath.Base(o.Path), o.Off, len(o.Data), o.Note)
			}
			os.Exit(0)
		}
		if v := os.Getenv("C03_SCAN"); v != "" { // debugging aid: every single deviation under policy v: is a value written after the last ack?
			var pol int
			fmt.Sscan(v, &pol)
			_, _, e0 := sched.TraceOnce(sc, nil, pol)
			for i := e0.FocusAt; i < len(e0.Points); i++ {
				for alt := 1; alt < e0.Points[i].N; alt++ {
					chs := make([]int, i+1)
					chs[i] = alt
					_, obs, e := sched.TraceOnce(sc, chs, pol)
					lastAck, lateVal := -1, -1
					for k, o := range vos.Journal {
						if o.Kind == "mark" {
							lastAck = k
						}
						if o.Kind == "write" && strings.Contains(o.Path, "/val") {
							lateVal = k
						}
					}
					fmt.Printf("SCAN point %d alt %d/%d work=%b -> T%d obs=%s lateValueWrite=%v failure=%q\n", i, alt, e0.Points[i].N, e0.Points[i].Work, e.Points[i].Tid, obs, lateVal > lastAck, strings.SplitN(e.Failure, "\n", 2)[0])
				}
			}
			os.Exit(0)
		}
		// at most 60% of the time budget; the sequential workloads follow
		concDeadline := stage2.Add(c.Deadline.Sub(stage2) * 60 / 100)
		// stage 1 (35% of the budget): explore schedules and collect the distinct journals
		exploreDeadline := stage2.Add(c.Deadline.Sub(stage2) * 35 / 100)
		type pendingJournal struct {
			r                 result
			devs, policy, seq int
		}
		var pending []pendingJournal
		perPol := map[int]int{}
		stx := sched.ExploreLocal(sc, 1, exploreDeadline, func(e *vsched.Exec, obs string) bool {
			if e.Failure != "" {
				c.Violate(lib.Violation{Sig: "workload-failed workload=concurrent2 " + strings.SplitN(e.Failure, "\n", 2)[0], Detail: e.Failure})
				return true
			}
			ops := append([]vos.Op{}, vos.Journal...)
			h := sha256.New()
			for _, o := range ops {
				fmt.Fprintf(h, "%s|%s|%d|%x|%s;", o.Kind, o.Path, o.Off, o.Data, o.Note)
			}
			var k [32]byte
			copy(k[:], h.Sum(nil))
			if journals[k] {
				return true
			}
			journals[k] = true
			if os.Getenv("C03_DEBUG") != "" {
				// value-log writes not followed by an fsync of that file before an acknowledgement
				pend := map[string]int{}
				for _, o := range ops {
					switch {
					case o.Kind == "write" && strings.Contains(o.Path, "/val_"):
						pend[o.Path]++
					case (o.Kind == "fsync" || o.Kind == "fdatasync") && strings.Contains(o.Path, "/val_"):
						pend[o.Path] = 0
					case o.Kind == "mark":
						n := 0
						for _, v := range pend {
							n += v
						}
						fmt.Printf("DEBUG journal %d policy=%d %s: unsynced value writes=%d choices=%v\n", len(journals), vsched.Policy, o.Note, n, nonDefault(e))
					}
				}
			}
			r := cur
			r.ops = ops
			devs := 0
			for _, p := range e.Points {
				if p.Chosen != 0 {
					devs++
				}
			}
			perPol[vsched.Policy]++
			pending = append(pending, pendingJournal{r, devs, vsched.Policy, perPol[vsched.Policy]})
			return len(journals) < 4*maxJournals && time.Now().Before(exploreDeadline)
		})
		// stage 2: crash-enumerate the collected journals: fewest deviations from the default schedule first, the
		// three default-order policies in turn
		sort.SliceStable(pending, func(i, j int) bool {
			a, b := pending[i], pending[j]
			if a.devs != b.devs {
				return a.devs < b.devs
			}
			if a.seq != b.seq {
				return a.seq < b.seq
			}
			return a.policy < b.policy
		})
		checked := 0
		for _, pj := range pending {
			if checked >= maxJournals || !time.Now().Before(concDeadline) {
				break
			}
			sm := checkJournal(w, pj.r, seenImg, opts)
			checked++
			tot["journals"] = tot["journals"].(int) + 1
			for _, f := range []string{"crash_points", "images", "distinct_images_checked", "recovery_runs_crashed_again", "second_level_images_checked"} {
				tot[f] = tot[f].(int) + sm[f].(int)
			}
			quiesce()
		}
		tot["distinct_journals_found"] = len(pending)
		tot["schedules_explored"] = stx.Execs
		tot["workload_thread_phase_schedules"], tot["workload_thread_phase_bound_completed"] = stx.WorkExecs, stx.WorkBound
		tot["schedule_space_complete"] = stx.Complete
		if !stx.Complete {
			c.CapHit(fmt.Sprintf("workload concurrent2: schedule space not completed; %d distinct journals found, %d crash-enumerated (fewest deviations first)", len(pending), checked))
		}
		summaries = append(summaries, tot)
		bs, _ := json.Marshal(tot)
		fmt.Println(" ", string(bs))
		sched.Cleanup()
	}
	for wi, w := range wls {
		seen[w.name] = map[[32]byte]bool{}
		// fair share: a workload gets at most its part of what is left (a large journal must not starve the others)
		c.Deadline = fullDeadline
		if left := time.Until(fullDeadline); left > 0 {
			c.Deadline = time.Now().Add(left / time.Duration(len(wls)-wi))
		}
		if c.Expired() {
			c.CapHit("workload " + w.name + " not explored")
			continue
		}
		res := record(w)
		if res.fail != "" {
			fmt.Fprintln(os.Stderr, "HARNESS ERROR: workload", w.name, "failed:", res.fail)
			os.Exit(2)
		}
		sm := checkJournal(w, res, seen[w.name], opts)
		os.RemoveAll(res.live)
		summaries = append(summaries, sm)
		bs, _ := json.Marshal(sm)
		fmt.Println(" ", string(bs))
		if len(summaries) <= 3 {
			var files []string
			seenF := map[string]bool{}
			for _, o := range res.ops {
				if o.Kind == "write" && !seenF[o.Path] {
					seenF[o.Path] = true
					files = append(files, filepath.Base(filepath.Dir(o.Path))+"/"+filepath.Base(o.Path))
				}
			}
			sort.Strings(files)
			c.Sample(map[string]any{"workload": w.name, "files_written": files, "first_ops": fmt.Sprint(opsHead(res.ops, 12))})
		}
	}
	c.Deadline = fullDeadline
	c.Set("quiesce_waits_5ms", quiesceWaits)
	c.Set("quiesce_timeouts", quiesceTimeouts)
	c.Set("workloads", summaries)
	c.Finish("for every workload: every crash point of its journal x every combination of per-file prefixes of un-fsynced writes (+ torn variants at half length and 512-byte boundaries), deduplicated by image content; each distinct image is reopened with the real recovery code and checked (acked txs identical, dense chain, BlRoot, dual proofs from every acked state, index = recovered history, new commit, second reopen); distinct = distinct images", !c.Expired())
}

// tornFiles lists the files whose last applied write is torn in this image ("-" if none).
func tornFiles(desc string) string {
	var t []string
	for _, f := range strings.Fields(desc) {
		if i := strings.LastIndex(f, "+"); i >= 0 {
			tail := f[i+1:]
			if h := strings.Index(tail, "-w"); h >= 0 {
				t = append(t, f[:strings.Index(f, ":")]+"(hole)")
				tail = tail[:h]
			}
			if tail != "0" {
				t = append(t, f[:strings.Index(f, ":")])
			}
		}
	}
	if len(t) == 0 {
		return "-"
	}
	return strings.Join(t, ",")
}

func opsHead(ops []vos.Op, n int) []string {
	var s []string
	for i, o := range ops {
		if i >= n {
			break
		}
		s = append(s, o.Kind+":"+filepath.Base(o.Path))
	}
	return s
}
