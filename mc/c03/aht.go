// AHT stage of C03: the recovery of the append-only hash tree on its own. The store re-appends whatever the tree
// lacks, but trusts every entry the tree recovers (BlRoot of later transactions and every proof are computed
// from them): each crash image of a tree directory must open and hold, for every n up to its recovered size,
// exactly the n-th appended payload and the reference Merkle root of the first n payloads.
package main

import (
	"bytes"
	"crypto/sha256"
	"fmt"
	"os"
	"sort"
	"strings"
	"sync"
	"sync/atomic"
	"time"

	"github.com/codenotary/immudb/embedded/ahtree"
	"github.com/codenotary/immudb/embedded/vhooks/vos"
	"github.com/codenotary/immudb/embedded/vhooks/vsched"
	"verif/mc/crashfs"
	"verif/mc/lib"
	"verif/mc/merkle"
)

type ahtCfg struct {
	Name      string
	FileSize  int
	Retryable bool
	Prefill   int
}

func (cf ahtCfg) open(dir string) (*ahtree.AHtree, error) {
	return ahtree.Open(dir, ahtree.DefaultOptions().WithDataCacheSlots(2).WithDigestsCacheSlots(2).WithSyncThld(1<<20).
		WithFileSize(cf.FileSize).WithWriteBufferSize(4096).WithReadBufferSize(64).WithRetryableSync(cf.Retryable))
}

var ahtOps = []string{"append(32B)", "append(5B)", "sync"}

func ahtPayload(i, kind int) []byte {
	if kind == 1 {
		return []byte(fmt.Sprintf("s%04d", i))
	}
	h := sha256.Sum256([]byte(fmt.Sprintf("payload-%d", i)))
	return h[:]
}

func ahtRecord(cf ahtCfg, path []int) (ops []vos.Op, live string, payloads [][]byte, fail string) {
	quiesce()
	live = lib.Scratch("c03aht")
	vos.Reset(true)
	e := vsched.Run(nil, vsched.Options{MaxSteps: 2000000}, func() {
		t, err := cf.open(live)
		if err != nil {
			panic(err)
		}
		app := func(kind int) {
			p := ahtPayload(len(payloads), kind)
			if _, _, err := t.Append(p); err != nil {
				panic(err)
			}
			payloads = append(payloads, p)
		}
		for i := 0; i < cf.Prefill; i++ {
			app(0)
		}
		if err := t.Sync(); err != nil {
			panic(err)
		}
		for _, op := range path {
			if op == 2 {
				if err := t.Sync(); err != nil {
					panic(err)
				}
			} else {
				app(op)
			}
		}
		if err := t.Close(); err != nil {
			panic(err)
		}
	})
	ops = append([]vos.Op{}, vos.Journal...)
	vos.Reset(false)
	return ops, live, payloads, e.Failure
}

func ahtSweep(t *ahtree.AHtree, payloads [][]byte) (what, detail string) {
	size := t.Size()
	if size > uint64(len(payloads)) {
		return "size-beyond-history", fmt.Sprintf("recovered Size()=%d, only %d payloads were appended", size, len(payloads))
	}
	leaves := make([]merkle.H, 0, size)
	for n := uint64(1); n <= size; n++ {
		d, err := t.DataAt(n)
		if err != nil || !bytes.Equal(d, payloads[n-1]) {
			return "data", fmt.Sprintf("recovered Size()=%d: DataAt(%d) = %x err=%v, appended %x", size, n, d, err, payloads[n-1])
		}
		leaves = append(leaves, merkle.Leaf(payloads[n-1]))
		r, err := t.RootAt(n)
		if want := merkle.Root(leaves); err != nil || r != want {
			return "root", fmt.Sprintf("recovered Size()=%d: RootAt(%d) = %x err=%v, reference Merkle root %x", size, n, r, err, want)
		}
	}
	return "", ""
}

func ahtCheckImage(cf ahtCfg, payloads [][]byte, dir string) (sig, detail string) {
	var t *ahtree.AHtree
	var err error
	if p := lib.Catch(func() { t, err = cf.open(dir) }); p != "" {
		return "aht-recovery-panic", p
	}
	if err != nil {
		return "aht-reopen-failed err=" + classify(err.Error()), err.Error()
	}
	closed := false
	defer func() {
		if !closed {
			t.Close()
		}
	}()
	var what, det string
	if p := lib.Catch(func() { what, det = ahtSweep(t, payloads) }); p != "" {
		return "aht-read-panic", p
	}
	if what != "" {
		return "aht-recovered-" + what, det
	}
	// what the store does next: it appends the entries the tree lacks
	size := t.Size()
	hist := append(append([][]byte{}, payloads[:size]...), []byte("after-crash-1"), ahtPayload(1000, 0))
	for _, p := range hist[size:] {
		if _, _, err := t.Append(p); err != nil {
			return "aht-append-after-recovery-failed", err.Error()
		}
	}
	if what, det := ahtSweep(t, hist); what != "" {
		return "aht-after-append-" + what, det
	}
	closed = true
	if err := t.Close(); err != nil {
		return "aht-close-after-recovery-failed", err.Error()
	}
	if t, err = cf.open(dir); err != nil {
		return "aht-second-reopen-failed", err.Error()
	}
	closed = false
	if t.Size() != uint64(len(hist)) {
		return "aht-second-reopen-size", fmt.Sprintf("Size()=%d after a clean close at %d", t.Size(), len(hist))
	}
	if what, det := ahtSweep(t, hist); what != "" {
		return "aht-second-reopen-" + what, det
	}
	return "", ""
}

type ahtReplay struct {
	Cfg   ahtCfg `json:"aht_cfg"`
	Path  []int  `json:"aht_path"`
	Point int    `json:"point"`
	Desc  string `json:"desc"`
}

func ahtNames(path []int) []string {
	var s []string
	for _, o := range path {
		s = append(s, ahtOps[o])
	}
	return s
}

var ahtSeen = map[[32]byte]bool{}
var ahtHangs atomic.Int64

func ahtJournal(cf ahtCfg, path []int, r *ahtReplay) (images, distinct int, ok bool) {
	ops, live, payloads, fail := ahtRecord(cf, path)
	defer os.RemoveAll(live)
	if fail != "" {
		fmt.Fprintln(os.Stderr, "HARNESS ERROR: aht workload", cf.Name, ahtNames(path), "failed:", fail)
		os.Exit(2)
	}
	jobs := make(chan *crashfs.Image, 64)
	var wg sync.WaitGroup
	var n atomic.Int64
	for k := 0; k < c.Workers; k++ {
		wg.Add(1)
		go func() {
			defer wg.Done()
			dir := lib.Scratch("c03aimg")
			defer func() { os.RemoveAll(dir) }()
			for img := range jobs {
				if err := img.Materialise(live, dir); err != nil {
					panic(err)
				}
				type res struct{ sig, det string }
				ch := make(chan res, 1)
				d := dir
				go func() { s, dt := ahtCheckImage(cf, payloads, d); ch <- res{s, dt} }()
				var sig, det string
				select {
				case x := <-ch:
					sig, det = x.sig, x.det
				case <-time.After(60 * time.Second):
					sig, det = "aht-recovered-hang", "Open / sweep of the recovered tree did not return within 60 s"
					ahtHangs.Add(1)
					dir = lib.Scratch("c03aimg")
				}
				n.Add(1)
				c.Eval(fmt.Sprintf("aht:%x", img.Hash[:8]))
				if sig != "" {
					c.Violate(lib.Violation{Sig: fmt.Sprintf("%s cfg=%s ops=%v torn=%s after=%q", sig, cf.Name, ahtNames(path), tornFiles(img.Desc), img.LastOp),
						Detail: fmt.Sprintf("ahtree {%+v}: %d payloads + Sync, then %v, Close; crash point %d (after %s), un-fsynced writes applied: %s\n%s", cf, cf.Prefill, ahtNames(path), img.Point, img.LastOp, img.Desc, det),
						Replay: ahtReplay{cf, path, img.Point, img.Desc}})
				}
			}
		}()
	}
	st := crashfs.Enumerate(ops, crashfs.Options{Torn: true, Holes: true, MaxPerPoint: 4096}, map[[32]byte]bool{}, func(img *crashfs.Image) bool {
		if r != nil {
			if img.Point == r.Point && img.Desc == r.Desc {
				jobs <- img
			}
			return true
		}
		if c.Expired() || ahtHangs.Load() > 0 {
			return false
		}
		var names []string
		for p := range img.Files {
			names = append(names, p)
		}
		sort.Strings(names)
		h := sha256.New()
		fmt.Fprintf(h, "%s|", cf.Name)
		for _, p := range names {
			fmt.Fprintf(h, "F%s|%d|", strings.TrimPrefix(p, live), len(img.Files[p]))
			h.Write(img.Files[p])
		}
		var k [32]byte
		copy(k[:], h.Sum(nil))
		if !ahtSeen[k] {
			ahtSeen[k] = true
			jobs <- img
		}
		return true
	})
	close(jobs)
	wg.Wait()
	if st.CapsHit > 0 {
		c.CapHit(fmt.Sprintf("aht stage %s %v: %d crash points exceeded 4096 images", cf.Name, ahtNames(path), st.CapsHit))
	}
	return st.Images, int(n.Load()), !c.Expired() && ahtHangs.Load() == 0
}

var ahtCfgs = []ahtCfg{
	{"file128-retryable", 128, true, 2},
	{"file4096-retryable", 4096, true, 2},
	{"file128", 128, false, 3},
	{"file256-retryable-5", 256, true, 5},
}

func ahtStage(maxDepth int, cfgs []ahtCfg) map[string]any {
	sum := map[string]any{"stage": "ahtree recovery", "alphabet": ahtOps, "configurations": cfgs}
	seqs, images, distinct, completed := 0, 0, 0, 0
	for d := 1; d <= maxDepth; d++ {
		n := 1
		for i := 0; i < d; i++ {
			n *= len(ahtOps)
		}
		full := true
		for _, cf := range cfgs {
			for i := 0; i < n && full; i++ {
				path := make([]int, d)
				for k, x := d-1, i; k >= 0; k-- {
					path[k] = x % len(ahtOps)
					x /= len(ahtOps)
				}
				im, di, ok := ahtJournal(cf, path, nil)
				images += im
				distinct += di
				if !ok {
					full = false
					break
				}
				seqs++
				c.AddStates(1, int64(d))
			}
		}
		if !full {
			c.CapHit(fmt.Sprintf("aht stage: time share reached at depth %d", d))
			break
		}
		completed = d
	}
	sum["sequences"], sum["images"], sum["distinct_images_checked"], sum["depth_completed"] = seqs, images, distinct, completed
	return sum
}
