// C04 — reads reflect exactly the committed log (index agrees with history).
// E3 over configurations: every write/maintenance sequence up to a depth on the real store (run under the
// controlled scheduler with its default schedule, so the asynchronous indexer is deterministic), for a grid of
// index configurations and two indexing policies (index after every commit / only when the reads start, which
// maximises bulks); after the last step the whole read API is swept against a reference model replayed from
// the acknowledged commits.
package main

import (
	"context"
	"errors"
	"fmt"
	"os"
	"sort"
	"strings"
	"time"

	"github.com/codenotary/immudb/embedded/store"
	"github.com/codenotary/immudb/embedded/vhooks/vos"
	"github.com/codenotary/immudb/embedded/vhooks/vsched"
	"verif/mc/lib"
	"verif/mc/storeh"
)

var c *lib.Check

type cfg struct {
	Bulk      int
	Adaptive  bool
	FlushThld int
	NodeSize  int
	Cache     int
	MaxBuf    int
	GlobalBuf int
	Eager     bool // wait for indexing after every commit
	Multi     bool // multi-indexing store with two prefixed indexes ("a…" and "b…") instead of the default index
}

func (cf cfg) String() string {
	return fmt.Sprintf("bulk=%d adaptive=%v flushThld=%d node=%d cache=%d maxBuf=%d globalBuf=%d eager=%v multi=%v", cf.Bulk, cf.Adaptive, cf.FlushThld, cf.NodeSize, cf.Cache, cf.MaxBuf, cf.GlobalBuf, cf.Eager, cf.Multi)
}

func opts(cf cfg) *store.Options {
	io := store.DefaultIndexOptions().WithFlushBufferSize(4096).WithCacheSize(cf.Cache).WithBulkPreparationTimeout(time.Hour).
		WithMaxBulkSize(cf.Bulk).WithAdaptiveBulkSize(cf.Adaptive).WithFlushThld(cf.FlushThld).WithSyncThld(1 << 20).WithMaxNodeSize(cf.NodeSize).
		WithMaxBufferedDataSize(cf.MaxBuf).WithMaxGlobalBufferedDataSize(cf.GlobalBuf).WithRenewSnapRootAfter(0).WithCompactionThld(1)
	return storeh.SmallOptions().WithMaxKeyLen(48).WithMaxTxEntries(8).WithIndexOptions(io).WithMultiIndexing(cf.Multi)
}

func openStore(dir string, cf cfg) (*store.ImmuStore, error) {
	st, err := store.Open(dir, opts(cf))
	if err != nil {
		return nil, err
	}
	if cf.Multi {
		for _, p := range []string{"a", "b"} {
			if err := st.InitIndexing(&store.IndexSpec{SourcePrefix: []byte(p), TargetPrefix: []byte(p)}); err != nil {
				return nil, fmt.Errorf("InitIndexing(%s): %w", p, err)
			}
		}
	}
	return st, nil
}

var longKey = strings.Repeat("K", 48)

type ver struct {
	tx      uint64
	val     string
	deleted bool
	exp     time.Time // zero = never
}

type model struct {
	m   map[string][]ver
	n   uint64 // committed txs
	now time.Time
}

type ent struct {
	k, v             string
	del, nonIdx, exp bool
}

var opNames = []string{"set(a,x)", "set(a,y)", "set(ab,x)", "set(b,x)", "set3(a,ab,b=m)", "delete(a)", "delete(ab)", "set(b,expirable)", "clock+2h",
	"set(ab,non-indexable)", "set(a,empty)", "flush(0)", "flush(100,sync)", "compact", "reopen", "set(long-key,x)", "fill(a1..a4,b1..b4)", "fill(a5..a8,b5..b8)"}

var writes = map[int][]ent{
	0: {{k: "a", v: "x"}}, 1: {{k: "a", v: "y"}}, 2: {{k: "ab", v: "x"}}, 3: {{k: "b", v: "x"}},
	4: {{k: "a", v: "m"}, {k: "ab", v: "m"}, {k: "b", v: "m"}}, 5: {{k: "a", del: true}}, 6: {{k: "ab", del: true}},
	7: {{k: "b", v: "e", exp: true}}, 9: {{k: "ab", v: "n", nonIdx: true}}, 10: {{k: "a", v: ""}}, 15: {{k: longKey, v: "x"}},
	17: {{k: "a5", v: "g"}, {k: "a6", v: "g"}, {k: "a7", v: "g"}, {k: "a8", v: "g"}, {k: "b5", v: "g"}, {k: "b6", v: "g"}, {k: "b7", v: "g"}, {k: "b8", v: "g"}},
	16: {{k: "a1", v: "f"}, {k: "a2", v: "f"}, {k: "a3", v: "f"}, {k: "a4", v: "f"}, {k: "b1", v: "f"}, {k: "b2", v: "f"}, {k: "b3", v: "f"}, {k: "b4", v: "f"}},
}

var probeKeys = []string{"a", "ab", "abc", "a1", "a8", "b", "b4", "b5", longKey}

func names(path []int) []string {
	var s []string
	for _, o := range path {
		s = append(s, opNames[o])
	}
	return s
}

func errName(err error) string {
	switch {
	case err == nil:
		return "ok"
	case errors.Is(err, store.ErrExpiredEntry):
		return "nf" // the property does not distinguish an expired entry from an absent one: both are "not found"
	case errors.Is(err, store.ErrKeyNotFound):
		return "nf"
	case errors.Is(err, store.ErrNoMoreEntries):
		return "nomore"
	case errors.Is(err, store.ErrOffsetOutOfRange):
		return "oor"
	}
	return "ERR:" + err.Error()
}

func renderRef(vr store.ValueRef) string {
	b, err := vr.Resolve()
	if errors.Is(err, store.ErrExpiredEntry) {
		b, err = []byte("EXPIRED"), nil
	}
	if err != nil {
		return "RESOLVE-ERR:" + err.Error()
	}
	d := ""
	if md := vr.KVMetadata(); md != nil && md.Deleted() {
		d = "(deleted)"
	}
	return fmt.Sprintf("%s@%d#%d%s", b, vr.Tx(), vr.HC(), d)
}

var modelNow time.Time

func renderVer(v ver, rev int) string {
	if !v.exp.IsZero() && !v.exp.After(modelNow) && !v.deleted {
		return fmt.Sprintf("EXPIRED@%d#%d", v.tx, rev)
	}
	d := ""
	if v.deleted {
		d = "(deleted)"
	}
	return fmt.Sprintf("%s@%d#%d%s", v.val, v.tx, rev, d)
}

func (m *model) live(v ver) bool { return !v.deleted && (v.exp.IsZero() || v.exp.After(m.now)) }

func (m *model) sorted() []string {
	var ks []string
	for k := range m.m {
		ks = append(ks, k)
	}
	sort.Strings(ks)
	return ks
}

type rspec struct {
	seek, end, prefix string
	is, ie, desc      bool
	offset            int
	filtered          bool
}

var rspecs []rspec

func init() {
	for _, seek := range []string{"", "ab", "b"} {
		for _, end := range []string{"", "b"} {
			for _, prefix := range []string{"", "a"} {
				for _, incl := range []bool{false, true} {
					for _, desc := range []bool{false, true} {
						for _, off := range []int{0, 1} {
							for _, fl := range []bool{true, false} {
								rspecs = append(rspecs, rspec{seek, end, prefix, incl, incl, desc, off, fl})
							}
						}
					}
				}
			}
		}
	}
}

var multiMode bool // readers of a multi-index store go through the snapshot of index "a" and see only its keys

func sweepModel(m *model) string {
	var b strings.Builder
	modelNow = m.now
	for _, k := range probeKeys {
		vs := m.m[k]
		switch {
		case len(vs) == 0:
			fmt.Fprintf(&b, "get(%s)=nf;", k)
		case vs[len(vs)-1].deleted:
			fmt.Fprintf(&b, "get(%s)=nf;", k)
		case !m.live(vs[len(vs)-1]):
			fmt.Fprintf(&b, "get(%s)=nf;", k)
		default:
			fmt.Fprintf(&b, "get(%s)=%s;", k, renderVer(vs[len(vs)-1], len(vs)))
		}
		for i := uint64(0); i <= m.n; i++ {
			for f := i; f <= m.n; f++ {
				if f == 0 {
					continue
				}
				idx := -1
				for j, x := range vs {
					if x.tx >= i && x.tx <= f {
						idx = j
					}
				}
				if idx < 0 {
					fmt.Fprintf(&b, "gb(%s,%d,%d)=nf;", k, i, f)
				} else {
					fmt.Fprintf(&b, "gb(%s,%d,%d)=%s;", k, i, f, renderVer(vs[idx], idx+1))
				}
			}
		}
		for _, off := range []int{0, 1, len(vs), len(vs) + 1} {
			for _, desc := range []bool{false, true} {
				for _, lim := range []int{1, 100} {
					fmt.Fprintf(&b, "h(%s,%d,%v,%d)=", k, off, desc, lim)
					switch {
					case len(vs) == 0:
						b.WriteString("nf;")
					case off == len(vs):
						b.WriteString("nomore;")
					case off > len(vs):
						b.WriteString("oor;")
					default:
						type iv struct {
							v   ver
							rev int
						}
						var seq []iv
						for i, v := range vs {
							seq = append(seq, iv{v, i + 1})
						}
						if desc {
							for i, j := 0, len(seq)-1; i < j; i, j = i+1, j-1 {
								seq[i], seq[j] = seq[j], seq[i]
							}
						}
						seq = seq[off:]
						if len(seq) > lim {
							seq = seq[:lim]
						}
						for _, x := range seq {
							b.WriteString(renderVer(x.v, x.rev) + ",")
						}
						fmt.Fprintf(&b, "#%d;", len(vs))
					}
				}
			}
		}
	}
	ks := m.sorted()
	for _, p := range []string{"a", "ab", "b", "c"} {
		got := ""
		for _, k := range ks {
			vs := m.m[k]
			if strings.HasPrefix(k, p) && m.live(vs[len(vs)-1]) {
				got = k
				break
			}
		}
		if got == "" {
			fmt.Fprintf(&b, "gp(%s)=nf;", p)
		} else {
			vs := m.m[got]
			fmt.Fprintf(&b, "gp(%s)=%s:%s;", p, got, renderVer(vs[len(vs)-1], len(vs)))
		}
	}
	for _, s := range rspecs {
		fmt.Fprintf(&b, "rd%+v=", s)
		order := append([]string{}, ks...)
		if s.desc {
			sort.Sort(sort.Reverse(sort.StringSlice(order)))
		}
		skipped := 0
		for _, k := range order {
			if !strings.HasPrefix(k, s.prefix) || (multiMode && !strings.HasPrefix(k, "a")) {
				continue
			}
			if !s.desc {
				if k < s.seek || (k == s.seek && !s.is) || (s.end != "" && (k > s.end || (k == s.end && !s.ie))) {
					continue
				}
			} else {
				if (s.seek != "" && (k > s.seek || (k == s.seek && !s.is))) || (s.end != "" && (k < s.end || (k == s.end && !s.ie))) {
					continue
				}
			}
			vs := m.m[k]
			if s.filtered && !m.live(vs[len(vs)-1]) {
				continue
			}
			if skipped < s.offset {
				skipped++
				continue
			}
			fmt.Fprintf(&b, "%s:%s,", k, renderVer(vs[len(vs)-1], len(vs)))
		}
		b.WriteString(";")
	}
	return b.String()
}

func sweepImpl(st *store.ImmuStore, n uint64) string {
	var b strings.Builder
	ctx := context.Background()
	for _, k := range probeKeys {
		vr, err := st.Get(ctx, []byte(k))
		if err != nil {
			fmt.Fprintf(&b, "get(%s)=%s;", k, errName(err))
		} else {
			fmt.Fprintf(&b, "get(%s)=%s;", k, renderRef(vr))
		}
		for i := uint64(0); i <= n; i++ {
			for f := i; f <= n; f++ {
				if f == 0 {
					continue
				}
				vr, err := st.GetBetween(ctx, []byte(k), i, f)
				if err != nil {
					fmt.Fprintf(&b, "gb(%s,%d,%d)=%s;", k, i, f, errName(err))
				} else {
					fmt.Fprintf(&b, "gb(%s,%d,%d)=%s;", k, i, f, renderRef(vr))
				}
			}
		}
		_, hc, _ := st.History([]byte(k), 0, false, 1)
		for _, off := range []int{0, 1, int(hc), int(hc) + 1} {
			for _, desc := range []bool{false, true} {
				for _, lim := range []int{1, 100} {
					fmt.Fprintf(&b, "h(%s,%d,%v,%d)=", k, off, desc, lim)
					vrs, cnt, err := st.History([]byte(k), uint64(off), desc, lim)
					if err != nil {
						b.WriteString(errName(err) + ";")
						continue
					}
					for _, vr := range vrs {
						b.WriteString(renderRef(vr) + ",")
					}
					fmt.Fprintf(&b, "#%d;", cnt)
				}
			}
		}
	}
	for _, p := range []string{"a", "ab", "b", "c"} {
		k, vr, err := st.GetWithPrefix(ctx, []byte(p), nil)
		if err != nil {
			fmt.Fprintf(&b, "gp(%s)=%s;", p, errName(err))
		} else {
			fmt.Fprintf(&b, "gp(%s)=%s:%s;", p, k, renderRef(vr))
		}
	}
	var snapPrefix []byte
	if multiMode {
		snapPrefix = []byte("a")
	}
	snap, err := st.SnapshotMustIncludeTxID(ctx, snapPrefix, n)
	if err != nil {
		return b.String() + "SNAPSHOT-ERR:" + err.Error()
	}
	defer snap.Close()
	bs := func(s string) []byte {
		if s == "" {
			return nil
		}
		return []byte(s)
	}
	for _, s := range rspecs {
		fmt.Fprintf(&b, "rd%+v=", s)
		spec := store.KeyReaderSpec{SeekKey: bs(s.seek), EndKey: bs(s.end), Prefix: bs(s.prefix), InclusiveSeek: s.is, InclusiveEnd: s.ie, DescOrder: s.desc, Offset: uint64(s.offset)}
		if s.filtered {
			spec.Filters = []store.FilterFn{store.IgnoreExpired, store.IgnoreDeleted}
		}
		rd, err := snap.NewKeyReader(spec)
		if err != nil {
			b.WriteString("NEWREADER-ERR:" + err.Error() + ";")
			continue
		}
		for i := 0; i < 32; i++ {
			k, vr, err := rd.Read(ctx)
			if errors.Is(err, store.ErrNoMoreEntries) {
				break
			}
			if err != nil {
				b.WriteString("ERR:" + err.Error())
				break
			}
			fmt.Fprintf(&b, "%s:%s,", k, renderRef(vr))
		}
		rd.Close()
		b.WriteString(";")
	}
	return b.String()
}

func firstDiff(a, b string) string {
	as, bs := strings.Split(a, ";"), strings.Split(b, ";")
	for i := 0; i < len(as) && i < len(bs); i++ {
		if as[i] != bs[i] {
			return fmt.Sprintf("implementation: %s | reference: %s", as[i], bs[i])
		}
	}
	return fmt.Sprintf("lengths differ: %d vs %d items", len(as), len(bs))
}

// diffClass: the API family of the first difference (part of the violation signature)
func diffClass(d string) string {
	s := strings.TrimPrefix(d, "implementation: ")
	if i := strings.IndexAny(s, "({"); i > 0 {
		return s[:i]
	}
	return "other"
}

func run(cf cfg, path []int, depth int, dir string) (string, bool) {
	os.RemoveAll(dir)
	os.MkdirAll(dir, 0755)
	vos.Reset(false)
	stop := false
	var sig, det string
	fail := func(what, detail string) {
		if sig == "" {
			sig, det = what, detail
		}
		stop = true
	}
	multiMode = cf.Multi
	e := vsched.Run(nil, vsched.Options{MaxSteps: 2000000, KeepTrace: os.Getenv("C04_TRACE") != ""}, func() {
		st, err := openStore(dir, cf)
		if err != nil {
			fail("open", err.Error())
			return
		}
		m := &model{m: map[string][]ver{}, now: vsched.Now()}
		ctx := context.Background()
		for k := 0; k < len(path) && !stop; k++ {
			op := path[k]
			if cf.Multi && op == 15 {
				stop = true // the long key is covered by no index of the multi-index configuration: not applicable
				return
			}
			if ws, ok := writes[op]; ok {
				tx, err := st.NewWriteOnlyTx(ctx)
				if err != nil {
					fail("newtx", err.Error())
					break
				}
				// the expiry is fixed before the commit: virtual time may advance while an eager commit waits for a bulk-preparation timer
				expAt := vsched.Now().Add(90 * time.Minute)
				for _, w := range ws {
					var md *store.KVMetadata
					if w.del || w.nonIdx || w.exp {
						md = store.NewKVMetadata()
						if w.del {
							md.AsDeleted(true)
						}
						if w.nonIdx {
							md.AsNonIndexable(true)
						}
						if w.exp {
							md.ExpiresAt(expAt)
						}
					}
					if err := tx.Set([]byte(w.k), md, []byte(w.v)); err != nil {
						fail("set", err.Error())
					}
				}
				var h *store.TxHeader
				if cf.Eager {
					h, err = tx.Commit(ctx) // waits for indexing
				} else {
					h, err = tx.AsyncCommit(ctx)
				}
				if err != nil {
					fail("commit", err.Error())
					break
				}
				m.n = h.ID
				for _, w := range ws {
					if w.nonIdx {
						continue
					}
					v := ver{tx: h.ID, val: w.v, deleted: w.del}
					if w.exp {
						v.exp = expAt
					}
					m.m[w.k] = append(m.m[w.k], v)
				}
				continue
			}
			switch op {
			case 8:
				vsched.Advance(2 * time.Hour)
				m.now = vsched.Now()
			case 11:
				if err := st.FlushIndexes(0, false); err != nil {
					fail("flush", err.Error())
				}
			case 12:
				if err := st.FlushIndexes(100, true); err != nil {
					fail("flush", err.Error())
				}
			case 13:
				if err := st.CompactIndexes(); err != nil && !strings.Contains(err.Error(), "already exists") && !strings.Contains(err.Error(), "threshold") {
					fail("compact", err.Error())
				}
			case 14:
				if err := st.Close(); err != nil {
					fail("close", err.Error())
					break
				}
				st, err = openStore(dir, cf)
				if err != nil {
					fail("reopen", err.Error())
				}
			}
		}
		if stop || st == nil {
			return
		}
		// liveness: indexing must catch up (a stalled indexer shows up as deadlock/livelock under the scheduler)
		if err := st.WaitForIndexingUpto(ctx, m.n); err != nil {
			fail("wait-for-indexing", err.Error())
			return
		}
		m.now = vsched.Now() // virtual time may have advanced (timers fire at quiescence)
		got, want := sweepImpl(st, m.n), sweepModel(m)
		if got != want {
			d := firstDiff(got, want)
			fail("index-mismatch api="+diffClass(d), d)
		}
		st.Close()
	})
	vos.CloseAll()
	if os.Getenv("C04_TRACE") != "" { // debugging aid: the last scheduling decisions
		tr := e.Trace
		if len(tr) > 300 {
			tr = tr[len(tr)-300:]
		}
		for _, l := range tr {
			fmt.Println("TRACE", l)
		}
	}
	if e.Failure != "" && sig == "" {
		first := strings.SplitN(e.Failure, "\n", 2)[0]
		if e.Deadlock || strings.Contains(first, "livelock") || strings.Contains(first, "step limit") {
			sig, det = "indexing-stalled "+strings.Fields(first)[0], e.Failure
		} else {
			sig, det = "failure "+first, e.Failure
		}
		stop = true
	}
	if sig != "" {
		c.Violate(lib.Violation{Sig: fmt.Sprintf("%s ops=%v cfg={%s}", sig, names(path), cf), Detail: det, Replay: map[string]any{"cfg": cf, "path": path}})
		return "", true
	}
	if stop {
		return "", true // not applicable in this configuration
	}
	if len(path) == depth {
		c.Sample(map[string]any{"cfg": cf.String(), "ops": names(path)})
	}
	c.Distinct(cf.String() + fmt.Sprint(path))
	return "", false
}

func main() {
	c = lib.New("C04", "model_checking", 150*time.Second, 25*time.Minute)
	c.Assume("executed under the controlled scheduler with its default schedule (deterministic indexer); interleavings of writers with the indexer are explored by the E1 scenarios of C02/C05/C06")
	c.Assume("single default index; prefixed/mapped indexes are exercised through the SQL checks C11/C12")
	small := 430
	cfgs := []cfg{
		// cache sizes are weights in bytes: 1 = nothing is ever cached, 900 = about two nodes, 1<<20 = everything
		{1, false, 1 << 20, small, 1 << 20, 1 << 20, 1 << 20, false, false},
		{4, false, 1 << 20, small, 1 << 20, 1 << 20, 1 << 20, false, false},
		{2, true, 1, small, 900, 256, 1 << 20, false, false},
		{1, false, 3, 4096, 1, 512, 512, true, false},
		{2, false, 1, small, 1 << 20, 1 << 20, 1 << 20, true, true}, // eager: the trees are persisted before a reopen, so they are loaded lazily afterwards
	}
	maxDepth := 4
	if c.Thorough() {
		maxDepth = 5
		cfgs = append(cfgs, cfg{4, true, 3, small, 1, 256, 512, false, false}, cfg{2, false, 1, small, 900, 1 << 20, 1 << 20, true, false}, cfg{1, false, 3, small, 900, 1 << 20, 1 << 20, false, true})
	}
	if c.ReplayPath != "" {
		var r struct {
			Cfg  cfg   `json:"cfg"`
			Path []int `json:"path"`
		}
		c.LoadReplay(&r)
		dir := lib.Scratch("c04")
		defer os.RemoveAll(dir)
		run(r.Cfg, r.Path, len(r.Path), dir)
		c.AddEvals(1)
		c.AddStates(1, 1)
		os.RemoveAll(dir)
		c.Finish("replay of one recorded sequence", false)
	}
	if c.Delegate() {
		c.Set("alphabet", strings.Join(opNames, ", "))
		c.Finish(rule, !c.Expired())
	}
	dir := lib.Scratch("c04")
	defer os.RemoveAll(dir)
	// the bulk=4 configuration is explored one level deeper than the others
	depthOf := func(i int) int {
		if i == 1 {
			return maxDepth
		}
		return maxDepth - 1
	}
	completed := map[string]int{}
	for d := 2; d <= maxDepth && !c.Expired(); d++ {
		for i, cf := range cfgs {
			cf := cf
			if c.Expired() || d > depthOf(i) {
				continue
			}
			c.RunSeq(lib.SeqSpec{Name: fmt.Sprintf("depth %d cfg {%s}", d, cf), NOps: len(opNames), Depth: d,
				Run: func(path []int) (string, bool) { return run(cf, path, d, dir) }})
			if !c.Expired() {
				completed[cf.String()] = d
			}
		}
	}
	c.Set("depth_completed_per_configuration", completed)
	c.Set("configurations", len(cfgs))
	os.RemoveAll(dir)
	c.Finish(rule, !c.Expired())
}

const rule = "every sequence over the 18-operation alphabet (sets incl. overwrites, multi-key tx, logical deletes, expirable entry + clock advance, non-indexable entry, empty value, max-length key, two 8-key fill transactions, flush, cleanup flush, compaction, reopen) up to the depth reported per index configuration; then WaitForIndexingUpto and a sweep of Get, GetBetween (all tx windows), History (offsets/limits/directions), GetWithPrefix and the key-reader grid (seek/end/prefix/inclusive/direction/offset/filters) compared with a reference model replayed from the commits"
