// C16 — decoders/parsers are total: malformed input gives an error (or a valid value), never a panic, a
// crash, a hang, an attacker-sized allocation or a partial effect.
//
// Engine: exhaustive small-scope INPUT ENUMERATION (no random sampling). For every decoding entry point
// ("target", see targets.go / stores.go) the check enumerates completely
//
//	raw   all byte strings of length <= 3 over the full byte alphabet (<= 2 / <= 1 for slow targets);
//	alt   every alteration from the operator set below of every VALID encoding produced by the real encoders
//	      (see encodings in prep.go): same | trunc@k (every proper prefix) | set8@p (byte p := 00,01,7F,80,FF) |
//	      set16/set32/set64@p (big-endian field at p := 0, 1, v-1, v+1, all-ones; v = current value) |
//	      drop@p | dup@p. For on-disk files p ranges over a stated position set (quick: metadata header + first/last
//	      64 bytes of the body; thorough: whole files up to 4 KiB); the targets that open a store or a file per
//	      input (chunk 256) leave out set64 and dup in the quick tier;
//	tok   SQL text: all token sequences of length <= 3 (quick) / 4 (thorough) over the 26-token alphabet
//	      sqlTokens, plus every single-token deletion and duplication of the 33 statements of sqlCorpus.
//
// Oracle (only what the property states): (1) no panic (lib.Catch) and no process crash (fatal error,
// panic in a background goroutine); (2) bounded memory: allocation (runtime/metrics /gc/heap/allocs:bytes delta,
// i.e. MemStats.TotalAlloc, single-threaded child) of one call <= 64 MiB + 64*len(input) (+1 MiB measurement
// slack); (3) bounded time: a call without progress for 30 s is killed and retried, it is a violation only if
// it hangs 3 times out of 3 (otherwise c.CapHit); structural step bounds in the stream / pgsql readers
// ("VIOL steps"); (4) ReplicateTx: a rejected input leaves (committed id, precommitted id, Alh) unchanged and
// the valid transaction is still accepted and committed afterwards. Returned errors / values are NOT compared.
//
// Isolation: inputs run in single-threaded child processes (same binary, C16_CHILD set). The parent hands
// out jobs (phases: raw<=1, raw=2, alterations + SQL text, raw=3, alterations for the targets that open a store
// or file per input; every phase is completed before the next),
// reads results and attributes crashes / hangs through a shared progress cell; a crash must reproduce in a
// fresh process, a panic must reproduce in the same process, otherwise it is only a CapHit. Allocations beyond
// the budget are slow here, so a job is abandoned (CapHit) after 3 (quick) / 32 (thorough) of them, and a
// target whose raw inputs already do that is not given longer raw inputs; see gcPolicy for the child handling.
//
// One violation is reported per (class, target, panicking function:line) with the minimal input of the enumerated
// space: "panic target=<name> at=<func>:<line> input=<hex | alter=<op>@<pos> of <encoding>>"; classes: panic, crash,
// alloc, hang, partial-effect, steps. C16_DUMP=<file> writes every group, C16_TIMING=1 prints progress.
package main

import (
	"bufio"
	"bytes"
	"encoding/hex"
	"encoding/json"
	"fmt"
	"os"
	"os/exec"
	"path/filepath"
	"regexp"
	"runtime"
	"runtime/debug"
	"runtime/metrics"
	"runtime/pprof"
	"sort"
	"strings"
	"sync"
	"sync/atomic"
	"syscall"
	"time"
	"unsafe"

	"verif/mc/lib"
)

const (
	allocBase  = 64 << 20
	allocSlack = 1 << 20 // measurement noise (runtime bookkeeping, ~0.2 MiB observed) is not a violation
	allocBig   = 2 << 20 // a batch that allocated more than this is measured again input by input
	// allocations beyond the budget are slow here (address space set-up, page faults): after this many of them
	// (quick / thorough) the rest of the job is skipped and reported through CapHit
	allocCapQuick, allocCapThorough = 3, 32
	hangAfter                       = 30 * time.Second
)

// gcPolicy: a huge allocation that overlaps memory the runtime has used and freed before must be zeroed, which
// costs seconds per GiB here. Children therefore (a) run with an address-space cap (see childMain) so that
// anything much larger than the budget fails fast, and (b) exit after the first call that allocated more
// than the budget; the parent continues with a child whose collector is off from the start (C16_GCOFF, no
// cap): nothing is ever freed there, huge untouched buffers cost address space only. Such a child is replaced
// by a normal one after 512 MiB of (possibly touched) garbage.
var gcOff, gcDirty = false, uint64(0)

func gcPolicy(alloc uint64, overBudget bool, beforeExit func()) {
	if !gcOff && !overBudget {
		return
	}
	if gcDirty += min(alloc, allocBase); !gcOff || gcDirty > 512<<20 {
		beforeExit()
		os.Exit(5)
	}
}

// crash/alloc/hang events tolerated per job before the rest of the job is skipped (raw families: every
// following input is likely to be one more event)
func jobEventCap(f *family) int {
	if !f.raw() {
		return 12
	}
	return 4
}

var c *lib.Check

// ---------- model of the enumeration ----------

type enc struct {
	Name string
	B    []byte
	Pos  []int  // positions eligible for set/drop/dup/trunc (nil = every position)
	Aux  string // target specific (e.g. template directory)
}

type target struct {
	name string
	raw  [2]int // max raw length quick / thorough (-1: none)
	// run executes the decoder; the returned string names the outcome ("ok", "err: ...", or "VIOL ..." for a
	// partial-effect violation). Panics are caught by the caller.
	run  func(e *enc, in []byte) string
	init func() // optional, runs in the child before the first input of a job (outside the allocation measurement)
	encs []enc
	fams []*family
}

type family struct {
	t     *target
	name  string
	phase int // 0 raw<=1, 1 raw=2, 2 alterations / SQL text, 3 raw=3, 4 alterations of the slow (store / file per input) targets
	n     int
	gen   func(i int) (in []byte, desc string)
	e     *enc
	batch int // allocation is measured around this many inputs (re-measured one by one when exceeded)
	chunk int // inputs per job
}

type job struct {
	Seq    int
	T, F   string
	Lo, Hi int
	Big    int // big allocations already seen in earlier parts of this job
}

type vmsg struct { // child -> parent
	Class, T, F, At, Desc, Hex, Detail string
	I                                  int
}

type rmsg struct {
	Seq       int
	Evals     int64
	Skipped   int64
	Outcomes  map[string]int64
	Flaky     []string
	Groups    map[string]int64 // violation group (class|site) -> number of inputs of this job in it
	Partial   bool             // the child exits after this line (gcPolicy); the parent resumes the job
	Stopped   int              // >0: the job was abandoned before this index after allocCap big allocations
	BigAllocs int              // calls of this (part of the) job that allocated more than the budget
}

type line struct {
	V *vmsg `json:",omitempty"`
	R *rmsg `json:",omitempty"`
}

var targets []*target

func (f *family) raw() bool { return f.phase == 0 || f.phase == 1 || f.phase == 3 }

func findFam(t, f string) *family {
	for _, tg := range targets {
		if tg.name == t {
			for _, fm := range tg.fams {
				if fm.name == f {
					return fm
				}
			}
		}
	}
	return nil
}

// ---------- alteration operators ----------

type altOp struct {
	kind string
	pos  int
	val  uint64
}

func (o altOp) String() string {
	switch o.kind {
	case "same", "trunc", "drop", "dup":
		return fmt.Sprintf("%s@%d", o.kind, o.pos)
	}
	return fmt.Sprintf("%s@%d=%x", o.kind, o.pos, o.val)
}

func beGet(b []byte) (v uint64) {
	for _, x := range b {
		v = v<<8 | uint64(x)
	}
	return
}
func bePut(b []byte, v uint64) {
	for i := len(b) - 1; i >= 0; i-- {
		b[i] = byte(v)
		v >>= 8
	}
}

func altOps(e *enc) []altOp {
	L := len(e.B)
	pos := e.Pos
	if pos == nil {
		pos = make([]int, L)
		for i := range pos {
			pos[i] = i
		}
	}
	ops := []altOp{{"same", 0, 0}}
	for _, p := range pos {
		ops = append(ops, altOp{"trunc", p, 0})
	}
	for _, p := range pos {
		for _, v := range []uint64{0, 1, 0x7F, 0x80, 0xFF} {
			if uint64(e.B[p]) != v {
				ops = append(ops, altOp{"set8", p, v})
			}
		}
	}
	for wi, w := range []int{2, 4, 8} {
		all := ^uint64(0) >> (64 - 8*uint(w))
		kind := [...]string{"set16", "set32", "set64"}[wi]
		for _, p := range pos {
			if p+w > L {
				continue
			}
			cur := beGet(e.B[p : p+w])
			vals := [5]uint64{0, 1, (cur - 1) & all, (cur + 1) & all, all}
			for i, v := range vals {
				dup := v == cur
				for _, u := range vals[:i] {
					dup = dup || u == v
				}
				if !dup {
					ops = append(ops, altOp{kind, p, v})
				}
			}
		}
	}
	for _, p := range pos {
		ops = append(ops, altOp{"drop", p, 0}, altOp{"dup", p, 0})
	}
	// consistent growth: a 2- or 4-byte big-endian field read as the length of the data that follows it is raised by
	// d and d bytes are inserted at the end of that data (a longer but well-framed field: passes "enough bytes left")
	for wi, w := range []int{2, 4} {
		for _, p := range pos {
			if p+w > L {
				continue
			}
			if cur := beGet(e.B[p : p+w]); cur > 0 && uint64(p+w)+cur <= uint64(L) {
				for _, d := range []uint64{1, 9} {
					ops = append(ops, altOp{[...]string{"grow16", "grow32"}[wi], p, d})
				}
			} else if cur == 0 {
				// an empty field becomes a one-byte field holding 0x00 (e.g. absent entry metadata -> the smallest
				// well-formed one): an optional part appears where the rest of the encoding does not provide for it
				ops = append(ops, altOp{[...]string{"grow16", "grow32"}[wi], p, 1})
			}
		}
	}
	return ops
}

func applyOp(b []byte, o altOp) []byte {
	switch o.kind {
	case "same":
		return append([]byte{}, b...)
	case "trunc":
		return append([]byte{}, b[:o.pos]...)
	case "drop":
		return append(append([]byte{}, b[:o.pos]...), b[o.pos+1:]...)
	case "dup":
		return append(append(append([]byte{}, b[:o.pos+1]...), b[o.pos]), b[o.pos+1:]...)
	}
	if o.kind == "grow16" || o.kind == "grow32" {
		w := map[string]int{"grow16": 2, "grow32": 4}[o.kind]
		cur := beGet(b[o.pos : o.pos+w])
		end := o.pos + w + int(cur)
		out := append([]byte{}, b[:end]...)
		fill := byte(0xEE)
		if cur == 0 {
			fill = 0
		}
		out = append(out, bytes.Repeat([]byte{fill}, int(o.val))...)
		out = append(out, b[end:]...)
		bePut(out[o.pos:o.pos+w], cur+o.val)
		return out
	}
	out := append([]byte{}, b...)
	w := map[string]int{"set8": 1, "set16": 2, "set32": 4, "set64": 8}[o.kind]
	bePut(out[o.pos:o.pos+w], o.val)
	return out
}

func rawFam(t *target, n int) []*family {
	var fs []*family
	if n >= 0 {
		fs = append(fs, &family{t: t, name: "raw<=1", phase: 0, n: 257, batch: 1, chunk: 257, gen: func(i int) ([]byte, string) {
			if i == 0 {
				return []byte{}, ""
			}
			return []byte{byte(i - 1)}, ""
		}})
	}
	if n >= 2 {
		fs = append(fs, &family{t: t, name: "raw=2", phase: 1, n: 65536, batch: 1, chunk: 4096, gen: func(i int) ([]byte, string) {
			return []byte{byte(i >> 8), byte(i)}, ""
		}})
	}
	if n >= 3 {
		fs = append(fs, &family{t: t, name: "raw=3", phase: 3, n: 1 << 24, batch: 256, chunk: 1 << 16, gen: func(i int) ([]byte, string) {
			return []byte{byte(i >> 16), byte(i >> 8), byte(i)}, ""
		}})
	}
	return fs
}

// altFams: one family per (encoding, operator kind), so that the event cap of a job only cuts the operator
// that keeps killing the process.
func altFams(t *target, e *enc, chunk int, skip map[string]bool) (fs []*family) {
	byKind := map[string][]altOp{}
	var kinds []string
	for _, o := range altOps(e) {
		if skip[o.kind] {
			continue
		}
		if byKind[o.kind] == nil {
			kinds = append(kinds, o.kind)
		}
		byKind[o.kind] = append(byKind[o.kind], o)
	}
	for _, k := range kinds {
		ops := byKind[k]
		fs = append(fs, &family{t: t, name: "alt:" + e.Name + "/" + k, phase: map[bool]int{false: 2, true: 4}[chunk <= 256], n: len(ops), e: e, batch: 1, chunk: chunk, gen: func(i int) ([]byte, string) {
			return applyOp(e.B, ops[i]), fmt.Sprintf("alter=%s of %s", ops[i], e.Name)
		}})
	}
	return fs
}

// ---------- child ----------

var allocSample = []metrics.Sample{{Name: "/gc/heap/allocs:bytes"}}

func allocNow() uint64 {
	metrics.Read(allocSample)
	return allocSample[0].Value.Uint64()
}

var immuFrame = regexp.MustCompile(`github\.com/codenotary/immudb/([^\s(]+(\(\*?[A-Za-z0-9_]+\))?[^\s(]*)\(`)

var lineRe = regexp.MustCompile(`\.go:(\d+)`)

// panicSite returns the innermost immudb function on the stack of a recovered panic, with its source line.
func panicSite(stack string) string {
	lines := strings.Split(stack, "\n")
	for i, ln := range lines {
		if m := immuFrame.FindStringSubmatch(ln); m != nil && !strings.HasPrefix(ln, "\t") {
			if i+1 < len(lines) {
				if l := lineRe.FindStringSubmatch(lines[i+1]); l != nil {
					return m[1] + ":" + l[1]
				}
			}
			return m[1]
		}
	}
	return "?"
}

func normOutcome(s string) string {
	if len(s) > 70 {
		s = s[:70]
	}
	b := []byte(s)
	for i, x := range b {
		if x >= '0' && x <= '9' {
			b[i] = '#'
		} else if x < 32 || x > 126 {
			b[i] = '.'
		}
	}
	return string(b)
}

func inputDesc(in []byte, desc string) string {
	if desc == "" || len(in) <= 12 {
		return "input=" + hex.EncodeToString(in)
	}
	return desc
}

func childMain() {
	if pf := os.Getenv("C16_PROF"); pf != "" {
		f, _ := os.Create(pf)
		pprof.StartCPUProfile(f)
		defer pprof.StopCPUProfile()
	}
	if gcOff = os.Getenv("C16_GCOFF") != ""; gcOff {
		debug.SetGCPercent(-1)
	} else {
		// a child with collector must not attempt huge allocations at all (zeroing): cap its address space a little
		// above what it uses now, so that they fail fast ("out of memory") and the parent retries the input in a
		// C16_GCOFF child, where they are cheap
		var vsz uint64
		if bs, err := os.ReadFile("/proc/self/statm"); err == nil {
			fmt.Sscan(string(bs), &vsz)
		}
		if lim := vsz*uint64(os.Getpagesize()) + 160<<20; vsz > 0 {
			syscall.Setrlimit(syscall.RLIMIT_AS, &syscall.Rlimit{Cur: lim, Max: lim})
		}
	}
	loadPrep(os.Getenv("C16_DIR"))
	buildTargets(os.Getenv("C16_TIER") == "thorough")
	cell := mapCell(os.Getenv("C16_CELL"))
	thoroughTier := os.Getenv("C16_TIER") == "thorough"
	out := bufio.NewWriter(os.Stdout)
	emit := func(l line) {
		bs, _ := json.Marshal(l)
		out.Write(bs)
		out.WriteByte('\n')
		out.Flush()
	}
	sc := bufio.NewScanner(os.Stdin)
	sc.Buffer(make([]byte, 1<<20), 1<<20)
	for sc.Scan() {
		var j job
		if json.Unmarshal(sc.Bytes(), &j) != nil {
			os.Exit(4)
		}
		f := findFam(j.T, j.F)
		if f == nil {
			fmt.Fprintf(os.Stderr, "unknown family %s/%s\n", j.T, j.F)
			os.Exit(4)
		}
		j.Hi = min(j.Hi, f.n)
		allocCap := allocCapQuick
		if thoroughTier {
			allocCap = allocCapThorough
		}
		if f.phase == 0 {
			allocCap = 16 // 257 inputs only: go far enough to see the first allocation beyond the budget
		}
		r := &rmsg{Seq: j.Seq, Outcomes: map[string]int64{}, Groups: map[string]int64{}}
		best := map[string]vmsg{} // violation group -> smallest reproducer sent so far (same order as the parent's)
		send := func(v vmsg) {
			k := v.Class + "|" + v.At
			r.Groups[k]++
			if b, ok := best[k]; !ok || better(v, b) {
				best[k] = v
				v.T, v.F = j.T, j.F
				emit(line{V: &v})
			}
		}
		norm := map[string]string{}
		hexOf := func(in []byte) string { return trunc(hex.EncodeToString(in), 8192) }
		one := func(i int, measure bool) (alloc uint64) {
			atomic.StoreUint64(&cell[1], uint64(i))
			in, desc := f.gen(i)
			var a0 uint64
			if measure {
				a0 = allocNow()
			}
			var oc string
			p := lib.Catch(func() { oc = f.t.run(f.e, in) })
			if measure {
				alloc = allocNow() - a0
			}
			r.Evals++
			switch {
			case p != "":
				var oc2 string
				if p2 := lib.Catch(func() { oc2 = f.t.run(f.e, in) }); p2 == "" { // must reproduce
					r.Flaky = append(r.Flaky, fmt.Sprintf("%s %s: panic not reproduced (%s)", j.T, inputDesc(in, desc), oc2))
					break
				}
				r.Outcomes["panic"]++
				send(vmsg{Class: "panic", At: panicSite(p), Desc: inputDesc(in, desc), Hex: hexOf(in), I: i, Detail: p})
			case strings.HasPrefix(oc, "VIOL "):
				w := strings.Fields(oc)[1]
				r.Outcomes["viol:"+w]++
				send(vmsg{Class: w, At: "-", Desc: inputDesc(in, desc), Hex: hexOf(in), I: i, Detail: oc})
			default:
				n, ok := norm[oc]
				if !ok {
					n = normOutcome(oc)
					norm[oc] = n
				}
				r.Outcomes[n]++
			}
			over := measure && alloc > allocBase+64*uint64(len(in))+allocSlack
			if over {
				if pf := os.Getenv("C16_ALLOCTRACE"); pf != "" { // debugging aid: allocation profile of the offending call
					runtime.GC()
					runtime.GC()
					if f, err := os.Create(pf); err == nil {
						pprof.Lookup("allocs").WriteTo(f, 1)
						f.Close()
					}
				}
				r.BigAllocs++
				r.Outcomes["alloc>budget"]++
				send(vmsg{Class: "alloc", At: "-", Desc: inputDesc(in, desc), Hex: hexOf(in), I: i,
					Detail: fmt.Sprintf("one call allocated %d bytes (TotalAlloc delta) for an input of %d bytes; budget 64 MiB + 64*len", alloc, len(in))})
			}
			if measure {
				gcPolicy(alloc, over, func() { r.Partial = true; emit(line{R: r}) })
			}
			return alloc
		}
		atomic.StoreUint64(&cell[0], uint64(j.Seq))
		if f.t.init != nil {
			f.t.init()
		}
		for i := j.Lo; i < j.Hi; i += f.batch {
			if j.Big+r.BigAllocs >= allocCap {
				r.Stopped = i
				break
			}
			hi := i + f.batch
			if hi > j.Hi {
				hi = j.Hi
			}
			if f.batch == 1 {
				one(i, true)
				continue
			}
			a0 := allocNow()
			for k := i; k < hi; k++ {
				one(k, false)
			}
			if d := allocNow() - a0; d > allocBig {
				for k := i; k < hi; k++ {
					one(k, true)
				}
			} else {
				gcPolicy(d, false, func() { r.Partial = true; emit(line{R: r}) })
			}
		}
		atomic.StoreUint64(&cell[1], ^uint64(0))
		emit(line{R: r})
	}
}

func mapCell(path string) []uint64 {
	f, err := os.OpenFile(path, os.O_RDWR|os.O_CREATE, 0644)
	if err != nil {
		panic(err)
	}
	f.Truncate(16)
	m, err := syscall.Mmap(int(f.Fd()), 0, 16, syscall.PROT_READ|syscall.PROT_WRITE, syscall.MAP_SHARED)
	if err != nil {
		panic(err)
	}
	return unsafe.Slice((*uint64)(unsafe.Pointer(&m[0])), 2)
}

// ---------- parent ----------

type worker struct {
	slot   int
	cmd    *exec.Cmd
	in     *bufio.Writer
	out    *bufio.Scanner
	cell   []uint64
	stderr *tailBuf
	mu     sync.Mutex   // guards cmd against the watchdog
	gcOff  bool         // start the next child with the collector off (see gcPolicy)
	dirty  bool         // the running child has the collector off
	cur    atomic.Value // string: the job being executed (diagnostics)
	killed atomic.Bool  // set by the watchdog
	since  atomic.Int64
	last   [2]uint64
}

// tailBuf keeps the stderr of a child: the first 64 KiB are enough to hold the head of a crash report.
type tailBuf struct {
	mu sync.Mutex
	b  []byte
}

func (t *tailBuf) Write(p []byte) (int, error) {
	t.mu.Lock()
	if n := 64<<10 - len(t.b); n > 0 {
		t.b = append(t.b, p[:min(n, len(p))]...)
	}
	t.mu.Unlock()
	return len(p), nil
}
func (t *tailBuf) String() string { t.mu.Lock(); defer t.mu.Unlock(); return string(t.b) }

// crashHead cuts the crash report of the runtime out of a child's stderr: message + first goroutine.
func crashHead(stderr string) string {
	i := strings.Index(stderr, "fatal error:")
	if k := strings.Index(stderr, "panic: "); k >= 0 && (i < 0 || k < i) {
		i = k
	}
	if i < 0 {
		return tail(stderr, 1500)
	}
	s := stderr[i:]
	for n, k := 0, 0; n < 3; n++ { // message + the first two goroutines (the first may be the system stack)
		k2 := strings.Index(s[k:], "\n\n")
		if k2 < 0 {
			break
		}
		if k += k2 + 2; n == 2 {
			s = s[:k]
		}
	}
	return trunc(s, 4000)
}

var scratch string

func (w *worker) start() {
	cellPath := filepath.Join(scratch, fmt.Sprintf("cell%d", w.slot))
	if w.cell == nil {
		w.cell = mapCell(cellPath)
	}
	atomic.StoreUint64(&w.cell[0], 0)
	atomic.StoreUint64(&w.cell[1], ^uint64(0))
	w.mu.Lock()
	defer w.mu.Unlock()
	w.cmd = exec.Command(os.Args[0])
	w.cmd.Env = append(os.Environ(), "C16_CHILD=1", "C16_DIR="+scratch, "C16_CELL="+cellPath, "C16_TIER="+c.Tier,
		fmt.Sprintf("C16_SLOT=%d", w.slot), "GOMAXPROCS=1")
	if w.dirty = w.gcOff; w.gcOff {
		w.cmd.Env = append(w.cmd.Env, "C16_GCOFF=1")
	}
	ip, _ := w.cmd.StdinPipe()
	op, _ := w.cmd.StdoutPipe()
	w.stderr = &tailBuf{}
	w.cmd.Stderr = w.stderr
	if err := w.cmd.Start(); err != nil {
		panic(err)
	}
	w.in = bufio.NewWriter(ip)
	w.out = bufio.NewScanner(op)
	w.out.Buffer(make([]byte, 1<<24), 1<<24)
	w.killed.Store(false)
	w.since.Store(time.Now().UnixNano())
}

func (w *worker) stop() {
	w.mu.Lock()
	defer w.mu.Unlock()
	if w.cmd != nil {
		w.cmd.Process.Kill()
		w.cmd.Wait()
		w.cmd = nil
	}
}

// event: what ended a child while it was running input idx.
type event struct {
	kind string // "exit3" (allocation violation already reported), "crash", "hang"
	idx  int
	text string
}

// runJob sends j to the worker's child and consumes its output. It returns the result, or the event that
// killed the child.
func (w *worker) runJob(j job, onV func(vmsg)) (*rmsg, *event) {
	if w.cmd != nil && w.gcOff != w.dirty {
		w.stop()
	}
	if w.cmd == nil {
		w.start()
	}
	bs, _ := json.Marshal(j)
	w.cur.Store(fmt.Sprintf("%s %s [%d,%d) since %s", j.T, j.F, j.Lo, j.Hi, time.Now().Format("15:04:05")))
	w.in.Write(bs)
	w.in.WriteByte('\n')
	w.in.Flush()
	w.since.Store(time.Now().UnixNano())
	var partial *rmsg
	for w.out.Scan() {
		var l line
		if json.Unmarshal(w.out.Bytes(), &l) != nil {
			continue
		}
		if l.V != nil {
			onV(*l.V)
		}
		if l.R != nil && l.R.Seq == j.Seq {
			if !l.R.Partial {
				return l.R, nil
			}
			partial = l.R
		}
	}
	w.mu.Lock()
	err := w.cmd.Wait()
	w.cmd = nil
	w.mu.Unlock()
	idx := int(int64(atomic.LoadUint64(&w.cell[1])))
	ev := &event{kind: "crash", idx: idx, text: fmt.Sprintf("%v\n%s", err, w.stderr.String())}
	if ee, ok := err.(*exec.ExitError); w.killed.Load() {
		ev.kind = "hang"
	} else if ok && partial != nil && ee.ExitCode() == 5 {
		ev.kind = "exit5"
	}
	return partial, ev
}

var workers []*worker

func watchdog(stop chan struct{}) {
	tk := time.NewTicker(time.Second)
	defer tk.Stop()
	for n := 1; ; n++ {
		select {
		case <-stop:
			return
		case <-tk.C:
		}
		if n%20 == 0 && os.Getenv("C16_TIMING") != "" {
			fmt.Fprintf(os.Stderr, "-- %s jobs done %d\n", time.Now().Format("15:04:05"), atomic.LoadInt64(&jobsDone))
			for _, w := range workers {
				if s, _ := w.cur.Load().(string); s != "" {
					fmt.Fprintf(os.Stderr, "   w%d idx=%d %s\n", w.slot, int64(atomic.LoadUint64(&w.cell[1])), s)
				}
			}
		}
		for _, w := range workers {
			w.mu.Lock()
			idle := w.cell == nil || w.cmd == nil
			w.mu.Unlock()
			if idle {
				continue
			}
			cur := [2]uint64{atomic.LoadUint64(&w.cell[0]), atomic.LoadUint64(&w.cell[1])}
			if cur != w.last || cur[1] == ^uint64(0) {
				w.last = cur
				w.since.Store(time.Now().UnixNano())
				continue
			}
			if time.Since(time.Unix(0, w.since.Load())) > hangAfter && !w.killed.Load() {
				w.mu.Lock()
				if w.cmd != nil && w.cmd.Process != nil {
					w.killed.Store(true)
					w.cmd.Process.Kill()
				}
				w.mu.Unlock()
			}
		}
	}
}

// ---------- aggregation ----------

type group struct {
	v     vmsg
	count int64
}

var (
	aggMu    sync.Mutex
	groups   = map[string]*group{}
	outcomes = map[string]map[string]int64{} // target -> outcome -> count
	flagged  = map[string]string{}           // target -> why later raw phases are skipped
	evalsBy  = map[string]int64{}
)

func better(a, b vmsg) bool { // a is a smaller reproducer than b
	if len(a.Hex) != len(b.Hex) {
		return len(a.Hex) < len(b.Hex)
	}
	if a.Hex != b.Hex {
		return a.Hex < b.Hex
	}
	return a.Desc < b.Desc
}

func addViolation(v vmsg) {
	aggMu.Lock()
	defer aggMu.Unlock()
	k := v.Class + "|" + v.T + "|" + v.At
	g := groups[k]
	if g == nil {
		groups[k] = &group{v: v}
		return
	}
	if better(v, g.v) {
		g.v = v
	}
}

// confirm re-runs one input in a fresh child; it reports how that child ended.
func confirm(w *worker, t, f string, idx int) string {
	w.stop()
	_, ev := w.runJob(job{Seq: 1 << 30, T: t, F: f, Lo: idx, Hi: idx + 1}, func(v vmsg) {})
	w.stop()
	if ev == nil {
		return "ok"
	}
	return ev.kind
}

// execJob runs one job to completion on w, resuming after crashes / allocation exits / hangs.
func execJob(w *worker, j job) {
	f := findFam(j.T, j.F)
	events, retried, big := 0, -1, 0
	lo := j.Lo
	t0 := time.Now()
	defer func() {
		aggMu.Lock()
		jobTime[j.T+" "+j.F] += time.Since(t0).Seconds()
		aggMu.Unlock()
	}()
	w.gcOff = w.dirty // a child without collector keeps serving jobs until it has produced 512 MiB of garbage
	for lo < j.Hi {
		jj := j
		jj.Lo, jj.Big = lo, big
		aggMu.Lock()
		if flagged[j.T] != "" {
			w.gcOff = true // this target is known to allocate hugely
		}
		aggMu.Unlock()
		r, ev := w.runJob(jj, addViolation)
		wasDirty := w.dirty
		if r != nil {
			aggMu.Lock()
			if outcomes[j.T] == nil {
				outcomes[j.T] = map[string]int64{}
			}
			for k, n := range r.Outcomes {
				outcomes[j.T][k] += n
			}
			evalsBy[j.T] += r.Evals
			for k, n := range r.Groups {
				if g := groups[strings.Replace(k, "|", "|"+j.T+"|", 1)]; g != nil {
					g.count += n
				}
			}
			aggMu.Unlock()
			c.AddEvals(r.Evals)
			for _, fl := range r.Flaky {
				c.CapHit("non-reproducible panic, not reported: " + fl)
			}
			if (r.Outcomes["alloc>budget"] > 0 || r.Stopped > 0) && f.raw() {
				aggMu.Lock()
				if flagged[j.T] == "" {
					flagged[j.T] = "allocation beyond the budget in " + j.F
				}
				aggMu.Unlock()
			}
			if big += r.BigAllocs; r.Stopped > 0 {
				c.CapHit(fmt.Sprintf("%s %s: %d allocations beyond the budget in inputs [%d,%d), inputs [%d,%d) of this job skipped", j.T, j.F, big, j.Lo, r.Stopped, r.Stopped, j.Hi))
				return
			}
		}
		if ev == nil {
			return
		}
		if ev.idx < lo || ev.idx >= j.Hi { // died outside an input (start-up failure)
			fmt.Fprintf(os.Stderr, "HARNESS ERROR: child died outside an input (job %+v): %s\n", j, ev.text)
			os.Exit(2)
		}
		if r == nil { // the statistics of [lo, idx] died with the child
			c.AddEvals(int64(ev.idx - lo + 1))
			aggMu.Lock()
			evalsBy[j.T] += int64(ev.idx - lo + 1)
			aggMu.Unlock()
		}
		if ev.kind == "crash" && !wasDirty && oomRe.MatchString(ev.text) && retried != ev.idx {
			retried = ev.idx // the address space cap of a child with collector: repeat this input without collector
			w.gcOff = true
			lo = ev.idx
			continue
		}
		lo = ev.idx + 1
		if ev.kind == "exit5" { // child replaced itself (gcPolicy): with collector -> without, and back after 512 MiB
			w.gcOff = !wasDirty
			continue
		}
		events++
		in, desc := f.gen(ev.idx)
		d := inputDesc(in, desc)
		hx := hex.EncodeToString(in)
		if len(hx) > 8192 {
			hx = hx[:8192]
		}
		switch ev.kind {
		case "crash":
			culprit := -1
			for _, k := range []int{ev.idx, ev.idx - 1} { // a background goroutine may die one input late
				if k >= j.Lo && confirm(w, j.T, j.F, k) == "crash" {
					culprit = k
					break
				}
			}
			if culprit < 0 {
				c.CapHit(fmt.Sprintf("%s %s: process crash not reproduced in a fresh process, not reported", j.T, d))
				break
			}
			if culprit != ev.idx {
				in, desc = f.gen(culprit)
				d, hx = inputDesc(in, desc), hex.EncodeToString(in)
			}
			addViolation(vmsg{Class: "crash", T: j.T, F: j.F, At: crashSite(ev.text), Desc: d, Hex: hx, I: culprit,
				Detail: "the process died (unrecoverable fatal error, or panic in a goroutine the caller cannot guard):\n" + crashHead(ev.text)})
		case "hang":
			again := 0
			for k := 0; k < 2; k++ {
				if confirm(w, j.T, j.F, ev.idx) == "hang" {
					again++
				}
			}
			if again == 2 {
				addViolation(vmsg{Class: "hang", T: j.T, F: j.F, At: "-", Desc: d, Hex: hx, I: ev.idx,
					Detail: "no return within 30 s in 3 fresh processes out of 3"})
			} else {
				c.CapHit(fmt.Sprintf("%s %s: exceeded 30 s once, not reproduced 3 times, not reported", j.T, d))
			}
		}
		aggMu.Lock()
		if f.raw() && flagged[j.T] == "" {
			flagged[j.T] = fmt.Sprintf("%s at %s in %s", ev.kind, d, j.F)
		}
		aggMu.Unlock()
		if events >= jobEventCap(f) && lo < j.Hi {
			c.CapHit(fmt.Sprintf("%s %s: %d crash/alloc/hang events in inputs [%d,%d), inputs [%d,%d) of this job skipped", j.T, j.F, events, j.Lo, lo, lo, j.Hi))
			return
		}
	}
}

func tail(s string, n int) string {
	if len(s) > n {
		return "…" + s[len(s)-n:]
	}
	return s
}

// crashSite: kind of fatal error / "goroutine-panic" and the first immudb frame of the crash report.
func crashSite(stderr string) string {
	s := crashHead(stderr)
	head := strings.SplitN(s, "\n", 2)[0]
	switch {
	case strings.HasPrefix(head, "panic: "):
		head = "goroutine-panic"
	case oomRe.MatchString(head):
		head = "out-of-memory"
	case strings.HasPrefix(head, "fatal error: "):
		head = strings.ReplaceAll(strings.TrimPrefix(head, "fatal error: "), " ", "-")
	default:
		return "?"
	}
	return head + "@" + panicSite(s)
}

func runPhase(jobs []job) {
	var next int64 = -1
	var wg sync.WaitGroup
	for _, w := range workers {
		wg.Add(1)
		go func(w *worker) {
			defer wg.Done()
			for {
				i := int(atomic.AddInt64(&next, 1))
				if i >= len(jobs) {
					return
				}
				if c.Expired() {
					continue
				}
				execJob(w, jobs[i])
				atomic.AddInt64(&jobsDone, 1)
			}
		}(w)
	}
	wg.Wait()
}

var oomRe = regexp.MustCompile(`out of memory|cannot allocate memory|cannot map pages|failed to (allocate|reserve)|errno=12`)
var jobsDone int64
var jobTime = map[string]float64{}

func printSlowest() {
	byT := map[string]float64{}
	for k, v := range jobTime {
		byT[strings.Fields(k)[0]] += v
	}
	var ts []string
	for k := range byT {
		ts = append(ts, k)
	}
	sort.Slice(ts, func(a, b int) bool { return byT[ts[a]] > byT[ts[b]] })
	for _, k := range ts {
		fmt.Fprintf(os.Stderr, "  target: %7.1fs %s\n", byT[k], k)
	}
	var ks []string
	for k := range jobTime {
		ks = append(ks, k)
	}
	sort.Slice(ks, func(a, b int) bool { return jobTime[ks[a]] > jobTime[ks[b]] })
	for _, k := range ks[:min(30, len(ks))] {
		fmt.Fprintf(os.Stderr, "  slow: %6.1fs %s\n", jobTime[k], k)
	}
}

func main() {
	if os.Getenv("C16_CHILD") != "" {
		childMain()
		return
	}
	if d := os.Getenv("C16_PREPONLY"); d != "" { // debugging aid: build the encodings, then feed jobs to a child by hand
		prepare(d, false)
		loadPrep(d)
		buildTargets(false)
		for _, t := range targets {
			n := 0
			for _, f := range t.fams {
				n += f.n
			}
			fmt.Printf("%-45s encodings=%-3d families=%-4d inputs=%d\n", t.name, len(t.encs), len(t.fams), n)
		}
		return
	}
	c = lib.New("C16", "exploration", 100*time.Second, 25*time.Minute)
	c.Assume("crash / allocation / hang attribution uses one single-threaded child process per worker; a child is restarted after each such event")
	c.Assume("byte alphabet is complete (0..255) for raw inputs of length <= 3; longer inputs only as alterations (operator set in the header comment) of valid encodings")
	scratch = lib.Scratch("c16")
	defer os.RemoveAll(scratch)
	exit := func(rule string, ex bool) {
		for _, w := range workers {
			w.stop()
		}
		os.RemoveAll(scratch)
		c.Finish(rule, ex)
	}
	prepare(scratch, c.Thorough())
	loadPrep(scratch)
	buildTargets(c.Thorough())
	nw := c.Workers
	if c.ReplayPath != "" {
		nw = 1
	}
	for i := 0; i < nw; i++ {
		workers = append(workers, &worker{slot: i})
	}
	stopWD := make(chan struct{})
	go watchdog(stopWD)

	if c.ReplayPath != "" {
		var r struct {
			T, F string
			I    int
		}
		c.LoadReplay(&r)
		if findFam(r.T, r.F) == nil {
			fmt.Fprintln(os.Stderr, "replay: unknown target/family")
			os.Exit(2)
		}
		execJob(workers[0], job{Seq: 1, T: r.T, F: r.F, Lo: r.I, Hi: r.I + 1})
		report()
		exit("replay of one input", false)
	}

	total := 0
	complete := true
	for phase := 0; phase <= 4; phase++ {
		var jobs []job
		for _, t := range targets {
			for _, f := range t.fams {
				if f.phase != phase {
					continue
				}
				if why := flagged[t.name]; why != "" && (phase == 1 || phase == 3) {
					c.CapHit(fmt.Sprintf("%s: family %s not enumerated because a shorter raw input already ends the process or allocates without bound (%s)", t.name, f.name, why))
					continue
				}
				for lo := 0; lo < f.n; lo += f.chunk {
					hi := lo + f.chunk
					if hi > f.n {
						hi = f.n
					}
					jobs = append(jobs, job{Seq: total + len(jobs) + 1, T: t.name, F: f.name, Lo: lo, Hi: hi})
				}
			}
		}
		// interleave targets so that concurrently running children work on different targets
		sort.SliceStable(jobs, func(a, b int) bool { return jobs[a].Lo < jobs[b].Lo })
		total += len(jobs)
		before := atomic.LoadInt64(&jobsDone)
		t0 := time.Now()
		runPhase(jobs)
		fmt.Fprintf(os.Stderr, "phase %d: %d jobs in %.1fs (evaluations so far %d)\n", phase, len(jobs), time.Since(t0).Seconds(), c.Evals())
		if done := atomic.LoadInt64(&jobsDone) - before; int(done) < len(jobs) {
			c.CapHit(fmt.Sprintf("time budget: phase %d stopped after %d of %d jobs", phase, done, len(jobs)))
			complete = false
			break
		}
		c.Set("phases_completed", phase+1)
	}
	close(stopWD)
	if os.Getenv("C16_TIMING") != "" {
		printSlowest()
	}
	report()
	exit("every input of every family (raw byte strings up to the per-target length, every alteration operator at every eligible position of "+
		"every valid encoding, every SQL token sequence up to the tier's length) executed against the real decoder in a child process; "+
		"no panic / crash / hang / allocation > 64 MiB + 64*len / partial effect. distinct = distinct (target, outcome text) pairs", complete)
}

// report turns the aggregated groups into violations (deterministic order: one per target first) and
// writes the per-target coverage numbers.
func report() {
	aggMu.Lock()
	defer aggMu.Unlock()
	var keys []string
	for k := range groups {
		keys = append(keys, k)
	}
	sort.Strings(keys)
	byTarget := map[string][]*group{}
	var order []string
	for _, k := range keys {
		g := groups[k]
		if byTarget[g.v.T] == nil {
			order = append(order, g.v.T)
		}
		byTarget[g.v.T] = append(byTarget[g.v.T], g)
	}
	for round := 0; ; round++ { // round-robin: the framework prints only the first few violations of a class
		more := false
		for _, t := range order {
			if round < len(byTarget[t]) {
				more = true
				g := byTarget[t][round]
				v := g.v
				sig := fmt.Sprintf("%s target=%s at=%s %s", v.Class, v.T, v.At, v.Desc)
				if v.At == "-" {
					sig = fmt.Sprintf("%s target=%s %s", v.Class, v.T, v.Desc)
				}
				c.Violate(lib.Violation{Sig: sig,
					Detail: fmt.Sprintf("%d enumerated inputs in this group (same class, target and site); minimal one: %s (family %s, index %d, %d bytes: %s)\n%s",
						g.count, v.Desc, v.F, v.I, len(v.Hex)/2, trunc(v.Hex, 200), v.Detail),
					Replay: map[string]any{"T": v.T, "F": v.F, "I": v.I, "hex": trunc(v.Hex, 4096), "desc": v.Desc}})
			}
		}
		if !more {
			break
		}
	}
	if p := os.Getenv("C16_DUMP"); p != "" { // debugging aid: every group with its full detail
		var sb strings.Builder
		for _, k := range keys {
			g := groups[k]
			fmt.Fprintf(&sb, "===== %s target=%s at=%s %s (n=%d, family %s index %d)\nhex=%s\n%s\n\n", g.v.Class, g.v.T, g.v.At, g.v.Desc, g.count, g.v.F, g.v.I, trunc(g.v.Hex, 400), g.v.Detail)
		}
		os.WriteFile(p, []byte(sb.String()), 0644)
	}
	for _, k := range keys {
		g := groups[k]
		fmt.Printf("GROUP %-6s %-34s at=%-60s n=%-7d min: %s\n", g.v.Class, g.v.T, g.v.At, g.count, g.v.Desc)
	}
	perTarget := map[string]any{}
	for _, t := range targets {
		oc := outcomes[t.name]
		if oc == nil {
			continue
		}
		var ok, errs, pan int64
		for k, n := range oc {
			c.Distinct(t.name + "|" + k)
			switch {
			case k == "panic":
				pan += n
			case strings.HasPrefix(k, "ok"):
				ok += n
			default:
				errs += n
			}
		}
		perTarget[t.name] = map[string]any{"inputs": evalsBy[t.name], "accepted": ok, "rejected_or_other": errs, "panicking": pan, "distinct_outcomes": len(oc), "valid_encodings": len(t.encs)}
	}
	c.Set("targets", len(targets))
	c.Set("per_target", perTarget)
	nf := 0
	for _, t := range targets {
		nf += len(t.fams)
	}
	c.Set("families", nf)
	c.Set("violation_groups", len(groups))
	for _, t := range targets[:min(4, len(targets))] {
		if len(t.fams) > 0 {
			f := t.fams[len(t.fams)-1]
			in, d := f.gen(f.n / 2)
			c.Sample(map[string]any{"target": t.name, "family": f.name, "index": f.n / 2, "input": inputDesc(in, d), "hex": trunc(hex.EncodeToString(in), 80)})
		}
	}
}

func trunc(s string, n int) string {
	if len(s) > n {
		return s[:n] + "…"
	}
	return s
}
