package main

func buildMore(dir string, thorough bool) {}

func buildMoreTargets(thorough bool) {}
