package main

// Targets that involve files or a store: ReplicateTx (with the partial-effect oracle), the SQL index entry
// mapper, valueRefFrom (through a hand-written index), the openers / readers of on-disk files, and the pgsql
// session start-up over a loopback connection.

import (
	"bytes"
	"context"
	"crypto/sha256"
	"encoding/hex"
	"fmt"
	"io"
	"net"
	"os"
	"path/filepath"
	"sort"
	"strings"
	"sync/atomic"
	"time"

	"github.com/codenotary/immudb/embedded/ahtree"
	"github.com/codenotary/immudb/embedded/appendable"
	"github.com/codenotary/immudb/embedded/appendable/multiapp"
	"github.com/codenotary/immudb/embedded/appendable/singleapp"
	"github.com/codenotary/immudb/embedded/logger"
	"github.com/codenotary/immudb/embedded/sql"
	"github.com/codenotary/immudb/embedded/store"
	"github.com/codenotary/immudb/embedded/tbtree"
	"github.com/codenotary/immudb/pkg/database"
	pgserver "github.com/codenotary/immudb/pkg/pgsql/server"
)

var quiet = logger.NewMemoryLoggerWithLevel(logger.LogError)
var bg = context.Background()
var workSeq int64

// workDir returns a fresh private copy of a template directory; the caller removes it.
func workDir(tpl string) string {
	d := filepath.Join(prepDir, fmt.Sprintf("w%s-%d", os.Getenv("C16_SLOT"), atomic.AddInt64(&workSeq, 1)))
	if tpl != "" {
		copyDir(tpl, d)
	} else {
		must(os.MkdirAll(d, 0755))
	}
	return d
}

// withClose runs body and closes c afterwards. When body panics c is deliberately NOT closed: immudb may have
// panicked while holding one of c's locks and Close would block for ever (seen with multiapp.ReadAt).
func withClose(c io.Closer, body func() string) string {
	out := body()
	c.Close()
	return out
}

// ---------- ReplicateTx ----------

type stState struct {
	committed, precommitted uint64
	alh, palh               [sha256.Size]byte
}

func stateOf(st *store.ImmuStore) (s stState) {
	s.committed, s.alh = st.CommittedAlh()
	s.precommitted, s.palh = st.PrecommittedAlh()
	return
}

// replicateRun: e.Aux is the template of a replica that holds every transaction before the exported one (e.B).
// Oracle: if the altered input is rejected the store state is unchanged, the valid export is then accepted and
// moves the store to exactly one more committed transaction.
func replicateRun(skipIntegrity bool) func(e *enc, in []byte) string {
	return func(e *enc, in []byte) string {
		tpl, valid := filepath.Join(prepDir, "tpl", "rep-v1-0"), []byte(nil)
		if e != nil {
			tpl, valid = e.Aux, e.B
		}
		d := workDir(tpl)
		defer os.RemoveAll(d)
		st, err := store.Open(d, sopts(1))
		must(err)
		return withClose(st, func() string { return replicateOne(st, in, valid, skipIntegrity) })
	}
}

func replicateOne(st *store.ImmuStore, in, valid []byte, skipIntegrity bool) string {
	{
		before := stateOf(st)
		// a transaction id ahead of the replica makes ReplicateTx wait for its predecessor until the context ends
		// (by design), hence the deadline; it only decides between "err: context deadline exceeded" and waiting
		ctx, cancel := context.WithTimeout(bg, 300*time.Millisecond)
		defer cancel()
		hdr, err := st.ReplicateTx(ctx, in, skipIntegrity, false)
		if err == nil {
			if hdr == nil || st.LastCommittedTxID() != before.committed+1 {
				return fmt.Sprintf("VIOL partial-effect: ReplicateTx returned no error but committed tx id went %d -> %d", before.committed, st.LastCommittedTxID())
			}
			return "ok accepted"
		}
		if after := stateOf(st); after != before {
			return fmt.Sprintf("VIOL partial-effect: input rejected (%v) but store state changed: committed %d->%d precommitted %d->%d alh %x->%x",
				err, before.committed, after.committed, before.precommitted, after.precommitted, before.alh[:4], after.alh[:4])
		}
		if valid != nil {
			if _, err2 := st.ReplicateTx(bg, valid, skipIntegrity, false); err2 != nil {
				return fmt.Sprintf("VIOL partial-effect: after the rejected input (%v) the valid transaction is no longer accepted: %v", err, err2)
			}
			if st.LastCommittedTxID() != before.committed+1 {
				return "VIOL partial-effect: valid transaction accepted after a rejected one but not committed"
			}
		}
		return "err: " + err.Error()
	}
}

// ---------- SQL index entry mapper ----------

var mapperStore *store.ImmuStore

func sqlTemplate(dir string) {
	p := filepath.Join(dir, "tpl", "sqlstore")
	st, err := store.Open(p, sopts(1).WithMultiIndexing(true).WithMaxValueLen(256).WithMaxKeyLen(128))
	must(err)
	eng, err := sql.NewEngine(st, sql.DefaultOptions().WithPrefix([]byte("sql.")))
	must(err)
	for _, q := range []string{"CREATE TABLE t (id INTEGER, v VARCHAR[8], b BOOLEAN, PRIMARY KEY id)", "CREATE INDEX ON t(v)",
		"INSERT INTO t (id, v, b) VALUES (1, 'abc', true)"} {
		_, _, err := eng.Exec(bg, nil, q, nil)
		must(err)
	}
	n := st.LastCommittedTxID()
	tx := store.NewTx(8, 128)
	must(st.ReadTx(n, false, tx))
	for _, e := range tx.Entries() {
		if bytes.HasPrefix(e.Key(), []byte("sql.R.")) {
			v, err := st.ReadValue(e)
			must(err)
			prepEncs["sql.indexEntryMapper"] = append(prepEncs["sql.indexEntryMapper"], enc{Name: "row-value", B: v, Aux: hex.EncodeToString(e.Key())})
		}
	}
	if len(prepEncs["sql.indexEntryMapper"]) != 1 {
		panic("row entry not found")
	}
	must(st.Close())
	canonTree(p)
}

// mapperRun feeds the input as the VALUE of a row key to OngoingTx.Set, which calls the entry mapper of the
// primary index synchronously (the same path ReplicateTx takes on a replica). The transaction is cancelled.
func mapperInit() {
	if mapperStore == nil {
		d := workDir(filepath.Join(prepDir, "tpl", "sqlstore"))
		st, err := store.Open(d, sopts(1).WithMultiIndexing(true).WithMaxValueLen(256).WithMaxKeyLen(128))
		must(err)
		eng, err := sql.NewEngine(st, sql.DefaultOptions().WithPrefix([]byte("sql.")))
		must(err)
		tx, err := eng.NewTx(bg, sql.DefaultTxOptions()) // loads the catalog and registers the index specs
		must(err)
		tx.Cancel()
		mapperStore = st
	}
}

func mapperRun(e *enc, in []byte) string {
	key, _ := hex.DecodeString(prepEncs["sql.indexEntryMapper"][0].Aux)
	tx, err := mapperStore.NewTx(bg, store.DefaultTxOptions())
	must(err)
	defer tx.Cancel()
	return outErr(tx.Set(key, nil, in))
}

// ---------- valueRefFrom ----------

func vrefTemplate(dir string) {
	p := filepath.Join(dir, "tpl", "vrefstore")
	st, err := store.Open(p, sopts(1))
	must(err)
	commit(st, nil, kvSpec{"k1", "v1", nil})
	must(st.WaitForIndexingUpto(bg, 1))
	must(st.Close())
	copyDir(filepath.Join(p, "index"), filepath.Join(dir, "tpl", "vref-index-ts1"))
	st, err = store.Open(p, sopts(1))
	must(err)
	commit(st, nil, kvSpec{"k2", "v2", nil})
	commit(st, nil, kvSpec{"k3", "v3", nil})
	must(st.WaitForIndexingUpto(bg, 3))
	must(st.Close())
	must(os.RemoveAll(filepath.Join(p, "index")))
	copyDir(filepath.Join(dir, "tpl", "vref-index-ts1"), filepath.Join(p, "index"))
	canonTree(p)
	// valid indexed values, read from the index of the full store
	copyDir(filepath.Join(dir, "tpl", "store-v1", "index"), filepath.Join(dir, "tmp-index"))
	t, err := tbtree.Open(filepath.Join(dir, "tmp-index"), tbtree.DefaultOptions().WithLogger(quiet).WithCacheSize(16))
	must(err)
	for _, k := range []string{"k2", "k4", "k6", "k1"} {
		v, _, _, err := t.Get([]byte(k))
		must(err)
		addEnc("store.valueRefFrom", "indexed-value-"+k, v)
	}
	must(t.Close())
}

// vrefRun writes the input as the indexed value of key "zz" (timestamp 2 of 3) into the index of a store and
// reads it back through store.Get (valueRefFrom) and Resolve.
func vrefRun(e *enc, in []byte) string {
	if len(in) == 0 {
		return "n/a: the index cannot hold an empty value"
	}
	d := workDir(filepath.Join(prepDir, "tpl", "vrefstore"))
	defer os.RemoveAll(d)
	t, err := tbtree.Open(filepath.Join(d, "index"), tbtree.DefaultOptions().WithLogger(quiet).WithCacheSize(16))
	must(err)
	if err := t.BulkInsert([]*tbtree.KVT{{K: []byte("zz"), V: in, T: 2}}); err != nil {
		t.Close()
		return "n/a: " + err.Error()
	}
	_, _, err = t.FlushWith(0, true)
	must(err)
	must(t.Close())
	st, err := store.Open(d, sopts(1))
	must(err)
	return withClose(st, func() string {
		ref, err := st.Get(bg, []byte("zz"))
		if err != nil {
			return "err: " + err.Error()
		}
		ref.KVMetadata()
		ref.TxMetadata()
		if _, err := ref.Resolve(); err != nil {
			return "ok ref, resolve err: " + err.Error()
		}
		return "ok"
	})
}

// ---------- on-disk files ----------

// fileEncs: one encoding per file below tpl. Eligible positions: the whole file when it has at most `whole`
// bytes, otherwise the metadata header plus the first and last 64 bytes of the body; files for which lite
// returns true (they are covered by a dedicated target) only get the first 8 and the last 32 bytes.
func fileEncs(target, tpl string, whole int, lite func(rel string) bool) {
	var rels []string
	filepath.Walk(tpl, func(p string, fi os.FileInfo, err error) error {
		if err == nil && !fi.IsDir() {
			rel, _ := filepath.Rel(tpl, p)
			rels = append(rels, rel)
		}
		return nil
	})
	sort.Strings(rels)
	for _, rel := range rels {
		bs, err := os.ReadFile(filepath.Join(tpl, rel))
		must(err)
		var pos []int
		if len(bs) > whole {
			h := fileHeaderLen(bs) + 64
			t := 64
			if lite != nil && lite(rel) {
				h, t = 8, 32
				if strings.HasPrefix(rel, "aht/") || strings.HasPrefix(rel, "index/") {
					h, t = 0, 0 // left to ahtree.Open+read / tbtree.Open+scan in the quick tier
				}
			}
			for i := range bs {
				if i < h || i >= len(bs)-t {
					pos = append(pos, i)
				}
			}
		}
		if len(bs) <= whole || len(pos) > 0 {
			prepEncs[target] = append(prepEncs[target], enc{Name: rel, B: bs, Pos: pos, Aux: tpl})
		}
	}
}

// withAltered copies the template, replaces the file by the altered bytes and runs f on the copy.
func withAltered(e *enc, in []byte, f func(dir string) string) string {
	d := workDir(e.Aux)
	defer os.RemoveAll(d)
	must(os.WriteFile(filepath.Join(d, e.Name), in, 0644))
	return f(d)
}

func storeOpenRun(e *enc, in []byte) string {
	return withAltered(e, in, func(d string) string {
		st, err := store.Open(d, sopts(1))
		if err != nil {
			return "err: open: " + firstWords(err.Error(), 6)
		}
		return withClose(st, func() string {
			n := st.LastCommittedTxID()
			tx := store.NewTx(8, 32)
			okTx, okVal := 0, 0
			for id := uint64(1); id <= n && id <= 8; id++ {
				if err := st.ReadTx(id, false, tx); err != nil {
					continue
				}
				okTx++
				for _, en := range tx.Entries() {
					if _, err := st.ReadValue(en); err == nil {
						okVal++
					}
				}
				st.ExportTx(id, false, false, tx)
				st.ReadTxHeader(id, false, false)
			}
			if h, err := st.ReadTxHeader(n, false, false); err == nil && n > 1 {
				if h1, err := st.ReadTxHeader(1, false, false); err == nil {
					st.DualProof(h1, h)
				}
			}
			for _, k := range []string{"k1", "k4", "k6"} {
				if ref, err := st.Get(bg, []byte(k)); err == nil {
					ref.Resolve()
				}
			}
			return fmt.Sprintf("ok open: %d txs, %d readable, %d values", n, okTx, okVal)
		})
	})
}

func tbtreeOpts() *tbtree.Options {
	return tbtree.DefaultOptions().WithLogger(quiet).WithCacheSize(4).WithMaxNodeSize(256).WithMaxKeySize(16).WithMaxValueSize(32).
		WithFlushBufferSize(256).WithFileSize(1 << 14)
}

func tbtreeTemplate(dir string) string {
	p := filepath.Join(dir, "tpl", "tbtree")
	t, err := tbtree.Open(p, tbtreeOpts())
	must(err)
	for round := 0; round < 3; round++ { // three flushes: older nodes are outside the last checksummed range
		for i := 0; i < 9; i++ {
			must(t.Insert([]byte(fmt.Sprintf("key%02d", (i*7+round)%12)), []byte(fmt.Sprintf("value-%d-%d", round, i))))
		}
		_, _, err := t.FlushWith(0, true)
		must(err)
	}
	must(t.Close())
	canonTree(p)
	return p
}

func tbtreeRun(e *enc, in []byte) string {
	return withAltered(e, in, func(d string) string {
		t, err := tbtree.Open(d, tbtreeOpts())
		if err != nil {
			return "err: open: " + firstWords(err.Error(), 6)
		}
		return withClose(t, func() string {
			n, nh := 0, 0
			if s, err := t.Snapshot(); err == nil {
				if r, err := s.NewReader(tbtree.ReaderSpec{}); err == nil {
					for ; n < 1000; n++ {
						if _, _, _, _, err := r.Read(); err != nil {
							break
						}
					}
					r.Close()
				}
				if r, err := s.NewReader(tbtree.ReaderSpec{DescOrder: true, SeekKey: []byte("key99")}); err == nil {
					for k := 0; k < 1000; k++ {
						if _, _, _, _, err := r.Read(); err != nil {
							break
						}
					}
					r.Close()
				}
				s.Close()
			}
			for i := 0; i < 12; i++ {
				k := []byte(fmt.Sprintf("key%02d", i))
				t.Get(k)
				if tvs, _, err := t.History(k, 0, false, 10); err == nil {
					nh += len(tvs)
				}
			}
			return fmt.Sprintf("ok open: ts=%d, %d keys scanned, %d history values", t.Ts(), n, nh)
		})
	})
}

func ahtOpts() *ahtree.Options {
	return ahtree.DefaultOptions().WithFileSize(1 << 14).WithDataCacheSlots(2).WithDigestsCacheSlots(2).WithWriteBufferSize(256).WithReadBufferSize(64)
}

func ahtTemplate(dir string) string {
	p := filepath.Join(dir, "tpl", "ahtree")
	t, err := ahtree.Open(p, ahtOpts())
	must(err)
	for i := 0; i < 5; i++ {
		_, _, err := t.Append(bytes.Repeat([]byte{byte('a' + i)}, i)) // the first payload is empty
		must(err)
	}
	must(t.Close())
	canonTree(p)
	return p
}

func ahtRun(e *enc, in []byte) string {
	return withAltered(e, in, func(d string) string {
		t, err := ahtree.Open(d, ahtOpts())
		if err != nil {
			return "err: open: " + firstWords(err.Error(), 6)
		}
		return withClose(t, func() string {
			n := t.Size()
			t.Root()
			ok := 0
			for i := uint64(1); i <= n && i <= 16; i++ {
				if _, err := t.DataAt(i); err == nil {
					ok++
				}
				t.RootAt(i)
				t.InclusionProof(i, n)
				t.ConsistencyProof(i, n)
			}
			return fmt.Sprintf("ok open: size %d, %d payloads readable", n, ok)
		})
	})
}

func appTemplates(dir string) (string, string) {
	sp := filepath.Join(dir, "tpl", "singleapp")
	must(os.MkdirAll(sp, 0755))
	for _, cf := range []int{appendable.NoCompression, appendable.ZLibCompression} {
		a, err := singleapp.Open(filepath.Join(sp, fmt.Sprintf("comp%d.aof", cf)), singleapp.DefaultOptions().WithMetadata([]byte("wrapped-meta")).
			WithCompressionFormat(cf).WithWriteBuffer(make([]byte, 64)))
		must(err)
		for i := 0; i < 3; i++ {
			_, _, err := a.Append(bytes.Repeat([]byte{byte('x' + i)}, 10+i))
			must(err)
		}
		must(a.Close())
	}
	mp := filepath.Join(dir, "tpl", "multiapp")
	m, err := multiapp.Open(mp, multiapp.DefaultOptions().WithFileSize(32).WithFileExt("dat").WithMetadata([]byte("wrapped-meta")).WithWriteBufferSize(16).WithReadBufferSize(16))
	must(err)
	for i := 0; i < 5; i++ {
		_, _, err := m.Append(bytes.Repeat([]byte{byte('m' + i)}, 13))
		must(err)
	}
	must(m.Close())
	canonTree(sp)
	canonTree(mp)
	return sp, mp
}

func singleappRun(e *enc, in []byte) string {
	return withAltered(e, in, func(d string) string {
		a, err := singleapp.Open(filepath.Join(d, e.Name), singleapp.DefaultOptions().WithReadOnly(true).WithReadBufferSize(16))
		if err != nil {
			return "err: open: " + firstWords(err.Error(), 6)
		}
		return withClose(a, func() string {
			sz, _ := a.Size()
			a.Metadata()
			buf := make([]byte, 64)
			n := 0
			for off := int64(0); off < sz && off < 256; off += 7 {
				if _, err := a.ReadAt(buf[:9], off); err == nil {
					n++
				}
			}
			if r := appendable.NewReaderFrom(a, 0, 16); r != nil {
				r.ReadUint64()
				r.Read(buf)
			}
			return fmt.Sprintf("ok open: size %d format %d, %d reads", sz, a.CompressionFormat(), n)
		})
	})
}

func multiappRun(e *enc, in []byte) string {
	return withAltered(e, in, func(d string) string {
		m, err := multiapp.Open(d, multiapp.DefaultOptions().WithFileSize(32).WithFileExt("dat").WithMetadata([]byte("wrapped-meta")).WithWriteBufferSize(16).WithReadBufferSize(16))
		if err != nil {
			return "err: open: " + firstWords(err.Error(), 6)
		}
		return withClose(m, func() string {
			sz, _ := m.Size()
			m.Metadata()
			buf := make([]byte, 40)
			n := 0
			for off := int64(0); off < sz && off < 256; off += 11 {
				if _, err := m.ReadAt(buf, off); err == nil || err == io.EOF {
					n++
				}
			}
			m.Append([]byte("tail"))
			m.Flush()
			return fmt.Sprintf("ok open: size %d, %d reads", sz, n)
		})
	})
}

func firstWords(s string, n int) string {
	f := strings.Fields(s)
	if len(f) > n {
		f = f[:n]
	}
	return strings.Join(f, " ")
}

// ---------- pgsql session start-up over loopback ----------

var pgAddr string

// pgSessionRun sends the input to a real pgsql server (empty database list: the exchange ends at the
// database lookup at the latest), half-closes and waits until the server closes the connection. A panic in
// the session goroutine kills the process (detected by the parent as a crash of this input).
func pgSessionInit() {
	if pgAddr == "" {
		// "defaultdb" is registered but never opened: the exchange reaches the (pre-authentication) password message;
		// a non-empty password makes the session dial immudbPort, where nothing listens (connection refused)
		dbl := database.NewDatabaseList(database.NewDBManager(nil, 2, quiet))
		dbl.Put("defaultdb", database.DefaultOptions())
		srv := pgserver.New(pgserver.Host("127.0.0.1"), pgserver.Port(0), pgserver.ImmudbPort(1), pgserver.Logger(quiet), pgserver.DatabaseList(dbl))
		must(srv.Initialize())
		pgAddr = fmt.Sprintf("127.0.0.1:%d", srv.GetPort())
		go srv.Serve()
	}
}

func pgSessionRun(_ *enc, in []byte) string {
	conn, err := net.Dial("tcp", pgAddr)
	must(err)
	defer conn.Close()
	if len(in) > 0 {
		_, err = conn.Write(in)
		must(err)
	}
	conn.(*net.TCPConn).CloseWrite()
	reply, _ := io.ReadAll(conn)
	if len(reply) == 0 {
		return "closed without reply"
	}
	return fmt.Sprintf("reply %c, %d bytes", reply[0], len(reply))
}

func pgSessionEncs() {
	params := cat(cstr("user"), cstr("immudb"), cstr("database"), cstr("defaultdb"), []byte{0})
	startup := cat(be32(8+len(params)), be32(196608), params)
	ssl := cat(be32(8), be32(80877103))
	addEnc("pgsql.session", "startup", startup)
	addEnc("pgsql.session", "sslrequest+startup", cat(ssl, startup))
	addEnc("pgsql.session", "startup+password", cat(startup, []byte{'p'}, be32(4+7), cstr("secret")))
	addEnc("pgsql.session", "startup+empty-password", cat(startup, []byte{'p'}, be32(4+1), cstr("")))
}

// ---------- registration ----------

func buildMore(dir string, thorough bool) {
	buildPureEncodings(dir)
	sqlTemplate(dir)
	vrefTemplate(dir)
	// quick: header + first/last 64 bytes of every file (store: only tx and commit log get the header, the aht /
	// index / value files have their own targets or only matter at their ends); thorough: whole files <= 4 KiB
	whole, lite := 0, func(rel string) bool { return !strings.HasPrefix(rel, "tx/") && !strings.HasPrefix(rel, "commit/") }
	if thorough {
		whole, lite = 4096, nil
	}
	fileEncs("store.Open+read", filepath.Join(dir, "tpl", "store-v1"), whole, lite)
	fileEncs("tbtree.Open+scan", tbtreeTemplate(dir), whole, nil)
	fileEncs("ahtree.Open+read", ahtTemplate(dir), whole, nil)
	sp, mp := appTemplates(dir)
	fileEncs("singleapp.Open+read", sp, 4096, nil)
	fileEncs("multiapp.Open+read", mp, 4096, nil)
	pgSessionEncs()
	all := prepEncs["store.ReplicateTx"] // v1 tx1..4, v0 tx1..2
	prepEncs["store.ReplicateTx(skipIntegrityCheck)"] = []enc{all[1]}
	if !thorough { // quick: the multi-entry tx with KV metadata and empty value, the tx with truncation + extra metadata, a version-0 tx
		prepEncs["store.ReplicateTx"] = []enc{all[1], all[3], all[4]}
	} else {
		prepEncs["store.ReplicateTx(skipIntegrityCheck)"] = []enc{all[1], all[3]}
	}
}

func buildMoreTargets(thorough bool) {
	buildPureTargets(thorough)
	addTarget(thorough, 256, "store.ReplicateTx", 1, 2, replicateRun(false))
	addTarget(thorough, 256, "store.ReplicateTx(skipIntegrityCheck)", 1, 1, replicateRun(true))
	addTarget(thorough, 4096, "sql.indexEntryMapper", 2, 3, mapperRun).init = mapperInit
	addTarget(thorough, 256, "store.valueRefFrom", 1, 1, vrefRun)
	addTarget(thorough, 256, "store.Open+read", -1, -1, storeOpenRun)
	addTarget(thorough, 256, "tbtree.Open+scan", -1, -1, tbtreeRun)
	addTarget(thorough, 256, "ahtree.Open+read", -1, -1, ahtRun)
	addTarget(thorough, 256, "singleapp.Open+read", -1, -1, singleappRun)
	addTarget(thorough, 256, "multiapp.Open+read", -1, -1, multiappRun)
	addTarget(thorough, 4096, "pgsql.session", 1, 2, pgSessionRun).init = pgSessionInit
}
