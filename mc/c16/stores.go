package main

func buildMore(dir string, thorough bool) {
	buildPureEncodings(dir)
}

func buildMoreTargets(thorough bool) {
	buildPureTargets(thorough)
}
