package main

// Adapters of the pure (no file system) decoding entry points.

import (
	"fmt"

	"github.com/codenotary/immudb/embedded/appendable"
	"github.com/codenotary/immudb/embedded/store"
)

func outErr(err error) string {
	if err == nil {
		return "ok"
	}
	return "err: " + err.Error()
}

// addTarget registers a target with its raw families and one alteration family per valid encoding.
func addTarget(thorough bool, chunk int, name string, rawQ, rawT int, run func(e *enc, in []byte) string) *target {
	t := &target{name: name, raw: [2]int{rawQ, rawT}, run: run, encs: prepEncs[name]}
	n := rawQ
	if thorough {
		n = rawT
	}
	t.fams = rawFam(t, n)
	var skip map[string]bool
	if chunk <= 256 && !thorough { // slow targets (a store / file per input): reduced operator set in the quick tier
		skip = map[string]bool{"set64": true, "dup": true}
	}
	for i := range t.encs {
		t.fams = append(t.fams, altFams(t, &t.encs[i], chunk, skip)...)
	}
	targets = append(targets, t)
	return t
}

func buildTargets(thorough bool) {
	targets = nil
	addTarget(thorough, 4096, "store.TxHeader.ReadFrom", 3, 3, func(_ *enc, in []byte) string {
		h := new(store.TxHeader)
		err := h.ReadFrom(in)
		if err == nil { // an accepted header must be usable: hashed and serialized again
			h.Alh()
			h.Bytes()
		}
		return outErr(err)
	})
	addTarget(thorough, 4096, "store.TxMetadata.ReadFrom", 3, 3, func(_ *enc, in []byte) string {
		md := store.NewTxMetadata()
		err := md.ReadFrom(in)
		if err == nil {
			md.Bytes()
		}
		return outErr(err)
	})
	// NewMetadata + the typed getters its callers use (singleapp.Open, store.OpenWith, tbtree.OpenWith call
	// GetInt / GetBool on whatever the file contained).
	addTarget(thorough, 4096, "appendable.Metadata", 3, 3, func(_ *enc, in []byte) string {
		m := appendable.NewMetadata(in)
		n := 0
		for _, k := range []string{"INT", "BOOL", "BLOB", ""} {
			if _, ok := m.GetInt(k); ok {
				n++
			}
			if _, ok := m.GetBool(k); ok {
				n++
			}
		}
		return fmt.Sprintf("ok typed=%d", n)
	})
	buildMoreTargets(thorough)
}
