package main

// Pure targets, part 2: SQL values / keys / text, PostgreSQL wire messages, proof proto conversions, stream
// chunk readers — adapters and valid encodings.

import (
	"bytes"
	"encoding/binary"
	"fmt"
	"io"
	"net"
	"path/filepath"
	"reflect"
	"sort"
	"strings"
	"time"

	"github.com/codenotary/immudb/embedded/sql"
	"github.com/codenotary/immudb/embedded/store"
	"github.com/codenotary/immudb/pkg/api/schema"
	pgserver "github.com/codenotary/immudb/pkg/pgsql/server"
	fm "github.com/codenotary/immudb/pkg/pgsql/server/fmessages"
	"github.com/codenotary/immudb/pkg/stream"
	"github.com/google/uuid"
	"google.golang.org/protobuf/proto"
)

// ---------- SQL ----------

var sqlTypes = []sql.SQLValueType{sql.IntegerType, sql.BooleanType, sql.VarcharType, sql.UUIDType, sql.BLOBType, sql.Float64Type, sql.TimestampType, sql.JSONType}

type keyType struct {
	t      sql.SQLValueType
	maxLen int
}

var sqlKeyTypes = []keyType{{sql.IntegerType, 8}, {sql.BooleanType, 1}, {sql.VarcharType, 1}, {sql.VarcharType, 6}, {sql.UUIDType, 16},
	{sql.BLOBType, 6}, {sql.Float64Type, 8}, {sql.TimestampType, 8}, {sql.JSONType, 8}, {sql.IntegerType, 4}, {sql.VarcharType, 0}}

type rawVal struct {
	v interface{}
	t sql.SQLValueType
	n int // maxLen when used as a key
}

func sqlValues() map[string]rawVal {
	return map[string]rawVal{"int": {int64(-7), sql.IntegerType, 8}, "bool": {true, sql.BooleanType, 1}, "varchar": {"abc", sql.VarcharType, 6},
		"varchar-empty": {"", sql.VarcharType, 6}, "uuid": {uuid.MustParse("00112233-4455-6677-8899-aabbccddeeff"), sql.UUIDType, 16},
		"blob": {[]byte{1, 2, 3}, sql.BLOBType, 6}, "float": {float64(-1.5), sql.Float64Type, 8}, "timestamp": {fixedTime.UTC(), sql.TimestampType, 8},
		"json": {sql.NewJson(map[string]interface{}{"a": []interface{}{1.0, "x", nil}}).RawValue(), sql.JSONType, 0}}
}

// the 26-token alphabet of the SQL text enumeration
var sqlTokens = []string{"SELECT", "FROM", "WHERE", "INSERT", "INTO", "VALUES", "(", ")", ",", "*", "t", "c", "1", "'a'", "NULL", "=", "<",
	"AND", "OR", "NOT", "ORDER", "BY", "LIMIT", ";", "BEGIN", "COMMIT"}

// valid statements (space separated tokens) for the single-token deletion / duplication family
var sqlCorpus = []string{
	"SELECT * FROM t", "SELECT c FROM t WHERE c = 1", "SELECT c , d FROM t WHERE c < 1 AND NOT d = 'a' ORDER BY c DESC LIMIT 1",
	"SELECT COUNT ( * ) FROM t GROUP BY c HAVING COUNT ( * ) > 1", "SELECT t . c FROM t AS x INNER JOIN u ON x . c = u . c",
	"INSERT INTO t ( c , d ) VALUES ( 1 , 'a' )", "INSERT INTO t ( c ) VALUES ( NULL ) , ( 2 )", "UPSERT INTO t ( c , d ) VALUES ( @p , $1 )",
	"UPDATE t SET d = 'b' WHERE c = 1", "DELETE FROM t WHERE c IN ( 1 , 2 )", "CREATE TABLE t ( c INTEGER AUTO_INCREMENT , d VARCHAR [ 10 ] NOT NULL , PRIMARY KEY c )",
	"CREATE TABLE IF NOT EXISTS t ( c INTEGER , d BLOB , e TIMESTAMP , f FLOAT , g BOOLEAN , h UUID , j JSON , PRIMARY KEY ( c , d ) )",
	"CREATE UNIQUE INDEX ON t ( d )", "CREATE INDEX IF NOT EXISTS ON t ( d , e )", "ALTER TABLE t ADD COLUMN k VARCHAR", "ALTER TABLE t RENAME COLUMN k TO l",
	"DROP TABLE t", "DROP INDEX ON t ( d )", "BEGIN TRANSACTION ; INSERT INTO t ( c ) VALUES ( 1 ) ; COMMIT", "BEGIN ; ROLLBACK",
	"SELECT * FROM t WHERE c BETWEEN 1 AND 2 OR d LIKE 'a.*'", "SELECT * FROM ( SELECT c FROM t ) AS s", "SELECT c FROM t UNION SELECT c FROM u",
	"SELECT CASE WHEN c = 1 THEN 'a' ELSE 'b' END FROM t", "SELECT * FROM t BEFORE TX 3 WHERE c IS NOT NULL", "SELECT CAST ( c AS VARCHAR ) FROM t",
	"SELECT NOW ( ) , - 1 + 2 * ( 3 / 4 ) % 5 FROM t", "SELECT DISTINCT c FROM t ORDER BY c ASC LIMIT 10 OFFSET 2", "SELECT j -> 'a' FROM t WHERE EXISTS ( SELECT 1 FROM u )",
	"CREATE DATABASE db1", "USE DATABASE db1", "CREATE USER u WITH PASSWORD 'p' READWRITE", "GRANT ALL PRIVILEGES ON DATABASE db1 TO USER u",
}

func powSum(base, n int) (s int) { // base + base^2 + ... + base^n
	p := 1
	for i := 1; i <= n; i++ {
		p *= base
		s += p
	}
	return
}

func sqlFamilies(t *target, maxLen int) {
	nt := len(sqlTokens)
	t.fams = append(t.fams, &family{t: t, name: fmt.Sprintf("tok<=%d", maxLen), phase: 2, n: powSum(nt, maxLen), batch: 64, chunk: 1 << 15,
		gen: func(i int) ([]byte, string) {
			l, p := 1, nt
			for i >= p {
				i -= p
				p *= nt
				l++
			}
			toks := make([]string, l)
			for k := l - 1; k >= 0; k-- {
				toks[k] = sqlTokens[i%nt]
				i /= nt
			}
			s := strings.Join(toks, " ")
			return []byte(s), "input=" + fmt.Sprintf("%q", s)
		}})
	type cop struct {
		stmt, pos int
		dup       bool
	}
	var ops []cop
	for si, s := range sqlCorpus {
		for p := range strings.Fields(s) {
			ops = append(ops, cop{si, p, false}, cop{si, p, true})
		}
	}
	t.fams = append(t.fams, &family{t: t, name: "corpus", phase: 2, n: len(sqlCorpus) + len(ops), batch: 1, chunk: 1 << 15,
		gen: func(i int) ([]byte, string) {
			if i < len(sqlCorpus) {
				return []byte(sqlCorpus[i]), fmt.Sprintf("input=%q", sqlCorpus[i])
			}
			o := ops[i-len(sqlCorpus)]
			f := strings.Fields(sqlCorpus[o.stmt])
			var out []string
			out = append(out, f[:o.pos]...)
			if o.dup {
				out = append(out, f[o.pos], f[o.pos])
			}
			out = append(out, f[o.pos+1:]...)
			s := strings.Join(out, " ")
			return []byte(s), fmt.Sprintf("input=%q", s)
		}})
}

// ---------- pgsql ----------

type fakeConn struct{ r *bytes.Reader }
type fakeAddr struct{}

func (fakeAddr) Network() string                     { return "fake" }
func (fakeAddr) String() string                      { return "fake:0" }
func (c *fakeConn) Read(b []byte) (int, error)       { return c.r.Read(b) }
func (c *fakeConn) Write(b []byte) (int, error)      { return len(b), nil }
func (c *fakeConn) Close() error                     { return nil }
func (c *fakeConn) LocalAddr() net.Addr              { return fakeAddr{} }
func (c *fakeConn) RemoteAddr() net.Addr             { return fakeAddr{} }
func (c *fakeConn) SetDeadline(time.Time) error      { return nil }
func (c *fakeConn) SetReadDeadline(time.Time) error  { return nil }
func (c *fakeConn) SetWriteDeadline(time.Time) error { return nil }

func cstr(s string) []byte { return append([]byte(s), 0) }
func be16(v int) []byte    { return []byte{byte(v >> 8), byte(v)} }
func be32(v int) []byte    { b := make([]byte, 4); binary.BigEndian.PutUint32(b, uint32(v)); return b }
func cat(bs ...[]byte) (o []byte) {
	for _, b := range bs {
		o = append(o, b...)
	}
	return
}

// valid front-end message payloads, by message type byte
func pgPayloads() map[byte][][]byte {
	return map[byte][][]byte{
		'B': {cat(cstr("p1"), cstr("s1"), be16(2), be16(0), be16(1), be16(2), be32(3), []byte("abc"), be32(2), []byte{1, 2}, be16(1), be16(1)),
			cat(cstr(""), cstr(""), be16(0), be16(2), be32(-1), be32(1), []byte("x"), be16(0))},
		'P': {cat(cstr("s1"), cstr("SELECT 1"), be16(1), be32(23)), cat(cstr(""), cstr(""), be16(0))},
		'E': {cat(cstr("p1"), be32(100))},
		'D': {cat([]byte("S"), cstr("s1")), cat([]byte("P"), cstr(""))},
		'p': {cstr("secret")},
		'Q': {cstr("SELECT 1;")},
		'f': {cstr("copy failed")},
		'd': {[]byte("1\ta\n")},
		'S': {{}}, 'H': {{}}, 'X': {{}}, 'c': {{}},
	}
}

var pgParsers = map[byte]struct {
	name string
	f    func([]byte) error
}{
	'B': {"ParseBindMsg", func(b []byte) error { _, err := fm.ParseBindMsg(b); return err }},
	'P': {"ParseParseMsg", func(b []byte) error { _, err := fm.ParseParseMsg(b); return err }},
	'E': {"ParseExecuteMsg", func(b []byte) error { _, err := fm.ParseExecuteMsg(b); return err }},
	'D': {"ParseDescribeMsg", func(b []byte) error { _, err := fm.ParseDescribeMsg(b); return err }},
	'p': {"ParsePasswordMsg", func(b []byte) error { _, err := fm.ParsePasswordMsg(b); return err }},
	'Q': {"ParseQueryMsg", func(b []byte) error { _, err := fm.ParseQueryMsg(b); return err }},
	'f': {"ParseCopyFailMsg", func(b []byte) error { _, err := fm.ParseCopyFailMsg(b); return err }},
	'd': {"ParseCopyDataMsg", func(b []byte) error { _, err := fm.ParseCopyDataMsg(b); return err }},
	'S': {"ParseSyncMsg", func(b []byte) error { _, err := fm.ParseSyncMsg(b); return err }},
	'H': {"ParseFlushMsg", func(b []byte) error { _, err := fm.ParseFlushMsg(b); return err }},
	'X': {"ParseTerminateMsg", func(b []byte) error { _, err := fm.ParseTerminateMsg(b); return err }},
	'c': {"ParseCopyDoneMsg", func(b []byte) error { _, err := fm.ParseCopyDoneMsg(b); return err }},
}

var pgOrder = []byte("BPEDpQfdSHXc")

// ---------- stream ----------

type chunkStream struct{ chunks [][]byte }

func (s *chunkStream) Recv() (*schema.Chunk, error) {
	if len(s.chunks) == 0 {
		return nil, io.EOF
	}
	c := s.chunks[0]
	s.chunks = s.chunks[1:]
	return &schema.Chunk{Content: c}, nil
}

type captureStream struct{ b []byte }

func (s *captureStream) Send(c *schema.Chunk) error  { s.b = append(s.b, c.Content...); return nil }
func (s *captureStream) RecvMsg(m interface{}) error { return nil }

func split(in []byte, n int) (out [][]byte) {
	if n <= 0 || len(in) == 0 {
		return [][]byte{in}
	}
	for len(in) > n {
		out = append(out, in[:n])
		in = in[n:]
	}
	return append(out, in)
}

// every stream adapter runs the input once as a single chunk and once cut into 5-byte chunks
func streamRun(in []byte, f func(mr stream.MsgReceiver, bound int) string) string {
	a := f(stream.NewMsgReceiver(&chunkStream{chunks: split(in, 0)}), 2*len(in)+16)
	b := f(stream.NewMsgReceiver(&chunkStream{chunks: split(in, 5)}), 2*len(in)+16)
	if strings.HasPrefix(a, "VIOL ") {
		return a
	}
	if strings.HasPrefix(b, "VIOL ") {
		return b
	}
	return a + " / " + b
}

const streamBuf = 16

func vs(b []byte) *stream.ValueSize {
	return &stream.ValueSize{Content: bytes.NewReader(b), Size: len(b)}
}

// ---------- encodings (parent only) ----------

func buildPureEncodings(dir string) {
	vals := sqlValues()
	var names []string
	for name := range vals {
		names = append(names, name)
	}
	sort.Strings(names)
	for _, name := range names {
		v := vals[name]
		b, err := sql.EncodeRawValue(v.v, v.t, 0, false)
		must(err)
		addEnc("sql.DecodeValue", "value-"+name, b)
		if v.n > 0 {
			b, _, err := sql.EncodeRawValueAsKey(v.v, v.t, v.n)
			must(err)
			addEnc("sql.DecodeValueFromKey", fmt.Sprintf("key-%s[%d]", name, v.n), b)
		}
	}
	for _, t := range sqlTypes {
		if b, _, err := sql.EncodeValueAsKey(sql.NewNull(t), t, 8); err == nil {
			addEnc("sql.DecodeValueFromKey", "key-null-"+string(t), b)
			break
		}
	}
	pl := pgPayloads()
	var all []byte
	for _, ty := range pgOrder {
		for i, p := range pl[ty] {
			addEnc("pgsql.fmessages."+pgParsers[ty].name, fmt.Sprintf("%c-payload-%d", ty, i), p)
			msg := cat([]byte{ty}, be32(len(p)+4), p)
			addEnc("pgsql.ReadRawMessage+parse", fmt.Sprintf("%c-message-%d", ty, i), msg)
			if i == 0 && len(all) < 120 {
				all = append(all, msg...)
			}
		}
	}
	addEnc("pgsql.ReadRawMessage+parse", "several-messages", all)

	// proofs of the real store (header version 1, 4 transactions)
	sd := filepath.Join(dir, "tmp-proofs")
	copyDir(filepath.Join(dir, "tpl", "store-v1"), sd)
	st, err := store.Open(sd, sopts(1))
	must(err)
	h1, err := st.ReadTxHeader(1, false, false)
	must(err)
	h4, err := st.ReadTxHeader(4, false, false)
	must(err)
	pb := func(target, name string, m proto.Message) {
		b, err := proto.Marshal(m)
		must(err)
		addEnc(target, name, b)
	}
	dp, err := st.DualProof(h1, h4)
	must(err)
	pb("schema.DualProofFromProto", "dualproof-1-4", schema.DualProofToProto(dp))
	pb("schema.LinearProofFromProto", "linearproof", schema.LinearProofToProto(dp.LinearProof))
	pb("schema.LinearAdvanceProofFromProto", "linearadvanceproof", schema.LinearAdvanceProofToProto(dp.LinearAdvanceProof))
	dp2, err := st.DualProofV2(h1, h4)
	must(err)
	pb("schema.DualProofV2FromProto", "dualproofv2-1-4", schema.DualProofV2ToProto(dp2))
	pb("schema.TxHeaderFromProto", "txheader-4", schema.TxHeaderToProto(h4))
	pb("schema.TxMetadataFromProto", "txmetadata-4", schema.TxMetadataToProto(h4.Metadata))
	tx := store.NewTx(8, 32)
	must(st.ReadTx(2, false, tx))
	pb("schema.TxFromProto", "tx-2", schema.TxToProto(tx))
	ip, err := tx.Proof([]byte("k3"))
	must(err)
	pb("schema.InclusionProofFromProto", "inclusionproof-tx2-k3", schema.InclusionProofToProto(ip))
	for _, e := range tx.Entries() {
		if e.Metadata() != nil && e.Metadata().IsExpirable() {
			pb("schema.KVMetadataFromProto", "kvmetadata-expirable", schema.KVMetadataToProto(e.Metadata()))
		}
	}
	vtx := &schema.VerifiableTx{Tx: schema.TxToProto(tx), DualProof: schema.DualProofToProto(dp)}
	must(st.Close())

	// streams written by the real senders (chunk size 32)
	send := func(f func(ms stream.MsgSender)) []byte {
		cs := &captureStream{}
		f(stream.NewMsgSender(cs, make([]byte, 32)))
		return cs.b
	}
	msg := send(func(ms stream.MsgSender) {
		must(ms.Send(bytes.NewReader(bytes.Repeat([]byte("m"), 50)), 50, nil))
		must(ms.Send(bytes.NewReader([]byte("second")), 6, nil))
	})
	addEnc("stream.MsgReceiver.ReadFully", "two-messages", msg)
	addEnc("stream.MsgReceiver.Read", "two-messages", msg)
	addEnc("stream.KvStreamReceiver", "two-kvs", send(func(ms stream.MsgSender) {
		s := stream.NewKvStreamSender(ms)
		must(s.Send(&stream.KeyValue{Key: vs([]byte("key1")), Value: vs(bytes.Repeat([]byte("v"), 40))}))
		must(s.Send(&stream.KeyValue{Key: vs([]byte("k2")), Value: vs([]byte("w"))}))
	}))
	score, _ := stream.NumberToBytes(float64(1.5))
	atTx, _ := stream.NumberToBytes(uint64(3))
	addEnc("stream.ZStreamReceiver", "one-zentry", send(func(ms stream.MsgSender) {
		must(stream.NewZStreamSender(ms).Send(&stream.ZEntry{Set: vs([]byte("set")), Key: vs([]byte("key")), Score: vs(score), AtTx: vs(atTx), Value: vs([]byte("value"))}))
	}))
	eb, _ := proto.Marshal(&schema.Entry{Tx: 2, Key: []byte("k3")})
	vb, _ := proto.Marshal(vtx)
	ib, _ := proto.Marshal(schema.InclusionProofToProto(ip))
	addEnc("stream.VEntryStreamReceiver", "one-ventry", send(func(ms stream.MsgSender) {
		must(stream.NewVEntryStreamSender(ms).Send(&stream.VerifiableEntry{EntryWithoutValueProto: vs(eb), VerifiableTxProto: vs(vb), InclusionProofProto: vs(ib), Value: vs([]byte("x"))}))
	}))
	addEnc("stream.ExecAllStreamReceiver", "kv+zadd", send(func(ms stream.MsgSender) {
		must(stream.NewExecAllStreamSender(ms).Send(&stream.ExecAllRequest{Operations: []*stream.Op{
			{Operation: &stream.Op_KeyValue{KeyValue: &stream.KeyValue{Key: vs([]byte("key1")), Value: vs([]byte("value1"))}}},
			{Operation: &stream.Op_ZAdd{ZAdd: &schema.ZAddRequest{Set: []byte("set"), Score: 2.5, Key: []byte("key1")}}}}}))
	}))
}

// ---------- targets ----------

func protoTarget(thorough bool, name string, mk func() proto.Message, conv func(proto.Message)) {
	addTarget(thorough, 4096, name, 2, 3, func(_ *enc, in []byte) string {
		m := mk()
		if err := proto.Unmarshal(in, m); err != nil {
			return "err: unmarshal"
		}
		conv(m)
		return "ok"
	})
}

func buildPureTargets(thorough bool) {
	addTarget(thorough, 4096, "sql.DecodeValue", 3, 3, func(_ *enc, in []byte) string {
		ok := 0
		for _, t := range sqlTypes {
			if _, _, err := sql.DecodeValue(in, t); err == nil {
				ok++
			}
			if _, _, err := sql.DecodeNullableValue(in, t); err == nil {
				ok++
			}
		}
		sql.DecodeValueLength(in)
		return fmt.Sprintf("ok for %d of 16 (type, nullable) pairs", ok)
	})
	addTarget(thorough, 4096, "sql.DecodeValueFromKey", 3, 3, func(_ *enc, in []byte) string {
		ok := 0
		for _, kt := range sqlKeyTypes {
			if _, _, err := sql.DecodeValueFromKey(in, kt.t, kt.maxLen); err == nil {
				ok++
			}
		}
		return fmt.Sprintf("ok for %d of %d (type, maxLen) pairs", ok, len(sqlKeyTypes))
	})
	tokLen, sqlRaw := 3, 2
	if thorough {
		tokLen, sqlRaw = 4, 3
	}
	ts := addTarget(thorough, 4096, "sql.ParseSQLString", sqlRaw, sqlRaw, func(_ *enc, in []byte) string {
		_, err := sql.ParseSQLString(string(in))
		if err == nil {
			return "ok"
		}
		return "err: syntax"
	})
	sqlFamilies(ts, tokLen)

	for _, ty := range pgOrder {
		p := pgParsers[ty]
		addTarget(thorough, 4096, "pgsql.fmessages."+p.name, 3, 3, func(_ *enc, in []byte) string { return outErr(p.f(in)) })
	}
	// message framing + the dispatch of session.parseRawMessage (unexported; replicated here on the type byte)
	addTarget(thorough, 4096, "pgsql.ReadRawMessage+parse", 3, 3, func(_ *enc, in []byte) string {
		mr := pgserver.NewMessageReader(&fakeConn{r: bytes.NewReader(in)})
		n := 0
		for ; n <= len(in); n++ {
			msg, err := mr.ReadRawMessage()
			if err != nil {
				return fmt.Sprintf("%d messages, then err: %v", n, err)
			}
			v := reflect.ValueOf(msg).Elem()
			if p, ok := pgParsers[byte(v.Field(0).Uint())]; ok {
				p.f(v.Field(1).Bytes())
			}
		}
		return "VIOL steps: more messages than input bytes"
	})

	protoTarget(thorough, "schema.DualProofFromProto", func() proto.Message { return &schema.DualProof{} }, func(m proto.Message) { schema.DualProofFromProto(m.(*schema.DualProof)) })
	protoTarget(thorough, "schema.DualProofV2FromProto", func() proto.Message { return &schema.DualProofV2{} }, func(m proto.Message) { schema.DualProofV2FromProto(m.(*schema.DualProofV2)) })
	protoTarget(thorough, "schema.LinearProofFromProto", func() proto.Message { return &schema.LinearProof{} }, func(m proto.Message) { schema.LinearProofFromProto(m.(*schema.LinearProof)) })
	protoTarget(thorough, "schema.LinearAdvanceProofFromProto", func() proto.Message { return &schema.LinearAdvanceProof{} }, func(m proto.Message) {
		schema.LinearAdvanceProofFromProto(m.(*schema.LinearAdvanceProof))
	})
	protoTarget(thorough, "schema.TxHeaderFromProto", func() proto.Message { return &schema.TxHeader{} }, func(m proto.Message) { schema.TxHeaderFromProto(m.(*schema.TxHeader)) })
	protoTarget(thorough, "schema.TxMetadataFromProto", func() proto.Message { return &schema.TxMetadata{} }, func(m proto.Message) { schema.TxMetadataFromProto(m.(*schema.TxMetadata)) })
	protoTarget(thorough, "schema.TxFromProto", func() proto.Message { return &schema.Tx{} }, func(m proto.Message) { schema.TxFromProto(m.(*schema.Tx)) })
	protoTarget(thorough, "schema.InclusionProofFromProto", func() proto.Message { return &schema.InclusionProof{} }, func(m proto.Message) {
		schema.InclusionProofFromProto(m.(*schema.InclusionProof))
	})
	protoTarget(thorough, "schema.KVMetadataFromProto", func() proto.Message { return &schema.KVMetadata{} }, func(m proto.Message) { schema.KVMetadataFromProto(m.(*schema.KVMetadata)) })

	addTarget(thorough, 4096, "stream.MsgReceiver.ReadFully", 2, 3, func(_ *enc, in []byte) string {
		return streamRun(in, func(mr stream.MsgReceiver, bound int) string {
			for n := 0; n <= bound; n++ {
				if _, _, err := mr.ReadFully(); err != nil {
					return fmt.Sprintf("%d then %v", n, err)
				}
			}
			return "VIOL steps: ReadFully keeps returning messages beyond the input size"
		})
	})
	addTarget(thorough, 4096, "stream.MsgReceiver.Read", 2, 3, func(_ *enc, in []byte) string {
		return streamRun(in, func(mr stream.MsgReceiver, bound int) string {
			buf := make([]byte, streamBuf)
			for n := 0; n <= 4*bound; n++ {
				if _, err := mr.Read(buf); err != nil {
					return fmt.Sprintf("%d then %v", n, err)
				}
			}
			return "VIOL steps: Read never reports the end of a finite stream"
		})
	})
	addTarget(thorough, 4096, "stream.KvStreamReceiver", 2, 3, func(_ *enc, in []byte) string {
		return streamRun(in, func(mr stream.MsgReceiver, bound int) string {
			r := stream.NewKvStreamReceiver(mr, streamBuf)
			for n := 0; n <= bound; n++ {
				_, vr, err := r.Next()
				if err != nil {
					return fmt.Sprintf("%d then %v", n, err)
				}
				if _, err := stream.ReadValue(vr, streamBuf); err != nil {
					return fmt.Sprintf("%d then value: %v", n, err)
				}
			}
			return "VIOL steps: Next keeps returning entries beyond the input size"
		})
	})
	addTarget(thorough, 4096, "stream.ZStreamReceiver", 2, 3, func(_ *enc, in []byte) string {
		return streamRun(in, func(mr stream.MsgReceiver, bound int) string {
			r := stream.NewZStreamReceiver(mr, streamBuf)
			for n := 0; n <= bound; n++ {
				set, key, score, atTx, vr, err := r.Next()
				if err != nil {
					return fmt.Sprintf("%d then %v", n, err)
				}
				if _, err := stream.ParseZEntry(set, key, score, atTx, vr, streamBuf); err != nil {
					return fmt.Sprintf("%d then value: %v", n, err)
				}
			}
			return "VIOL steps: Next keeps returning entries beyond the input size"
		})
	})
	addTarget(thorough, 4096, "stream.VEntryStreamReceiver", 2, 3, func(_ *enc, in []byte) string {
		return streamRun(in, func(mr stream.MsgReceiver, bound int) string {
			r := stream.NewVEntryStreamReceiver(mr, streamBuf)
			for n := 0; n <= bound; n++ {
				e, v, i, vr, err := r.Next()
				if err != nil {
					return fmt.Sprintf("%d then %v", n, err)
				}
				if _, err := stream.ParseVerifiableEntry(e, v, i, vr, streamBuf); err != nil {
					return fmt.Sprintf("%d then parse: %.40s", n, err.Error())
				}
			}
			return "VIOL steps: Next keeps returning entries beyond the input size"
		})
	})
	addTarget(thorough, 4096, "stream.ExecAllStreamReceiver", 2, 3, func(_ *enc, in []byte) string {
		return streamRun(in, func(mr stream.MsgReceiver, bound int) string {
			r := stream.NewExecAllStreamReceiver(mr, streamBuf)
			for n := 0; n <= bound; n++ {
				op, err := r.Next()
				if err != nil {
					return fmt.Sprintf("%d then %v", n, err)
				}
				if kv, ok := op.(*stream.Op_KeyValue); ok {
					if _, err := stream.ReadValue(kv.KeyValue.Value.Content, streamBuf); err != nil {
						return fmt.Sprintf("%d then value: %v", n, err)
					}
				}
			}
			return "VIOL steps: Next keeps returning operations beyond the input size"
		})
	})
}
