package main

// Valid encodings, produced by the real encoders, and template directories of small real stores. The parent
// builds them once (prepare) and the children load them (loadPrep), so that every process enumerates exactly
// the same inputs. Clocks are fixed.

import (
	"bytes"
	"context"
	"encoding/gob"
	"fmt"
	"io/fs"
	"os"
	"path/filepath"
	"sort"
	"time"

	"github.com/codenotary/immudb/embedded/appendable"
	"github.com/codenotary/immudb/embedded/logger"
	"github.com/codenotary/immudb/embedded/store"
)

var prepEncs = map[string][]enc{}
var prepDir string

func must(err error) {
	if err != nil {
		panic(err)
	}
}

func addEnc(target, name string, b []byte) {
	prepEncs[target] = append(prepEncs[target], enc{Name: name, B: append([]byte{}, b...)})
}

var fixedTime = time.Unix(1700000000, 0)

func sopts(hdrVersion int) *store.Options {
	return store.DefaultOptions().WithLogger(logger.NewMemoryLoggerWithLevel(logger.LogError)).
		WithTimeFunc(func() time.Time { return fixedTime }).WithWriteTxHeaderVersion(hdrVersion).
		WithFileSize(1 << 14).WithMaxTxEntries(8).WithMaxKeyLen(32).WithMaxValueLen(64).WithMaxConcurrency(2).WithMaxIOConcurrency(1).
		WithMaxActiveTransactions(4).WithTxLogCacheSize(4).WithVLogCacheSize(0).WithWriteBufferSize(1024).
		WithAHTOptions(store.DefaultAHTOptions().WithWriteBufferSize(1024).WithSyncThld(4)).WithSynced(false).
		WithIndexOptions(store.DefaultIndexOptions().WithFlushBufferSize(1024).WithCacheSize(16).WithMaxNodeSize(512))
}

func copyDir(src, dst string) {
	must(filepath.WalkDir(src, func(p string, d fs.DirEntry, err error) error {
		if err != nil {
			return err
		}
		rel, _ := filepath.Rel(src, p)
		if d.IsDir() {
			return os.MkdirAll(filepath.Join(dst, rel), 0755)
		}
		bs, err := os.ReadFile(p)
		if err != nil {
			return err
		}
		return os.WriteFile(filepath.Join(dst, rel), bs, 0644)
	}))
}

type kvSpec struct {
	k, v string
	md   *store.KVMetadata
}

func commit(st *store.ImmuStore, txmd *store.TxMetadata, kvs ...kvSpec) *store.TxHeader {
	tx, err := st.NewWriteOnlyTx(context.Background())
	must(err)
	if txmd != nil {
		tx.WithMetadata(txmd)
	}
	for _, kv := range kvs {
		must(tx.Set([]byte(kv.k), kv.md, []byte(kv.v)))
	}
	hdr, err := tx.Commit(context.Background())
	must(err)
	return hdr
}

// buildStores creates the primary stores (header version 1 and 0), exports their transactions and leaves
// template directories: tpl/store-v<ver> (closed store with every transaction) and tpl/rep-v<ver>-<n>
// (replica holding transactions 1..n).
func buildStores(dir string) {
	must(os.MkdirAll(filepath.Join(dir, "tpl"), 0755))
	for _, ver := range []int{1, 0} {
		p := filepath.Join(dir, "tpl", fmt.Sprintf("store-v%d", ver))
		st, err := store.Open(p, sopts(ver))
		must(err)
		del := store.NewKVMetadata()
		del.AsDeleted(true)
		exp := store.NewKVMetadata()
		exp.ExpiresAt(fixedTime.Add(time.Hour))
		nix := store.NewKVMetadata()
		nix.AsNonIndexable(true)
		commit(st, nil, kvSpec{"k1", "v1", nil})
		if ver == 1 {
			commit(st, nil, kvSpec{"k1", "v1b", nil}, kvSpec{"k2", "", nil}, kvSpec{"k3", "x", del}, kvSpec{"k4", "yy", exp}, kvSpec{"k5", "z", nix})
			md := store.NewTxMetadata()
			must(md.WithExtra([]byte("extra-md")))
			commit(st, md, kvSpec{"k6", "with-extra", nil})
			md2 := store.NewTxMetadata()
			md2.WithTruncatedTxID(1)
			must(md2.WithExtra(bytes.Repeat([]byte{0xEE}, 64)))
			commit(st, md2, kvSpec{"k1", "v1c", nil})
		} else {
			commit(st, nil, kvSpec{"k1", "v1b", nil}, kvSpec{"k2", "", nil})
		}
		n := st.LastCommittedTxID()
		must(st.WaitForIndexingUpto(context.Background(), n))
		holder := store.NewTx(8, 32)
		var exports [][]byte
		for id := uint64(1); id <= n; id++ {
			ex, err := st.ExportTx(id, false, false, holder)
			must(err)
			exports = append(exports, ex)
			hdr, err := st.ReadTxHeader(id, false, false)
			must(err)
			hb, err := hdr.Bytes()
			must(err)
			addEnc("store.TxHeader.ReadFrom", fmt.Sprintf("txhdr-v%d-tx%d", ver, id), hb)
			if hdr.Metadata != nil {
				addEnc("store.TxMetadata.ReadFrom", fmt.Sprintf("txmd-v%d-tx%d", ver, id), hdr.Metadata.Bytes())
			}
		}
		must(st.Close())
		canonTree(p)
		// replicas
		for k := 0; k < len(exports); k++ {
			rp := filepath.Join(dir, "tpl", fmt.Sprintf("rep-v%d-%d", ver, k))
			rs, err := store.Open(rp, sopts(ver))
			must(err)
			for i := 0; i < k; i++ {
				_, err := rs.ReplicateTx(context.Background(), exports[i], false, true)
				must(err)
			}
			must(rs.Close())
			canonTree(rp)
			prepEncs["store.ReplicateTx"] = append(prepEncs["store.ReplicateTx"],
				enc{Name: fmt.Sprintf("export-v%d-tx%d", ver, k+1), B: exports[k], Aux: rp})
		}
	}
	// synthetic headers: metadata of maximal size
	for _, n := range []int{1, 256} {
		md := store.NewTxMetadata()
		md.WithTruncatedTxID(7)
		must(md.WithExtra(bytes.Repeat([]byte{0xAB}, n)))
		hdr := &store.TxHeader{ID: 9, Ts: fixedTime.Unix(), Version: 1, Metadata: md, NEntries: 3, BlTxID: 8}
		hb, err := hdr.Bytes()
		must(err)
		addEnc("store.TxHeader.ReadFrom", fmt.Sprintf("txhdr-v1-synthetic-extra%d", n), hb)
		addEnc("store.TxMetadata.ReadFrom", fmt.Sprintf("txmd-truncated+extra%d", n), md.Bytes())
	}
	for _, n := range []int{1, 256} { // the extra attribute alone (room is left for the other attribute)
		md := store.NewTxMetadata()
		must(md.WithExtra(bytes.Repeat([]byte{0xCD}, n)))
		hdr := &store.TxHeader{ID: 9, Ts: fixedTime.Unix(), Version: 1, Metadata: md, NEntries: 3, BlTxID: 8}
		hb, err := hdr.Bytes()
		must(err)
		addEnc("store.TxHeader.ReadFrom", fmt.Sprintf("txhdr-v1-synthetic-only-extra%d", n), hb)
		addEnc("store.TxMetadata.ReadFrom", fmt.Sprintf("txmd-only-extra%d", n), md.Bytes())
	}
	md := store.NewTxMetadata()
	md.WithTruncatedTxID(1 << 40)
	addEnc("store.TxMetadata.ReadFrom", "txmd-truncated", md.Bytes())
}

func buildAppendableMetadata() {
	m := appendable.NewMetadata(nil)
	m.PutInt("INT", 7)
	m.PutBool("BOOL", true)
	m.Put("BLOB", []byte("wrapped"))
	addEnc("appendable.Metadata", "metadata-int-bool-blob", mustCanon(m.Bytes()))
	m1 := appendable.NewMetadata(nil)
	m1.PutInt("INT", 1<<40+3)
	addEnc("appendable.Metadata", "metadata-one-int", m1.Bytes())
	addEnc("appendable.Metadata", "metadata-empty", appendable.NewMetadata(nil).Bytes())
}

func prepare(dir string, thorough bool) {
	prepDir = dir
	buildStores(dir)
	buildAppendableMetadata()
	buildMore(dir, thorough)
	f, err := os.Create(filepath.Join(dir, "prep.gob"))
	must(err)
	must(gob.NewEncoder(f).Encode(prepEncs))
	must(f.Close())
}

func loadPrep(dir string) {
	prepDir = dir
	f, err := os.Open(filepath.Join(dir, "prep.gob"))
	must(err)
	defer f.Close()
	prepEncs = map[string][]enc{}
	must(gob.NewDecoder(f).Decode(&prepEncs))
}

// appendable.Metadata.WriteTo ranges over a Go map, so the real encoder emits the key/value pairs in a random
// order. canonMeta re-orders the pairs of a valid encoding by key (recursively inside WRAPPED_METADATA): same
// length, same meaning, but identical bytes in every run (alteration positions are part of the signatures).
func canonMeta(b []byte) ([]byte, bool) {
	type pair struct{ k, v []byte }
	field := func(i int) ([]byte, int, bool) {
		if i+4 > len(b) {
			return nil, 0, false
		}
		l := int(beGet(b[i : i+4]))
		if i+4+l > len(b) {
			return nil, 0, false
		}
		return b[i+4 : i+4+l], i + 4 + l, true
	}
	cnt, i, ok := field(0)
	if !ok || len(cnt) != 4 {
		return nil, false
	}
	var ps []pair
	for n := int(beGet(cnt)); n > 0; n-- {
		var k, v []byte
		if k, i, ok = field(i); !ok {
			return nil, false
		}
		if v, i, ok = field(i); !ok {
			return nil, false
		}
		if string(k) == "WRAPPED_METADATA" {
			if cv, ok := canonMeta(v); ok {
				v = cv
			}
		}
		ps = append(ps, pair{k, v})
	}
	if i != len(b) {
		return nil, false
	}
	sort.Slice(ps, func(x, y int) bool { return string(ps[x].k) < string(ps[y].k) })
	out := append([]byte{0, 0, 0, 4}, cnt...)
	for _, p := range ps {
		var l [4]byte
		bePut(l[:], uint64(len(p.k)))
		out = append(append(out, l[:]...), p.k...)
		bePut(l[:], uint64(len(p.v)))
		out = append(append(out, l[:]...), p.v...)
	}
	return out, true
}

func mustCanon(b []byte) []byte {
	o, ok := canonMeta(b)
	if !ok || len(o) != len(b) {
		panic("canonMeta: not a valid metadata encoding")
	}
	return o
}

// canonTree canonicalises the metadata header ([4-byte length][metadata]) of every appendable file below dir.
func canonTree(dir string) {
	must(filepath.WalkDir(dir, func(p string, d fs.DirEntry, err error) error {
		if err != nil || d.IsDir() {
			return err
		}
		bs, err := os.ReadFile(p)
		if err != nil {
			return err
		}
		if len(bs) >= 4 {
			if l := int(beGet(bs[:4])); l > 0 && 4+l <= len(bs) {
				if cm, ok := canonMeta(bs[4 : 4+l]); ok {
					copy(bs[4:], cm)
					return os.WriteFile(p, bs, 0644)
				}
			}
		}
		return nil
	}))
}

// fileHeaderLen returns the length of the [4-byte length][metadata] header of an appendable file.
func fileHeaderLen(bs []byte) int {
	if len(bs) >= 4 {
		if l := int(beGet(bs[:4])); 4+l <= len(bs) {
			return 4 + l
		}
	}
	return 0
}
