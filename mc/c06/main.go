// C06 — key-value API is linearizable; conditional writes are atomic.
// E1 + porcupine: 2–3 client threads issue 1–2 calls each on a real pkg/database.DB (with its indexer
// threads) over two colliding keys; for every explored schedule the call/return history (events stamped by a
// logical counter under the cooperative scheduler) is checked against a sequential model of the KV API
// (per-key version lists + transaction counter, documented precondition semantics).
package main

import (
	"context"
	"errors"
	"fmt"
	"sort"
	"strings"
	"time"

	"github.com/anishathalye/porcupine"
	"github.com/codenotary/immudb/embedded/logger"
	"github.com/codenotary/immudb/embedded/store"
	"github.com/codenotary/immudb/embedded/vhooks/vsched"
	"github.com/codenotary/immudb/pkg/api/schema"
	"github.com/codenotary/immudb/pkg/database"
	"verif/mc/lib"
	"verif/mc/sched"
	"verif/mc/storeh"
)

type call struct {
	Kind string // set set2 setIfExists setIfNotExists setNotModifiedAfter delete execAll get getAll scan history
	K    string
	K2   string
	V    string
	Tx   uint64
}

func (c call) String() string {
	switch c.Kind {
	case "set2", "execAll":
		return fmt.Sprintf("%s(%s,%s=%s)", c.Kind, c.K, c.K2, c.V)
	case "setNotModifiedAfter":
		return fmt.Sprintf("%s(%s=%s,tx%d)", c.Kind, c.K, c.V, c.Tx)
	case "get", "delete", "history", "scan":
		return fmt.Sprintf("%s(%s)", c.Kind, c.K)
	case "getAtTx", "getSince":
		return fmt.Sprintf("%s(%s,tx%d)", c.Kind, c.K, c.Tx)
	case "getAtRev":
		return fmt.Sprintf("getAtRev(%s,-%d)", c.K, c.Tx)
	case "getAll":
		return fmt.Sprintf("getAll(%s,%s)", c.K, c.K2)
	case "setRef":
		return fmt.Sprintf("setRef(%s->%s)", c.K, c.K2)
	}
	return fmt.Sprintf("%s(%s=%s)", c.Kind, c.K, c.V)
}

// ---------- sequential model ----------

type ver struct {
	v   string
	tx  uint64
	del bool
	ref string // != "": this version makes the key a reference to that key
}

type mstate struct {
	kv  map[string][]ver
	ntx uint64
}

func (s mstate) key() string {
	var ks []string
	for k := range s.kv {
		ks = append(ks, k)
	}
	sort.Strings(ks)
	var b strings.Builder
	fmt.Fprintf(&b, "%d|", s.ntx)
	for _, k := range ks {
		fmt.Fprintf(&b, "%s=", k)
		for _, v := range s.kv[k] {
			fmt.Fprintf(&b, "%s@%d/%v/%s,", v.v, v.tx, v.del, v.ref)
		}
		b.WriteString(";")
	}
	return b.String()
}

func (s mstate) clone() mstate {
	n := mstate{kv: map[string][]ver{}, ntx: s.ntx}
	for k, v := range s.kv {
		n.kv[k] = append([]ver{}, v...)
	}
	return n
}

func (s mstate) live(k string) (ver, int, bool) {
	vs := s.kv[k]
	if len(vs) == 0 || vs[len(vs)-1].del {
		return ver{}, 0, false
	}
	return vs[len(vs)-1], len(vs), true
}

func renderEntry(k string, v ver, rev int) string {
	return fmt.Sprintf("%s=%s@%d#%d", k, v.v, v.tx, rev)
}

// step returns the set of legal outputs' validity: whether out is legal in state s, and the successor state.
func step(s mstate, c call, out string) (bool, mstate) {
	write := func(sets map[string]string, dels []string) (bool, mstate) {
		want := fmt.Sprintf("tx%d", s.ntx+1)
		if out != want {
			return false, s
		}
		n := s.clone()
		n.ntx++
		for k, v := range sets {
			n.kv[k] = append(n.kv[k], ver{v: v, tx: n.ntx})
		}
		for _, k := range dels {
			n.kv[k] = append(n.kv[k], ver{tx: n.ntx, del: true})
		}
		return true, n
	}
	switch c.Kind {
	case "setRef":
		// SetReference(K -> K2): refused when K holds a final (non-reference) value or K2 is missing / itself a reference
		vs := s.kv[c.K]
		final := len(vs) > 0 && !vs[len(vs)-1].del && vs[len(vs)-1].ref == ""
		tv, _, tok := s.live(c.K2)
		if final || !tok || tv.ref != "" {
			return strings.HasPrefix(out, "err:"), s
		}
		if out != fmt.Sprintf("tx%d", s.ntx+1) {
			return false, s
		}
		n := s.clone()
		n.ntx++
		n.kv[c.K] = append(n.kv[c.K], ver{tx: n.ntx, ref: c.K2})
		return true, n
	case "set":
		return write(map[string]string{c.K: c.V}, nil)
	case "set2", "execAll":
		return write(map[string]string{c.K: c.V, c.K2: c.V}, nil)
	case "setIfExists", "setIfNotExists", "setNotModifiedAfter":
		_, _, ok := s.live(c.K)
		holds := false
		switch c.Kind {
		case "setIfExists":
			holds = ok
		case "setIfNotExists":
			holds = !ok
		case "setNotModifiedAfter":
			vs := s.kv[c.K]
			holds = len(vs) == 0 || vs[len(vs)-1].tx <= c.Tx
		}
		if out == "err:precondition" {
			return !holds, s // a write is applied if and only if its preconditions hold on the preceding state
		}
		if !holds {
			return false, s
		}
		return write(map[string]string{c.K: c.V}, nil)
	case "delete":
		_, _, ok := s.live(c.K)
		if out == "err:conflict" {
			return true, s // an MVCC read conflict is a legal outcome under contention and has no effect
		}
		if out == "err:notfound" {
			return !ok, s
		}
		if !ok {
			return false, s
		}
		return write(nil, []string{c.K})
	case "get":
		v, rev, ok := s.live(c.K)
		if !ok {
			return out == "nf", s
		}
		return out == renderEntry(c.K, v, rev), s
	case "getSince":
		if c.Tx > s.ntx {
			return out == "err:illegal", s
		}
		v, rev, ok := s.live(c.K)
		if !ok {
			return out == "nf", s
		}
		return out == renderEntry(c.K, v, rev), s
	case "getAtTx":
		// the entry of the key written by exactly that transaction (no revision is reported)
		if c.Tx > s.ntx {
			return out == "err:txnotfound", s
		}
		for _, v := range s.kv[c.K] {
			if v.tx == c.Tx {
				if v.del {
					return out == "nf", s
				}
				return out == renderEntry(c.K, v, 0), s
			}
		}
		return out == "nf", s
	case "getAtRev":
		// c.Tx revisions back from the latest one
		vs := s.kv[c.K]
		if len(vs) == 0 {
			return out == "nf" || out == "err:invalidrevision", s
		}
		if int(c.Tx) >= len(vs) {
			return out == "err:invalidrevision", s
		}
		v := vs[len(vs)-1-int(c.Tx)]
		if v.del {
			return out == "nf", s
		}
		return out == renderEntry(c.K, v, len(vs)-int(c.Tx)), s
	case "getAll":
		var parts []string
		for _, k := range []string{c.K, c.K2} {
			if v, rev, ok := s.live(k); ok {
				parts = append(parts, renderEntry(k, v, rev))
			}
		}
		return out == strings.Join(parts, ","), s
	case "scan":
		var ks []string
		for k := range s.kv {
			if strings.HasPrefix(k, c.K) {
				ks = append(ks, k)
			}
		}
		sort.Strings(ks)
		var parts []string
		for _, k := range ks {
			if v, rev, ok := s.live(k); ok {
				parts = append(parts, renderEntry(k, v, rev))
			}
		}
		return out == strings.Join(parts, ","), s
	case "history":
		vs := s.kv[c.K]
		if len(vs) == 0 {
			return out == "nf", s
		}
		var parts []string
		for i, v := range vs {
			d := ""
			if v.del {
				d = "(deleted)"
			}
			parts = append(parts, fmt.Sprintf("%s@%d#%d%s", v.v, v.tx, i+1, d))
		}
		return out == strings.Join(parts, ","), s
	}
	return false, s
}

var model = porcupine.Model{
	Init: func() interface{} { return mstate{kv: map[string][]ver{}} },
	Step: func(st, in, out interface{}) (bool, interface{}) {
		ok, n := step(st.(mstate), in.(call), out.(string))
		return ok, n
	},
	Equal:             func(a, b interface{}) bool { return a.(mstate).key() == b.(mstate).key() },
	DescribeOperation: func(in, out interface{}) string { return fmt.Sprintf("%v -> %v", in, out) },
}

// ---------- real calls ----------

func entryOut(e *schema.Entry) string {
	return fmt.Sprintf("%s=%s@%d#%d", e.Key, e.Value, e.Tx, e.Revision)
}

func errClass(err error) string {
	switch {
	case errors.Is(err, store.ErrPreconditionFailed):
		return "err:precondition"
	case errors.Is(err, store.ErrTxReadConflict):
		return "err:conflict"
	case errors.Is(err, store.ErrKeyNotFound):
		return "err:notfound"
	case errors.Is(err, store.ErrTxNotFound):
		return "err:txnotfound"
	case errors.Is(err, database.ErrInvalidRevision):
		return "err:invalidrevision"
	case errors.Is(err, store.ErrIllegalArguments):
		return "err:illegal"
	case errors.Is(err, database.ErrFinalKeyCannotBeConvertedIntoReference):
		return "err:finalkey"
	case errors.Is(err, database.ErrReferencedKeyCannotBeAReference):
		return "err:refofref"
	}
	return "err:" + err.Error()
}

func doCall(db database.DB, c call) string {
	ctx := context.Background()
	kv := func(k, v string) *schema.KeyValue { return &schema.KeyValue{Key: []byte(k), Value: []byte(v)} }
	hdr := func(h *schema.TxHeader, err error) string {
		if err != nil {
			return errClass(err)
		}
		return fmt.Sprintf("tx%d", h.Id)
	}
	switch c.Kind {
	case "set":
		return hdr(db.Set(ctx, &schema.SetRequest{KVs: []*schema.KeyValue{kv(c.K, c.V)}}))
	case "set2":
		return hdr(db.Set(ctx, &schema.SetRequest{KVs: []*schema.KeyValue{kv(c.K, c.V), kv(c.K2, c.V)}}))
	case "execAll":
		return hdr(db.ExecAll(ctx, &schema.ExecAllRequest{Operations: []*schema.Op{
			{Operation: &schema.Op_Kv{Kv: kv(c.K, c.V)}}, {Operation: &schema.Op_Kv{Kv: kv(c.K2, c.V)}}}}))
	case "setIfExists":
		return hdr(db.Set(ctx, &schema.SetRequest{KVs: []*schema.KeyValue{kv(c.K, c.V)}, Preconditions: []*schema.Precondition{schema.PreconditionKeyMustExist([]byte(c.K))}}))
	case "setIfNotExists":
		return hdr(db.Set(ctx, &schema.SetRequest{KVs: []*schema.KeyValue{kv(c.K, c.V)}, Preconditions: []*schema.Precondition{schema.PreconditionKeyMustNotExist([]byte(c.K))}}))
	case "setNotModifiedAfter":
		return hdr(db.Set(ctx, &schema.SetRequest{KVs: []*schema.KeyValue{kv(c.K, c.V)}, Preconditions: []*schema.Precondition{schema.PreconditionKeyNotModifiedAfterTX([]byte(c.K), c.Tx)}}))
	case "setRef":
		return hdr(db.SetReference(ctx, &schema.ReferenceRequest{Key: []byte(c.K), ReferencedKey: []byte(c.K2)}))
	case "delete":
		return hdr(db.Delete(ctx, &schema.DeleteKeysRequest{Keys: [][]byte{[]byte(c.K)}}))
	case "get":
		e, err := db.Get(ctx, &schema.KeyRequest{Key: []byte(c.K)})
		if err != nil {
			if errors.Is(err, store.ErrKeyNotFound) {
				return "nf"
			}
			return errClass(err)
		}
		return entryOut(e)
	case "getSince", "getAtTx", "getAtRev":
		req := &schema.KeyRequest{Key: []byte(c.K)}
		switch c.Kind {
		case "getSince":
			req.SinceTx = c.Tx
		case "getAtTx":
			req.AtTx = c.Tx
		case "getAtRev":
			req.AtRevision = -int64(c.Tx)
		}
		e, err := db.Get(ctx, req)
		if err != nil {
			if errors.Is(err, store.ErrKeyNotFound) {
				return "nf"
			}
			return errClass(err)
		}
		return entryOut(e)
	case "getAll":
		es, err := db.GetAll(ctx, &schema.KeyListRequest{Keys: [][]byte{[]byte(c.K), []byte(c.K2)}})
		if err != nil {
			return errClass(err)
		}
		var parts []string
		for _, e := range es.Entries {
			parts = append(parts, entryOut(e))
		}
		return strings.Join(parts, ",")
	case "scan":
		es, err := db.Scan(ctx, &schema.ScanRequest{Prefix: []byte(c.K)})
		if err != nil {
			return errClass(err)
		}
		var parts []string
		for _, e := range es.Entries {
			parts = append(parts, entryOut(e))
		}
		return strings.Join(parts, ",")
	case "history":
		es, err := db.History(ctx, &schema.HistoryRequest{Key: []byte(c.K)})
		if err != nil {
			if errors.Is(err, store.ErrKeyNotFound) {
				return "nf"
			}
			return errClass(err)
		}
		var parts []string
		for _, e := range es.Entries {
			d := ""
			if e.Metadata != nil && e.Metadata.Deleted {
				d = "(deleted)"
			}
			v := string(e.Value)
			if d != "" {
				v = ""
			}
			parts = append(parts, fmt.Sprintf("%s@%d#%d%s", v, e.Tx, e.Revision, d))
		}
		return strings.Join(parts, ",")
	}
	panic("unknown call " + c.Kind)
}

type scen struct {
	name    string
	init    []call   // executed sequentially before the clients start (part of the history)
	clients [][]call // one slice per client thread
}

// scenarios whose name starts with "syncrepl:": after the initial calls the database becomes a primary with synchronous
// replication (1 ack); an extra thread plays the replica: it reports, through ExportTxByID, that it holds everything the
// primary has precommitted
func (sc scen) syncRepl() bool { return strings.HasPrefix(sc.name, "syncrepl:") }

func scenario(sc scen) sched.Scenario {
	return sched.Scenario{Name: sc.name, MaxSteps: 1000000, Body: func(dir string) string {
		so := storeh.SmallOptions().WithMaxKeyLen(256).WithMaxValueLen(256).WithMaxTxEntries(8)
		opts := database.DefaultOptions().WithDBRootPath(dir).WithStoreOptions(so)
		db, err := database.NewDB("db1", nil, opts, logger.NewMemoryLoggerWithLevel(logger.LogError))
		if err != nil {
			sched.Report("newdb-failed", err.Error())
			return "newdb-failed"
		}
		var tick int64
		var ops []porcupine.Operation
		record := func(client int, c call) {
			tick++
			t0 := tick
			out := doCall(db, c)
			tick++
			ops = append(ops, porcupine.Operation{ClientId: client, Input: c, Call: t0, Output: out, Return: tick})
		}
		for _, c := range sc.init {
			record(0, c)
		}
		finished := 0
		if sc.syncRepl() {
			db.AsReplica(false, true, 1)
		}
		vsched.Focus()
		for i, cl := range sc.clients {
			i, cl := i, cl
			vsched.Spawn(func() {
				for _, c := range cl {
					record(i+1, c)
				}
				sched.Shared(func() { finished++ })
			})
		}
		if sc.syncRepl() {
			vsched.Spawn(func() {
				for finished < len(sc.clients) {
					if st, err := db.CurrentState(); err == nil && st.PrecommittedTxId > st.TxId {
						ctx, cancel := context.WithCancel(context.Background())
						db.ExportTxByID(ctx, &schema.ExportTxRequest{Tx: st.PrecommittedTxId, AllowPreCommitted: true,
							ReplicaState: &schema.ReplicaState{UUID: "replica-1", CommittedTxID: st.TxId, CommittedAlh: st.TxHash,
								PrecommittedTxID: st.PrecommittedTxId, PrecommittedAlh: st.PrecommittedTxHash}})
						cancel()
					}
					vsched.Pause("replica")
				}
			})
		}
		vsched.Join()
		sort.Slice(ops, func(i, j int) bool { return ops[i].Call < ops[j].Call })
		var parts []string
		for _, o := range ops {
			parts = append(parts, fmt.Sprintf("c%d:%v->%v", o.ClientId, o.Input, o.Output))
			if s, ok := o.Output.(string); ok && strings.HasPrefix(s, "err:") && s != "err:precondition" && s != "err:conflict" && s != "err:notfound" && s != "err:txnotfound" && s != "err:invalidrevision" && s != "err:illegal" && s != "err:finalkey" && s != "err:refofref" {
				sched.Report("unexpected-error call="+o.Input.(call).Kind+" "+firstWords(s), fmt.Sprintf("%v -> %v", o.Input, o.Output))
			}
		}
		if res := porcupine.CheckOperations(model, ops); !res {
			var hist []string
			for _, o := range ops {
				hist = append(hist, fmt.Sprintf("  client %d [%d,%d] %v -> %v", o.ClientId, o.Call, o.Return, o.Input, o.Output))
			}
			sched.Report("not-linearizable scenario="+sc.name, "no sequential order of the calls consistent with real-time order explains the results:\n"+strings.Join(hist, "\n"))
		}
		if err := db.Close(); err != nil {
			sched.Report("close-failed", err.Error())
		}
		return strings.Join(parts, " ")
	}}
}

func firstWords(s string) string {
	f := strings.Fields(s)
	if len(f) > 4 {
		f = f[:4]
	}
	return strings.Join(f, "_")
}

func main() {
	c := lib.New("C06", "model_checking", 170*time.Second, 25*time.Minute)
	// library goroutines that take part in the workload-thread phase: syncer, value-appending precommit goroutines and indexers
	vsched.WorkDaemons = []string{"store.OpenWith", "(*ImmuStore).precommit", "(*ImmuStore).preCommitWith", "store.(*indexer)"}
	c.Assume("code between two synchronisation operations is data-race free")
	c.Assume("sequential specification: per-key version lists, dense tx ids, preconditions evaluated on the state immediately preceding the write; an MVCC read conflict of Delete is a legal no-op outcome")
	k1, k2 := "k1", "k2"
	scens := []scen{
		{"set vs get", nil, [][]call{{{Kind: "set", K: k1, V: "a"}}, {{Kind: "get", K: k1}}}},
		{"set;get vs set;get", nil, [][]call{{{Kind: "set", K: k1, V: "a"}, {Kind: "get", K: k1}}, {{Kind: "set", K: k1, V: "b"}, {Kind: "get", K: k1}}}},
		{"ifNotExists vs ifNotExists", nil, [][]call{{{Kind: "setIfNotExists", K: k1, V: "a"}}, {{Kind: "setIfNotExists", K: k1, V: "b"}}}},
		{"ifExists vs set", nil, [][]call{{{Kind: "setIfExists", K: k1, V: "a"}}, {{Kind: "set", K: k1, V: "b"}}}},
		{"notModifiedAfter vs set", []call{{Kind: "set", K: k1, V: "v0"}}, [][]call{{{Kind: "setNotModifiedAfter", K: k1, V: "a", Tx: 1}}, {{Kind: "set", K: k1, V: "b"}}}},
		{"set2 vs getAll", nil, [][]call{{{Kind: "set2", K: k1, K2: k2, V: "a"}}, {{Kind: "getAll", K: k1, K2: k2}}}},
		{"syncrepl: ifNotExists vs ifNotExists", nil, [][]call{{{Kind: "setIfNotExists", K: k1, V: "a"}}, {{Kind: "setIfNotExists", K: k1, V: "b"}}}},
		{"setRef vs set", []call{{Kind: "set", K: k1, V: "v0"}}, [][]call{{{Kind: "setRef", K: "r", K2: k1}}, {{Kind: "set", K: "r", V: "b"}}}},
		{"delete vs get;ifExists", []call{{Kind: "set", K: k1, V: "v0"}}, [][]call{{{Kind: "delete", K: k1}}, {{Kind: "get", K: k1}, {Kind: "setIfExists", K: k1, V: "c"}}}},
		{"set vs getAtTx;getSince", []call{{Kind: "set", K: k1, V: "v0"}}, [][]call{{{Kind: "set", K: k1, V: "a"}}, {{Kind: "getAtTx", K: k1, Tx: 2}, {Kind: "getSince", K: k1, Tx: 2}}}},
		{"set vs getAtRev", []call{{Kind: "set", K: k1, V: "v0"}}, [][]call{{{Kind: "set", K: k1, V: "a"}}, {{Kind: "getAtRev", K: k1, Tx: 1}, {Kind: "get", K: k1}}}},
		{"execAll vs scan vs history", []call{{Kind: "set", K: k1, V: "v0"}}, [][]call{{{Kind: "execAll", K: k1, K2: k2, V: "a"}}, {{Kind: "scan", K: "k"}}, {{Kind: "history", K: k1}}}},
	}
	var scs []sched.Scenario
	var jobs []sched.Job
	for _, s := range scens {
		scs = append(scs, scenario(s))
		if c.Thorough() {
			jobs = append(jobs, sched.Job{Scenario: s.name, Bound: 1, Budget: 100 * time.Second})
		} else {
			jobs = append(jobs, sched.Job{Scenario: s.name, Bound: 1, Budget: 13 * time.Second})
		}
	}
	if c.Thorough() {
		for _, s := range scens[:4] {
			jobs = append(jobs, sched.Job{Scenario: s.name, Bound: 2, Budget: 150 * time.Second})
		}
	}
	sched.Main(c, scs, jobs, "every schedule (preemption-bounded, happens-before pruned) of 2–3 client threads issuing 1–2 calls each of the pkg/database KV API on two keys, against the real database with its indexer threads; each complete call/return history is checked for linearizability with porcupine against a sequential model with precondition semantics; distinct = distinct histories (results)")
}
