package main

// Histories ("worlds"): real stores built by real commits / ReplicateTx, and synthetic adversarial worlds
// derived from them (header sequences + the leaves the adversary puts into the binary-linking tree).

import (
	"bytes"
	"context"
	"crypto/sha256"
	"encoding/binary"
	"fmt"
	"os"
	"time"

	"github.com/codenotary/immudb/embedded/ahtree"
	"github.com/codenotary/immudb/embedded/htree"
	"github.com/codenotary/immudb/embedded/store"
	"verif/mc/lib"
	"verif/mc/merkle"
	"verif/mc/storeh"
)

type H = [sha256.Size]byte

// ---------- transaction alphabet ----------

type Ent struct {
	Key, Val string
	MD       int // 0 none, 1 deleted, 2 non-indexable
}
type TxSpec struct {
	Ents  []Ent
	Extra bool // tx metadata {none, extra}
}

// catalog: keys {a,b,c} x values {"",x,y} x kv-metadata {none,deleted,non-indexable} x tx-metadata {none,extra},
// 1..3 entries; 0 and 8 have identical content (equal Eh in different transactions).
var catalog = []TxSpec{
	{Ents: []Ent{{"a", "x", 0}}},
	{Ents: []Ent{{"b", "", 0}}},
	{Ents: []Ent{{"a", "y", 0}, {"b", "x", 0}}},
	{Ents: []Ent{{"c", "y", 1}}},
	{Ents: []Ent{{"a", "x", 0}, {"b", "y", 0}, {"c", "", 0}}},
	{Ents: []Ent{{"b", "x", 2}}, Extra: true},
	{Ents: []Ent{{"a", "", 1}, {"c", "x", 0}}},
	{Ents: []Ent{{"c", "y", 0}}, Extra: true},
	{Ents: []Ent{{"a", "x", 0}}},
	{Ents: []Ent{{"b", "y", 2}, {"a", "x", 1}, {"c", "y", 0}}},
	{Ents: []Ent{{"a", "y", 0}}},
	{Ents: []Ent{{"c", "", 0}, {"b", "x", 0}}, Extra: true},
}

func kvmd(k int) *store.KVMetadata {
	switch k {
	case 1:
		m := store.NewKVMetadata()
		m.AsDeleted(true)
		return m
	case 2:
		m := store.NewKVMetadata()
		m.AsNonIndexable(true)
		return m
	}
	return nil
}

type HistCfg struct {
	N    int    `json:"n"`
	Ver  int    `json:"ver"`  // header version written by the store
	Rot  int    `json:"rot"`  // tx i uses catalog[(rot+i) mod 12]
	Link string `json:"link"` // commit | lag1 | lag2 | lag3 | burst3 | burst4
}

func (h HistCfg) String() string { return fmt.Sprintf("v%d/%s/r%d/n%d", h.Ver, h.Link, h.Rot, h.N) }

// blOf: BlTxID of transaction id under a linking pattern (-1: whatever commit produces, i.e. id-1).
func blOf(link string, id int) int {
	var b int
	switch link {
	case "lag1", "lag2", "lag3":
		b = id - 1 - int(link[3]-'0')
	case "burst3", "burst4":
		w := int(link[5] - '0')
		b = (id - 1) / w * w
	default:
		return id - 1
	}
	if b < 0 {
		b = 0
	}
	return b
}

func specsOf(cfg HistCfg, forkAt int) []TxSpec {
	var out []TxSpec
	for i := 0; i < cfg.N; i++ {
		k := cfg.Rot + i
		if forkAt >= 0 && i >= forkAt {
			k += 5 // different content, same ids
		}
		sp := catalog[k%len(catalog)]
		if cfg.Ver == 0 { // header version 0 carries neither kv nor tx metadata
			var es []Ent
			for _, e := range sp.Ents {
				es = append(es, Ent{e.Key, e.Val, 0})
			}
			sp = TxSpec{Ents: es}
		}
		out = append(out, sp)
	}
	return out
}

func must(err error) {
	if err != nil {
		panic(err)
	}
}

func openStore(dir string, ver int) *store.ImmuStore {
	var st *store.ImmuStore
	// deterministic clock: a function of the number of transactions already written
	clock := func() time.Time {
		var n uint64
		if st != nil {
			n = st.LastPrecommittedTxID()
		}
		return time.Unix(1700000000+int64(n+1)*7, 0)
	}
	opts := storeh.SmallOptions().WithWriteTxHeaderVersion(ver).WithTimeFunc(clock).WithMaxActiveTransactions(32).
		WithAHTOptions(store.DefaultAHTOptions().WithWriteBufferSize(4096).WithSyncThld(64))
	s, err := store.Open(dir, opts)
	must(err)
	st = s
	return s
}

// buildCommitted: the honest path, every transaction goes through OngoingTx.Commit.
func buildCommitted(dir string, ver int, specs []TxSpec) *store.ImmuStore {
	st := openStore(dir, ver)
	ctx := context.Background()
	for _, sp := range specs {
		tx, err := st.NewWriteOnlyTx(ctx)
		must(err)
		for _, e := range sp.Ents {
			must(tx.Set([]byte(e.Key), kvmd(e.MD), []byte(e.Val)))
		}
		if sp.Extra {
			md := store.NewTxMetadata()
			must(md.WithExtra([]byte("extra")))
			tx.WithMetadata(md)
		}
		_, err = tx.Commit(ctx)
		must(err)
	}
	return st
}

// buildLagging: same content as src, but every header carries BlTxID = blOf(link,id) < id-1 and the matching
// BlRoot; fed through ReplicateTx (the only path that accepts a caller-supplied header).
func buildLagging(dir string, ver int, src *store.ImmuStore, n int, link string) *store.ImmuStore {
	st := openStore(dir, ver)
	ctx := context.Background()
	prev := sha256.Sum256(nil)
	var leaves []H
	for id := 1; id <= n; id++ {
		tx := store.NewTx(src.MaxTxEntries(), src.MaxKeyLen())
		bs, err := src.ExportTx(uint64(id), false, false, tx)
		must(err)
		hl := int(binary.BigEndian.Uint32(bs))
		hdr := &store.TxHeader{}
		must(hdr.ReadFrom(bs[4 : 4+hl]))
		bl := blOf(link, id)
		hdr.BlTxID = uint64(bl)
		hdr.BlRoot = H{}
		if bl > 0 {
			hdr.BlRoot = merkle.Root(leaves[:bl])
		}
		hdr.PrevAlh = prev
		hb, err := hdr.Bytes()
		must(err)
		var out bytes.Buffer
		var b4 [4]byte
		binary.BigEndian.PutUint32(b4[:], uint32(len(hb)))
		out.Write(b4[:])
		out.Write(hb)
		out.Write(bs[4+hl:])
		got, err := st.ReplicateTx(ctx, out.Bytes(), false, false)
		if err != nil {
			panic(fmt.Sprintf("ReplicateTx(%d, bl=%d): %v", id, bl, err))
		}
		if got.BlTxID != uint64(bl) || got.ID != uint64(id) {
			panic("replicated header differs")
		}
		prev = got.Alh()
		leaves = append(leaves, merkle.Leaf(prev[:]))
	}
	return st
}

// ---------- worlds ----------

type EntRec struct {
	Key  []byte
	MD   *store.KVMetadata
	Val  []byte
	HVal H
	Dig  H // digest under the header version of its transaction
}

// World: a header sequence 1..n with a coherent PrevAlh chain, plus the leaves its binary-linking roots are
// computed over. Well-formed worlds have leaf[k] == alh[k]; adversarial ones may differ (tree/chain split).
type World struct {
	name    string
	n       int
	real    bool
	hdr     []*store.TxHeader // chain headers (1-based)
	alh     []H
	inner   []H
	leaf    []H                    // alh the tree holds at position k
	leafHdr []*store.TxHeader      // header whose Alh is leaf[k]
	ents    [][]EntRec             // real worlds (and rewritten transactions of synthetic ones)
	dual    [][]*store.DualProof   // [s][t], s <= t
	dualL   [][]*store.DualProof   // same, but proving the transaction the TREE holds at s (only where it differs)
	v2      [][]*store.DualProofV2 // only when every BlTxID == ID-1
	lin     [][]*store.LinearProof // real worlds
	iproofs [][]*htree.InclusionProof
}

func (w *World) bl(t int) int { return int(w.hdr[t].BlTxID) }

// commit: the Alh that state (w,t) commits to for position j <= t (tree where the tree reaches, chain beyond).
func (w *World) commit(t, j int) H {
	if j <= w.bl(t) {
		return w.leaf[j]
	}
	return w.alh[j]
}

func innerHash(h *store.TxHeader) H {
	b := make([]byte, 0, 128)
	var u8 [8]byte
	binary.BigEndian.PutUint64(u8[:], uint64(h.Ts))
	b = append(b, u8[:]...)
	b = append(b, byte(h.Version>>8), byte(h.Version))
	if h.Version == 0 {
		b = append(b, byte(h.NEntries>>8), byte(h.NEntries))
	} else {
		var md []byte
		if h.Metadata != nil {
			md = h.Metadata.Bytes()
		}
		b = append(b, byte(len(md)>>8), byte(len(md)))
		b = append(b, md...)
		var u4 [4]byte
		binary.BigEndian.PutUint32(u4[:], uint32(h.NEntries))
		b = append(b, u4[:]...)
	}
	b = append(b, h.Eh[:]...)
	binary.BigEndian.PutUint64(u8[:], h.BlTxID)
	b = append(b, u8[:]...)
	b = append(b, h.BlRoot[:]...)
	return sha256.Sum256(b)
}

func chainHash(id uint64, prev, inner H) H {
	var b [8 + 64]byte
	binary.BigEndian.PutUint64(b[:], id)
	copy(b[8:], prev[:])
	copy(b[40:], inner[:])
	return sha256.Sum256(b[:])
}

func leavesRoot(leaf []H, n int) H { // root over leaf[1..n]
	if n == 0 {
		return H{}
	}
	l := make([]H, n)
	for i := 1; i <= n; i++ {
		l[i-1] = merkle.Leaf(leaf[i][:])
	}
	return merkle.Root(l)
}

func ehOf(digs []H) H {
	if len(digs) == 0 {
		return sha256.Sum256(nil)
	}
	l := make([]H, len(digs))
	for i, d := range digs {
		l[i] = merkle.Leaf(d[:])
	}
	return merkle.Root(l)
}

func digestOf(ver int, key []byte, md *store.KVMetadata, val []byte) H {
	f, err := store.EntrySpecDigestFor(ver)
	must(err)
	return f(&store.EntrySpec{Key: key, Metadata: md, Value: val})
}

func worldOfStore(name string, st *store.ImmuStore, n int) *World {
	w := &World{name: name, n: n, real: true}
	w.hdr = make([]*store.TxHeader, n+1)
	w.alh, w.inner, w.leaf = make([]H, n+1), make([]H, n+1), make([]H, n+1)
	w.ents = make([][]EntRec, n+1)
	w.iproofs = make([][]*htree.InclusionProof, n+1)
	for id := 1; id <= n; id++ {
		tx := store.NewTx(st.MaxTxEntries(), st.MaxKeyLen())
		must(st.ReadTx(uint64(id), false, tx))
		h := *tx.Header()
		w.hdr[id] = &h
		w.alh[id] = h.Alh()
		w.inner[id] = innerHash(&h)
		w.leaf[id] = w.alh[id]
		var prev H = sha256.Sum256(nil)
		if id > 1 {
			prev = w.alh[id-1]
		}
		if chainHash(uint64(id), prev, w.inner[id]) != w.alh[id] {
			panic("harness: innerHash reimplementation disagrees with TxHeader.Alh")
		}
		for _, e := range tx.Entries() {
			v, err := st.ReadValue(e)
			must(err)
			er := EntRec{Key: append([]byte{}, e.Key()...), MD: e.Metadata(), Val: append([]byte{}, v...), HVal: e.HVal()}
			er.Dig = digestOf(h.Version, er.Key, er.MD, er.Val)
			w.ents[id] = append(w.ents[id], er)
			pr, err := tx.Proof(er.Key)
			must(err)
			cp := *pr
			cp.Terms = append([]H{}, pr.Terms...)
			w.iproofs[id] = append(w.iproofs[id], &cp)
		}
	}
	w.leafHdr = w.hdr
	return w
}

var forgedVal = []byte("forged") // value the adversary writes into a rewritten transaction

// mix: chain headers follow base (content of base, PrevAlh/BlRoot recomputed); tree leaves k..m are taken from alt
// (k > m: none). rewrite >= 1: transaction `rewrite` gets its first entry's value replaced (Eh recomputed).
func mix(name string, base *World, alt *World, k, m, rewrite int) *World {
	return mixFrom(name, base, alt, k, m, rewrite, 0)
}

// mixFrom: as mix, but headers with id < from are linked to the world's own (unswapped) leaves: the adversary starts
// serving the swapped tree only from transaction `from` on, so every earlier state is also a state of base.
func mixFrom(name string, base *World, alt *World, k, m, rewrite, from int) *World {
	n := base.n
	w := &World{name: name, n: n}
	w.hdr = make([]*store.TxHeader, n+1)
	w.leafHdr = make([]*store.TxHeader, n+1)
	w.alh, w.inner, w.leaf = make([]H, n+1), make([]H, n+1), make([]H, n+1)
	w.ents = make([][]EntRec, n+1)
	prev := sha256.Sum256(nil)
	for id := 1; id <= n; id++ {
		h := *base.hdr[id]
		w.ents[id] = base.ents[id]
		if id == rewrite {
			es := append([]EntRec{}, base.ents[id]...)
			es[0].Val = append([]byte{}, forgedVal...)
			es[0].HVal = sha256.Sum256(es[0].Val)
			es[0].Dig = digestOf(h.Version, es[0].Key, es[0].MD, es[0].Val)
			var ds []H
			for _, e := range es {
				ds = append(ds, e.Dig)
			}
			h.Eh = ehOf(ds)
			w.ents[id] = es
		}
		h.PrevAlh = prev
		if id < from {
			h.BlRoot = leavesRoot(w.alh, int(h.BlTxID))
		} else {
			h.BlRoot = leavesRoot(w.leaf, int(h.BlTxID))
		}
		w.hdr[id] = &h
		w.inner[id] = innerHash(&h)
		w.alh[id] = h.Alh()
		prev = w.alh[id]
		if id >= k && id <= m {
			w.leaf[id], w.leafHdr[id] = alt.alh[id], alt.hdr[id]
		} else {
			w.leaf[id], w.leafHdr[id] = w.alh[id], w.hdr[id]
		}
	}
	return w
}

func smallTree() (*ahtree.AHtree, string) {
	d := lib.Scratch("c01t")
	t, err := ahtree.Open(d, ahtree.DefaultOptions().WithDataCacheSlots(64).WithDigestsCacheSlots(64).WithSyncThld(1000).
		WithFileSize(1<<16).WithWriteBufferSize(4096).WithReadBufferSize(256))
	must(err)
	return t, d
}

// genProofs fills dual / v2 following the honest algorithm of ImmuStore.DualProof, but over the world's own chain
// and tree (the adversary's best attempt for an inconsistent world). Tree proofs come from a scratch ahtree over
// the world's leaves (ahtree itself is the subject of C08, here it is only the adversary's tool).
func (w *World) genProofs() {
	t, dir := smallTree()
	defer os.RemoveAll(dir)
	defer t.Close()
	for id := 1; id <= w.n; id++ {
		_, _, err := t.Append(w.leaf[id][:])
		must(err)
	}
	noLag := true
	for id := 1; id <= w.n; id++ {
		noLag = noLag && w.bl(id) == id-1
	}
	w.dual = make([][]*store.DualProof, w.n+1)
	w.dualL = make([][]*store.DualProof, w.n+1)
	if noLag {
		w.v2 = make([][]*store.DualProofV2, w.n+1)
	}
	for s := 1; s <= w.n; s++ {
		w.dual[s] = make([]*store.DualProof, w.n+1)
		w.dualL[s] = make([]*store.DualProof, w.n+1)
		if noLag {
			w.v2[s] = make([]*store.DualProofV2, w.n+1)
		}
		for tt := s; tt <= w.n; tt++ {
			sh, th := w.hdr[s], w.hdr[tt]
			bs, bt := uint64(w.bl(s)), uint64(w.bl(tt))
			if bs > bt {
				continue
			}
			p := &store.DualProof{SourceTxHeader: sh, TargetTxHeader: th}
			var err error
			if uint64(s) < bt {
				p.InclusionProof, err = t.InclusionProof(uint64(s), bt)
				must(err)
			}
			if bs > 0 {
				p.ConsistencyProof, err = t.ConsistencyProof(bs, bt)
				must(err)
			}
			if bt > 0 {
				p.TargetBlTxAlh = w.leaf[bt]
				p.LastInclusionProof, err = t.InclusionProof(bt, bt)
				must(err)
			}
			from := s
			first := w.alh[s]
			if int(bt) > s {
				from, first = int(bt), w.leaf[bt]
			}
			lp := &store.LinearProof{SourceTxID: uint64(from), TargetTxID: uint64(tt), Terms: []H{first}}
			for j := from + 1; j <= tt; j++ {
				lp.Terms = append(lp.Terms, w.inner[j])
			}
			p.LinearProof = lp
			start, end := int(bs), s
			if int(bt) < s {
				end = int(bt)
			}
			if end > start+1 {
				la := &store.LinearAdvanceProof{LinearProofTerms: []H{w.leaf[start+1]}}
				for j := start + 1; j < end; j++ {
					ip, err := t.InclusionProof(uint64(j), bt)
					must(err)
					la.InclusionProofs = append(la.InclusionProofs, ip)
					nh := w.leafHdr[j+1]
					if j+1 == s { // the chain must end at the client's own Alh(s)
						nh = w.hdr[s]
					}
					la.LinearProofTerms = append(la.LinearProofTerms, innerHash(nh))
				}
				p.LinearAdvanceProof = la
			}
			w.dual[s][tt] = p
			if w.leaf[s] != w.alh[s] && uint64(s) < bt {
				// the adversary proves the transaction its tree holds at s (source header = leafHdr[s])
				pl := *p
				pl.SourceTxHeader = w.leafHdr[s]
				if la := p.LinearAdvanceProof; la != nil {
					lt := append([]H{}, la.LinearProofTerms...)
					lt[len(lt)-1] = innerHash(w.leafHdr[s])
					pl.LinearAdvanceProof = &store.LinearAdvanceProof{LinearProofTerms: lt, InclusionProofs: la.InclusionProofs}
				}
				w.dualL[s][tt] = &pl
			}
			if noLag {
				q := &store.DualProofV2{SourceTxHeader: sh, TargetTxHeader: th}
				if s < tt {
					q.InclusionProof, err = t.InclusionProof(uint64(s), bt)
					must(err)
					f := bs
					if f == 0 {
						f = 1
					}
					q.ConsistencyProof, err = t.ConsistencyProof(f, bt)
					must(err)
				}
				w.v2[s][tt] = q
			}
		}
	}
}

func eqH(a, b []H) bool {
	if len(a) != len(b) {
		return false
	}
	for i := range a {
		if a[i] != b[i] {
			return false
		}
	}
	return true
}

func hdrEq(a, b *store.TxHeader) bool {
	if a == nil || b == nil {
		return a == b
	}
	return a.ID == b.ID && a.Alh() == b.Alh() && a.NEntries == b.NEntries
}

func dualEq(a, b *store.DualProof) string {
	switch {
	case !hdrEq(a.SourceTxHeader, b.SourceTxHeader) || !hdrEq(a.TargetTxHeader, b.TargetTxHeader):
		return "headers"
	case !eqH(a.InclusionProof, b.InclusionProof):
		return "InclusionProof"
	case !eqH(a.ConsistencyProof, b.ConsistencyProof):
		return "ConsistencyProof"
	case a.TargetBlTxAlh != b.TargetBlTxAlh:
		return "TargetBlTxAlh"
	case !eqH(a.LastInclusionProof, b.LastInclusionProof):
		return "LastInclusionProof"
	case (a.LinearProof == nil) != (b.LinearProof == nil):
		return "LinearProof nil"
	case a.LinearProof != nil && (a.LinearProof.SourceTxID != b.LinearProof.SourceTxID || a.LinearProof.TargetTxID != b.LinearProof.TargetTxID || !eqH(a.LinearProof.Terms, b.LinearProof.Terms)):
		return "LinearProof"
	case (a.LinearAdvanceProof == nil) != (b.LinearAdvanceProof == nil):
		return "LinearAdvanceProof nil"
	}
	if a.LinearAdvanceProof != nil {
		x, y := a.LinearAdvanceProof, b.LinearAdvanceProof
		if !eqH(x.LinearProofTerms, y.LinearProofTerms) || len(x.InclusionProofs) != len(y.InclusionProofs) {
			return "LinearAdvanceProof"
		}
		for i := range x.InclusionProofs {
			if !eqH(x.InclusionProofs[i], y.InclusionProofs[i]) {
				return "LinearAdvanceProof.InclusionProofs"
			}
		}
	}
	return ""
}
