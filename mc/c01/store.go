package main

// Store-level part: completeness (O1) on real stores and soundness (O2) of the verifiers under the session model.

import (
	"fmt"
	"math"
	"os"
	"sync/atomic"

	"github.com/codenotary/immudb/embedded/store"
	"verif/mc/lib"
	"verif/mc/merkle"
)

type stateRef struct {
	w  *World
	id int
}

func (s stateRef) String() string { return fmt.Sprintf("%s:%d", s.w.name, s.id) }

// Prim: one primary history H with its adversarial material.
type Prim struct {
	cfg    HistCfg
	H      *World
	forks  []*World // real fork stores, forks[p] shares the first p transactions with H
	G      []*World // G[k]: coherent rewrite of transaction k (1-based)
	worlds []*World // H, forks, synthetic
	index  map[H][]stateRef
	roots  map[H][]rootRef // BlRoot -> (world, size)
	pool   []H
}

type rootRef struct {
	w    *World
	size int
}

type tally struct {
	evals, honestOK, rejected, legit, noop, panics, forged, sessions, equiv int64
}

var cnt tally // global totals (flushed from job-local tallies)

func (t *tally) flush() {
	c.AddEvals(t.evals)
	for _, x := range []struct{ d, s *int64 }{{&cnt.honestOK, &t.honestOK}, {&cnt.rejected, &t.rejected}, {&cnt.legit, &t.legit}, {&cnt.noop, &t.noop},
		{&cnt.panics, &t.panics}, {&cnt.forged, &t.forged}, {&cnt.sessions, &t.sessions}, {&cnt.equiv, &t.equiv}} {
		atomic.AddInt64(x.d, *x.s)
	}
	*t = tally{}
}

// job: one worker's view of a primary history (shared, read-only) plus its private counters.
type job struct {
	*Prim
	t  tally
	sc scratch
}

// scratch: reusable buffers for the altered copy of a response (one allocation-free deep copy per evaluation).
type scratch struct {
	r      Resp
	p      store.DualProof
	hs, ht store.TxHeader
	lp     store.LinearProof
	la     store.LinearAdvanceProof
	ips    [][]H
}

func (sc *scratch) load(base *Resp) *Resp {
	b := base.P
	sc.hs, sc.ht = *b.SourceTxHeader, *b.TargetTxHeader
	sc.p.SourceTxHeader, sc.p.TargetTxHeader = &sc.hs, &sc.ht
	sc.p.InclusionProof = append(sc.p.InclusionProof[:0], b.InclusionProof...)
	sc.p.ConsistencyProof = append(sc.p.ConsistencyProof[:0], b.ConsistencyProof...)
	sc.p.LastInclusionProof = append(sc.p.LastInclusionProof[:0], b.LastInclusionProof...)
	sc.p.TargetBlTxAlh = b.TargetBlTxAlh
	sc.p.LinearProof, sc.p.LinearAdvanceProof = nil, nil
	if b.LinearProof != nil {
		sc.lp.SourceTxID, sc.lp.TargetTxID = b.LinearProof.SourceTxID, b.LinearProof.TargetTxID
		sc.lp.Terms = append(sc.lp.Terms[:0], b.LinearProof.Terms...)
		sc.p.LinearProof = &sc.lp
	}
	if la := b.LinearAdvanceProof; la != nil {
		sc.la.LinearProofTerms = append(sc.la.LinearProofTerms[:0], la.LinearProofTerms...)
		for len(sc.ips) < len(la.InclusionProofs) {
			sc.ips = append(sc.ips, nil)
		}
		sc.la.InclusionProofs = sc.la.InclusionProofs[:0]
		for i, ip := range la.InclusionProofs {
			sc.ips[i] = append(sc.ips[i][:0], ip...)
			sc.la.InclusionProofs = append(sc.la.InclusionProofs, sc.ips[i])
		}
		sc.p.LinearAdvanceProof = &sc.la
	}
	sc.r.Proven, sc.r.P = base.Proven, &sc.p
	return &sc.r
}

func viol(sig, detail string, replay any) {
	c.Violate(lib.Violation{Sig: sig, Detail: detail, Replay: replay})
}

func buildPrim(cfg HistCfg) *Prim {
	p := &Prim{cfg: cfg, index: map[H][]stateRef{}, roots: map[H][]rootRef{}}
	n := cfg.N
	mk := func(name string, forkAt int) *World {
		specs := specsOf(cfg, forkAt)
		d1 := lib.Scratch("c01s")
		defer os.RemoveAll(d1)
		st := buildCommitted(d1, cfg.Ver, specs)
		defer st.Close()
		if cfg.Link != "commit" {
			d2 := lib.Scratch("c01l")
			defer os.RemoveAll(d2)
			lag := buildLagging(d2, cfg.Ver, st, n, cfg.Link)
			defer lag.Close()
			st = lag
		}
		w := worldOfStore(name, st, n)
		completeness(cfg, w, st)
		return w
	}
	p.H = mk("H", -1)
	p.worlds = append(p.worlds, p.H)
	for fp := 0; fp < n; fp++ {
		f := mk(fmt.Sprintf("F%d", fp), fp)
		p.forks = append(p.forks, f)
		p.worlds = append(p.worlds, f)
	}
	// synthetic worlds: G(k) = coherent rewrite of transaction k (entry -> Eh -> Alh -> every later PrevAlh/BlRoot);
	// TH(k,m) = chain of H, tree leaves k..m taken from G(k); TG(k,m) = chain of G(k), tree leaves k..m taken from H.
	maxSpan := 3
	p.G = []*World{nil}
	for k := 1; k <= n; k++ {
		g := mix(fmt.Sprintf("G%d", k), p.H, nil, 1, 0, k)
		g.genProofs()
		p.worlds = append(p.worlds, g)
		p.G = append(p.G, g)
		for m := k; m < n && m < k+maxSpan; m++ {
			th := mix(fmt.Sprintf("TH%d-%d", k, m), p.H, g, k, m, 0)
			th.genProofs()
			tg := mix(fmt.Sprintf("TG%d-%d", k, m), g, p.H, k, m, 0)
			tg.genProofs()
			p.worlds = append(p.worlds, th, tg)
		}
		// TL(k,from) = chain of H, tree leaf k taken from G(k), served only from transaction `from` on: every state
		// before `from` is a state of H, the swapped leaf lies below the BlTxID of states the client may already trust
		for from := k + 2; from <= n; from++ {
			tl := mixFrom(fmt.Sprintf("TL%d-%d", k, from), p.H, g, k, k, 0, from)
			tl.genProofs()
			p.worlds = append(p.worlds, tl)
		}
	}
	// harness self-check: the proof generator used for synthetic worlds reproduces the real store's proofs
	chk := mix("H-regen", p.H, nil, 1, 0, 0)
	chk.genProofs()
	for s := 1; s <= n; s++ {
		for t := s; t <= n; t++ {
			if chk.dual[s][t] == nil || p.H.dual[s][t] == nil {
				continue
			}
			if d := dualEq(chk.dual[s][t], p.H.dual[s][t]); d != "" {
				harnessBug(fmt.Sprintf("%v: generated DualProof(%d,%d) differs from ImmuStore.DualProof in %s", cfg, s, t, d))
			}
		}
	}
	seen := map[H]bool{}
	add := func(h H) {
		if !seen[h] {
			seen[h] = true
			p.pool = append(p.pool, h)
		}
	}
	for wi, w := range p.worlds {
		for id := 1; id <= n; id++ {
			p.index[w.alh[id]] = append(p.index[w.alh[id]], stateRef{w, id})
			r := leavesRoot(w.leaf, id)
			p.roots[r] = append(p.roots[r], rootRef{w, id})
			if wi == 0 || w == p.forks[n/2] || w == p.forks[0] { // pool: every Alh/Eh/BlRoot/inner hash of H and two forks
				add(w.alh[id])
				add(w.hdr[id].Eh)
				add(w.hdr[id].BlRoot)
				add(w.inner[id])
			}
		}
	}
	return p
}

func harnessBug(msg string) {
	fmt.Fprintln(os.Stderr, "HARNESS ERROR:", msg)
	os.Exit(2)
}

// ---------- O1: completeness on a real store ----------

func completeness(cfg HistCfg, w *World, st *store.ImmuStore) {
	n := w.n
	hist := fmt.Sprintf("%v/%s", cfg, w.name)
	w.dual = make([][]*store.DualProof, n+1)
	w.lin = make([][]*store.LinearProof, n+1)
	noLag := cfg.Link == "commit"
	if noLag {
		w.v2 = make([][]*store.DualProofV2, n+1)
	}
	var leaves []H
	for id := 1; id <= n; id++ {
		leaves = append(leaves, merkle.Leaf(w.alh[id][:]))
	}
	for s := 1; s <= n; s++ {
		w.dual[s] = make([]*store.DualProof, n+1)
		w.lin[s] = make([]*store.LinearProof, n+1)
		if noLag {
			w.v2[s] = make([]*store.DualProofV2, n+1)
		}
		for t := 1; t <= n; t++ {
			if s > t {
				if _, err := st.DualProof(w.hdr[s], w.hdr[t]); err == nil {
					viol(fmt.Sprintf("rejects-honest api=DualProof pair=(%d,%d) history=%s", s, t, hist), "DualProof(source newer than target) returned a proof instead of ErrSourceTxNewerThanTargetTx", map[string]any{"hist": cfg, "s": 1})
				}
				continue
			}
			c.Eval("")
			p, err := st.DualProof(w.hdr[s], w.hdr[t])
			if err != nil {
				viol(fmt.Sprintf("rejects-honest api=DualProof pair=(%d,%d) history=%s", s, t, hist), "DualProof failed: "+err.Error(), map[string]any{"hist": cfg, "s": 1})
				continue
			}
			w.dual[s][t] = p
			if !store.VerifyDualProof(p, uint64(s), uint64(t), w.alh[s], w.alh[t]) {
				viol(fmt.Sprintf("rejects-honest api=VerifyDualProof pair=(%d,%d) history=%s", s, t, hist),
					fmt.Sprintf("honest proof rejected (source BlTxID=%d target BlTxID=%d)", w.bl(s), w.bl(t)), map[string]any{"hist": cfg, "s": 1})
			} else {
				atomic.AddInt64(&cnt.honestOK, 1)
			}
			q, err := st.DualProofV2(w.hdr[s], w.hdr[t])
			if noLag {
				if err != nil {
					viol(fmt.Sprintf("rejects-honest api=DualProofV2 pair=(%d,%d) history=%s", s, t, hist), "DualProofV2 failed: "+err.Error(), map[string]any{"hist": cfg, "s": 1})
				} else if err := store.VerifyDualProofV2(q, uint64(s), uint64(t), w.alh[s], w.alh[t]); err != nil {
					viol(fmt.Sprintf("rejects-honest api=VerifyDualProofV2 pair=(%d,%d) history=%s", s, t, hist), "honest proof rejected: "+err.Error(), map[string]any{"hist": cfg, "s": 1})
				} else {
					w.v2[s][t] = q
					atomic.AddInt64(&cnt.honestOK, 1)
				}
			} else if err == nil && (w.bl(s) != s-1 || w.bl(t) != t-1) {
				viol(fmt.Sprintf("rejects-honest api=DualProofV2 pair=(%d,%d) history=%s", s, t, hist), "DualProofV2 produced a proof for a lagging header (must be ErrUnexpectedLinkingError)", map[string]any{"hist": cfg, "s": 1})
			}
			lp, err := st.LinearProof(uint64(s), uint64(t))
			if err != nil || !store.VerifyLinearProof(lp, uint64(s), uint64(t), w.alh[s], w.alh[t]) {
				viol(fmt.Sprintf("rejects-honest api=VerifyLinearProof pair=(%d,%d) history=%s", s, t, hist), fmt.Sprintf("err=%v", err), map[string]any{"hist": cfg, "s": 1})
			} else {
				w.lin[s][t] = lp
				atomic.AddInt64(&cnt.honestOK, 1)
			}
			// LinearAdvanceProof(start=s-1.., end=t, treeSize) for every tree size >= t
			for size := t; size <= n; size++ {
				start := s - 1
				la, err := st.LinearAdvanceProof(uint64(start), uint64(t), uint64(size))
				if err != nil || !store.VerifyLinearAdvanceProof(la, uint64(start), uint64(t), w.alh[t], merkle.Root(leaves[:size]), uint64(size)) {
					viol(fmt.Sprintf("rejects-honest api=VerifyLinearAdvanceProof pair=(%d,%d) history=%s size=%d", start, t, hist, size), fmt.Sprintf("err=%v", err), map[string]any{"hist": cfg, "s": 1})
				} else {
					atomic.AddInt64(&cnt.honestOK, 1)
				}
			}
		}
	}
	for id := 1; id <= n; id++ {
		for i, e := range w.ents[id] {
			c.Eval("")
			if !store.VerifyInclusion(w.iproofs[id][i], e.Dig, w.hdr[id].Eh) {
				viol(fmt.Sprintf("rejects-honest api=VerifyInclusion pair=(%d,%d) history=%s key=%s", id, id, hist, e.Key), "honest entry inclusion proof rejected", map[string]any{"hist": cfg, "s": 1})
			} else {
				atomic.AddInt64(&cnt.honestOK, 1)
			}
		}
	}
}

// ---------- the client session step and the oracle ----------

type Resp struct {
	Proven uint64 // transaction id the response claims to prove
	P      *store.DualProof
}

func cloneHdr(h *store.TxHeader) *store.TxHeader {
	if h == nil {
		return nil
	}
	c := *h
	return &c
}
func cloneHs(l []H) []H {
	if l == nil {
		return nil
	}
	return append(make([]H, 0, len(l)+1), l...)
}
func cloneLin(l *store.LinearProof) *store.LinearProof {
	if l == nil {
		return nil
	}
	return &store.LinearProof{SourceTxID: l.SourceTxID, TargetTxID: l.TargetTxID, Terms: cloneHs(l.Terms)}
}
func cloneLAP(l *store.LinearAdvanceProof) *store.LinearAdvanceProof {
	if l == nil {
		return nil
	}
	o := &store.LinearAdvanceProof{LinearProofTerms: cloneHs(l.LinearProofTerms)}
	for _, ip := range l.InclusionProofs {
		o.InclusionProofs = append(o.InclusionProofs, cloneHs(ip))
	}
	return o
}
func cloneDual(p *store.DualProof) *store.DualProof {
	return &store.DualProof{SourceTxHeader: cloneHdr(p.SourceTxHeader), TargetTxHeader: cloneHdr(p.TargetTxHeader),
		InclusionProof: cloneHs(p.InclusionProof), ConsistencyProof: cloneHs(p.ConsistencyProof), TargetBlTxAlh: p.TargetBlTxAlh,
		LastInclusionProof: cloneHs(p.LastInclusionProof), LinearProof: cloneLin(p.LinearProof), LinearAdvanceProof: cloneLAP(p.LinearAdvanceProof)}
}

// clientStep is what pkg/client (verifiedGet / VerifiedTxByID / VerifiedSet) does with a response while holding the
// trusted state (trID, trAlh): the trusted side is never taken from the response. accepted header = the proven one.
func clientStep(trID uint64, trAlh H, r *Resp) (ok bool, proven *store.TxHeader, panicked bool) {
	return clientStepAPI("VerifyDualProof", trID, trAlh, r)
}

func clientStepAPI(api string, trID uint64, trAlh H, r *Resp) (ok bool, proven *store.TxHeader, panicked bool) {
	defer func() {
		if recover() != nil {
			ok, panicked = false, true
		}
	}()
	var sid, tid uint64
	var salh, talh H
	if api == "VerifyDualProofV2" {
		// the only caller, pkg/verification.VerifyDocument: ids and both Alh come from the response headers, the known
		// state must equal the source or the target (by id, then by Alh); the other header is what gets accepted
		sid, tid = r.P.SourceTxHeader.ID, r.P.TargetTxHeader.ID
		salh, talh = r.P.SourceTxHeader.Alh(), r.P.TargetTxHeader.Alh()
		if tid < sid || (trID != sid && trID != tid) || (trID == sid && trAlh != salh) || (trID == tid && trAlh != talh) {
			return false, nil, false
		}
		ok = store.VerifyDualProofV2(&store.DualProofV2{SourceTxHeader: r.P.SourceTxHeader, TargetTxHeader: r.P.TargetTxHeader,
			InclusionProof: r.P.InclusionProof, ConsistencyProof: r.P.ConsistencyProof}, sid, tid, salh, talh) == nil
		if trID == sid {
			proven, r.Proven = r.P.TargetTxHeader, tid
		} else {
			proven, r.Proven = r.P.SourceTxHeader, sid
		}
		return
	}
	if trID <= r.Proven {
		sid, salh, tid, talh = trID, trAlh, r.Proven, r.P.TargetTxHeader.Alh()
		proven = r.P.TargetTxHeader
	} else {
		sid, salh, tid, talh = r.Proven, r.P.SourceTxHeader.Alh(), trID, trAlh
		proven = r.P.SourceTxHeader
	}
	ok = store.VerifyDualProof(r.P, sid, tid, salh, talh)
	return
}

// judge: "" when accepting proven header hd for id `proven` is legitimate for a client trusting tr.
//   - backward (proven < trusted id): hd must be the transaction the trusted state commits to at that position;
//   - forward: the new state (proven, hd) must commit, at EVERY position j <= trusted id, to exactly what the trusted
//     state commits to. What a header commits to: positions <= BlTxID through BlRoot (resolved to the leaves of a known
//     world's tree of that size), positions between BlTxID and its own id through PrevAlh (resolved to a known chain),
//     its own id through its Alh. Positions above the trusted id are the adversary's to choose (fork after the trusted
//     state); an accepted header whose needed parts resolve to nothing known is reported.
func (p *Prim) judge(tr stateRef, proven uint64, hd *store.TxHeader) string {
	bad, _ := p.judgePos(tr, proven, hd)
	return bad
}

// judgePos also returns the first position at which the accepted state contradicts the trusted one (0: none/unknown).
func (p *Prim) judgePos(tr stateRef, proven uint64, hd *store.TxHeader) (string, int) {
	a := hd.Alh()
	if proven > uint64(tr.w.n) || proven == 0 {
		return fmt.Sprintf("accepted id %d outside every known history", proven), 0
	}
	if int(proven) < tr.id {
		if want := tr.w.commit(tr.id, int(proven)); a != want {
			return fmt.Sprintf("accepted Alh %x for tx %d, but the trusted state commits to %x there", a[:6], proven, want[:6]), int(proven)
		}
		return "", 0
	}
	t, bl := int(proven), int(hd.BlTxID)
	if t == tr.id {
		if a != tr.w.alh[t] {
			return fmt.Sprintf("accepted Alh %x for the trusted tx %d itself (trusted Alh %x)", a[:6], t, tr.w.alh[t][:6]), t
		}
		return "", 0
	}
	var tree, chain []H // 1-based views
	if bl > 0 && tr.id >= 1 {
		for _, rr := range p.roots[hd.BlRoot] {
			if rr.size == bl {
				tree = rr.w.leaf
				break
			}
		}
		if tree == nil {
			return fmt.Sprintf("accepted a header for tx %d whose (BlTxID=%d, BlRoot=%x) is the tree of no known history", proven, bl, hd.BlRoot[:6]), 0
		}
	}
	if tr.id > bl && tr.id < t { // positions bl < j <= trusted id lie on the chain below the header
		for _, ref := range p.index[hd.PrevAlh] {
			if ref.id == t-1 {
				chain = ref.w.alh
				break
			}
		}
		if chain == nil {
			return fmt.Sprintf("accepted a header for tx %d whose PrevAlh %x is no known state of tx %d", proven, hd.PrevAlh[:6], t-1), 0
		}
	}
	for j := 1; j <= tr.id; j++ {
		var x H
		switch {
		case j <= bl:
			x = tree[j]
		case j == t:
			x = a
		default:
			x = chain[j]
		}
		if y := tr.w.commit(tr.id, j); x != y {
			return fmt.Sprintf("new state (%d, %x) commits to %x at position %d (%s), the trusted state %v to %x", proven, a[:6], x[:6], j,
				map[bool]string{true: "through BlRoot", false: "through the linear chain"}[j <= bl], tr, y[:6]), j
		}
	}
	return "", 0
}

func (p *Prim) claimName(proven uint64, hd *store.TxHeader) string {
	if hd == nil {
		return "nil"
	}
	for _, ref := range p.index[hd.Alh()] {
		if ref.id == int(proven) {
			return ref.String()
		}
	}
	return fmt.Sprintf("unknown:%d", proven)
}

func relOf(tr stateRef, r *Resp) string {
	if r.P.TargetTxHeader == nil || uint64(tr.id) > r.Proven {
		return "backward"
	}
	switch b := r.P.TargetTxHeader.BlTxID; {
	case uint64(tr.id) < b:
		return "src<tgtBl"
	case uint64(tr.id) == b:
		return "src=tgtBl"
	}
	return "src>tgtBl"
}

// divOf says where an accepted forward state contradicts the trusted one: in the part of the tree the trusted header
// itself commits to through its BlRoot (srcTree), in the leaves between the two BlTxIDs (gap), or on the chain.
func divOf(tr stateRef, pos int, hd *store.TxHeader) string {
	switch sb := tr.w.bl(tr.id); {
	case pos == 0 || hd == nil || int(hd.BlTxID) < pos:
		return ""
	case pos <= sb:
		return " div=srcTree"
	}
	return " div=gap"
}

// check evaluates one response; returns whether it was accepted (legitimately or not).
func (p *job) check(class string, tr stateRef, r *Resp, alter func() string) (accepted bool, bad string) {
	return p.checkAPI("VerifyDualProof", class, tr, r, alter)
}

func (p *job) checkAPI(api, class string, tr stateRef, r *Resp, alter func() string) (accepted bool, bad string) {
	p.t.evals++
	ok, hd, pan := clientStepAPI(api, uint64(tr.id), tr.w.alh[tr.id], r)
	if pan {
		p.t.panics++
		return false, ""
	}
	if !ok {
		p.t.rejected++
		return false, ""
	}
	var pos int
	if bad, pos = p.judgePos(tr, r.Proven, hd); bad == "" {
		return true, ""
	}
	p.t.forged++
	al := alter()
	viol(fmt.Sprintf("%s api="+api+" case=%s trusted=%v claimed=%s alter=%s hist=%v", class, relOf(tr, r)+divOf(tr, pos, hd), tr, p.claimName(r.Proven, hd), al, p.cfg),
		bad+fmt.Sprintf("\nclient holds (%d, %x); response proves tx %d; source header id=%d BlTxID=%d, target header id=%d BlTxID=%d", tr.id, tr.w.alh[tr.id][:6], r.Proven,
			r.P.SourceTxHeader.ID, r.P.SourceTxHeader.BlTxID, r.P.TargetTxHeader.ID, r.P.TargetTxHeader.BlTxID),
		map[string]any{"hist": p.cfg, "s": tr.id, "trusted": tr.w.name})
	return true, bad
}

func honestResp(w *World, s, t int) *Resp {
	var d *store.DualProof
	if s <= t {
		d = w.dual[s][t]
	} else {
		d = w.dual[t][s]
	}
	if d == nil {
		return nil
	}
	return &Resp{Proven: uint64(t), P: d}
}

// ---------- alteration alphabet ----------

type Alt struct {
	name string
	f    func(r *Resp)
}

func u64set(v uint64, extra ...uint64) []uint64 {
	cand := append([]uint64{0, 1, v - 1, v + 1, math.MaxUint64}, extra...)
	var out []uint64
	seen := map[uint64]bool{v: true}
	for _, x := range cand {
		if !seen[x] {
			seen[x] = true
			out = append(out, x)
		}
	}
	return out
}

func flip(h H) H { h[0] ^= 1; return h }

func extraMD(s string) *store.TxMetadata {
	m := store.NewTxMetadata()
	m.WithExtra([]byte(s))
	return m
}

// hdrAlts: every field of one header <- boundary ints / flipped bit / every pool hash / the field of donor headers.
func hdrAlts(which string, get func(*Resp) *store.TxHeader, set func(*Resp, *store.TxHeader), orig *store.TxHeader, pool []H, donors map[string]*store.TxHeader) []Alt {
	var out []Alt
	add := func(n string, f func(h *store.TxHeader)) {
		out = append(out, Alt{which + "." + n, func(r *Resp) { f(get(r)) }})
	}
	for _, v := range u64set(orig.ID) {
		v := v
		add(fmt.Sprintf("ID=%d", v), func(h *store.TxHeader) { h.ID = v })
	}
	for _, v := range u64set(orig.BlTxID, orig.ID) {
		v := v
		add(fmt.Sprintf("BlTxID=%d", v), func(h *store.TxHeader) { h.BlTxID = v })
	}
	for _, v := range []int64{0, orig.Ts - 1, orig.Ts + 1, math.MaxInt64} {
		v := v
		add(fmt.Sprintf("Ts=%d", v), func(h *store.TxHeader) { h.Ts = v })
	}
	for _, v := range []int{0, 1, orig.NEntries - 1, orig.NEntries + 1, math.MaxInt32} {
		v := v
		if v != orig.NEntries {
			add(fmt.Sprintf("NEntries=%d", v), func(h *store.TxHeader) { h.NEntries = v })
		}
	}
	add("Version^1", func(h *store.TxHeader) { h.Version ^= 1 })
	add("Version=2", func(h *store.TxHeader) { h.Version = 2 })
	if orig.Metadata == nil {
		add("Metadata=extra", func(h *store.TxHeader) { h.Metadata = extraMD("extra") })
		add("Metadata=empty", func(h *store.TxHeader) { h.Metadata = store.NewTxMetadata() })
	} else {
		add("Metadata=nil", func(h *store.TxHeader) { h.Metadata = nil })
		add("Metadata=extra2", func(h *store.TxHeader) { h.Metadata = extraMD("extrb") })
	}
	hf := []struct {
		n string
		g func(h *store.TxHeader) *H
	}{{"Eh", func(h *store.TxHeader) *H { return &h.Eh }}, {"BlRoot", func(h *store.TxHeader) *H { return &h.BlRoot }}, {"PrevAlh", func(h *store.TxHeader) *H { return &h.PrevAlh }}}
	for _, f := range hf {
		f := f
		add(f.n+"^bit", func(h *store.TxHeader) { *f.g(h) = flip(*f.g(h)) })
		for i, ph := range pool {
			ph := ph
			if ph != *f.g(orig) {
				add(fmt.Sprintf("%s=pool%d", f.n, i), func(h *store.TxHeader) { *f.g(h) = ph })
			}
		}
	}
	for dn, d := range donors {
		d := d
		if d == nil || hdrEq(d, orig) {
			continue
		}
		out = append(out, Alt{fmt.Sprintf("%s=header(%s)", which, dn), func(r *Resp) { set(r, cloneHdr(d)) }})
		// single fields of the donor
		add(fmt.Sprintf("Eh=%s", dn), func(h *store.TxHeader) { h.Eh = d.Eh })
		add(fmt.Sprintf("BlRoot=%s", dn), func(h *store.TxHeader) { h.BlRoot = d.BlRoot })
		add(fmt.Sprintf("PrevAlh=%s", dn), func(h *store.TxHeader) { h.PrevAlh = d.PrevAlh })
		add(fmt.Sprintf("Ts,Metadata,NEntries=%s", dn), func(h *store.TxHeader) { h.Ts, h.Metadata, h.NEntries = d.Ts, d.Metadata, d.NEntries })
	}
	out = append(out, Alt{which + "=nil", func(r *Resp) { set(r, nil) }})
	return out
}

type listRef struct {
	name string
	get  func(p *store.DualProof) *[]H
}

func proofLists(p *store.DualProof) []listRef {
	ls := []listRef{
		{"InclusionProof", func(p *store.DualProof) *[]H { return &p.InclusionProof }},
		{"ConsistencyProof", func(p *store.DualProof) *[]H { return &p.ConsistencyProof }},
		{"LastInclusionProof", func(p *store.DualProof) *[]H { return &p.LastInclusionProof }},
	}
	if p.LinearProof != nil {
		ls = append(ls, listRef{"LinearProof.Terms", func(p *store.DualProof) *[]H { return &p.LinearProof.Terms }})
	}
	if p.LinearAdvanceProof != nil {
		ls = append(ls, listRef{"LinearAdvanceProof.Terms", func(p *store.DualProof) *[]H { return &p.LinearAdvanceProof.LinearProofTerms }})
		for i := range p.LinearAdvanceProof.InclusionProofs {
			i := i
			ls = append(ls, listRef{fmt.Sprintf("LinearAdvanceProof.InclusionProofs[%d]", i), func(p *store.DualProof) *[]H { return &p.LinearAdvanceProof.InclusionProofs[i] }})
		}
	}
	return ls
}

// listAlts: drop / duplicate / swap adjacent / flip a bit / substitute by every pool hash / append / prepend / empty.
func listAlts(orig *store.DualProof, pool []H, subst bool) []Alt {
	var out []Alt
	for _, lr := range proofLists(orig) {
		lr := lr
		l := *lr.get(orig)
		add := func(n string, f func(l []H) []H) {
			out = append(out, Alt{lr.name + "." + n, func(r *Resp) { q := lr.get(r.P); *q = f(*q) }})
		}
		for k := range l {
			k := k
			add(fmt.Sprintf("drop%d", k), func(l []H) []H { return append(l[:k:k], l[k+1:]...) })
			add(fmt.Sprintf("dup%d", k), func(l []H) []H { return append(append(append([]H{}, l[:k+1]...), l[k]), l[k+1:]...) })
			if k+1 < len(l) {
				add(fmt.Sprintf("swap%d", k), func(l []H) []H { l[k], l[k+1] = l[k+1], l[k]; return l })
			}
			add(fmt.Sprintf("bit%d", k), func(l []H) []H { l[k] = flip(l[k]); return l })
			if subst {
				for i, ph := range pool {
					ph := ph
					if ph != l[k] {
						add(fmt.Sprintf("%d=pool%d", k, i), func(l []H) []H { l[k] = ph; return l })
					}
				}
			}
		}
		if len(l) > 0 {
			add("empty", func(l []H) []H { return nil })
		}
		for i, ph := range pool {
			ph := ph
			if !subst && i >= 4 {
				break
			}
			add(fmt.Sprintf("append-pool%d", i), func(l []H) []H { return append(l, ph) })
			add(fmt.Sprintf("prepend-pool%d", i), func(l []H) []H { return append([]H{ph}, l...) })
		}
	}
	return out
}

// partAlts: whole proof parts taken from donor proofs (neighbouring pairs of H, the same pair in other worlds).
func partAlts(donors map[string]*store.DualProof, termwise bool) []Alt {
	var out []Alt
	for dn, d := range donors {
		d := d
		if d == nil {
			continue
		}
		out = append(out,
			Alt{"InclusionProof=" + dn, func(r *Resp) { r.P.InclusionProof = cloneHs(d.InclusionProof) }},
			Alt{"ConsistencyProof=" + dn, func(r *Resp) { r.P.ConsistencyProof = cloneHs(d.ConsistencyProof) }},
			Alt{"LastInclusionProof=" + dn, func(r *Resp) { r.P.LastInclusionProof = cloneHs(d.LastInclusionProof) }},
			Alt{"TargetBlTxAlh=" + dn, func(r *Resp) { r.P.TargetBlTxAlh = d.TargetBlTxAlh }},
			Alt{"TargetBlTxAlh+LastInclusionProof=" + dn, func(r *Resp) {
				r.P.TargetBlTxAlh = d.TargetBlTxAlh
				r.P.LastInclusionProof = cloneHs(d.LastInclusionProof)
			}},
			Alt{"LinearProof=" + dn, func(r *Resp) { r.P.LinearProof = cloneLin(d.LinearProof) }},
			Alt{"LinearAdvanceProof=" + dn, func(r *Resp) { r.P.LinearAdvanceProof = cloneLAP(d.LinearAdvanceProof) }},
			Alt{"all-proof-parts=" + dn, func(r *Resp) {
				s, t := r.P.SourceTxHeader, r.P.TargetTxHeader
				r.P = cloneDual(d)
				r.P.SourceTxHeader, r.P.TargetTxHeader = s, t
			}})
		if termwise {
			for _, lr := range proofLists(d) {
				lr := lr
				for k, h := range *lr.get(d) {
					k, h := k, h
					out = append(out, Alt{fmt.Sprintf("%s.%d=%s", lr.name, k, dn), func(r *Resp) {
						if (lr.name == "LinearProof.Terms" && r.P.LinearProof == nil) || (len(lr.name) > 18 && lr.name[:18] == "LinearAdvanceProof" && r.P.LinearAdvanceProof == nil) {
							return
						}
						(*lr.get(r.P))[k] = h
					}})
				}
			}
		}
	}
	return out
}

func miscAlts(orig *Resp, pool []H, trusted int) []Alt {
	var out []Alt
	for _, v := range u64set(orig.Proven, uint64(trusted)) {
		v := v
		out = append(out, Alt{fmt.Sprintf("provenTx=%d", v), func(r *Resp) { r.Proven = v }})
	}
	out = append(out, Alt{"TargetBlTxAlh^bit", func(r *Resp) { r.P.TargetBlTxAlh = flip(r.P.TargetBlTxAlh) }})
	for i, ph := range pool {
		ph := ph
		if ph != orig.P.TargetBlTxAlh {
			out = append(out, Alt{fmt.Sprintf("TargetBlTxAlh=pool%d", i), func(r *Resp) { r.P.TargetBlTxAlh = ph }})
		}
	}
	if lp := orig.P.LinearProof; lp != nil {
		for _, v := range u64set(lp.SourceTxID) {
			v := v
			out = append(out, Alt{fmt.Sprintf("LinearProof.SourceTxID=%d", v), func(r *Resp) { r.P.LinearProof.SourceTxID = v }})
		}
		for _, v := range u64set(lp.TargetTxID) {
			v := v
			out = append(out, Alt{fmt.Sprintf("LinearProof.TargetTxID=%d", v), func(r *Resp) { r.P.LinearProof.TargetTxID = v }})
		}
		out = append(out, Alt{"LinearProof=nil", func(r *Resp) { r.P.LinearProof = nil }})
	}
	if la := orig.P.LinearAdvanceProof; la != nil {
		out = append(out, Alt{"LinearAdvanceProof=nil", func(r *Resp) { r.P.LinearAdvanceProof = nil }})
		for k := range la.InclusionProofs {
			k := k
			out = append(out, Alt{fmt.Sprintf("LinearAdvanceProof.InclusionProofs.drop%d", k), func(r *Resp) {
				l := r.P.LinearAdvanceProof.InclusionProofs
				r.P.LinearAdvanceProof.InclusionProofs = append(l[:k:k], l[k+1:]...)
			}})
			out = append(out, Alt{fmt.Sprintf("LinearAdvanceProof.InclusionProofs.dup%d", k), func(r *Resp) {
				l := r.P.LinearAdvanceProof.InclusionProofs
				r.P.LinearAdvanceProof.InclusionProofs = append(append(append([][]H{}, l[:k+1]...), l[k]), l[k+1:]...)
			}})
			if k+1 < len(la.InclusionProofs) {
				out = append(out, Alt{fmt.Sprintf("LinearAdvanceProof.InclusionProofs.swap%d", k), func(r *Resp) {
					l := r.P.LinearAdvanceProof.InclusionProofs
					l[k], l[k+1] = l[k+1], l[k]
				}})
			}
		}
	}
	return out
}

func srcGet(r *Resp) *store.TxHeader    { return r.P.SourceTxHeader }
func tgtGet(r *Resp) *store.TxHeader    { return r.P.TargetTxHeader }
func srcSet(r *Resp, h *store.TxHeader) { r.P.SourceTxHeader = h }
func tgtSet(r *Resp, h *store.TxHeader) { r.P.TargetTxHeader = h }

func (p *job) apply(tr stateRef, base *Resp, class string, alts ...Alt) {
	p.applyAPI("VerifyDualProof", tr, base, class, alts...)
}

func (p *job) applyAPI(api string, tr stateRef, base *Resp, class string, alts ...Alt) {
	r := p.sc.load(base)
	ok := func() (ok bool) {
		defer func() {
			if recover() != nil {
				ok = false
			}
		}()
		for _, a := range alts {
			a.f(r)
		}
		return true
	}()
	if !ok { // the alteration does not apply to this response (e.g. a field that is nil here)
		return
	}
	acc, bad := p.checkAPI(api, class, tr, r, func() string {
		s := alts[0].name
		for _, a := range alts[1:] {
			s += " + " + a.name
		}
		return s
	})
	if acc && bad == "" {
		if r.P.TargetTxHeader != nil && r.P.SourceTxHeader != nil && hdrEq(r.P.TargetTxHeader, base.P.TargetTxHeader) && hdrEq(r.P.SourceTxHeader, base.P.SourceTxHeader) && r.Proven == base.Proven {
			p.t.noop++ // altered something the verifier does not need for this pair; claim unchanged
		} else {
			p.t.legit++
		}
	}
}

// soundS: everything enumerated for one trusted state (H, s).
func (p *job) soundS(s int, pairs bool) {
	n := p.H.n
	tr := stateRef{p.H, s}
	for t := 1; t <= n; t++ {
		base := honestResp(p.H, s, t)
		if base == nil {
			continue
		}
		c.Distinct(fmt.Sprintf("%v:%d:%d", p.cfg, s, t))
		if acc, bad := p.check("rejects-honest", tr, base, func() string { return "none" }); !acc || bad != "" {
			viol(fmt.Sprintf("rejects-honest api=client-step pair=(%d,%d) history=%v", s, t, p.cfg), "the client-side verification flow rejects the honest response: "+bad, map[string]any{"hist": p.cfg, "s": 1})
			continue
		}
		lo, hi := s, t
		if lo > hi {
			lo, hi = hi, lo
		}
		// donors
		hdrDonS, hdrDonT := map[string]*store.TxHeader{}, map[string]*store.TxHeader{}
		proofDon := map[string]*store.DualProof{}
		for _, d := range []int{-1, 1} {
			if x := lo + d; x >= 1 && x <= n {
				hdrDonS[fmt.Sprintf("H:%d", x)] = p.H.hdr[x]
			}
			if x := hi + d; x >= 1 && x <= n {
				hdrDonT[fmt.Sprintf("H:%d", x)] = p.H.hdr[x]
			}
		}
		for ds := -1; ds <= 1; ds++ {
			for dt := -1; dt <= 1; dt++ {
				a, b := lo+ds, hi+dt
				if (ds != 0 || dt != 0) && a >= 1 && a <= b && b <= n {
					proofDon[fmt.Sprintf("H(%d,%d)", a, b)] = p.H.dual[a][b]
				}
			}
		}
		for _, w := range p.worlds[1:] {
			hdrDonS[fmt.Sprintf("%s:%d", w.name, lo)] = w.hdr[lo]
			hdrDonT[fmt.Sprintf("%s:%d", w.name, hi)] = w.hdr[hi]
			proofDon[fmt.Sprintf("%s(%d,%d)", w.name, lo, hi)] = w.dual[lo][hi]
		}
		var singles []Alt
		singles = append(singles, hdrAlts("Source", srcGet, srcSet, base.P.SourceTxHeader, p.pool, hdrDonS)...)
		singles = append(singles, hdrAlts("Target", tgtGet, tgtSet, base.P.TargetTxHeader, p.pool, hdrDonT)...)
		singles = append(singles, listAlts(base.P, p.pool, true)...)
		singles = append(singles, partAlts(proofDon, true)...)
		singles = append(singles, miscAlts(base, p.pool, s)...)
		for _, a := range singles {
			p.apply(tr, base, "accepts-forged", a)
		}
		if !pairs || c.Expired() {
			continue
		}
		// pairs {one header/id field} x {one proof part}; reduced alphabets: donors = H neighbours and the two real
		// forks that diverge right before / right after the trusted transaction, pool = 4 hashes.
		small := map[string]*store.DualProof{}
		hS, hT := map[string]*store.TxHeader{}, map[string]*store.TxHeader{}
		for k, v := range proofDon {
			if k[0] == 'H' {
				small[k] = v
			}
		}
		for k, v := range hdrDonS {
			if k[0] == 'H' {
				hS[k] = v
			}
		}
		for k, v := range hdrDonT {
			if k[0] == 'H' {
				hT[k] = v
			}
		}
		for _, fp := range []int{s - 1, s} {
			if fp >= 0 && fp < n {
				f := p.forks[fp]
				small[fmt.Sprintf("%s(%d,%d)", f.name, lo, hi)] = f.dual[lo][hi]
				hS[fmt.Sprintf("%s:%d", f.name, lo)] = f.hdr[lo]
				hT[fmt.Sprintf("%s:%d", f.name, hi)] = f.hdr[hi]
			}
		}
		sp := []H{p.H.alh[s], p.H.alh[hi], p.forks[(s-1+n)%n].alh[hi], p.H.hdr[hi].BlRoot}
		var ah, ap []Alt
		ah = append(ah, hdrAlts("Source", srcGet, srcSet, base.P.SourceTxHeader, sp, hS)...)
		ah = append(ah, hdrAlts("Target", tgtGet, tgtSet, base.P.TargetTxHeader, sp, hT)...)
		for _, v := range u64set(base.Proven, uint64(s)) {
			v := v
			ah = append(ah, Alt{fmt.Sprintf("provenTx=%d", v), func(r *Resp) { r.Proven = v }})
		}
		ap = append(ap, listAlts(base.P, sp, false)...)
		ap = append(ap, partAlts(small, true)...)
		for _, a := range miscAlts(base, sp, s) {
			if len(a.name) < 8 || a.name[:8] != "provenTx" {
				ap = append(ap, a)
			}
		}
		for _, a := range ah {
			for _, b := range ap {
				p.apply(tr, base, "accepts-forged", a, b)
			}
		}
	}
}

// sessions: whole (internally consistent) responses of every world: up to two state-advancing verifications
// followed by one proof of an old transaction. Besides the per-step oracle this checks the end-to-end one, which does
// not depend on the notion of commitment: within one session the client never accepts, for an id <= its first trusted
// id, a transaction other than the one its first trusted state contains.
func (p *job) sessions(start stateRef, deep bool) {
	n := p.H.n
	resps := func(w *World, s, t int) []*Resp { // s = client's id, t = proven id
		var out []*Resp
		if r := honestResp(w, s, t); r != nil {
			out = append(out, r)
		}
		if t < s && w.dualL != nil && w.dualL[t][s] != nil {
			out = append(out, &Resp{Proven: uint64(t), P: w.dualL[t][s]})
		}
		return out
	}
	step := func(tr stateRef, w *World, t int) (acc bool, bad string) {
		for i, r := range resps(w, tr.id, t) {
			a, b := p.check("accepts-fork", tr, r, func() string {
				return fmt.Sprintf("whole-response-of(%s,%d,%d)%s", w.name, tr.id, t, []string{"", "/tree-tx"}[i])
			})
			if i == 0 {
				acc, bad = a, b
			}
		}
		return
	}
	for _, w := range p.worlds {
		for t := 1; t < start.id; t++ { // proofs of older transactions out of every world
			step(start, w, t)
		}
		for t := start.id; t <= n; t++ {
			p.t.sessions++
			acc, bad := step(start, w, t)
			if !acc {
				continue
			}
			via := relOf(start, honestResp(w, start.id, t))
			if bad == "" && w != start.w {
				p.t.legit++
			}
			// the adversary keeps answering from the same material: advance once more, then re-read an old transaction
			for u := t; u <= n; u++ {
				if u > t {
					if w.dual[t][u] == nil {
						continue
					}
					p.t.evals++
					if ok, _, _ := clientStep(uint64(t), w.alh[t], honestResp(w, t, u)); !ok {
						continue
					}
				}
				for j := 1; j <= start.id && j < u; j++ {
					for _, r := range resps(w, u, j) {
						p.t.evals++
						ok, hd, _ := clientStep(uint64(u), w.alh[u], r)
						if !ok {
							continue
						}
						if got, want := hd.Alh(), start.w.commit(start.id, j); got != want {
							p.t.equiv++
							viol(fmt.Sprintf("accepts-equivocation api=VerifyDualProof case=%s first-trusted=%v steps=%s:%d,%s:%d reread-tx=%d hist=%v", via+map[bool]string{true: " div=srcTree", false: " div=gap"}[j <= start.w.bl(start.id)], start, w.name, t, w.name, u, j, p.cfg),
								fmt.Sprintf("session: the client trusts %v, so tx %d has Alh %x (BlTxID of tx %d is %d). It is shown tx %d, then tx %d of the adversary's material %s (every proof verifies, state advances). "+
									"Then a proof of tx %d with Alh %x verifies against its state: two different transactions %d were accepted in one session.",
									start, j, want[:6], start.id, start.w.bl(start.id), t, u, w.name, j, got[:6], j),
								map[string]any{"hist": p.cfg, "s": start.id})
						}
					}
				}
			}
			if bad == "" && deep { // second step into any other world: per-step oracle
				for _, w2 := range p.worlds {
					if w2 == w {
						continue
					}
					for u := 1; u <= n; u++ {
						step(stateRef{w, t}, w2, u)
					}
				}
			}
		}
	}
}

func runStore(cfgs []HistCfg, pairs bool) {
	const batch = 16 // primaries built and kept in memory at a time
	skipped, total := 0, 0
	for lo := 0; lo < len(cfgs); lo += batch {
		hi := lo + batch
		if hi > len(cfgs) {
			hi = len(cfgs)
		}
		prims := make([]*Prim, hi-lo)
		c.ParallelFor(hi-lo, func(i int) {
			if !c.Expired() {
				prims[i] = buildPrim(cfgs[lo+i])
			}
		})
		type jb struct{ pi, s int }
		var jobs []jb
		for s := 1; s <= cfgs[lo].N; s++ { // s-major order: every history gets its low trusted ids done first
			for pi := range prims {
				if s <= cfgs[lo+pi].N {
					jobs = append(jobs, jb{pi, s})
				}
			}
		}
		total += len(jobs)
		var skip int64
		c.ParallelFor(len(jobs), func(i int) {
			j := jobs[i]
			if c.Expired() || prims[j.pi] == nil {
				atomic.AddInt64(&skip, 1)
				return
			}
			p := &job{Prim: prims[j.pi]}
			p.soundS(j.s, pairs)
			p.sessions(stateRef{p.H, j.s}, true)
			p.sessions(stateRef{p.forks[p.H.n/2], j.s}, false)
			p.rawAPIs(j.s)
			p.t.flush()
		})
		skipped += int(skip)
		for _, p := range prims {
			if p != nil {
				c.Add("worlds", int64(len(p.worlds)))
				c.Add("primary_histories", 1)
			}
		}
	}
	if skipped > 0 {
		c.CapHit(fmt.Sprintf("store level: %d of %d (history, trusted state) jobs not run (time budget)", skipped, total))
	}
}
