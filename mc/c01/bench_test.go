package main

import (
	"testing"
	"time"
	"verif/mc/lib"
)

func TestBuildTime(t *testing.T) {
	c = lib.New("C01", "exploration", time.Minute, time.Minute)
	for _, link := range []string{"commit", "lag2"} {
		t0 := time.Now()
		p := buildPrim(HistCfg{N: 8, Ver: 1, Rot: 0, Link: link})
		t.Logf("%s: build %v worlds=%d", link, time.Since(t0), len(p.worlds))
		t0 = time.Now()
		w := mix("x", p.H, nil, 1, 0, 0)
		t.Logf("mix %v", time.Since(t0))
		t0 = time.Now()
		w.genProofs()
		t.Logf("genProofs %v", time.Since(t0))
		j := &job{Prim: p}
		t0 = time.Now()
		j.soundS(4, true)
		t.Logf("soundS(4) %v evals=%d", time.Since(t0), j.t.evals)
		e := j.t.evals
		t0 = time.Now()
		j.sessions(stateRef{p.H, 4}, true)
		t.Logf("sessions(4) %v evals=%d", time.Since(t0), j.t.evals-e)
		e = j.t.evals
		t0 = time.Now()
		j.rawAPIs(4)
		t.Logf("raw(4) %v evals=%d", time.Since(t0), j.t.evals-e)
	}
}
