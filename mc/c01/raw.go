package main

// Soundness of the remaining verifiers called on their own: VerifyDualProofV2 (session model), VerifyLinearProof,
// VerifyLinearAdvanceProof, VerifyInclusion (entry in transaction).

import (
	"fmt"
	"math"
	"os"
	"strings"

	"github.com/codenotary/immudb/embedded/ahtree"
	"github.com/codenotary/immudb/embedded/htree"
	"github.com/codenotary/immudb/embedded/store"
	"verif/mc/merkle"
)

func v2resp(w *World, s, t int) *Resp {
	if w.v2 == nil || w.v2[s] == nil || w.v2[s][t] == nil {
		return nil
	}
	q := w.v2[s][t]
	return &Resp{Proven: uint64(t), P: &store.DualProof{SourceTxHeader: q.SourceTxHeader, TargetTxHeader: q.TargetTxHeader, InclusionProof: q.InclusionProof, ConsistencyProof: q.ConsistencyProof}}
}

func (p *job) rawAPIs(s int) {
	n := p.H.n
	// ---- DualProofV2 in the flow of its only caller (VerifyDocument): only histories without lag. Base responses:
	// known state = source (t >= s) and known state = target (proofs (k,s), k < s)
	if p.H.v2 != nil {
		tr := stateRef{p.H, s}
		for t := 1; t <= n; t++ {
			lo, hi := s, t
			if lo > hi {
				lo, hi = hi, lo
			}
			base := v2resp(p.H, lo, hi)
			if base == nil {
				continue
			}
			if acc, bad := p.checkAPI("VerifyDualProofV2", "rejects-honest", tr, v2resp(p.H, lo, hi), func() string { return "none" }); !acc || bad != "" {
				viol(fmt.Sprintf("rejects-honest api=VerifyDocument-flow pair=(%d,%d) history=%v", lo, hi, p.cfg), "honest DualProofV2 rejected by the VerifyDocument flow: "+bad, map[string]any{"hist": p.cfg, "s": 1})
			}
			hS, hT := map[string]*store.TxHeader{}, map[string]*store.TxHeader{}
			don := map[string]*store.DualProof{}
			for _, d := range []int{-1, 0, 1} {
				if x := lo + d; d != 0 && x >= 1 && x <= n {
					hS[fmt.Sprintf("H:%d", x)] = p.H.hdr[x]
				}
				if x := hi + d; d != 0 && x >= 1 && x <= n {
					hT[fmt.Sprintf("H:%d", x)] = p.H.hdr[x]
				}
				for _, e := range []int{-1, 0, 1} {
					if a, b := lo+d, hi+e; (d != 0 || e != 0) && a >= 1 && a <= b && b <= n {
						if r := v2resp(p.H, a, b); r != nil {
							don[fmt.Sprintf("H(%d,%d)", a, b)] = r.P
						}
					}
				}
			}
			for _, w := range p.worlds[1:] {
				w := w
				hS[fmt.Sprintf("%s:%d", w.name, lo)] = w.hdr[lo]
				hT[fmt.Sprintf("%s:%d", w.name, hi)] = w.hdr[hi]
				if r := v2resp(w, lo, hi); r != nil {
					don[fmt.Sprintf("%s(%d,%d)", w.name, lo, hi)] = r.P
					p.checkAPI("VerifyDualProofV2", "accepts-fork", tr, r, func() string { return fmt.Sprintf("whole-response-of(%s,%d,%d)", w.name, lo, hi) })
				}
			}
			var alts []Alt
			alts = append(alts, hdrAlts("Source", srcGet, srcSet, base.P.SourceTxHeader, p.pool, hS)...)
			alts = append(alts, hdrAlts("Target", tgtGet, tgtSet, base.P.TargetTxHeader, p.pool, hT)...)
			alts = append(alts, listAlts(base.P, p.pool, true)...)
			alts = append(alts, partAlts(don, true)...)
			for _, a := range alts {
				if strings.HasPrefix(a.name, "Linear") || strings.HasPrefix(a.name, "LastInclusion") || strings.HasPrefix(a.name, "TargetBlTxAlh") {
					continue // fields DualProofV2 does not have
				}
				p.applyAPI("VerifyDualProofV2", tr, base, "accepts-forged", a)
			}
		}
	}
	if p.cfg.Rot == 0 && p.cfg.Ver == 1 {
		p.rawTree(s)
	}
	p.rawLinear(s)
	p.rawAdvance(s - 1)
	if p.cfg.Link == "commit" { // entry digests do not depend on the linking pattern
		p.rawEntries(s)
	}
}

// rawTree: the three ahtree verifiers VerifyDualProof is built on, called with the tree proofs of this history under
// list edits and neighbouring claims (i', j', leaf', root'); oracle = the reference verifiers of package merkle, which
// reject any proof whose length does not fit the claimed (i, j). (Repaired defect: ahtree used to ignore the length.)
func (p *job) rawTree(i int) {
	n := p.H.n
	leaves, roots := make([]H, n+2), make([]H, n+2)
	var ls []H
	for k := 1; k <= n; k++ {
		leaves[k] = merkle.Leaf(p.H.alh[k][:])
		ls = append(ls, leaves[k])
		roots[k] = merkle.Root(ls)
	}
	t, dir := smallTree()
	defer os.RemoveAll(dir)
	defer t.Close()
	for k := 1; k <= n; k++ {
		t.Append(p.H.alh[k][:])
	}
	small := []H{leaves[1], roots[n]}
	for j := i; j <= n; j++ {
		ip, err := t.InclusionProof(uint64(i), uint64(j))
		must(err)
		cp, err := t.ConsistencyProof(uint64(i), uint64(j))
		must(err)
		inames, ilists := hlistEdits(ip, small, false)
		cnames, clists := hlistEdits(cp, small, false)
		judge := func(api, alter string, ok, ref bool, claim string) {
			p.t.evals++
			switch {
			case ok && !ref:
				p.t.forged++
				viol(fmt.Sprintf("accepts-forged api=%s trusted=tree claimed=%s alter=%s honest=(%d,%d) hist=%v", api, claim, alter, i, j, p.cfg),
					"the ahtree verifier accepts what the reference verifier (audit path / RFC 9162 consistency algorithm with length checks) rejects", map[string]any{"hist": p.cfg, "s": i})
			case ok:
				p.t.legit++
			default:
				p.t.rejected++
			}
		}
		for _, ci := range []int{i - 1, i, i + 1, j, 0} {
			for cj := 0; cj <= n+1; cj++ {
				for _, lf := range []int{i, i - 1, i + 1} {
					if lf < 1 || lf > n {
						continue
					}
					for _, rt := range []int{cj, j, j - 1, j + 1, i} {
						if rt < 1 || rt > n {
							continue
						}
						claim := fmt.Sprintf("(i=%d,j=%d,leaf=%d,root=%d)", ci, cj, lf, rt)
						for li, l := range ilists {
							ok := false
							if lib_catch(func() { ok = ahtree.VerifyInclusion(l, uint64(ci), uint64(cj), leaves[lf], roots[rt]) }) {
								p.t.panics++
								continue
							}
							judge("ahtree.VerifyInclusion", inames[li], ok, merkle.VerifyInclusion(l, uint64(ci), uint64(cj), leaves[lf], roots[rt]), claim)
							if i == j && ci == cj {
								if lib_catch(func() { ok = ahtree.VerifyLastInclusion(l, uint64(ci), leaves[lf], roots[rt]) }) {
									p.t.panics++
									continue
								}
								judge("ahtree.VerifyLastInclusion", inames[li], ok, merkle.VerifyInclusion(l, uint64(ci), uint64(ci), leaves[lf], roots[rt]), claim)
							}
						}
						if lf != i || ci < 1 || ci > n {
							continue
						}
						for li, l := range clists { // consistency: leaf plays no role; old root = roots[ci] or a neighbour
							for _, ri := range []int{ci, i} {
								ok := false
								if lib_catch(func() { ok = ahtree.VerifyConsistency(l, uint64(ci), uint64(cj), roots[ri], roots[rt]) }) {
									p.t.panics++
									continue
								}
								judge("ahtree.VerifyConsistency", cnames[li], ok, merkle.VerifyConsistency(l, uint64(ci), uint64(cj), roots[ri], roots[rt]), fmt.Sprintf("(i=%d,j=%d,iroot=%d,jroot=%d)", ci, cj, ri, rt))
							}
						}
					}
				}
			}
		}
	}
}

type claimH struct {
	name string
	h    H
}

func (p *job) alhClaims(ids ...int) []claimH {
	var out []claimH
	seen := map[H]bool{}
	for _, w := range []*World{p.H, p.forks[0], p.forks[p.H.n/2], p.forks[p.H.n-1]} {
		for _, id := range ids {
			if id >= 1 && id <= w.n && !seen[w.alh[id]] {
				seen[w.alh[id]] = true
				out = append(out, claimH{fmt.Sprintf("Alh(%s:%d)", w.name, id), w.alh[id]})
			}
		}
	}
	return out
}

// hlistEdits: (name, edited copy) for one hash list.
func hlistEdits(l []H, pool []H, subst bool) (names []string, lists [][]H) {
	add := func(n string, x []H) { names = append(names, n); lists = append(lists, x) }
	cp := func() []H { return append([]H{}, l...) }
	add("same", cp())
	for k := range l {
		add(fmt.Sprintf("drop%d", k), append(cp()[:k:k], l[k+1:]...))
		add(fmt.Sprintf("dup%d", k), append(append(cp()[:k+1:k+1], l[k]), l[k+1:]...))
		if k+1 < len(l) {
			x := cp()
			x[k], x[k+1] = x[k+1], x[k]
			add(fmt.Sprintf("swap%d", k), x)
		}
		x := cp()
		x[k] = flip(x[k])
		add(fmt.Sprintf("bit%d", k), x)
		if subst {
			for i, ph := range pool {
				if ph != l[k] {
					y := cp()
					y[k] = ph
					add(fmt.Sprintf("%d=pool%d", k, i), y)
				}
			}
		}
	}
	add("empty", nil)
	for i, ph := range pool {
		if !subst && i >= 4 {
			break
		}
		add(fmt.Sprintf("append-pool%d", i), append(cp(), ph))
		add(fmt.Sprintf("prepend-pool%d", i), append([]H{ph}, l...))
	}
	return
}

func idSet(n int, ids ...int) []uint64 {
	seen := map[uint64]bool{}
	var out []uint64
	for _, id := range ids {
		for _, v := range []uint64{uint64(id), uint64(id - 1), uint64(id + 1)} {
			if !seen[v] {
				seen[v] = true
				out = append(out, v)
			}
		}
	}
	for _, v := range []uint64{0, math.MaxUint64} {
		if !seen[v] {
			out = append(out, v)
		}
	}
	return out
}

// VerifyLinearProof(proof, s, t, salh, talh) accepted => some history has Alh(s)=salh and Alh(t)=talh, s<=t.
func (p *job) rawLinear(s int) {
	n := p.H.n
	truth := func(s, t uint64, sa, ta H) bool {
		if s < 1 || s > t || t > uint64(n) {
			return false
		}
		for _, r := range p.index[sa] {
			if r.id == int(s) && r.w.alh[t] == ta {
				return true
			}
		}
		return false
	}
	{
		for t := s; t <= n; t++ {
			lp := p.H.lin[s][t]
			if lp == nil {
				continue
			}
			names, lists := hlistEdits(lp.Terms, p.pool, true)
			salhs, talhs := p.alhClaims(s, s-1, s+1), p.alhClaims(t, t-1, t+1)
			ids := idSet(n, s, t)
			run := func(alter string, q *store.LinearProof, cs, ct uint64, sa, ta claimH) {
				trusted := false // the source side is the client's own state: only true states are in scope
				for _, r := range p.index[sa.h] {
					trusted = trusted || r.id == int(cs)
				}
				if !trusted {
					return
				}
				p.t.evals++
				ok := false
				if lib_catch(func() { ok = store.VerifyLinearProof(q, cs, ct, sa.h, ta.h) }) {
					p.t.panics++
					return
				}
				switch tv := truth(cs, ct, sa.h, ta.h); {
				case ok && !tv:
					p.t.forged++
					viol(fmt.Sprintf("accepts-forged api=VerifyLinearProof trusted=H:%d claimed=(%d,%s -> %d,%s) alter=%s hist=%v", s, cs, sa.name, ct, ta.name, alter, p.cfg),
						"VerifyLinearProof accepted a claim no history satisfies; honest proof was for "+fmt.Sprint(s, t), map[string]any{"hist": p.cfg, "s": 1})
				case ok:
					p.t.legit++
				default:
					p.t.rejected++
				}
			}
			hs, ht := claimH{fmt.Sprintf("Alh(H:%d)", s), p.H.alh[s]}, claimH{fmt.Sprintf("Alh(H:%d)", t), p.H.alh[t]}
			// singles: one of {terms, proof ids, claimed ids, claimed alhs}
			for i, l := range lists {
				run("Terms."+names[i], &store.LinearProof{SourceTxID: lp.SourceTxID, TargetTxID: lp.TargetTxID, Terms: l}, uint64(s), uint64(t), hs, ht)
			}
			for _, v := range ids {
				run(fmt.Sprintf("proof.SourceTxID=%d", v), &store.LinearProof{SourceTxID: v, TargetTxID: lp.TargetTxID, Terms: lp.Terms}, uint64(s), uint64(t), hs, ht)
				run(fmt.Sprintf("proof.TargetTxID=%d", v), &store.LinearProof{SourceTxID: lp.SourceTxID, TargetTxID: v, Terms: lp.Terms}, uint64(s), uint64(t), hs, ht)
			}
			run("proof=nil", nil, uint64(s), uint64(t), hs, ht)
			// pairs/triples: claimed (ids, alhs) x proof ids following the claim x list edits without pool substitution
			_, small := hlistEdits(lp.Terms, p.pool, false)
			for _, cs := range ids {
				for _, ct := range ids {
					for _, sa := range salhs {
						for _, ta := range talhs {
							for li, l := range small {
								run(fmt.Sprintf("claim+proof-ids=(%d,%d) + Terms.edit%d", cs, ct, li), &store.LinearProof{SourceTxID: cs, TargetTxID: ct, Terms: l}, cs, ct, sa, ta)
							}
							run(fmt.Sprintf("claim=(%d,%d)", cs, ct), lp, cs, ct, sa, ta)
						}
					}
				}
			}
		}
	}
}

// VerifyLinearAdvanceProof(proof, start, end, endAlh, root, size) accepted => end >= start and (end <= start+1, where the
// proof is not needed by design, or: some history has Alh(end)=endAlh, root is the root over `size` leaves of some
// world's tree, and that tree holds at every position start<j<end exactly the chain value Alh(j) leading to endAlh).
func (p *job) rawAdvance(start int) {
	n := p.H.n
	roots := p.roots
	rootClaims := make([][]claimH, n+2)
	for _, w := range []*World{p.forks[0], p.forks[n/2]} {
		for size := 1; size <= n; size++ {
			rootClaims[size] = append(rootClaims[size], claimH{fmt.Sprintf("root(%s,%d)", w.name, size), leavesRoot(w.leaf, size)})
		}
	}
	truth := func(start, end uint64, ea, root H, size uint64) bool {
		if end < start {
			return false
		}
		if end <= start+1 {
			return true
		}
		if end > uint64(n) {
			return false
		}
		for _, cr := range p.index[ea] {
			if cr.id != int(end) {
				continue
			}
			for _, rr := range roots[root] {
				// a Merkle root does not commit to the number of leaves: the claimed size is not compared, only
				// whether the tree behind that root holds the chain values at the positions in question
				if int(end)-1 > rr.size {
					continue
				}
				ok := true
				for j := int(start) + 1; j < int(end); j++ {
					ok = ok && rr.w.leaf[j] == cr.w.alh[j]
				}
				if ok {
					return true
				}
			}
		}
		return false
	}
	// honest proofs are regenerated from the world (same algorithm as ImmuStore.LinearAdvanceProof, checked equal in O1
	// through DualProof); base triples: start < end <= size
	t, dir := smallTree()
	defer os.RemoveAll(dir)
	defer t.Close()
	for id := 1; id <= n; id++ {
		t.Append(p.H.alh[id][:])
	}
	{
		for end := start + 2; end <= n; end++ {
			for size := end; size <= n && size <= end+1; size++ {
				la := &store.LinearAdvanceProof{LinearProofTerms: []H{p.H.alh[start+1]}}
				for j := start + 1; j < end; j++ {
					ip, err := t.InclusionProof(uint64(j), uint64(size))
					must(err)
					la.InclusionProofs = append(la.InclusionProofs, ip)
					la.LinearProofTerms = append(la.LinearProofTerms, p.H.inner[j+1])
				}
				hroot := leavesRoot(p.H.leaf, size)
				run := func(alter string, q *store.LinearAdvanceProof, cs, ce uint64, ea claimH, root claimH, csize uint64) {
					p.t.evals++
					ok := false
					if lib_catch(func() { ok = store.VerifyLinearAdvanceProof(q, cs, ce, ea.h, root.h, csize) }) {
						p.t.panics++
						return
					}
					switch tv := truth(cs, ce, ea.h, root.h, csize); {
					case ok && !tv:
						p.t.forged++
						viol(fmt.Sprintf("accepts-forged api=VerifyLinearAdvanceProof trusted=H claimed=(start=%d,end=%d,%s,%s,size=%d) alter=%s honest=(%d,%d,%d) hist=%v", cs, ce, ea.name, root.name, csize, alter, start, end, size, p.cfg),
							"VerifyLinearAdvanceProof accepted although the claimed chain is not what the claimed tree holds between start and end", map[string]any{"hist": p.cfg, "s": 1})
					case ok:
						p.t.legit++
					default:
						p.t.rejected++
					}
				}
				hea, hr := claimH{fmt.Sprintf("Alh(H:%d)", end), p.H.alh[end]}, claimH{fmt.Sprintf("root(H,%d)", size), hroot}
				run("none", la, uint64(start), uint64(end), hea, hr, uint64(size))
				if !truth(uint64(start), uint64(end), hea.h, hr.h, uint64(size)) {
					harnessBug("rawAdvance: truth() rejects the honest claim")
				}
				tn, tl := hlistEdits(la.LinearProofTerms, p.pool, true)
				for i, l := range tl {
					run("Terms."+tn[i], &store.LinearAdvanceProof{LinearProofTerms: l, InclusionProofs: la.InclusionProofs}, uint64(start), uint64(end), hea, hr, uint64(size))
				}
				var ipEdits []*store.LinearAdvanceProof
				var ipNames []string
				var ipPool []bool
				for k, ip := range la.InclusionProofs {
					in, il := hlistEdits(ip, p.pool, true)
					for i, l := range il {
						q := cloneLAP(la)
						q.InclusionProofs[k] = l
						ipNames = append(ipNames, fmt.Sprintf("InclusionProofs[%d].%s", k, in[i]))
						ipEdits = append(ipEdits, q)
						ipPool = append(ipPool, strings.Contains(in[i], "=pool") || (strings.Contains(in[i], "pend-pool") && !strings.HasSuffix(in[i], "pool0")))
					}
					q := cloneLAP(la)
					q.InclusionProofs = append(q.InclusionProofs[:k:k], q.InclusionProofs[k+1:]...)
					ipNames, ipEdits, ipPool = append(ipNames, fmt.Sprintf("InclusionProofs.drop%d", k)), append(ipEdits, q), append(ipPool, false)
					q = cloneLAP(la)
					q.InclusionProofs = append(q.InclusionProofs, q.InclusionProofs[k])
					ipNames, ipEdits, ipPool = append(ipNames, fmt.Sprintf("InclusionProofs.append-copy%d", k)), append(ipEdits, q), append(ipPool, false)
					if k+1 < len(la.InclusionProofs) {
						q = cloneLAP(la)
						q.InclusionProofs[k], q.InclusionProofs[k+1] = q.InclusionProofs[k+1], q.InclusionProofs[k]
						ipNames, ipEdits, ipPool = append(ipNames, fmt.Sprintf("InclusionProofs.swap%d", k)), append(ipEdits, q), append(ipPool, false)
					}
				}
				for i, q := range ipEdits {
					run(ipNames[i], q, uint64(start), uint64(end), hea, hr, uint64(size))
				}
				run("proof=nil", nil, uint64(start), uint64(end), hea, hr, uint64(size))
				// claims x reduced proof edits
				var red []*store.LinearAdvanceProof
				_, stl := hlistEdits(la.LinearProofTerms, p.pool, false)
				for _, l := range stl {
					red = append(red, &store.LinearAdvanceProof{LinearProofTerms: l, InclusionProofs: la.InclusionProofs})
				}
				for i, q := range ipEdits {
					if !ipPool[i] && !strings.Contains(ipNames[i], ".bit") {
						red = append(red, q)
					}
				}
				for _, cs := range []uint64{uint64(start), uint64(start - 1), uint64(start + 1)} {
					for _, ce := range []uint64{uint64(end), uint64(end - 1), uint64(end + 1)} {
						for _, csize := range []uint64{uint64(size), uint64(size - 1), uint64(size + 1)} {
							var rcl []claimH
							if csize >= 1 && csize <= uint64(n) {
								rcl = rootClaims[csize]
							}
							rcl = append([]claimH{hr}, rcl...)
							eas := p.alhClaims(int(ce), end)
							if len(eas) > 4 {
								eas = eas[:4]
							}
							for _, ea := range eas {
								for _, root := range rcl {
									for qi, q := range red {
										run(fmt.Sprintf("claim + proof-edit%d", qi), q, cs, ce, ea, root, csize)
									}
								}
							}
						}
					}
				}
			}
		}
	}
}

// store.VerifyInclusion(proof, digest, eh) accepted => some transaction with that Eh contains an entry with that digest.
func (p *job) rawEntries(id int) {
	truth := map[H]map[H]bool{}
	var ehs []claimH
	var digPool []H
	for _, w := range p.worlds {
		for id := 1; id <= w.n; id++ {
			eh := w.hdr[id].Eh
			if truth[eh] == nil {
				truth[eh] = map[H]bool{}

			}
			for _, e := range w.ents[id] {
				truth[eh][e.Dig] = true
			}
		}
	}
	type dclaim struct {
		name string
		d    H
	}
	var digs []dclaim
	for _, k := range []string{"a", "b", "c", "d"} {
		for md := 0; md <= 2; md++ {
			for _, v := range []string{"", "x", "y", "forged"} {
				for ver := 0; ver <= 1; ver++ {
					d := digestOf(ver, []byte(k), kvmd(md), []byte(v))
					digs = append(digs, dclaim{fmt.Sprintf("digest_v%d(%s,md%d,%q)", ver, k, md, v), d})
					if md == 0 && ver == 1 && len(digPool) < 12 {
						digPool = append(digPool, d)
					}
				}
			}
		}
	}
	for _, x := range []stateRef{{p.H, id - 1}, {p.H, id + 1}, {p.forks[0], id}, {p.G[id], id}} {
		if x.id >= 1 && x.id <= x.w.n {
			ehs = append(ehs, claimH{fmt.Sprintf("Eh(%v)", x), x.w.hdr[x.id].Eh})
		}
	}
	{
		for i, e := range p.H.ents[id] {
			ip := p.H.iproofs[id][i]
			tn, tl := hlistEdits(ip.Terms, digPool, true)
			var proofs []*htree.InclusionProof
			var pn []string
			for li, l := range tl {
				proofs, pn = append(proofs, &htree.InclusionProof{Leaf: ip.Leaf, Width: ip.Width, Terms: l}), append(pn, "Terms."+tn[li])
			}
			for _, lf := range []int{-1, 0, 1, 2, 3, math.MaxInt64} {
				for _, wd := range []int{-1, 0, 1, 2, 3, 4, math.MaxInt64} {
					if lf != ip.Leaf || wd != ip.Width {
						proofs, pn = append(proofs, &htree.InclusionProof{Leaf: lf, Width: wd, Terms: ip.Terms}), append(pn, fmt.Sprintf("Leaf=%d,Width=%d", lf, wd))
					}
				}
			}
			proofs, pn = append(proofs, nil), append(pn, "proof=nil")
			own := claimH{fmt.Sprintf("Eh(H:%d)", id), p.H.hdr[id].Eh}
			for pi, q := range proofs {
				for _, d := range append([]dclaim{{"digest(honest)", e.Dig}}, digs...) {
					for _, eh := range append([]claimH{own}, ehs...) {
						p.t.evals++
						ok := false
						if lib_catch(func() { ok = store.VerifyInclusion(q, d.d, eh.h) }) {
							p.t.panics++
							continue
						}
						switch tv := truth[eh.h][d.d]; {
						case ok && !tv:
							p.t.forged++
							viol(fmt.Sprintf("accepts-forged api=VerifyInclusion trusted=%s claimed=%s alter=%s honest=(tx %d key %s) hist=%v", eh.name, d.name, pn[pi], id, e.Key, p.cfg),
								"entry inclusion accepted, but no transaction with that Eh contains an entry with that digest", map[string]any{"hist": p.cfg, "s": 1})
						case ok:
							p.t.legit++
						default:
							p.t.rejected++
						}
					}
				}
			}
		}
	}
}

func lib_catch(f func()) (panicked bool) {
	defer func() {
		if recover() != nil {
			panicked = true
		}
	}()
	f()
	return false
}
