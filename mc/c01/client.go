package main

// Server/client layer: the REAL pkg/client verification code against a REAL pkg/database.DB. The client object is
// wired to an in-process ImmuServiceClient (no network): it calls the database, signs the state exactly as
// pkg/server does, applies one alteration to the protobuf response and passes it through a marshal/unmarshal round
// trip. Oracle: whenever the client call succeeds, the state it stored is (id, Alh(id)) of the database and what it
// returned (key, value, metadata, transaction id) is in the database's history.

import (
	"bytes"
	"context"
	"crypto/ecdsa"
	"crypto/elliptic"
	"crypto/rand"
	"crypto/sha256"
	"fmt"
	"math"
	"os"
	"sort"
	"strings"

	"github.com/codenotary/immudb/embedded/logger"
	"github.com/codenotary/immudb/embedded/store"
	"github.com/codenotary/immudb/pkg/api/schema"
	"github.com/codenotary/immudb/pkg/client"
	"github.com/codenotary/immudb/pkg/database"
	"github.com/codenotary/immudb/pkg/server"
	"github.com/codenotary/immudb/pkg/signer"
	"google.golang.org/grpc"
	"google.golang.org/grpc/credentials/insecure"
	"google.golang.org/protobuf/proto"
	"google.golang.org/protobuf/reflect/protoreflect"
	"verif/mc/lib"
	"verif/mc/storeh"
)

var quietLog = logger.NewMemoryLoggerWithLevel(logger.LogError)

// ---------- in-process service ----------

type fakeSvc struct {
	schema.ImmuServiceClient // every method not overridden panics (nil): the harness would notice
	db                       database.DB
	signer                   server.StateSigner
	forge                    func(in *schema.VerifiableGetRequest) *schema.VerifiableEntry // malicious server (attack scenario)
	alter                    func(m proto.Message)                                         // applied to the first response of a client call
	armed                    bool
	honest                   proto.Message // the unaltered first response (for alteration enumeration)
	cache                    map[string]proto.Message
}

func (f *fakeSvc) sign(vtx *schema.VerifiableTx) {
	hdr := schema.TxHeaderFromProto(vtx.DualProof.TargetTxHeader)
	alh := hdr.Alh()
	st := &schema.ImmutableState{Db: f.db.GetName(), TxId: hdr.ID, TxHash: alh[:]}
	must(f.signer.Sign(st))
	vtx.Signature = st.Signature
}

// wire: what the client receives. Only the first response of a client call is altered (follow-up calls of
// FillMissingLinearAdvanceProof are answered honestly).
func (f *fakeSvc) wire(m proto.Message) proto.Message {
	out := proto.Clone(m)
	if f.armed {
		f.armed = false
		f.honest = proto.Clone(m)
		if f.alter != nil {
			f.alter(out)
		}
	}
	bs, err := proto.Marshal(out)
	must(err)
	res := out.ProtoReflect().New().Interface()
	must(proto.Unmarshal(bs, res))
	return res
}

// once: state-changing RPCs are executed once per distinct request; replays of the same request get the recorded
// response (a malicious server may answer anything, a recorded answer in particular).
func (f *fakeSvc) once(method string, req proto.Message, do func() (proto.Message, error)) (proto.Message, error) {
	bs, _ := proto.MarshalOptions{Deterministic: true}.Marshal(req)
	k := method + string(bs)
	if m, ok := f.cache[k]; ok {
		return m, nil
	}
	m, err := do()
	if err == nil {
		f.cache[k] = m
	}
	return m, err
}

func (f *fakeSvc) VerifiableGet(ctx context.Context, in *schema.VerifiableGetRequest, _ ...grpc.CallOption) (*schema.VerifiableEntry, error) {
	if f.forge != nil {
		if r := f.forge(in); r != nil {
			return f.wire(r).(*schema.VerifiableEntry), nil
		}
	}
	r, err := f.db.VerifiableGet(ctx, in)
	if err != nil {
		return nil, err
	}
	f.sign(r.VerifiableTx)
	return f.wire(r).(*schema.VerifiableEntry), nil
}

func (f *fakeSvc) VerifiableTxById(ctx context.Context, in *schema.VerifiableTxRequest, _ ...grpc.CallOption) (*schema.VerifiableTx, error) {
	r, err := f.db.VerifiableTxByID(ctx, in)
	if err != nil {
		return nil, err
	}
	f.sign(r)
	return f.wire(r).(*schema.VerifiableTx), nil
}

func (f *fakeSvc) VerifiableSQLGet(ctx context.Context, in *schema.VerifiableSQLGetRequest, _ ...grpc.CallOption) (*schema.VerifiableSQLEntry, error) {
	r, err := f.db.VerifiableSQLGet(ctx, in)
	if err != nil {
		return nil, err
	}
	f.sign(r.VerifiableTx)
	return f.wire(r).(*schema.VerifiableSQLEntry), nil
}

func (f *fakeSvc) VerifiableSet(ctx context.Context, in *schema.VerifiableSetRequest, _ ...grpc.CallOption) (*schema.VerifiableTx, error) {
	m, err := f.once("set", in, func() (proto.Message, error) {
		r, err := f.db.VerifiableSet(ctx, in)
		if err == nil {
			f.sign(r)
		}
		return r, err
	})
	if err != nil {
		return nil, err
	}
	return f.wire(m).(*schema.VerifiableTx), nil
}

func (f *fakeSvc) VerifiableZAdd(ctx context.Context, in *schema.VerifiableZAddRequest, _ ...grpc.CallOption) (*schema.VerifiableTx, error) {
	m, err := f.once("zadd", in, func() (proto.Message, error) {
		r, err := f.db.VerifiableZAdd(ctx, in)
		if err == nil {
			f.sign(r)
		}
		return r, err
	})
	if err != nil {
		return nil, err
	}
	return f.wire(m).(*schema.VerifiableTx), nil
}

func (f *fakeSvc) VerifiableSetReference(ctx context.Context, in *schema.VerifiableReferenceRequest, _ ...grpc.CallOption) (*schema.VerifiableTx, error) {
	m, err := f.once("ref", in, func() (proto.Message, error) {
		r, err := f.db.VerifiableSetReference(ctx, in)
		if err == nil {
			f.sign(r)
		}
		return r, err
	})
	if err != nil {
		return nil, err
	}
	return f.wire(m).(*schema.VerifiableTx), nil
}

type memState struct{ st *schema.ImmutableState }

func (m *memState) GetState(ctx context.Context, db string) (*schema.ImmutableState, error) {
	return proto.Clone(m.st).(*schema.ImmutableState), nil
}
func (m *memState) SetState(db string, st *schema.ImmutableState) error {
	m.st = proto.Clone(st).(*schema.ImmutableState)
	return nil
}
func (m *memState) CacheLock() error         { return nil }
func (m *memState) CacheUnlock() error       { return nil }
func (m *memState) SetServerIdentity(string) {}

// ---------- generic single alterations of a protobuf message ----------

type pstep struct {
	fd  protoreflect.FieldDescriptor
	idx int                 // list index (-1: none)
	key protoreflect.MapKey // map key (valid when fd.IsMap())
}

type H32 = [sha256.Size]byte

type pAlt struct {
	name string
	f    func(m proto.Message)
}

func nav(m protoreflect.Message, path []pstep) protoreflect.Message {
	for _, s := range path {
		switch {
		case s.fd.IsList():
			m = m.Get(s.fd).List().Get(s.idx).Message()
		case s.fd.IsMap():
			m = m.Get(s.fd).Map().Get(s.key).Message()
		default:
			m = m.Get(s.fd).Message()
		}
	}
	return m
}

func pathName(path []pstep, fd protoreflect.FieldDescriptor) string {
	var sb strings.Builder
	for _, s := range path {
		sb.WriteString(string(s.fd.Name()))
		if s.idx >= 0 {
			fmt.Fprintf(&sb, "[%d]", s.idx)
		}
		sb.WriteByte('.')
	}
	sb.WriteString(string(fd.Name()))
	return sb.String()
}

// scalarAlts: replacement values for one scalar. 32-byte values are hashes: flipped bit, empty, every pool hash;
// other byte strings: flipped last bit, empty, one byte appended; integers: 0, 1, v±1, max; bool toggled; string/double changed.
func scalarAlts(fd protoreflect.FieldDescriptor, v protoreflect.Value, pool [][]byte) (names []string, vals []protoreflect.Value) {
	add := func(n string, x protoreflect.Value) { names = append(names, n); vals = append(vals, x) }
	switch fd.Kind() {
	case protoreflect.BytesKind:
		b := v.Bytes()
		if len(b) > 0 {
			c := append([]byte{}, b...)
			c[len(c)-1] ^= 1
			add("^bit", protoreflect.ValueOfBytes(c))
			add("empty", protoreflect.ValueOfBytes(nil))
		}
		add("+00", protoreflect.ValueOfBytes(append(append([]byte{}, b...), 0)))
		if len(b) == sha256.Size {
			for i, h := range pool {
				if !bytes.Equal(h, b) {
					add(fmt.Sprintf("pool%d", i), protoreflect.ValueOfBytes(h))
				}
			}
		}
	case protoreflect.Uint64Kind, protoreflect.Fixed64Kind:
		for _, x := range u64set(v.Uint()) {
			add(fmt.Sprint(x), protoreflect.ValueOfUint64(x))
		}
	case protoreflect.Uint32Kind, protoreflect.Fixed32Kind:
		for _, x := range []uint32{0, 1, uint32(v.Uint()) - 1, uint32(v.Uint()) + 1, math.MaxUint32} {
			if uint64(x) != v.Uint() {
				add(fmt.Sprint(x), protoreflect.ValueOfUint32(x))
			}
		}
	case protoreflect.Int64Kind, protoreflect.Sint64Kind, protoreflect.Sfixed64Kind:
		for _, x := range []int64{0, 1, v.Int() - 1, v.Int() + 1, math.MaxInt64, -1} {
			if x != v.Int() {
				add(fmt.Sprint(x), protoreflect.ValueOfInt64(x))
			}
		}
	case protoreflect.Int32Kind, protoreflect.Sint32Kind, protoreflect.Sfixed32Kind:
		for _, x := range []int32{0, 1, int32(v.Int()) - 1, int32(v.Int()) + 1, math.MaxInt32, -1} {
			if int64(x) != v.Int() {
				add(fmt.Sprint(x), protoreflect.ValueOfInt32(x))
			}
		}
	case protoreflect.BoolKind:
		add("toggled", protoreflect.ValueOfBool(!v.Bool()))
	case protoreflect.StringKind:
		add("+x", protoreflect.ValueOfString(v.String()+"x"))
		if v.String() != "" {
			add("empty", protoreflect.ValueOfString(""))
		}
	case protoreflect.DoubleKind:
		add("+1", protoreflect.ValueOfFloat64(v.Float()+1))
	case protoreflect.FloatKind:
		add("+1", protoreflect.ValueOfFloat32(float32(v.Float())+1))
	case protoreflect.EnumKind:
		add("+1", protoreflect.ValueOfEnum(v.Enum()+1))
	}
	return
}

// protoAlts enumerates every single alteration of message m: every scalar (recursively) through scalarAlts, every
// present sub-message cleared, every absent one set to an empty message, every list: drop / duplicate / swap adjacent /
// (hash lists) append a pool hash, every map: delete a key, swap the values of two keys.
func protoAlts(m proto.Message, pool [][]byte) []pAlt {
	var out []pAlt
	var walk func(msg protoreflect.Message, path []pstep)
	walk = func(msg protoreflect.Message, path []pstep) {
		path = append([]pstep{}, path...)
		fds := msg.Descriptor().Fields()
		for i := 0; i < fds.Len(); i++ {
			fd := fds.Get(i)
			name := pathName(path, fd)
			at := func(root proto.Message) protoreflect.Message { return nav(root.ProtoReflect(), path) }
			switch {
			case fd.IsList():
				l := msg.Get(fd).List()
				for k := 0; k < l.Len(); k++ {
					k := k
					out = append(out, pAlt{fmt.Sprintf("%s.drop%d", name, k), func(r proto.Message) {
						ll := at(r).Mutable(fd).List()
						for j := k; j+1 < ll.Len(); j++ {
							ll.Set(j, ll.Get(j+1))
						}
						ll.Truncate(ll.Len() - 1)
					}})
					out = append(out, pAlt{fmt.Sprintf("%s.dup%d", name, k), func(r proto.Message) {
						ll := at(r).Mutable(fd).List()
						ll.Append(ll.Get(k))
					}})
					if k+1 < l.Len() {
						out = append(out, pAlt{fmt.Sprintf("%s.swap%d", name, k), func(r proto.Message) {
							ll := at(r).Mutable(fd).List()
							a, b := ll.Get(k), ll.Get(k+1)
							if fd.Message() != nil {
								a, b = protoreflect.ValueOfMessage(proto.Clone(a.Message().Interface()).ProtoReflect()), protoreflect.ValueOfMessage(proto.Clone(b.Message().Interface()).ProtoReflect())
							}
							ll.Set(k, b)
							ll.Set(k+1, a)
						}})
					}
					if fd.Message() != nil {
						walk(l.Get(k).Message(), append(path, pstep{fd: fd, idx: k}))
					} else {
						ns, vs := scalarAlts(fd, l.Get(k), pool)
						for j := range ns {
							v := vs[j]
							out = append(out, pAlt{fmt.Sprintf("%s[%d]=%s", name, k, ns[j]), func(r proto.Message) { at(r).Mutable(fd).List().Set(k, v) }})
						}
					}
				}
				if fd.Kind() == protoreflect.BytesKind {
					for j, h := range pool {
						if j >= 3 {
							break
						}
						h := h
						out = append(out, pAlt{fmt.Sprintf("%s.append-pool%d", name, j), func(r proto.Message) { at(r).Mutable(fd).List().Append(protoreflect.ValueOfBytes(h)) }})
					}
				}
			case fd.IsMap():
				var keys []protoreflect.MapKey
				msg.Get(fd).Map().Range(func(k protoreflect.MapKey, _ protoreflect.Value) bool { keys = append(keys, k); return true })
				sort.Slice(keys, func(a, b int) bool { return keys[a].String() < keys[b].String() })
				for a, k := range keys {
					k := k
					out = append(out, pAlt{fmt.Sprintf("%s.delete(%s)", name, k.String()), func(r proto.Message) { at(r).Mutable(fd).Map().Clear(k) }})
					if fd.MapValue().Message() == nil {
						ns, vs := scalarAlts(fd.MapValue(), msg.Get(fd).Map().Get(k), pool)
						for j := range ns {
							v := vs[j]
							out = append(out, pAlt{fmt.Sprintf("%s[%s]=%s", name, k.String(), ns[j]), func(r proto.Message) { at(r).Mutable(fd).Map().Set(k, v) }})
						}
					}
					for _, k2 := range keys[a+1:] {
						k2 := k2
						out = append(out, pAlt{fmt.Sprintf("%s.swap(%s,%s)", name, k.String(), k2.String()), func(r proto.Message) {
							mm := at(r).Mutable(fd).Map()
							x, y := mm.Get(k), mm.Get(k2)
							mm.Set(k, y)
							mm.Set(k2, x)
						}})
					}
				}
			case fd.Message() != nil:
				if msg.Has(fd) {
					out = append(out, pAlt{name + "=nil", func(r proto.Message) { at(r).Clear(fd) }})
					walk(msg.Get(fd).Message(), append(path, pstep{fd: fd, idx: -1}))
				} else {
					out = append(out, pAlt{name + "=empty-message", func(r proto.Message) { at(r).Mutable(fd) }})
					// an absent sub-message created with exactly one scalar field set (e.g. metadata.deleted=true)
					sub := fd.Message().Fields()
					for q := 0; q < sub.Len(); q++ {
						sfd := sub.Get(q)
						if sfd.IsList() || sfd.IsMap() || sfd.Message() != nil {
							continue
						}
						ns, vs := scalarAlts(sfd, sfd.Default(), pool)
						for j := range ns {
							v := vs[j]
							out = append(out, pAlt{fmt.Sprintf("%s.%s=%s", name, sfd.Name(), ns[j]), func(r proto.Message) { at(r).Mutable(fd).Message().Set(sfd, v) }})
						}
					}
				}
			default:
				ns, vs := scalarAlts(fd, msg.Get(fd), pool)
				for j := range ns {
					v := vs[j]
					out = append(out, pAlt{fmt.Sprintf("%s=%s", name, ns[j]), func(r proto.Message) { at(r).Set(fd, v) }})
				}
			}
		}
	}
	walk(m.ProtoReflect(), nil)
	return out
}

// ---------- one database history with its ground truth ----------

type vclient interface {
	VerifiedGet(ctx context.Context, key []byte, opts ...client.GetOption) (*schema.Entry, error)
	VerifiedGetAt(ctx context.Context, key []byte, tx uint64) (*schema.Entry, error)
	VerifiedTxByID(ctx context.Context, tx uint64) (*schema.Tx, error)
	VerifiedSet(ctx context.Context, key []byte, value []byte) (*schema.TxHeader, error)
	VerifiedZAdd(ctx context.Context, set []byte, score float64, key []byte) (*schema.TxHeader, error)
	VerifiedSetReference(ctx context.Context, key []byte, referencedKey []byte) (*schema.TxHeader, error)
	VerifyRow(ctx context.Context, row *schema.Row, table string, pkVals []*schema.SQLValue) error
}

type dbHist struct {
	name  string
	db    database.DB
	dir   string
	n     int
	alh   [][]byte           // 1-based
	hdr   []*schema.TxHeader // 1-based
	ents  []map[string]bool  // per tx: raw key | md bytes | hvalue
	pool  [][]byte           // hashes of the history
	svc   *fakeSvc
	cl    vclient
	st    *memState
	pub   *ecdsa.PublicKey
	stats map[string]int64
}

func entKey(key []byte, md *store.KVMetadata, hval []byte) string {
	var mb []byte
	if md != nil {
		mb = md.Bytes()
	}
	return fmt.Sprintf("%x|%x|%x", key, mb, hval)
}

func (h *dbHist) refresh() {
	ctx := context.Background()
	st, err := h.db.CurrentState()
	must(err)
	for id := h.n + 1; id <= int(st.TxId); id++ {
		tx, err := h.db.TxByID(ctx, &schema.TxRequest{Tx: uint64(id)})
		must(err)
		a := schema.TxHeaderFromProto(tx.Header).Alh()
		for len(h.alh) <= id {
			h.alh, h.hdr, h.ents = append(h.alh, nil), append(h.hdr, nil), append(h.ents, nil)
		}
		h.alh[id], h.hdr[id], h.ents[id] = a[:], tx.Header, map[string]bool{}
		for _, e := range tx.Entries {
			h.ents[id][entKey(e.Key, schema.KVMetadataFromProto(e.Metadata), e.HValue)] = true
		}
		if id <= 8 {
			h.pool = append(h.pool, a[:], tx.Header.EH, tx.Header.BlRoot)
		}
	}
	h.n = int(st.TxId)
}

func (h *dbHist) has(tx uint64, spec *store.EntrySpec) bool {
	if tx == 0 || int(tx) > h.n {
		return false
	}
	hv := sha256.Sum256(spec.Value)
	return h.ents[tx][entKey(spec.Key, spec.Metadata, hv[:])]
}

func newDBHist(name string, ver int, signing bool, build func(ctx context.Context, db database.DB)) *dbHist {
	h := &dbHist{name: name, dir: lib.Scratch("c01db"), stats: map[string]int64{}, alh: [][]byte{nil}, hdr: []*schema.TxHeader{nil}, ents: []map[string]bool{nil}}
	so := storeh.SmallOptions().WithMaxTxEntries(64).WithMaxKeyLen(256).WithMaxValueLen(1024).WithWriteTxHeaderVersion(ver).
		WithAHTOptions(store.DefaultAHTOptions().WithWriteBufferSize(4096).WithSyncThld(64))
	db, err := database.NewDB("defaultdb", nil, database.DefaultOptions().WithDBRootPath(h.dir).WithStoreOptions(so).WithReadTxPoolSize(4), quietLog)
	must(err)
	h.db = db
	build(context.Background(), db)
	h.refresh()
	key, err := ecdsa.GenerateKey(elliptic.P256(), rand.Reader)
	must(err)
	h.pub = &key.PublicKey
	h.svc = &fakeSvc{db: db, signer: server.NewStateSigner(signer.NewSignerFromPKey(rand.Reader, key)), cache: map[string]proto.Message{}}
	conn, err := grpc.NewClient("passthrough:///c01", grpc.WithTransportCredentials(insecure.NewCredentials())) // never dialled
	must(err)
	h.st = &memState{}
	cl := client.NewClient().WithOptions(client.DefaultOptions().WithDir(h.dir))
	cl.WithLogger(quietLog)
	cl.WithClientConn(conn).WithServiceClient(h.svc).WithStateService(h.st)
	if signing {
		cl.WithServerSigningPubKey(h.pub)
	}
	h.cl = cl
	return h
}

func (h *dbHist) close() {
	h.db.Close()
	os.RemoveAll(h.dir)
}

// call: one client operation. run returns (what the property covers of the returned value, error).
type call struct {
	name         string
	expectReject bool // the honest flow must refuse (the caller's input is not what the database holds)
	run          func(ctx context.Context, h *dbHist) (out string, bad string, err error)
}

func mdOf(m *schema.KVMetadata) *store.KVMetadata { return schema.KVMetadataFromProto(m) }

func (h *dbHist) checkEntry(reqKey []byte, e *schema.Entry) string {
	if e.ReferencedBy == nil {
		if !bytes.Equal(e.Key, reqKey) {
			return fmt.Sprintf("returned key %q for requested key %q", e.Key, reqKey)
		}
		if e.Metadata != nil && int(e.Tx) <= h.n && e.Tx > 0 && h.hdr[e.Tx].Version == 0 && h.has(e.Tx, database.EncodeEntrySpec(e.Key, nil, e.Value)) {
			return fmt.Sprintf("header-v0: returned metadata %v for (key %q, tx %d); the transaction has header version 0, whose entry digest does not cover metadata (the history has none)", e.Metadata, e.Key, e.Tx)
		}
		if !h.has(e.Tx, database.EncodeEntrySpec(e.Key, mdOf(e.Metadata), e.Value)) {
			return fmt.Sprintf("returned entry (key %q, value %q, metadata %v) is not an entry of tx %d", e.Key, e.Value, e.Metadata, e.Tx)
		}
		return ""
	}
	r := e.ReferencedBy
	if !bytes.Equal(r.Key, reqKey) {
		return fmt.Sprintf("returned reference key %q for requested key %q", r.Key, reqKey)
	}
	if r.Metadata != nil && int(r.Tx) <= h.n && r.Tx > 0 && h.hdr[r.Tx].Version == 0 && h.has(r.Tx, database.EncodeReference(r.Key, nil, e.Key, r.AtTx)) {
		return fmt.Sprintf("header-v0: returned metadata %v for reference %q of tx %d; header version 0 does not cover metadata", r.Metadata, r.Key, r.Tx)
	}
	if !h.has(r.Tx, database.EncodeReference(r.Key, mdOf(r.Metadata), e.Key, r.AtTx)) {
		return fmt.Sprintf("returned reference (%q -> %q at %d, metadata %v) is not an entry of tx %d", r.Key, e.Key, r.AtTx, r.Metadata, r.Tx)
	}
	if !h.has(e.Tx, database.EncodeEntrySpec(e.Key, mdOf(e.Metadata), e.Value)) {
		return fmt.Sprintf("via-reference: resolved entry (key %q, value %q, metadata %v) is not an entry of tx %d", e.Key, e.Value, e.Metadata, e.Tx)
	}
	return ""
}

func getCall(key string, at uint64) call {
	return call{name: fmt.Sprintf("VerifiedGet(%s,atTx=%d)", key, at), run: func(ctx context.Context, h *dbHist) (string, string, error) {
		var e *schema.Entry
		var err error
		if at == 0 {
			e, err = h.cl.VerifiedGet(ctx, []byte(key))
		} else {
			e, err = h.cl.VerifiedGetAt(ctx, []byte(key), at)
		}
		if err != nil {
			return "", "", err
		}
		bad := ""
		if tx := e.Tx; at != 0 && (e.ReferencedBy != nil && e.ReferencedBy.Tx != at || e.ReferencedBy == nil && tx != at) {
			bad = fmt.Sprintf("asked for tx %d, the returned entry says tx %d", at, tx)
		}
		if bad == "" {
			bad = h.checkEntry([]byte(key), e)
		}
		return fmt.Sprintf("%s=%q@%d", e.Key, e.Value, e.Tx), bad, nil
	}}
}

func txCall(id uint64) call {
	return call{name: fmt.Sprintf("VerifiedTxByID(%d)", id), run: func(ctx context.Context, h *dbHist) (string, string, error) {
		tx, err := h.cl.VerifiedTxByID(ctx, id)
		if err != nil {
			return "", "", err
		}
		if tx.Header == nil || tx.Header.Id != id {
			return "", fmt.Sprintf("returned a tx whose header id is not %d", id), nil
		}
		if len(tx.Entries) != len(h.ents[id]) {
			return "", fmt.Sprintf("returned tx %d with %d entries, history has %d", id, len(tx.Entries), len(h.ents[id])), nil
		}
		for _, e := range tx.Entries {
			full := append([]byte{h.rawPrefix(id, e)}, e.Key...)
			if !h.ents[id][entKey(full, mdOf(e.Metadata), e.HValue)] {
				return "", fmt.Sprintf("returned tx %d contains entry (key %q, hvalue %x, metadata %v) that the history's tx %d does not contain", id, e.Key, e.HValue, e.Metadata, id), nil
			}
		}
		return fmt.Sprint(len(tx.Entries)), "", nil
	}}
}

// the client strips the first key byte of every tx entry (decodeTxEntries); put back the one the history has
func (h *dbHist) rawPrefix(id uint64, e *schema.TxEntry) byte {
	for _, p := range []byte{database.SetKeyPrefix, database.SortedSetKeyPrefix, database.SQLPrefix} {
		if h.ents[id][entKey(append([]byte{p}, e.Key...), mdOf(e.Metadata), e.HValue)] {
			return p
		}
	}
	return database.SetKeyPrefix
}

func setCall(key, val string) call {
	return call{name: fmt.Sprintf("VerifiedSet(%s,%s)", key, val), run: func(ctx context.Context, h *dbHist) (string, string, error) {
		hdr, err := h.cl.VerifiedSet(ctx, []byte(key), []byte(val))
		h.refresh()
		if err != nil {
			return "", "", err
		}
		if !h.has(hdr.Id, database.EncodeEntrySpec([]byte(key), nil, []byte(val))) {
			return "", fmt.Sprintf("returned tx id %d, but that tx does not contain (%s,%s)", hdr.Id, key, val), nil
		}
		return fmt.Sprint(hdr.Id), "", nil
	}}
}

func zaddCall(set string, score float64, key string) call {
	return call{name: fmt.Sprintf("VerifiedZAdd(%s,%v,%s)", set, score, key), run: func(ctx context.Context, h *dbHist) (string, string, error) {
		hdr, err := h.cl.VerifiedZAdd(ctx, []byte(set), score, []byte(key))
		h.refresh()
		if err != nil {
			return "", "", err
		}
		if !h.has(hdr.Id, database.EncodeZAdd([]byte(set), score, database.EncodeKey([]byte(key)), 0)) {
			return "", fmt.Sprintf("returned tx id %d, but that tx does not contain the sorted-set entry", hdr.Id), nil
		}
		return fmt.Sprint(hdr.Id), "", nil
	}}
}

func refCall(key, to string) call {
	return call{name: fmt.Sprintf("VerifiedSetReference(%s->%s)", key, to), run: func(ctx context.Context, h *dbHist) (string, string, error) {
		hdr, err := h.cl.VerifiedSetReference(ctx, []byte(key), []byte(to))
		h.refresh()
		if err != nil {
			return "", "", err
		}
		if !h.has(hdr.Id, database.EncodeReference([]byte(key), nil, []byte(to), 0)) {
			return "", fmt.Sprintf("returned tx id %d, but that tx does not contain the reference", hdr.Id), nil
		}
		return fmt.Sprint(hdr.Id), "", nil
	}}
}

// rowCall: VerifyRow(row) for a row the caller holds; truth = whether that row is the table's row.
func rowCall(id int64, v, w string, genuine bool) call {
	return call{name: fmt.Sprintf("VerifyRow(t,id=%d,v=%s,w=%s)", id, v, w), expectReject: !genuine, run: func(ctx context.Context, h *dbHist) (string, string, error) {
		row := &schema.Row{Columns: []string{"(t.id)", "(t.v)", "(t.w)"}, Values: []*schema.SQLValue{{Value: &schema.SQLValue_N{N: id}}, {Value: &schema.SQLValue_S{S: v}}, {Value: &schema.SQLValue_S{S: w}}}}
		err := h.cl.VerifyRow(ctx, row, "t", []*schema.SQLValue{{Value: &schema.SQLValue_N{N: id}}})
		if err != nil {
			return "", "", err
		}
		if !genuine {
			return "", fmt.Sprintf("row (id=%d, v=%s, w=%s) verified, but the table never held it", id, v, w), nil
		}
		return "ok", "", nil
	}}
}

func (h *dbHist) trusted(s int) {
	h.st.st = &schema.ImmutableState{Db: "defaultdb", TxId: uint64(s), TxHash: append([]byte{}, h.alh[s]...)}
}

// explore: for every trusted state s and every call: honest run (completeness), then every single alteration.
func (h *dbHist) explore(calls []call, maxS int, mode string, forks ...*dbHist) {
	ctx := context.Background()
	for s := 1; s <= maxS; s++ {
		for _, cl := range calls {
			if c.Expired() {
				c.CapHit("client layer: not all (history, trusted state, call) combinations explored (time budget)")
				return
			}
			h.trusted(s)
			h.svc.alter, h.svc.armed, h.svc.honest = nil, true, nil
			var out, bad string
			var err error
			if pn := lib.Catch(func() { out, bad, err = cl.run(ctx, h) }); pn != "" {
				harnessBug("client layer, honest call " + cl.name + ": " + pn)
			}
			c.Eval(fmt.Sprintf("D:%s:%s:%d:%s", h.name, mode, s, cl.name))
			genuineReject := cl.expectReject && err != nil // a wrong row must be rejected
			stBad := h.stateBad()
			switch {
			case genuineReject:
			case err != nil || bad != "" || stBad != "":
				if cl.expectReject {
					viol(fmt.Sprintf("client-accepts-forged api=%s trusted=%d alter=none(wrong input row) hist=%s/%s", cl.name, s, h.name, mode), bad, nil)
				} else {
					viol(fmt.Sprintf("rejects-honest api=client.%s pair=(%d,-) history=%s/%s", cl.name, s, h.name, mode), fmt.Sprintf("honest server, honest response: err=%v %s %s", err, bad, stBad), nil)
				}
				continue
			default:
				cnt.honestOK++
			}
			if h.svc.honest == nil {
				continue
			}
			honestOut := out
			alts := protoAlts(h.svc.honest, h.pool)
			h.stats["alterations"] += int64(len(alts))
			for _, a := range alts {
				a := a
				h.trusted(s)
				h.svc.alter, h.svc.armed = a.f, true
				var out, bad string
				var err error
				c.AddEvals(1)
				if pn := lib.Catch(func() { out, bad, err = cl.run(ctx, h) }); pn != "" {
					h.stats["client_panics"]++
					panicKinds[strings.SplitN(pn, "\n", 2)[0]] = true
					continue
				}
				if err != nil {
					h.stats["rejected"]++
					continue
				}
				if bad == "" {
					bad = h.stateBad()
				}
				if bad != "" {
					cnt.forged++
					viol(fmt.Sprintf("client-accepts-forged kind=%s api=client.%s trusted=%d alter=%s hist=%s/%s", kindOf(bad), cl.name, s, a.name, h.name, mode), bad, map[string]any{"client": true})
					continue
				}
				if out == honestOut {
					h.stats["accepted_same_result"]++
				} else {
					h.stats["accepted_other_true_result"]++
				}
			}
			// whole answers of a forked database (same number of transactions, different content): a coordinated
			// forgery no single alteration produces. Only where the fork differs at or before the trusted tx.
			for _, f := range forks {
				if s > f.n || bytes.Equal(h.alh[s], f.alh[s]) || !(strings.HasPrefix(cl.name, "VerifiedGet") || strings.HasPrefix(cl.name, "VerifiedTxByID")) {
					continue
				}
				h.trusted(s)
				h.svc.alter, h.svc.armed = nil, false
				real := h.svc.db
				h.svc.db = f.db
				var bad string
				var err error
				c.AddEvals(1)
				pn := lib.Catch(func() { _, bad, err = cl.run(ctx, h) })
				h.svc.db = real
				h.stats["whole_fork_answers"]++
				if pn != "" || err != nil {
					h.stats["rejected"]++
					continue
				}
				if bad == "" {
					bad = h.stateBad()
				}
				if bad == "" {
					bad = fmt.Sprintf("an answer produced by the forked database %s was accepted against trusted state %d of %s", f.name, s, h.name)
				}
				cnt.forged++
				viol(fmt.Sprintf("client-accepts-fork api=client.%s trusted=%d response=whole-answer-of-fork hist=%s/%s fork=%s", cl.name, s, h.name, mode, f.name), bad, map[string]any{"client": true})
			}
		}
	}
}

// kindOf: which part of the client's result is not the history's (stable word for signatures).
func kindOf(bad string) string {
	switch {
	case strings.HasPrefix(bad, "the client stored state"):
		return "stored-state"
	case strings.HasPrefix(bad, "header-v0"):
		return "metadata-under-header-v0"
	case strings.HasPrefix(bad, "via-reference"):
		return "value-behind-reference"
	case strings.HasPrefix(bad, "returned key") || strings.HasPrefix(bad, "returned reference key"):
		return "echoed-key"
	case strings.HasPrefix(bad, "asked for tx"):
		return "echoed-tx"
	case strings.HasPrefix(bad, "returned a tx") || strings.HasPrefix(bad, "returned tx "):
		return "tx-content-not-bound-to-proof"
	case strings.HasPrefix(bad, "row "):
		return "row"
	}
	return "entry"
}

// stateBad: the state the client stored must be a state of the history.
func (h *dbHist) stateBad() string {
	st := h.st.st
	if st == nil || st.TxId == 0 || int(st.TxId) > h.n || !bytes.Equal(st.TxHash, h.alh[st.TxId]) {
		return fmt.Sprintf("the client stored state (tx %d, %x), which is not a state of the database", st.GetTxId(), st.GetTxHash())
	}
	return ""
}

func runClient() {
	kv := func(ver int) func(ctx context.Context, db database.DB) {
		return func(ctx context.Context, db database.DB) {
			_, err := db.Set(ctx, &schema.SetRequest{KVs: []*schema.KeyValue{{Key: []byte("a"), Value: []byte("x")}}})
			must(err)
			_, err = db.Set(ctx, &schema.SetRequest{KVs: []*schema.KeyValue{{Key: []byte("b"), Value: []byte("y")}, {Key: []byte("c"), Value: []byte{}}}})
			must(err)
			_, err = db.SetReference(ctx, &schema.ReferenceRequest{Key: []byte("r"), ReferencedKey: []byte("a")})
			must(err)
			_, err = db.ZAdd(ctx, &schema.ZAddRequest{Set: []byte("z"), Score: 1.5, Key: []byte("a")})
			must(err)
			if ver == 1 {
				_, err = db.Delete(ctx, &schema.DeleteKeysRequest{Keys: [][]byte{[]byte("b")}})
			} else if ver == 2 { // (content of the fork of the header-v0 history)
				_, err = db.Set(ctx, &schema.SetRequest{KVs: []*schema.KeyValue{{Key: []byte("a"), Value: []byte("w")}}})
			} else {
				_, err = db.Set(ctx, &schema.SetRequest{KVs: []*schema.KeyValue{{Key: []byte("a"), Value: []byte("y")}}})
			}
			must(err)
		}
	}
	kvCalls := func(ver int) []call {
		cs := []call{getCall("a", 0), getCall("c", 0), getCall("r", 0), getCall("a", 1), getCall("b", 2), getCall("c", 2), getCall("r", 3)}
		if ver == 0 {
			cs = append(cs, getCall("a", 5), getCall("b", 0))
		}
		for id := uint64(1); id <= 5; id++ {
			cs = append(cs, txCall(id))
		}
		return append(cs, setCall("n", "v"), zaddCall("z", 2.5, "c"), refCall("r2", "c"))
	}
	for _, ver := range []int{1, 0} {
		for _, signing := range []bool{false, true} {
			if ver == 0 && signing {
				continue
			}
			h := newDBHist(fmt.Sprintf("kv-v%d", ver), ver, signing, kv(ver))
			f := newDBHist(fmt.Sprintf("kv-v%d-fork", ver), ver, signing, kv(map[int]int{1: 0, 0: 2}[ver])) // same header version, other tx 5
			mode := map[bool]string{false: "nosig", true: "sig"}[signing]
			h.explore(kvCalls(ver), 5, mode, f)
			h.report()
			h.close()
			f.close()
		}
	}
	h := newDBHist("sql-v1", 1, false, func(ctx context.Context, db database.DB) {
		for _, q := range []string{"CREATE TABLE t(id INTEGER, v VARCHAR[8], w VARCHAR[8], PRIMARY KEY id)", "INSERT INTO t(id,v,w) VALUES (1,'x','y')",
			"INSERT INTO t(id,v,w) VALUES (2,'y','x')", "UPSERT INTO t(id,v,w) VALUES (1,'z','y')"} {
			_, _, err := db.SQLExec(ctx, nil, &schema.SQLExecRequest{Sql: q})
			must(err)
		}
	})
	attackDemo()
	h.explore([]call{rowCall(1, "z", "y", true), rowCall(2, "y", "x", true), rowCall(1, "y", "z", false), rowCall(2, "x", "y", false), txCall(2), txCall(4)}, h.n, "nosig")
	h.report()
	h.close()
	var pk []string
	for k := range panicKinds {
		pk = append(pk, k)
	}
	sort.Strings(pk)
	c.Set("D_client_panic_messages_not_a_C01_matter", pk)
}

// attackDemo: end-to-end reproduction, with the real client, of what the store-level part reports as
// "accepts-fork ... case=src=tgtBl": a server that answers from material whose binary-linking tree holds a rewritten
// transaction k makes ONE client session verify two different values for (key, tx k).
func attackDemo() {
	const k = 3
	h := newDBHist("attack", 1, false, func(ctx context.Context, db database.DB) {
		for i, kv := range [][2]string{{"a", "x"}, {"b", "y"}, {"a", "secret"}, {"c", "1"}, {"d", "2"}} {
			_, err := db.Set(ctx, &schema.SetRequest{KVs: []*schema.KeyValue{{Key: []byte(kv[0]), Value: []byte(kv[1])}}})
			must(err)
			_ = i
		}
	})
	defer h.close()
	ctx := context.Background()
	keys := []string{"", "a", "b", "a", "c", "d"}
	// the adversary's material: H = the real history; G = tx k rewritten; TH = chain of H, tree leaf k of G
	H := &World{name: "H", n: 5, real: true}
	H.hdr, H.alh, H.inner, H.leaf = make([]*store.TxHeader, 6), make([]H32, 6), make([]H32, 6), make([]H32, 6)
	H.ents = make([][]EntRec, 6)
	for id := 1; id <= 5; id++ {
		tx, err := h.db.TxByID(ctx, &schema.TxRequest{Tx: uint64(id), EntriesSpec: &schema.EntriesSpec{KvEntriesSpec: &schema.EntryTypeSpec{Action: schema.EntryTypeAction_RAW_VALUE}}})
		must(err)
		H.hdr[id] = schema.TxHeaderFromProto(tx.Header)
		H.alh[id], H.inner[id] = H.hdr[id].Alh(), innerHash(H.hdr[id])
		H.leaf[id] = H.alh[id]
		for _, e := range tx.Entries {
			er := EntRec{Key: e.Key, MD: mdOf(e.Metadata), Val: e.Value, HVal: sha256.Sum256(e.Value)}
			er.Dig = digestOf(1, er.Key, er.MD, er.Val)
			H.ents[id] = append(H.ents[id], er)
		}
	}
	H.leafHdr = H.hdr
	forgedVal = append([]byte{database.PlainValuePrefix}, "forged"...)
	G := mix("G", H, nil, 1, 0, k)
	forgedVal = []byte("forged")
	TH := mix("TH", H, G, k, k, 0)
	TH.genProofs()
	entryOf := func(w *World, id int) *schema.Entry {
		e := w.ents[id][0]
		return &schema.Entry{Tx: uint64(id), Key: e.Key[1:], Value: e.Val[1:], Revision: 1}
	}
	iproof := func(w *World, id int) *schema.InclusionProof {
		return &schema.InclusionProof{Leaf: 0, Width: 1} // single-entry transactions: empty audit path
	}
	resp := func(proven int, hdr *store.TxHeader, w *World, d *store.DualProof) *schema.VerifiableEntry {
		return &schema.VerifiableEntry{Entry: entryOf(w, proven), InclusionProof: iproof(w, proven),
			VerifiableTx: &schema.VerifiableTx{Tx: &schema.Tx{Header: schema.TxHeaderToProto(hdr)}, DualProof: schema.DualProofToProto(d)}}
	}
	// honest: from state k-1 the client verifies tx k and reads the genuine value
	h.trusted(k - 1)
	e1, err := h.cl.VerifiedGetAt(ctx, []byte(keys[k]), k)
	must(err)
	if h.st.st.TxId != k || !bytes.Equal(h.st.st.TxHash, h.alh[k]) {
		harnessBug("attackDemo: honest step did not advance the client to tx k")
	}
	h.svc.forge = func(in *schema.VerifiableGetRequest) *schema.VerifiableEntry {
		s, at := int(in.ProveSinceTx), int(in.KeyRequest.AtTx)
		switch {
		case at > s && TH.dual[s][at] != nil:
			return resp(at, TH.hdr[at], TH, TH.dual[s][at])
		case at == k && s > k && TH.dualL[k][s] != nil:
			return resp(k, G.hdr[k], G, TH.dualL[k][s]) // the rewritten transaction
		}
		return nil
	}
	var steps []string
	for _, at := range []int{k + 1, k + 2} {
		e, err := h.cl.VerifiedGetAt(ctx, []byte(keys[at]), uint64(at))
		steps = append(steps, fmt.Sprintf("VerifiedGetAt(%s,%d) -> %v, client state tx=%d", keys[at], at, err, h.st.st.TxId))
		_ = e
		if err != nil {
			c.Set("D_attack_demo", "rejected at "+steps[len(steps)-1])
			return
		}
	}
	e2, err := h.cl.VerifiedGetAt(ctx, []byte(keys[k]), k)
	steps = append(steps, fmt.Sprintf("VerifiedGetAt(%s,%d) -> value %q err=%v", keys[k], k, e2.GetValue(), err))
	c.Set("D_attack_demo", steps)
	if err == nil && !bytes.Equal(e1.Value, e2.Value) {
		viol(fmt.Sprintf("client-accepts-equivocation api=client.VerifiedGetAt case=src=tgtBl key=%s tx=%d first=%q later=%q", keys[k], k, e1.Value, e2.Value),
			fmt.Sprintf("one client session (real pkg/client, state service in memory): VerifiedGetAt(%s,%d) from trusted tx %d returned %q and advanced the state to tx %d. A malicious server then answered "+
				"VerifiedGetAt for tx %d and tx %d with headers whose BlRoot holds a REWRITTEN tx %d as leaf %d (linear chain untouched) - both verified - and finally VerifiedGetAt(%s,%d) returned %q, verified against the client's state. Steps: %v",
				keys[k], k, k-1, e1.Value, k, k+1, k+2, k, k, keys[k], k, e2.Value, steps), map[string]any{"client": true})
	}
}

var panicKinds = map[string]bool{}

func (h *dbHist) report() {
	for k, v := range h.stats {
		c.Add("D_"+k, v)
	}
}
