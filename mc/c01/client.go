package main

func runClient() {}
