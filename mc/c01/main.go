// C01 — verified reads/writes: proofs are complete and sound (tamper evidence).
//
// Level "exploration": exhaustive enumeration of small histories, all index pairs and an explicit adversary
// alphabet; nothing is random.
//
// HISTORIES (worlds.go). Real stores: n transactions (quick 8 and 4, thorough 12 and 4) whose contents rotate through
// a 12-entry catalog (keys {a,b,c} x values {"",x,y} x kv-metadata {none,deleted,non-indexable} x tx-metadata
// {none,extra}, 1..3 entries), header version {0,1}, binary linking {commit: BlTxID=ID-1; lag1/2/3 and burst3/4:
// BlTxID lags the chain, built with ExportTx -> patched header -> ReplicateTx}. For every history H: a real FORK
// store F(p) for every fork point p (same first p transactions, different suffix), and synthetic adversarial worlds
// whose proofs are generated with the honest algorithm over the adversary's own material: G(k) coherent rewrite of
// tx k (entry -> Eh -> Alh -> every later PrevAlh/BlRoot); TH(k,m) / TG(k,m): linear chain of one history, binary
// linking tree leaves k..m of the other (tree/chain split: the "linear-fake" family of docs/security).
//
// O1 COMPLETENESS (store.go): on every real store, every (s,t): DualProof+VerifyDualProof, DualProofV2, LinearProof,
// LinearAdvanceProof (every tree size), every entry's Tx.Proof+VerifyInclusion verify; s>t is refused; the
// client-side flows accept every honest response.
//
// O2 SOUNDNESS. The client is a SESSION holding a trusted (id, Alh); a response = (proven tx id, DualProof); the
// verification flow of pkg/client is replicated (the trusted side is never taken from the response). For every trusted
// state (H,s) and every proven t (t >= s: state advances; t < s: old transaction proven against the state):
//   - every SINGLE alteration: every header field <- boundary ints / flipped bit / every pool hash (all Alh, Eh, BlRoot,
//     inner hashes of H and two forks) / the field or whole header of H:id±1 and of every other world; every proof list
//     <- drop/dup/swap/flip/substitute-by-pool/append/prepend/empty; every proof part and every single term <- the one
//     of the neighbouring pairs (s±1,t±1) of H and of the same pair in every other world; proof ids; nil parts;
//   - every PAIR {header/id field} x {proof part} over reduced alphabets (donors: H neighbours, forks F(s-1), F(s));
//   - whole responses of every world, in sessions of up to two advancing verifications + one re-read of an old tx.
//     Oracle (judge): an accepted header must commit, at every position <= the trusted id, to what the trusted state
//     commits to (positions <= BlTxID through BlRoot, the rest through the chain); backward: it must be the transaction
//     the trusted state commits to. A fork strictly after the trusted transaction is legitimate: counted, never flagged.
//     End-to-end oracle of the sessions: no two different transactions are ever accepted for one id.
//     raw.go: DualProofV2 in the flow of its only caller (VerifyDocument), VerifyLinearProof, VerifyLinearAdvanceProof,
//     VerifyInclusion (entry), ahtree.Verify{Inclusion,Consistency,LastInclusion}: altered proofs AND altered claims
//     against ground truth over all worlds / the reference verifiers of package merkle.
//
// SERVER/CLIENT LAYER (client.go), histories of 4..5 transactions (+ the ones the verified writes append): the REAL
// pkg/client code (VerifiedGet, VerifiedGetAt, VerifiedTxByID, VerifiedSet, VerifiedZAdd, VerifiedSetReference,
// VerifyRow; with and without server signing key) runs against a real pkg/database.DB through an in-process
// ImmuServiceClient that signs like pkg/server and applies every single alteration of the protobuf response (generic
// walk over all fields). Accepted => the stored state is a state of the database and the returned key, value,
// metadata, transaction id are in its history. Plus one scripted malicious-server session (attackDemo).
package main

import (
	"fmt"
	"os"
	"runtime/debug"
	"time"

	"verif/mc/lib"
)

var c *lib.Check

func configs(thorough bool) []HistCfg {
	n, rots := 8, []int{0, 5}
	if thorough {
		n, rots = 12, []int{0, 2, 4, 5, 7, 9, 11}
	}
	var out []HistCfg
	for _, link := range []string{"commit", "lag1", "lag2", "lag3", "burst3", "burst4"} {
		for _, ver := range []int{1, 0} {
			for _, r := range rots {
				out = append(out, HistCfg{N: n, Ver: ver, Rot: r, Link: link})
			}
		}
	}
	return out
}

func main() {
	c = lib.New("C01", "exploration", 100*time.Second, 25*time.Minute)
	debug.SetGCPercent(800) // the enumeration allocates many short-lived closures; fewer GC cycles
	c.Assume("SHA-256 collision resistance; the adversary is restricted to the explicit alteration operators and to hashes occurring in the enumerated worlds")
	c.Assume("a fork of the history strictly after the client's trusted transaction is undetectable by construction and is counted as legitimate")
	cfgs := configs(c.Thorough())
	if c.ReplayPath != "" {
		var r struct {
			Hist HistCfg `json:"hist"`
			S    int     `json:"s"`
		}
		c.LoadReplay(&r)
		if r.Hist.N > 0 {
			runStore([]HistCfg{r.Hist}, true)
		} else {
			runClient()
		}
		c.Finish("replay", false)
	}
	// small histories first (every n below the bound is a prefix of the big one for proofs, but not for forks/worlds)
	small := []HistCfg{}
	for _, cf := range cfgs {
		if cf.Rot == 0 {
			cf.N = 4
			small = append(small, cf)
		}
	}
	part := os.Getenv("C01_PART") // development aid: "client" or "store" runs only that part
	if part != "client" {
		runStore(small, true)
	}
	if part != "store" {
		runClient()
	}
	if part != "client" {
		runStore(cfgs, true)
	}
	c.Set("accepted_honest", cnt.honestOK)
	c.Set("rejected", cnt.rejected)
	c.Set("accepted_legitimately_other_branch_or_future_fork", cnt.legit)
	c.Set("accepted_alteration_of_unused_part", cnt.noop)
	c.Set("verifier_panics_counted_as_rejections", cnt.panics)
	c.Set("accepted_forged", cnt.forged)
	c.Set("session_first_steps", cnt.sessions)
	c.Set("equivocations", cnt.equiv)
	c.Sample(map[string]any{"part": "store", "history": fmt.Sprint(cfgs[0]), "trusted": "H:3", "response": "honest DualProof(3,6) of H", "alteration": "Target.BlRoot=pool7 + ConsistencyProof.drop0", "outcome": "rejected"})
	c.Sample(map[string]any{"part": "store", "history": fmt.Sprint(cfgs[len(cfgs)/2]), "trusted": "H:2", "response": "whole DualProof(2,5) of fork F4 (diverges after tx 4)", "outcome": "accepted, legitimate: the fork lies after the trusted transaction"})
	c.Sample(map[string]any{"part": "store", "history": fmt.Sprint(cfgs[0]), "trusted": "H:5", "response": "whole DualProof(2,5) of G2 (tx 2 rewritten, everything after re-chained)", "outcome": "rejected"})
	c.Sample(map[string]any{"part": "raw", "api": "VerifyLinearAdvanceProof", "claim": "(start=1,end=4,Alh(F0:4),root(H,5),size=5)", "proof": "honest proof for (1,4,5) with InclusionProofs[1] dropped", "outcome": "rejected"})
	c.Sample(map[string]any{"part": "client", "call": "VerifiedGetAt(b,2) with trusted tx 4", "alteration": "verifiableTx.dualProof.sourceTxHeader.eH=pool3", "outcome": "rejected (ErrCorruptedData)"})
	c.Finish("every (history, trusted s, proven t) x every single alteration x reduced pairs x whole-world sessions; raw verifier claims; client layer: every single protobuf alteration. "+
		"distinct = distinct (history,s,t) base responses", !c.Expired())
}
