package main

import (
	"context"
	"fmt"
	"os"

	"github.com/codenotary/immudb/embedded/sql"
	"github.com/codenotary/immudb/embedded/store"
)

func main() {
	d, _ := os.MkdirTemp("/dev/shm", "zz")
	defer os.RemoveAll(d)
	st, err := store.Open(d, store.DefaultOptions().WithMultiIndexing(true))
	if err != nil {
		panic(err)
	}
	defer st.Close()
	e, err := sql.NewEngine(st, sql.DefaultOptions().WithPrefix([]byte{1}))
	if err != nil {
		panic(err)
	}
	ctx := context.Background()
	for _, q := range []string{
		"CREATE TABLE t(ts TIMESTAMP, PRIMARY KEY ts)",
		"INSERT INTO t(ts) VALUES (CAST('0001-01-01' AS TIMESTAMP))",
		"INSERT INTO t(ts) VALUES (CAST('2000-01-01' AS TIMESTAMP))",
		"INSERT INTO t(ts) VALUES (CAST('9999-12-31' AS TIMESTAMP))",
		"CREATE TABLE f(id INTEGER, x FLOAT, PRIMARY KEY id)",
		"CREATE UNIQUE INDEX ON f(x)",
		"INSERT INTO f(id,x) VALUES (1, 0.0)",
		"INSERT INTO f(id,x) VALUES (2, -0.0)",
	} {
		if _, _, err := e.Exec(ctx, nil, q, nil); err != nil {
			fmt.Println(q + ": " + err.Error())
		}
	}
	for _, q := range []string{"SELECT ts FROM t ORDER BY ts", "SELECT ts FROM t WHERE ts < CAST('1970-01-01' AS TIMESTAMP)", "SELECT id, x FROM f WHERE x = 0.0", "SELECT id, x FROM f"} {
		r, err := e.Query(ctx, nil, q, nil)
		if err != nil {
			panic(err)
		}
		fmt.Printf("%s:", q)
		for {
			row, err := r.Read(ctx)
			if err != nil {
				break
			}
			for _, v := range row.ValuesByPosition {
				fmt.Printf(" %v", v.RawValue())
			}
			fmt.Printf(" |")
		}
		fmt.Println()
		r.Close()
	}
}
