// C08 — hash trees equal the reference Merkle construction.
//
//	A. exhaustive sizes: for every n <= N and all 1<=i<=j<=n the real AHtree's roots, inclusion,
//	   consistency and last-inclusion proofs are compared with package merkle and verified; htree for
//	   every width and leaf.
//	B. verifier soundness: every alteration (operator set below) of every honest proof for n <= M;
//	   oracle: accept => the claim is true in the reference.
//	C. all operation sequences {append x3, reset-size x3, sync, reopen} up to a depth on the real AHtree,
//	   for a grid of cache sizes / sync thresholds / chunk sizes, full observation sweep after each step.
package main

import (
	"bytes"
	"crypto/sha256"
	"fmt"
	"os"
	"time"

	"github.com/codenotary/immudb/embedded/ahtree"
	"github.com/codenotary/immudb/embedded/htree"
	"verif/mc/lib"
	"verif/mc/merkle"
)

type H = [sha256.Size]byte

var c *lib.Check

func payload(i int) []byte {
	switch i % 5 {
	case 0:
		return []byte{}
	case 1:
		return []byte{byte(i)}
	default:
		return bytes.Repeat([]byte{byte(i), 0xA5}, i%7+1)
	}
}

func openAHT(dir string, cacheSlots, syncThld, fileSize int) (*ahtree.AHtree, error) {
	opts := ahtree.DefaultOptions().WithDataCacheSlots(cacheSlots).WithDigestsCacheSlots(cacheSlots).
		WithSyncThld(syncThld).WithFileSize(fileSize).WithWriteBufferSize(256).WithReadBufferSize(64)
	return ahtree.Open(dir, opts)
}

func eqProof(a, b []H) bool {
	if len(a) != len(b) {
		return false
	}
	for i := range a {
		if a[i] != b[i] {
			return false
		}
	}
	return true
}

// refConsistency: immudb's format = RFC 6962 PROOF(i, D[j]) with the old subtree root made explicit as
// first term when RFC omits it (i.e. always the "b=false" variant), and [root] for i == j.
func verifyConsRef(proof []H, i, j int, leaves []H) bool {
	// independent verification: the proof must let us recompute both roots; we check it against the
	// RFC proof: RFC proof must be a suffix-compatible sublist (equal, or equal after dropping term 0).
	rfc := merkle.ConsProof(i, leaves[:j])
	return eqProof(proof, rfc) || (len(proof) > 0 && eqProof(proof[1:], rfc))
}

type violF func(sig, detail string, replay any)

func viol(sig, detail string, replay any) {
	c.Violate(lib.Violation{Sig: sig, Detail: detail, Replay: replay})
}

// ---------- part A ----------

func partA(maxN int) {
	dir := lib.Scratch("c08a")
	defer os.RemoveAll(dir)
	t, err := openAHT(dir, 7, 3, 4096) // small caches: most node reads go to the files
	if err != nil {
		panic(err)
	}
	defer t.Close()
	var leaves []H
	for n := 1; n <= maxN && !c.Expired(); n++ {
		p := payload(n)
		gotN, gotH, err := t.Append(p)
		leaves = append(leaves, merkle.Leaf(p))
		if err != nil || gotN != uint64(n) || gotH != merkle.Root(leaves) {
			viol(fmt.Sprintf("aht-append n=%d", n), fmt.Sprintf("Append returned n=%d h=%x err=%v; reference root %x", gotN, gotH, err, merkle.Root(leaves)), nil)
			return
		}
		for j := 1; j <= n; j++ {
			rj, err := t.RootAt(uint64(j))
			if err != nil || rj != merkle.Root(leaves[:j]) {
				viol(fmt.Sprintf("aht-rootat n=%d j=%d", n, j), fmt.Sprintf("RootAt=%x err=%v want %x", rj, err, merkle.Root(leaves[:j])), nil)
			}
			if n != maxN && j != n { // proofs for (i,j) do not depend on n: check each pair when j is the size, and all pairs at the final size
				continue
			}
			for i := 1; i <= j; i++ {
				c.Eval(fmt.Sprintf("A:%d:%d:%d", n, i, j))
				ip, err := t.InclusionProof(uint64(i), uint64(j))
				ref := merkle.Path(i-1, leaves[:j])
				if err != nil || !eqProof(ip, ref) {
					viol(fmt.Sprintf("aht-inclusion-proof i=%d j=%d", i, j), fmt.Sprintf("n=%d got %d terms err=%v, reference %d terms", n, len(ip), err, len(ref)), nil)
				} else if !ahtree.VerifyInclusion(ip, uint64(i), uint64(j), leaves[i-1], rj) {
					viol(fmt.Sprintf("aht-inclusion-verify i=%d j=%d", i, j), "honest inclusion proof rejected", nil)
				}
				cp, err := t.ConsistencyProof(uint64(i), uint64(j))
				if err == nil && verifyConsRef(cp, i, j, leaves) {
					c.Add("A_consistency_proofs_equal_to_rfc6962", 1)
				}
				if err != nil {
					viol(fmt.Sprintf("aht-consistency-proof i=%d j=%d", i, j), fmt.Sprintf("n=%d err=%v", n, err), nil)
				} else if !ahtree.VerifyConsistency(cp, uint64(i), uint64(j), merkle.Root(leaves[:i]), rj) {
					viol(fmt.Sprintf("aht-consistency-verify i=%d j=%d", i, j), "honest consistency proof rejected", nil)
				}
				if i == j && !ahtree.VerifyLastInclusion(ip, uint64(i), leaves[i-1], rj) {
					viol(fmt.Sprintf("aht-lastinclusion-verify i=%d", i), "honest last-inclusion proof rejected", nil)
				}
			}
		}
		d, err := t.DataAt(uint64(n))
		if err != nil || !bytes.Equal(d, p) {
			viol(fmt.Sprintf("aht-dataat n=%d", n), fmt.Sprintf("DataAt=%x err=%v want %x", d, err, p), nil)
		}
	}
	c.Set("A_max_tree_size", len(leaves))
	// htree: every width and leaf
	maxW := 33
	if c.Thorough() {
		maxW = 130
	}
	for w := 0; w <= maxW; w++ {
		ht, _ := htree.New(maxW)
		var ds, lh []H
		for i := 0; i < w; i++ {
			d := sha256.Sum256([]byte{byte(i), byte(w)})
			ds = append(ds, d)
			lh = append(lh, merkle.Leaf(d[:]))
		}
		if err := ht.BuildWith(ds); err != nil {
			viol(fmt.Sprintf("htree-build w=%d", w), err.Error(), nil)
			continue
		}
		if w == 0 {
			if ht.Root() != sha256.Sum256(nil) {
				viol("htree-empty-root", "root of empty tree is not sha256(nil)", nil)
			}
			if _, err := ht.InclusionProof(0); err == nil {
				viol("htree-empty-proof", "InclusionProof(0) on empty tree succeeded", nil)
			}
			continue
		}
		if ht.Root() != merkle.Root(lh) {
			viol(fmt.Sprintf("htree-root w=%d", w), "root differs from reference", nil)
		}
		for i := 0; i < w; i++ {
			c.Eval(fmt.Sprintf("H:%d:%d", w, i))
			pr, err := ht.InclusionProof(i)
			if err != nil || pr.Leaf != i || pr.Width != w || !eqProof(pr.Terms, merkle.Path(i, lh)) {
				viol(fmt.Sprintf("htree-proof w=%d i=%d", w, i), fmt.Sprintf("err=%v proof differs from reference path", err), nil)
				continue
			}
			if !htree.VerifyInclusion(pr, ds[i], ht.Root()) {
				viol(fmt.Sprintf("htree-verify w=%d i=%d", w, i), "honest proof rejected", nil)
			}
		}
		if _, err := ht.InclusionProof(w); err == nil {
			viol(fmt.Sprintf("htree-proof-oob w=%d", w), "InclusionProof(width) succeeded", nil)
		}
	}
	c.Set("A_max_htree_width", maxW)
}

// ---------- part B: verifier soundness ----------

type alt struct {
	name  string
	proof []H
}

// alterations of a proof list: drop, dup, swap adjacent, substitute each term by each pool hash, append / prepend pool hash, empty.
func alterProof(p []H, pool []H) []alt {
	out := []alt{{"same", p}, {"empty", nil}}
	cp := func() []H { return append([]H{}, p...) }
	for k := range p {
		d := append(cp()[:k:k], p[k+1:]...)
		out = append(out, alt{fmt.Sprintf("drop%d", k), d})
		u := append(append(cp()[:k+1:k+1], p[k]), p[k+1:]...)
		out = append(out, alt{fmt.Sprintf("dup%d", k), u})
		if k+1 < len(p) {
			s := cp()
			s[k], s[k+1] = s[k+1], s[k]
			out = append(out, alt{fmt.Sprintf("swap%d", k), s})
		}
		f := cp()
		f[k][0] ^= 1
		out = append(out, alt{fmt.Sprintf("flip%d", k), f})
		for q, h := range pool {
			if h == p[k] {
				continue
			}
			s := cp()
			s[k] = h
			out = append(out, alt{fmt.Sprintf("sub%d<-pool%d", k, q), s})
		}
	}
	for q, h := range pool {
		out = append(out, alt{fmt.Sprintf("append-pool%d", q), append(cp(), h)})
		out = append(out, alt{fmt.Sprintf("prepend-pool%d", q), append([]H{h}, p...)})
	}
	return out
}

func partB(maxN int) {
	var leaves []H
	for n := 1; n <= maxN; n++ {
		leaves = append(leaves, merkle.Leaf(payload(n)))
	}
	roots := make([]H, maxN+1)
	for j := 1; j <= maxN; j++ {
		roots[j] = merkle.Root(leaves[:j])
	}
	// pool of hashes an adversary can take from the honest history: leaves, roots
	var pool []H
	pool = append(pool, leaves...)
	pool = append(pool, roots[1:]...)
	idx := []int{}
	for j := 1; j <= maxN; j++ {
		idx = append(idx, j)
	}
	type job struct{ i, j int }
	var jobs []job
	for j := 1; j <= maxN; j++ {
		for i := 1; i <= j; i++ {
			jobs = append(jobs, job{i, j})
		}
	}
	var nAccTrue, nAccFalse, nRej int64
	c.ParallelFor(len(jobs), func(k int) {
		i, j := jobs[k].i, jobs[k].j
		var accT, accF, rej int64
		// --- inclusion
		honest := merkle.Path(i-1, leaves[:j])
		small := pool
		for _, a := range alterProof(honest, small) {
			// claimed (ci, cj, leaf, root) vary over neighbours and the whole small domain of sizes
			for _, ci := range []int{i - 1, i, i + 1, j, 0} {
				for cj := 0; cj <= maxN+1; cj++ {
					for _, lf := range []int{i, i - 1, i + 1} {
						if lf < 1 || lf > maxN {
							continue
						}
						for _, rt := range []int{cj, j, j - 1, j + 1, i} {
							if rt < 1 || rt > maxN {
								continue
							}
							ok := false
							if p := lib.Catch(func() { ok = ahtree.VerifyInclusion(a.proof, uint64(ci), uint64(cj), leaves[lf-1], roots[rt]) }); p != "" {
								viol(fmt.Sprintf("aht-verify-inclusion-panic proof=%s(%d,%d) i=%d j=%d", a.name, i, j, ci, cj), p, nil)
								continue
							}
							ref := merkle.VerifyInclusion(a.proof, uint64(ci), uint64(cj), leaves[lf-1], roots[rt])
							switch {
							case ok && ref:
								accT++
							case ok && !ref:
								accF++
								viol(fmt.Sprintf("aht-verify-inclusion-accepts-what-reference-rejects honest=(%d,%d) alter=%s claim=(i=%d,j=%d,leaf=%d,root=%d)", i, j, a.name, ci, cj, lf, rt),
									fmt.Sprintf("ahtree.VerifyInclusion accepted: proof = honest proof for (%d,%d) altered by %s (%d terms); claimed i=%d j=%d leaf=leaf(%d) root=Root(%d); the audit path of (%d,%d) has %d terms", i, j, a.name, len(a.proof), ci, cj, lf, rt, ci, cj, pathLen(ci, cj)),
									map[string]any{"kind": "inclusion", "i": i, "j": j, "alter": a.name, "ci": ci, "cj": cj, "leaf": lf, "root": rt})
							case !ok && ref:
								viol(fmt.Sprintf("aht-verify-inclusion-rejects-valid honest=(%d,%d) alter=%s claim=(i=%d,j=%d,leaf=%d,root=%d)", i, j, a.name, ci, cj, lf, rt), "reference verifier accepts", nil)
							default:
								rej++
							}
						}
					}
				}
			}
		}
		// --- consistency: honest proof = RFC proof with explicit first term, take it from a throw-away real tree lazily: use reference format
		hc, err := realTree.ConsistencyProof(uint64(i), uint64(j))
		if err != nil {
			panic(err)
		}
		for _, a := range alterProof(hc, small) {
			for _, ci := range []int{i - 1, i, i + 1, 0} {
				for cj := 0; cj <= maxN+1; cj++ {
					for _, ri := range []int{ci, i, i - 1, i + 1} {
						if ri < 1 || ri > maxN {
							continue
						}
						for _, rj := range []int{cj, j, j - 1, j + 1} {
							if rj < 1 || rj > maxN {
								continue
							}
							ok := false
							if p := lib.Catch(func() { ok = ahtree.VerifyConsistency(a.proof, uint64(ci), uint64(cj), roots[ri], roots[rj]) }); p != "" {
								viol(fmt.Sprintf("aht-verify-consistency-panic proof=%s(%d,%d) i=%d j=%d", a.name, i, j, ci, cj), p, nil)
								continue
							}
							ref := merkle.VerifyConsistency(a.proof, uint64(ci), uint64(cj), roots[ri], roots[rj])
							switch {
							case ok && ref:
								accT++
							case ok && !ref:
								accF++
								viol(fmt.Sprintf("aht-verify-consistency-accepts-what-reference-rejects honest=(%d,%d) alter=%s claim=(i=%d,j=%d,iroot=%d,jroot=%d)", i, j, a.name, ci, cj, ri, rj),
									fmt.Sprintf("ahtree.VerifyConsistency accepted a proof (%d terms) that the RFC 9162 verification algorithm rejects", len(a.proof)),
									map[string]any{"kind": "consistency", "i": i, "j": j, "alter": a.name, "ci": ci, "cj": cj, "iroot": ri, "jroot": rj})
							case !ok && ref && ci == cj:
								rej++ // i == j: the reference only states the necessary condition ri == rj
							case !ok && ref:
								viol(fmt.Sprintf("aht-verify-consistency-rejects-valid honest=(%d,%d) alter=%s claim=(i=%d,j=%d,iroot=%d,jroot=%d)", i, j, a.name, ci, cj, ri, rj), "reference verifier accepts", nil)
							default:
								rej++
							}
						}
					}
				}
			}
		}
		// --- last inclusion (only honest for i == j)
		if i == j {
			for _, a := range alterProof(honest, small) {
				for ci := 0; ci <= maxN+1; ci++ {
					for _, lf := range []int{i, i - 1, i + 1} {
						if lf < 1 || lf > maxN {
							continue
						}
						for rt := 1; rt <= maxN; rt++ {
							ok := false
							if p := lib.Catch(func() { ok = ahtree.VerifyLastInclusion(a.proof, uint64(ci), leaves[lf-1], roots[rt]) }); p != "" {
								viol(fmt.Sprintf("aht-verify-lastinclusion-panic proof=%s(%d) i=%d", a.name, i, ci), p, nil)
								continue
							}
							ref := merkle.VerifyInclusion(a.proof, uint64(ci), uint64(ci), leaves[lf-1], roots[rt])
							switch {
							case ok && ref:
								accT++
							case ok && !ref:
								accF++
								viol(fmt.Sprintf("aht-verify-lastinclusion-accepts-what-reference-rejects honest=(%d) alter=%s claim=(i=%d,leaf=%d,root=%d)", i, a.name, ci, lf, rt),
									fmt.Sprintf("ahtree.VerifyLastInclusion accepted a proof of %d terms for i=%d (audit path of the last leaf has %d terms)", len(a.proof), ci, pathLen(ci, ci)), map[string]any{"kind": "last", "i": i, "alter": a.name, "ci": ci, "leaf": lf, "root": rt})
							case !ok && ref:
								viol(fmt.Sprintf("aht-verify-lastinclusion-rejects-valid honest=(%d) alter=%s claim=(i=%d,leaf=%d,root=%d)", i, a.name, ci, lf, rt), "reference verifier accepts", nil)
							default:
								rej++
							}
						}
					}
				}
			}
		}
		c.Add("B_accepted_true_claims", accT)
		c.Add("B_rejected", rej)
		c.AddEvals(accT + accF + rej)
		c.Distinct(fmt.Sprintf("B:%d:%d", i, j))
		_ = nAccTrue
		_ = nAccFalse
		_ = nRej
	})
	// htree verifier
	maxW := maxN
	for w := 1; w <= maxW; w++ {
		var ds, lh []H
		for i := 0; i < maxW; i++ {
			d := sha256.Sum256([]byte{byte(i), 77})
			ds = append(ds, d)
			lh = append(lh, merkle.Leaf(d[:]))
		}
		hroots := make([]H, maxW+1)
		for k := 1; k <= maxW; k++ {
			hroots[k] = merkle.Root(lh[:k])
		}
		hpool := append(append([]H{}, lh...), hroots[1:]...)
		for i := 0; i < w; i++ {
			honest := merkle.Path(i, lh[:w])
			var accT, rej int64
			for _, a := range alterProof(honest, hpool) {
				for _, cl := range []int{i, i - 1, i + 1, 0, w - 1, w, -1, 1 << 40} {
					for cw := -1; cw <= maxW+1; cw++ {
						for _, dg := range []int{i, i - 1, i + 1} {
							if dg < 0 || dg >= maxW {
								continue
							}
							for _, rt := range []int{cw, w, w - 1, w + 1, 1} {
								if rt < 1 || rt > maxW {
									continue
								}
								ok := false
								pr := &htree.InclusionProof{Leaf: cl, Width: cw, Terms: a.proof}
								if p := lib.Catch(func() { ok = htree.VerifyInclusion(pr, ds[dg], hroots[rt]) }); p != "" {
									viol(fmt.Sprintf("htree-verify-panic alter=%s leaf=%d width=%d", a.name, cl, cw), p, nil)
									continue
								}
								ref := cl >= 0 && cw >= 0 && merkle.VerifyInclusion(a.proof, uint64(cl)+1, uint64(cw), lh[dg], hroots[rt])
								if ok && !ref {
									viol(fmt.Sprintf("htree-verify-accepts-what-reference-rejects honest=(leaf=%d,width=%d) alter=%s claim=(leaf=%d,width=%d,digest=%d,root=%d)", i, w, a.name, cl, cw, dg, rt),
										fmt.Sprintf("htree.VerifyInclusion accepted (%d terms; the audit path of leaf %d in a tree of width %d has %d terms)", len(a.proof), cl, cw, pathLen(cl+1, cw)),
										map[string]any{"kind": "htree", "i": i, "w": w, "alter": a.name, "cl": cl, "cw": cw, "digest": dg, "root": rt})
								} else if !ok && ref {
									viol(fmt.Sprintf("htree-verify-rejects-valid honest=(leaf=%d,width=%d) alter=%s claim=(leaf=%d,width=%d,digest=%d,root=%d)", i, w, a.name, cl, cw, dg, rt), "reference verifier accepts", nil)
								} else if ok {
									accT++
								} else {
									rej++
								}
							}
						}
					}
				}
			}
			c.Add("B_accepted_true_claims", accT)
			c.Add("B_rejected", rej)
			c.AddEvals(accT + rej)
			c.Distinct(fmt.Sprintf("BH:%d:%d", w, i))
		}
	}
	c.Set("B_max_tree_size", maxN)
}

var realTree *ahtree.AHtree

func harnessBug(msg string) {
	fmt.Fprintln(os.Stderr, "HARNESS ERROR:", msg)
	os.Exit(2)
}

// pathLen: number of terms of the audit path of the i-th (1-based) leaf in a tree of j leaves (-1 if undefined).
func pathLen(i, j int) int {
	if i < 1 || i > j {
		return -1
	}
	m, n, l := i-1, j, 0
	for n > 1 {
		if !(m == n-1 && m%2 == 0) {
			l++
		}
		m >>= 1
		n = (n + 1) >> 1
	}
	return l
}

// ---------- part C: operation sequences ----------

type cfg struct {
	Cache, SyncThld, FileSize int
	SweepAll                 bool
}

var opNames = []string{"append(a)", "append(bb*)", "append(empty)", "reset(size-1)", "reset(size-2)", "reset(0)", "sync", "reopen", "read-sweep"}

func partC(depth int, cfgs []cfg) {
	for ci, cf := range cfgs {
		if c.Expired() {
			c.CapHit("part C: configurations not all explored")
			break
		}
		cf := cf
		spec := lib.SeqSpec{Name: fmt.Sprintf("aht-seq cfg=%+v", cf), NOps: len(opNames), Depth: depth}
		spec.Run = func(path []int) (string, bool) {
			dir := lib.Scratch("c08c")
			defer os.RemoveAll(dir)
			t, err := openAHT(dir, cf.Cache, cf.SyncThld, cf.FileSize)
			if err != nil {
				panic(err)
			}
			defer func() { t.Close() }()
			var model [][]byte
			var preReset [][]byte // model before the last ResetSize if nothing was appended since
			var phys [][]byte     // payload last written at each position, never shrinks (files are never truncated)
			stop := false
			fail := func(what, detail string) {
				names := []string{}
				for _, o := range path {
					names = append(names, opNames[o])
				}
				viol(fmt.Sprintf("aht-seq %s ops=%v cfg=%+v", what, names, cf), detail, map[string]any{"cfg": cf, "path": path})
				stop = true
			}
			sweep := func() {
				if sz := t.Size(); sz != uint64(len(model)) {
					fail("size", fmt.Sprintf("Size()=%d want %d", sz, len(model)))
					return
				}
				var leaves []H
				for _, p := range model {
					leaves = append(leaves, merkle.Leaf(p))
				}
				n, r, err := t.Root()
				if len(model) == 0 {
					if err == nil {
						fail("root-empty", "Root() on empty tree succeeded")
					}
				} else if err != nil || n != uint64(len(model)) || r != merkle.Root(leaves) {
					fail("root", fmt.Sprintf("Root()=(%d,%x,%v) want (%d,%x)", n, r, err, len(model), merkle.Root(leaves)))
					return
				}
				if _, err := t.DataAt(uint64(len(model) + 1)); err == nil {
					fail("dataat-beyond", fmt.Sprintf("DataAt(%d) succeeded on a tree of size %d", len(model)+1, len(model)))
				}
				if _, err := t.RootAt(uint64(len(model) + 1)); err == nil {
					fail("rootat-beyond", "RootAt(size+1) succeeded")
				}
				for j := 1; j <= len(model); j++ {
					d, err := t.DataAt(uint64(j))
					if err != nil || !bytes.Equal(d, model[j-1]) {
						fail("dataat", fmt.Sprintf("DataAt(%d)=%x err=%v want %x", j, d, err, model[j-1]))
						return
					}
					rj, err := t.RootAt(uint64(j))
					if err != nil || rj != merkle.Root(leaves[:j]) {
						fail("rootat", fmt.Sprintf("RootAt(%d)=%x err=%v want %x", j, rj, err, merkle.Root(leaves[:j])))
						return
					}
					for i := 1; i <= j; i++ {
						ip, err := t.InclusionProof(uint64(i), uint64(j))
						if err != nil || !eqProof(ip, merkle.Path(i-1, leaves[:j])) {
							fail("inclusion", fmt.Sprintf("InclusionProof(%d,%d) err=%v differs from reference", i, j, err))
							return
						}
						cp, err := t.ConsistencyProof(uint64(i), uint64(j))
						if err != nil || !ahtree.VerifyConsistency(cp, uint64(i), uint64(j), merkle.Root(leaves[:i]), merkle.Root(leaves[:j])) {
							fail("consistency", fmt.Sprintf("ConsistencyProof(%d,%d) err=%v does not verify against reference roots", i, j, err))
							return
						}
					}
				}
			}
			for k, op := range path {
				last := k == len(path)-1
				switch op {
				case 0, 1, 2:
					p := [][]byte{[]byte("a"), bytes.Repeat([]byte("b"), 2+len(model)), {}}[op]
					n, h, err := t.Append(p)
					model = append(model, append([]byte{}, p...))
					preReset = nil
					if len(model) <= len(phys) {
						phys[len(model)-1] = model[len(model)-1]
					} else {
						phys = append(phys, model[len(model)-1])
					}
					var leaves []H
					for _, q := range model {
						leaves = append(leaves, merkle.Leaf(q))
					}
					if err != nil || n != uint64(len(model)) || h != merkle.Root(leaves) {
						fail("append", fmt.Sprintf("Append=(%d,%x,%v) want (%d,%x)", n, h, err, len(model), merkle.Root(leaves)))
					}
				case 3, 4, 5:
					var ns int
					switch op {
					case 3:
						ns = len(model) - 1
					case 4:
						ns = len(model) - 2
					}
					if ns < 0 || (op == 5 && len(model) == 0) {
						return "", true // not applicable
					}
					if err := t.ResetSize(uint64(ns)); err != nil {
						fail("reset", fmt.Sprintf("ResetSize(%d) on size %d: %v", ns, len(model), err))
					}
					if preReset == nil && ns < len(model) {
						preReset = append([][]byte{}, model...)
					}
					model = model[:ns]
				case 6:
					if err := t.Sync(); err != nil {
						fail("sync", err.Error())
					}
				case 7:
					if err := t.Close(); err != nil {
						fail("close", err.Error())
					}
					t, err = openAHT(dir, cf.Cache, cf.SyncThld, cf.FileSize)
					if err != nil {
						fail("reopen", err.Error())
						return "", true
					}
					if len(phys) > len(model) && t.Size() == uint64(len(phys)) {
						// specific known history: a ResetSize whose discarded tail was not completely overwritten by
						// later appends, followed by close/reopen: the stale tail reappears (files are never
						// truncated). When nothing was appended since the reset the old tree is intact and the
						// model adopts it so that exploration continues; otherwise the stale entries no longer match
						// the digests and there is nothing consistent to continue from.
						names := []string{}
						for _, o := range path[:k+1] {
							names = append(names, opNames[o])
						}
						viol(fmt.Sprintf("aht-reset-not-persisted ops=%v cfg=%+v", names, cf),
							fmt.Sprintf("ResetSize then close/reopen: logical size was %d, reopen reports Size()=%d (entries written before the rewind reappear)", len(model), len(phys)), map[string]any{"cfg": cf, "path": path[:k+1]})
						if preReset != nil && len(preReset) == len(phys) {
							model = preReset
						} else {
							return "", true
						}
					}
					preReset = nil
				case 8:
					if !cf.SweepAll && !last {
						sweep() // explicit read sweep in the middle of a sequence (warms caches)
					}
				}
				if stop {
					return "", true
				}
				if cf.SweepAll || last {
					sweep()
				}
				if stop {
					return "", true
				}
			}
			if len(path) == depth {
				names := []string{}
				for _, o := range path {
					names = append(names, opNames[o])
				}
				c.Sample(map[string]any{"part": "C", "cfg": cf, "ops": names})
			}
			c.Distinct(fmt.Sprintf("C:%d:%v", ci, path))
			return "", false
		}
		st := c.RunSeq(spec)
		c.Add("C_sequences", st.Sequences)
	}
	c.Set("C_depth", depth)
	c.Set("C_configurations", len(cfgs))
}

func main() {
	c = lib.New("C08", "model_checking", 100*time.Second, 25*time.Minute)
	c.Assume("SHA-256 collision resistance; adversary restricted to the explicit alteration operators and to hashes occurring in the honest history (leaves, roots, proof terms)")
	c.Assume("reference = RFC 6962 tree shape with immudb's prefixes (package verif/mc/merkle)")
	nA, nB, depth := 64, 9, 4
	cfgs := []cfg{{1, 1, 64, true}, {2, 3, 64, false}, {100, 3, 1 << 16, true}, {1, 3, 1 << 16, false}}
	if c.Thorough() {
		nA, nB, depth = 300, 12, 7
		cfgs = nil
		for _, cs := range []int{1, 2, 100} {
			for _, st := range []int{1, 3} {
				for _, fs := range []int{64, 1 << 16} {
					for _, sa := range []bool{true, false} {
						cfgs = append(cfgs, cfg{cs, st, fs, sa})
					}
				}
			}
		}
	}
	if c.ReplayPath != "" {
		var r struct {
			Cfg  cfg   `json:"cfg"`
			Path []int `json:"path"`
		}
		c.LoadReplay(&r)
		if r.Path != nil {
			cfgs = []cfg{r.Cfg}
			depth = len(r.Path)
			partC(depth, cfgs) // re-explores the (small) depth; the recorded path is among them
		} else {
			partB(nB)
		}
		c.Finish("replay", false)
	}
	// a real tree used to obtain honest consistency proofs in immudb's format for part B
	d := lib.Scratch("c08b")
	defer os.RemoveAll(d)
	var err error
	realTree, err = openAHT(d, 1000, 1000, 1<<16)
	if err != nil {
		panic(err)
	}
	for n := 1; n <= nB; n++ {
		realTree.Append(payload(n))
	}
	partA(nA)
	partB(nB)
	realTree.Close()
	c.Sample(map[string]any{"part": "B", "claim": "VerifyInclusion(alter(honestProof(i,j)), i', j', leaf', root')", "operators": "same/empty/drop/dup/swap/flip/substitute-by-pool/append/prepend"})
	// iterative deepening: every depth below C_depth is completed before the next one is started
	for d := 3; d <= depth && !c.Expired(); d++ {
		partC(d, cfgs)
		if !c.Expired() {
			c.Set("C_depth_completed", d)
		}
	}
	c.Finish("A: every (n,i,j) with 1<=i<=j<=n<=A_max_tree_size compared with the reference construction; "+
		"B: every alteration operator x every claimed (i,j,leaf,root) in the small domain for every honest proof with j<=B_max_tree_size, accept => claim true; "+
		"C: every sequence over the 9-operation alphabet up to C_depth per configuration, full sweep vs reference list. "+
		"distinct = distinct (i,j) pairs + distinct sequences", !c.Expired())
}
