// C13 — SQL transactions are atomic and isolated, incl. rollback and savepoints (SEQUENTIAL part).
//
// Space (engine front): ALL transaction programs over the 16-statement alphabet below up to a length (quick 4,
// thorough 5), plus the programs that start with BEGIN extended by one more statement (quick: COMMIT or
// ROLLBACK, i.e. every 3-statement transaction body is also committed and rolled back; thorough: any
// statement), driven statement by statement through sql.Engine.Exec (an open transaction is continued by
// passing the returned *SQLTx back in), each on a fresh copy of the fixture store (breadth-first = iterative
// deepening). Fixture: tables a(id INTEGER AUTO_INCREMENT, v) with row (1,0) and t(id INTEGER, v) with row
// (1,1); all statements collide on t[1]/t[2]. A statement that is a protocol error in the reference AND in the
// engine (COMMIT / SAVEPOINT outside a transaction, BEGIN inside one, ROLLBACK TO / RELEASE of a savepoint that
// was never established) is checked and not extended. "outside:" is one atomic two-table transaction of a
// second session (tx=nil), executed while the transaction is open (sequentially; the only way to make a
// COMMIT fail, and it shows whether the transaction reads from ONE snapshot: it must see all or nothing of it).
// (Measured: ~25 ms CPU per program, store open/close dominates; 25k programs in the quick tier.)
//
// Observation modes (each program runs in both): "all" = views compared after every statement, "last" =
// statement results after every statement but views only after the last one (no extra reads inside the
// transaction) followed by a close + reopen of store and engine.
//
// Oracle = reference interpreter (type model): committed tables + copy-on-begin working tables + savepoint
// snapshots. Semantics taken from the code: ANY failing statement inside a transaction aborts the whole
// transaction (Engine.execPreparedStmts cancels it and returns ntx=nil), the following statements run in
// autocommit. After every statement: (1) SELECT inside the transaction == working tables, (2) the same
// SELECT from outside (tx=nil) == committed tables, (3) after COMMIT / ROLLBACK / failed statement / failed
// COMMIT / Cancel of an abandoned transaction the committed tables == reference, (4) UpdatedRows(),
// First/LastInsertedPKs() of the open and of the committed SQLTx == what the reference applied (generated
// keys are taken from the report and must then be found in the table), (5) close + reopen: unchanged.
//
// Known defects are modelled as optional "quirks" of the reference; the 2^4 variants run in lockstep and a
// mismatch with the specification variant is classified by the smallest surviving variant (signature =
// quirk name + shortest program prefix that activates it); if no variant survives the mismatch gets the
// signature of the failing comparison (tx-visible-outside, rollback-left-effects, own-write-not-visible,
// updated-rows-mismatch, ...). Further front-ends with a smaller bound: see frontends.go.
package main

import (
	"context"
	"errors"
	"fmt"
	"os"
	"path/filepath"
	"runtime/debug"
	"sort"
	"strings"
	"sync"
	"sync/atomic"
	"time"

	"github.com/codenotary/immudb/embedded/logger"
	"github.com/codenotary/immudb/embedded/sql"
	"github.com/codenotary/immudb/embedded/store"
	"verif/mc/lib"
	"verif/mc/sched"
	"verif/mc/sqlconc"
)

var c *lib.Check

// ---------- alphabet ----------

const (
	opBegin = iota
	opInsA
	opIns1
	opIns2
	opUps1
	opUpd
	opDel1
	opDDL
	opSp1
	opSp2
	opRb1
	opRb2
	opRel1
	opCommit
	opRollback
	opOutside
	nOps
)

var sqlText = [nOps]string{
	"BEGIN TRANSACTION",
	"INSERT INTO a(v) VALUES (1)",      // generated key
	"INSERT INTO t(id,v) VALUES (1,3)", // fails (duplicate key) while t[1] exists
	"INSERT INTO t(id,v) VALUES (2,2)", // fails the second time
	"UPSERT INTO t(id,v) VALUES (1,7)",
	"UPDATE t SET v = v + 10", // every row: 0, 1 or 2 affected rows, reads own writes
	"DELETE FROM t WHERE id = 1",
	"CREATE TABLE u(id INTEGER, PRIMARY KEY id)", // DDL; fails the second time
	"SAVEPOINT s1",
	"SAVEPOINT s2",
	"ROLLBACK TO SAVEPOINT s1",
	"ROLLBACK TO SAVEPOINT s2",
	"RELEASE SAVEPOINT s1",
	"COMMIT",
	"ROLLBACK",
	// one atomic transaction of a SECOND session (tx=nil) executed while the tx is open: writes both tables
	"BEGIN TRANSACTION; UPSERT INTO a(id,v) VALUES (1,50); UPSERT INTO t(id,v) VALUES (1,99); COMMIT",
}

var opName = [nOps]string{"BEGIN", "INSERT a", "INSERT t(1,3)", "INSERT t(2,2)", "UPSERT t(1,7)", "UPDATE t", "DELETE t[1]", "CREATE u",
	"SAVEPOINT s1", "SAVEPOINT s2", "ROLLBACK TO s1", "ROLLBACK TO s2", "RELEASE s1", "COMMIT", "ROLLBACK", "outside:{UPSERT a(1,50); UPSERT t(1,99)}"}

var allOps = func() (o []int) {
	for i := 0; i < nOps; i++ {
		o = append(o, i)
	}
	return
}()

var setup = []string{
	"CREATE TABLE a(id INTEGER AUTO_INCREMENT, v INTEGER, PRIMARY KEY id)",
	"CREATE TABLE t(id INTEGER, v INTEGER, PRIMARY KEY id)",
	"INSERT INTO a(v) VALUES (0)",
	"INSERT INTO t(id,v) VALUES (1,1)",
}

func prog(path []int) string {
	s := make([]string, len(path))
	for i, o := range path {
		s[i] = opName[o]
	}
	return "[" + strings.Join(s, "; ") + "]"
}

// ---------- reference interpreter ----------

type tbl map[int64]int64

func (t tbl) String() string {
	ks := make([]int64, 0, len(t))
	for k := range t {
		ks = append(ks, k)
	}
	sort.Slice(ks, func(i, j int) bool { return ks[i] < ks[j] })
	s := make([]string, len(ks))
	for i, k := range ks {
		s[i] = fmt.Sprintf("%d:%d", k, t[k])
	}
	return "[" + strings.Join(s, " ") + "]"
}

func (t tbl) clone() tbl {
	n := make(tbl, len(t))
	for k, v := range t {
		n[k] = v
	}
	return n
}

const (
	uAbsent = iota
	uPresent
	uUnknown // no longer modelled (only reachable in quirk variants)
)

type db struct {
	a, t     tbl
	tomb     map[int64]bool // keys of t whose last change by the OPEN transaction is a delete (quirk 2)
	u        int
	uNew     bool // u was created by the open transaction (quirk 3)
	tUnknown bool // t is no longer modelled (a COMMIT succeeded after an outside write)
}

func (d db) clone() db {
	n := d
	n.a, n.t = d.a.clone(), d.t.clone()
	n.tomb = map[int64]bool{}
	for k := range d.tomb {
		n.tomb[k] = true
	}
	return n
}

func (d db) same(o db) bool {
	return d.a.String() == o.a.String() && d.t.String() == o.t.String() && d.u == o.u && len(d.tomb) == len(o.tomb)
}

// Quirks = confirmed defects of the implementation, kept as switches so that exploration continues past them.
const (
	qKeepWrites      = 1 << iota // ROLLBACK TO SAVEPOINT restores the counters only, all writes (and DDL) stay
	qInsAfterDel                 // INSERT of a key deleted earlier in the same transaction fails "key already exists"
	qDDLNotQueryable             // a table created in the open transaction cannot be queried by it ("index not found")
	qLazySnapshot                // snapshots are taken per table at first access: a commit of another tx is seen for one table only
	nVariants        = 1 << iota
)

var quirkSig = map[int]string{qKeepWrites: "savepoint-rollback-keeps-writes", qInsAfterDel: "insert-after-own-delete-fails", qDDLNotQueryable: "own-created-table-not-queryable",
	qLazySnapshot: "snapshot-not-atomic-across-tables"}

const (
	spAbsent = iota
	spPresent
	spUndefined // existence differs between PostgreSQL/standard and immudb and is not defined by the property
)

type savept struct {
	seq         int
	snap        db
	upd         int
	first, last int64
	updUnknown  bool
}

type txm struct {
	w           db
	upd         int
	first, last int64 // generated keys of table a (0 = none)
	updUnknown  bool  // counters depend on what the tx saw of an outside write
	sp          map[string]*savept
	status      map[string]int
	dup         map[string]bool
	seq         int
	// An outside transaction committed while this tx was open ("tainted"): the property fixes ONE snapshot but not
	// when it is taken, so the tx may see all of the outside transaction or nothing of it (never a part, never
	// first one and then the other). t is compared only while the tx has not touched it.
	tainted  bool
	touchedT bool
	saw      int // 0 not yet determined, 1 snapshot before the outside commit, 2 after
}

func newTxm(c db) *txm {
	return &txm{w: c.clone(), sp: map[string]*savept{}, status: map[string]int{}, dup: map[string]bool{}}
}

type model struct {
	q       int
	c       db
	tx      *txm
	firstAt map[int]int // quirk -> index of the first statement where it changed the outcome
}

func newModel(q int) *model {
	return &model{q: q, c: db{a: tbl{1: 0}, t: tbl{1: 1}, tomb: map[int64]bool{}}, firstAt: map[int]int{}}
}

func (m *model) activate(q, idx int) {
	if _, ok := m.firstAt[q]; !ok {
		m.firstAt[q] = idx
	}
}

type outcome struct {
	err       int  // expected statement result: 0 success, 1 error, 2 either (follow the engine)
	leaf      bool // protocol error / undefined / not modelled afterwards: the program is not extended
	undefined bool // savepoint whose existence the property does not define: compare the outside view only
	closed    *txm // transaction committed by this statement
	collision bool // the reported generated key already exists
}

// step applies statement op (index idx of the program). engErr / key are what the engine reported (used
// only where the reference accepts either result, and for the generated key).
func (m *model) step(op, idx int, engErr bool, key int64) (o outcome) {
	auto := m.tx == nil
	switch {
	case auto && op == opBegin:
		m.tx = newTxm(m.c)
		return
	case auto && op >= opSp1 && op <= opRollback:
		return outcome{err: 1, leaf: true} // no ongoing transaction
	case !auto && op == opBegin:
		m.tx = nil // nested transactions are an error, and an error aborts the transaction
		return outcome{err: 1, leaf: true}
	}
	x := m.tx
	if auto {
		x = newTxm(m.c)
	}
	publish := func() {
		m.c = x.w
		m.c.tomb, m.c.uNew = map[int64]bool{}, false
		m.tx = nil
		o.closed = x
	}
	abort := func(leaf bool) outcome { m.tx = nil; return outcome{err: 1, leaf: leaf} }
	later := func(s *savept) { // savepoints established after s: destroyed in PostgreSQL, kept by immudb
		for n, o := range x.sp {
			if o.seq > s.seq && x.status[n] == spPresent {
				x.status[n] = spUndefined
			}
		}
	}
	switch op {
	case opCommit:
		if x.tainted {
			o.err = 2
			if engErr {
				m.tx = nil
				return
			}
			x.w.tUnknown, o.leaf = true, true
			x.w.a[1] = 50 // no statement of the alphabet writes a[1]: the outside value stays
		}
		publish()
		return
	case opRollback:
		m.tx = nil
		return
	case opOutside:
		m.c.a[1], m.c.t[1] = 50, 99
		x.tainted = true
		if m.q&qLazySnapshot != 0 {
			m.activate(qLazySnapshot, idx)
		}
		return
	case opSp1, opSp2:
		n := []string{"s1", "s2"}[op-opSp1]
		if x.status[n] != spAbsent {
			x.dup[n] = true // PostgreSQL keeps the older one shadowed, the standard and immudb replace it
		}
		x.seq++
		x.sp[n] = &savept{seq: x.seq, snap: x.w.clone(), upd: x.upd, first: x.first, last: x.last, updUnknown: x.updUnknown}
		x.status[n] = spPresent
		return
	case opRb1, opRb2, opRel1:
		n := "s1"
		if op == opRb2 {
			n = "s2"
		}
		switch x.status[n] {
		case spAbsent:
			return abort(true)
		case spUndefined:
			return outcome{err: 2, leaf: true, undefined: true}
		}
		s := x.sp[n]
		later(s)
		if op == opRel1 {
			x.status[n] = spAbsent
			if x.dup[n] {
				x.status[n] = spUndefined
			}
			return
		}
		if m.q&qKeepWrites == 0 {
			x.w = s.snap.clone()
		} else if !x.w.same(s.snap) {
			m.activate(qKeepWrites, idx)
			if x.w.u != s.snap.u {
				x.w.u = uUnknown // the kept DDL is written at COMMIT but the catalog cache is not invalidated
			}
		}
		x.upd, x.first, x.last, x.updUnknown = s.upd, s.first, s.last, s.updUnknown
		x.status[n] = spUndefined // PostgreSQL keeps it, immudb deletes it
		return
	}
	// DML / DDL
	ok := true
	if op >= opIns1 && op <= opDel1 {
		x.touchedT = true
	}
	if x.tainted && op >= opIns1 && op <= opDel1 {
		o.err, x.updUnknown = 2, true
		ok = !engErr
	}
	ins := func(id, v int64) {
		if _, exists := x.w.t[id]; exists && o.err != 2 {
			ok = false
		} else if x.w.tomb[id] && m.q&qInsAfterDel != 0 && o.err != 2 {
			m.activate(qInsAfterDel, idx)
			ok = false
		}
		if ok {
			x.w.t[id] = v
			delete(x.w.tomb, id)
			x.upd++
		}
	}
	switch op {
	case opInsA:
		if engErr {
			break // no key to apply; the result mismatch is reported by the caller (expected: success)
		}
		if _, exists := x.w.a[key]; exists || key <= 0 {
			o.collision = true
		}
		x.w.a[key] = 1
		if x.first == 0 {
			x.first = key
		}
		x.last = key
		x.upd++
	case opIns1:
		ins(1, 3)
	case opIns2:
		ins(2, 2)
	case opUps1:
		if ok {
			x.w.t[1] = 7
			delete(x.w.tomb, 1)
			x.upd++
		}
	case opUpd:
		if ok {
			for k := range x.w.t {
				x.w.t[k] += 10
				x.upd++
			}
		}
	case opDel1:
		if _, exists := x.w.t[1]; exists && ok {
			delete(x.w.t, 1)
			x.w.tomb[1] = true
			x.upd++
		}
	case opDDL:
		switch x.w.u {
		case uPresent:
			ok = false
		case uUnknown:
			return outcome{err: 2, leaf: true, undefined: true}
		default:
			x.w.u, x.w.uNew = uPresent, true
			if !auto && m.q&qDDLNotQueryable != 0 {
				m.activate(qDDLNotQueryable, idx)
			}
		}
	}
	if !ok {
		if o.err != 2 {
			o.err = 1
		}
		if !auto {
			m.tx = nil // the failing statement aborts the whole transaction
		}
		return
	}
	if auto {
		publish()
	}
	return
}

// expected views, in the format of (*harness).view
func (d db) viewU(inTx bool, q int) string {
	switch {
	case d.u == uUnknown:
		return "?"
	case d.u == uAbsent:
		return "absent"
	case inTx && d.uNew && q&qDDLNotQueryable != 0:
		return "index-not-found"
	}
	return "[]"
}

// ---------- engine side ----------

func openEngine(dir string) (*store.ImmuStore, *sql.Engine) {
	so := store.DefaultOptions().WithSynced(false).WithMultiIndexing(true).
		WithLogger(logger.NewMemoryLoggerWithLevel(logger.LogError)).
		WithFileSize(1 << 14).WithMaxTxEntries(32).WithMaxKeyLen(256).WithMaxValueLen(256).WithMaxConcurrency(4).
		WithMaxActiveTransactions(8).WithTxLogCacheSize(8).WithVLogCacheSize(0).WithWriteBufferSize(4096).
		WithAHTOptions(store.DefaultAHTOptions().WithWriteBufferSize(4096).WithSyncThld(64)).
		WithIndexOptions(store.DefaultIndexOptions().WithFlushBufferSize(4096).WithCacheSize(64))
	st, err := store.Open(dir, so)
	if err != nil {
		panic(err)
	}
	e, err := sql.NewEngine(st, sql.DefaultOptions().WithPrefix([]byte("s")))
	if err != nil {
		panic(err)
	}
	return st, e
}

var ctx = context.Background()

// The fixture (both tables, one committed row each) is built once through the engine, closed, and copied
// file by file for every program: same content as a fresh store + setup, half the cost.
var (
	templateOnce sync.Once
	templateDir  string
)

func freshFixture() string {
	templateOnce.Do(func() {
		templateDir = lib.Scratch("c13-template")
		st, e := openEngine(templateDir)
		for _, q := range setup {
			if _, _, err := e.Exec(ctx, nil, q, nil); err != nil {
				panic(err)
			}
		}
		if err := st.Close(); err != nil {
			panic(err)
		}
	})
	dir := lib.Scratch("c13")
	if err := os.CopyFS(dir, os.DirFS(templateDir)); err != nil {
		panic(err)
	}
	return dir
}

func query(e *sql.Engine, tx *sql.SQLTx, q string) (string, error) {
	r, err := e.Query(ctx, tx, q, nil)
	if err != nil {
		return "", err
	}
	defer r.Close()
	rows, err := sql.ReadAllRows(ctx, r)
	if err != nil {
		return "", err
	}
	s := make([]string, len(rows))
	for i, row := range rows {
		cs := make([]string, len(row.ValuesByPosition))
		for j, v := range row.ValuesByPosition {
			cs[j] = fmt.Sprint(v.RawValue())
		}
		s[i] = strings.Join(cs, ":")
	}
	return "[" + strings.Join(s, " ") + "]", nil
}

type views struct{ a, t, u string }

func view(e *sql.Engine, tx *sql.SQLTx) (v views) {
	var err error
	if v.a, err = query(e, tx, "SELECT id, v FROM a ORDER BY id"); err != nil {
		v.a = "ERR " + err.Error()
	}
	if v.t, err = query(e, tx, "SELECT id, v FROM t ORDER BY id"); err != nil {
		v.t = "ERR " + err.Error()
	}
	v.u, err = query(e, tx, "SELECT id FROM u")
	switch {
	case errors.Is(err, sql.ErrTableDoesNotExist):
		v.u = "absent"
	case errors.Is(err, store.ErrIndexNotFound) || errors.Is(err, sql.ErrIndexNotFound):
		v.u = "index-not-found"
	case err != nil:
		v.u = "ERR " + err.Error()
	}
	return
}

func pk(m map[string]int64) int64 { return m["a"] }

// ---------- one program ----------

const (
	modeAll = iota
	modeLast
)

var modeName = []string{"all", "last"}

type replay struct {
	Front string `json:"front"`
	Mode  int    `json:"mode"`
	Path  []int  `json:"path"`
}

// candidates = the 2^4 reference variants still consistent with everything observed in this run
type candidates struct {
	m        [nVariants]*model
	alive    [nVariants]bool
	why      [nVariants]string
	reported map[int]bool
}

func newCandidates() *candidates {
	cs := &candidates{reported: map[int]bool{}}
	for q := range cs.m {
		cs.m[q], cs.alive[q] = newModel(q), true
	}
	return cs
}

// settle is called after a comparison round: fail(q) returned "" or why variant q is refuted. It reports the
// violation(s) and returns false when no variant is left.
func (cs *candidates) settle(kind string, front string, mode int, path []int, k int, fail func(q int, m *model) string) bool {
	for q, m := range cs.m {
		if cs.alive[q] {
			if w := fail(q, m); w != "" {
				cs.alive[q], cs.why[q] = false, kind+": "+w
			}
		}
	}
	if cs.alive[0] {
		return true
	}
	best := -1
	for q := 1; q < nVariants; q++ {
		if cs.alive[q] && (best < 0 || popcount(q) < popcount(best)) {
			best = q
		}
	}
	rp := replay{front, mode, path[:k+1]}
	if best < 0 {
		c.Violate(lib.Violation{Sig: fmt.Sprintf("%s program=%s mode=%s front=%s", kind, prog(path[:k+1]), modeName[mode], front),
			Detail: fmt.Sprintf("after statement %d (%s): specification variant refuted by: %s\nno known-defect variant explains the run either: %v",
				k+1, opName[path[k]], cs.why[0], cs.why[1:]), Replay: rp})
		return false
	}
	for q := 1; q < nVariants; q <<= 1 {
		at, activated := cs.m[best].firstAt[q]
		if best&q != 0 && activated && !cs.reported[q] {
			cs.reported[q] = true
			reportKnownDefect(q, lib.Violation{Sig: fmt.Sprintf("%s program=%s", quirkSig[q], prog(path[:at+1])),
				Detail: fmt.Sprintf("observed in %s (mode %s, front %s) after statement %d: the run equals the reference variant with defect(s) %s and differs from the specification: %s",
					prog(path[:k+1]), modeName[mode], front, k+1, quirkNames(best), cs.why[0]), Replay: replay{front, mode, path[:k+1]}}, at+1, front != "engine")
		}
	}
	return true
}

// A known defect shows in thousands of programs. They are collected and, at the end of every level of the
// search (flushKnownDefects), only the witnesses of minimal length per defect become violations (all of that
// length, in sorted order => deterministic); the longer ones are counted. Reports of the wire fronts (which run
// next to the engine phase) are held back until the engine phase is complete.
type pendingDefect struct {
	q, n int
	v    lib.Violation
}

var (
	pendMu  sync.Mutex
	pending []pendingDefect
	held    []pendingDefect
	minLen  = map[int]int{}
)

func reportKnownDefect(q int, v lib.Violation, n int, hold bool) {
	pendMu.Lock()
	if hold {
		held = append(held, pendingDefect{q, n, v})
	} else {
		pending = append(pending, pendingDefect{q, n, v})
	}
	pendMu.Unlock()
}

func flushKnownDefects(all bool) {
	pendMu.Lock()
	defer pendMu.Unlock()
	if all {
		pending, held = append(pending, held...), nil
	}
	sort.Slice(pending, func(i, j int) bool {
		if pending[i].n != pending[j].n {
			return pending[i].n < pending[j].n
		}
		return pending[i].v.Sig < pending[j].v.Sig
	})
	for _, p := range pending {
		if m, ok := minLen[p.q]; !ok || p.n <= m {
			minLen[p.q] = p.n
			c.Violate(p.v)
		} else {
			c.Add("longer_programs_showing_"+quirkSig[p.q], 1)
		}
	}
	pending = nil
}

func popcount(q int) (n int) {
	for ; q != 0; q &= q - 1 {
		n++
	}
	return
}

func quirkNames(q int) string {
	var s []string
	for b := 1; b < nVariants; b <<= 1 {
		if q&b != 0 {
			s = append(s, quirkSig[b])
		}
	}
	return strings.Join(s, "+")
}

// cmpIn compares the view inside the open transaction x (reference variant q).
func (x *txm) cmpIn(got views, q int) string {
	if !x.tainted {
		return cmpViews(got, x.w, true, q, false)
	}
	// two admissible snapshots: before (1) / after (2) the outside commit, each with the tx's own changes on top
	after := x.w.clone()
	after.a[1] = 50
	if !x.touchedT {
		after.t[1] = 99
	}
	fits := func(d db) bool { return cmpViews(got, d, true, q, x.touchedT) == "" }
	if q&qLazySnapshot != 0 { // defect variant: every table may be before or after on its own; t is not compared
		if w := cmpViews(views{a: got.a, t: got.t, u: got.u}, x.w, true, q, true); w != "" && cmpViews(got, after, true, q, true) != "" {
			return w
		}
		return ""
	}
	s := 0
	switch {
	case fits(x.w):
		s = 1
	case fits(after):
		s = 2
	default:
		return fmt.Sprintf("the view a=%s t=%s is neither the snapshot before the outside commit (a=%s t=%s) nor the one after it (a=%s t=%s) (+ own changes)", got.a, got.t, x.w.a, x.w.t, after.a, after.t)
	}
	if x.touchedT && x.w.a.String() == after.a.String() {
		return "" // cannot tell the snapshots apart
	}
	if x.saw != 0 && x.saw != s {
		return fmt.Sprintf("the snapshot changed inside the transaction: first %d then %d (1 = before, 2 = after the outside commit)", x.saw, s)
	}
	x.saw = s
	return ""
}

func cmpViews(got views, d db, inTx bool, q int, skipT bool) string {
	var w []string
	if got.a != d.a.String() {
		w = append(w, fmt.Sprintf("a=%s want %s", got.a, d.a))
	}
	if !skipT && !d.tUnknown && got.t != d.t.String() {
		w = append(w, fmt.Sprintf("t=%s want %s", got.t, d.t))
	}
	if wu := d.viewU(inTx, q); wu != "?" && got.u != wu {
		w = append(w, fmt.Sprintf("u=%s want %s", got.u, wu))
	}
	return strings.Join(w, ", ")
}

// runEngine executes path on a fresh store+engine in the given observation mode.
func runEngine(mode int, path []int) (stop bool) {
	stop, _ = runEngine2(mode, path)
	return
}

func runEngine2(mode int, path []int) (stop, notApplicable bool) {
	dir := freshFixture()
	defer os.RemoveAll(dir)
	st, e := openEngine(dir)
	defer func() { st.Close() }()
	cs := newCandidates()
	var tx *sql.SQLTx
	for k, op := range path {
		last := k == len(path)-1
		if op == opOutside && tx == nil {
			c.Add("not_applicable_outside_write_without_open_tx", 1)
			return true, true
		}
		var ntx *sql.SQLTx
		var ctxs []*sql.SQLTx
		var err error
		if op == opOutside {
			_, _, err = e.Exec(ctx, nil, sqlText[op], nil)
			ntx = tx
		} else {
			ntx, ctxs, err = e.Exec(ctx, tx, sqlText[op], nil)
		}
		engErr := err != nil
		var key int64
		if op == opInsA && !engErr {
			if ntx != nil {
				key = pk(ntx.LastInsertedPKs())
			} else if len(ctxs) > 0 {
				key = pk(ctxs[len(ctxs)-1].LastInsertedPKs())
			}
		}
		wasOpen := tx != nil
		tx = ntx
		if m := cs.m[firstAlive(cs)]; op == opCommit && m.tx != nil && m.tx.tainted && !engErr {
			c.Add("commits_succeeded_after_outside_write", 1)
		}
		var oc [nVariants]outcome
		alive := cs.settle("stmt-result-mismatch", "engine", mode, path, k, func(q int, m *model) string {
			o := m.step(op, k, engErr, key)
			oc[q] = o
			switch {
			case o.err != 2 && (o.err == 1) != engErr:
				return fmt.Sprintf("%s returned err=%v, reference expects error=%v", opName[op], err, o.err == 1)
			case o.undefined:
				return ""
			case (m.tx != nil) != (tx != nil):
				return fmt.Sprintf("%s (err=%v) left a transaction open=%v, reference open=%v", opName[op], err, tx != nil, m.tx != nil)
			}
			return ""
		})
		if !alive {
			return true, false
		}
		alive = cs.settle("updated-rows-mismatch", "engine", mode, path, k, func(q int, m *model) string {
			if o := oc[q]; o.closed != nil && !o.closed.updUnknown && !o.undefined {
				if len(ctxs) != 1 {
					return fmt.Sprintf("%d committed transactions reported, want 1", len(ctxs))
				}
				if g := ctxs[0].UpdatedRows(); g != o.closed.upd {
					return fmt.Sprintf("committed tx UpdatedRows()=%d, reference applied %d", g, o.closed.upd)
				}
			}
			if m.tx != nil && tx != nil && !m.tx.updUnknown && !oc[q].undefined && tx.UpdatedRows() != m.tx.upd {
				return fmt.Sprintf("open tx UpdatedRows()=%d, reference applied %d", tx.UpdatedRows(), m.tx.upd)
			}
			return ""
		})
		if !alive {
			return true, false
		}
		alive = cs.settle("generated-key-mismatch", "engine", mode, path, k, func(q int, m *model) string {
			o := oc[q]
			if o.collision {
				return fmt.Sprintf("generated key %d is not a fresh key", key)
			}
			if o.closed != nil && !o.undefined && len(ctxs) == 1 {
				if f, l := pk(ctxs[0].FirstInsertedPKs()), pk(ctxs[0].LastInsertedPKs()); f != o.closed.first || l != o.closed.last {
					return fmt.Sprintf("committed tx first/last inserted pk of a = %d/%d, reference %d/%d", f, l, o.closed.first, o.closed.last)
				}
			}
			if m.tx != nil && tx != nil && !o.undefined {
				if f, l := pk(tx.FirstInsertedPKs()), pk(tx.LastInsertedPKs()); f != m.tx.first || l != m.tx.last {
					return fmt.Sprintf("open tx first/last inserted pk of a = %d/%d, reference %d/%d", f, l, m.tx.first, m.tx.last)
				}
			}
			return ""
		})
		if !alive {
			return true, false
		}
		o0 := oc[firstAlive(cs)]
		if o0.undefined {
			c.Add("undefined_savepoint_lifetime_or_catalog_leaves", 1)
			if engErr {
				c.Add("undefined_savepoint_use_rejected_by_engine", 1)
			}
		}
		if mode == modeAll || last || o0.leaf {
			if tx != nil && !o0.undefined {
				in := view(e, tx)
				if !cs.settle("own-write-not-visible", "engine", mode, path, k, func(q int, m *model) string {
					if m.tx == nil {
						return ""
					}
					return m.tx.cmpIn(in, q)
				}) {
					return true, false
				}
			}
			out := view(e, nil)
			kind := "rollback-left-effects"
			switch {
			case tx != nil:
				kind = "tx-visible-outside"
			case !engErr && (op == opCommit || !wasOpen):
				kind = "commit-mismatch"
			}
			if !cs.settle(kind, "engine", mode, path, k, func(q int, m *model) string { return cmpViews(out, m.c, false, q, false) }) {
				return true, false
			}
		}
		note(op, wasOpen, engErr)
		if o0.leaf {
			return true, false
		}
	}
	// abandoned transaction (closed session) + restart
	k := len(path) - 1
	stillOpen := tx != nil
	if tx != nil {
		if err := tx.Cancel(); err != nil {
			c.Violate(lib.Violation{Sig: "cancel-error program=" + prog(path), Detail: err.Error(), Replay: replay{"engine", mode, path}})
			return true, false
		}
		c.Add("abandoned_open_tx_cancelled", 1)
		out := view(e, nil)
		if !cs.settle("rollback-left-effects", "engine", mode, path, k, func(q int, m *model) string {
			m.tx = nil
			if w := cmpViews(out, m.c, false, q, false); w != "" {
				return "after Cancel of the open transaction: " + w
			}
			return ""
		}) {
			return true, false
		}
	}
	// restart check: once per program (mode "last"), and only when the last statement closed a transaction or
	// changed the committed state (otherwise the on-disk state was already checked for the prefix)
	lastOp := path[k]
	if mode == modeAll || (stillOpen && lastOp != opOutside) {
		return false, false
	}
	c.Add("restart_checks", 1)
	if err := st.Close(); err != nil {
		panic(err)
	}
	st, e = openEngine(dir)
	out := view(e, nil)
	return !cs.settle("reopen-mismatch", "engine", mode, path, k, func(q int, m *model) string {
		if w := cmpViews(out, m.c, false, q, false); w != "" {
			return "after close + reopen: " + w
		}
		return ""
	}), false
}

func firstAlive(cs *candidates) int {
	for q, a := range cs.alive {
		if a {
			return q
		}
	}
	return 0
}

// note counts what the explored programs exercised (non-vacuity numbers).
func note(op int, wasOpen, engErr bool) {
	switch {
	case op == opCommit && wasOpen && engErr:
		c.Add("failed_commits", 1)
	case op == opCommit && wasOpen:
		c.Add("commits", 1)
	case op == opRollback && wasOpen:
		c.Add("rollbacks", 1)
	case (op == opRb1 || op == opRb2) && wasOpen && !engErr:
		c.Add("rollbacks_to_savepoint", 1)
	case wasOpen && engErr && op != opOutside:
		c.Add("tx_aborted_by_failing_statement", 1)
	case !wasOpen && engErr:
		c.Add("failing_autocommit_statements", 1)
	}
}

func main() {
	c = lib.New("C13", "model_checking", 140*time.Second, 25*time.Minute)
	if sched.IsWorker() {
		sqlconc.Phase(c, "C13", 0, 1) // shard worker of the concurrent-sessions phase: does not return
	}
	if c.ReplayPath != "" {
		var sr struct {
			Scenario string `json:"scenario"`
		}
		c.LoadReplay(&sr)
		if sr.Scenario != "" {
			sqlconc.Phase(c, "C13", 0, 1) // schedule replay: does not return
		}
	}
	fullDeadline := c.Deadline
	c.Deadline = c.Start.Add(fullDeadline.Sub(c.Start) * 65 / 100) // the sequential phases get 65% of the budget
	debug.SetGCPercent(50) // measured: fresh stores allocate large zeroed buffers, a small heap avoids page faults
	c.Assume("sequential part only: one session drives the transaction, a second session only through the single atomic 'outside:' transaction; real concurrency is the scheduler phase")
	c.Assume("the property fixes one snapshot per transaction but not the moment it is taken: after an outside commit the transaction may see all of it or nothing of it (then consistently); a COMMIT after an outside commit may fail or succeed")
	c.Assume("a failing statement aborts the whole transaction (Engine.execPreparedStmts cancels it); the caller continues with the *SQLTx returned by Exec")
	c.Assume("the value of a generated key is not predicted (not defined by the property): the reported key is applied to the reference and must be fresh and present afterwards")
	c.Assume("savepoint existence after ROLLBACK TO / RELEASE of an EARLIER or the SAME savepoint, and of a re-declared name after RELEASE, is not defined by the property: such uses are executed, the outside view is compared, the program is not extended")
	if c.ReplayPath != "" {
		c.ReplayPath, _ = filepath.Abs(c.ReplayPath)
	}
	cwd := lib.Scratch("c13-cwd") // the pgsql server's embedded client writes .state-* / .identity-* files into the cwd
	os.Chdir(cwd)
	cleanup := func() { // c.Finish exits the process
		os.Chdir("/")
		os.RemoveAll(cwd)
		if templateDir != "" {
			os.RemoveAll(templateDir)
		}
	}
	if c.ReplayPath != "" {
		var r replay
		c.LoadReplay(&r)
		runFront(r)
		flushKnownDefects(true)
		c.AddEvals(1)
		c.AddStates(1, 1)
		cleanup()
		c.Finish("replay of one recorded program", false)
	}
	// two sessions, sequentially interleaved, with DDL committed by the second one (package sqlconc, twosess.go)
	{
		d, share := 4, 30
		if c.Thorough() {
			d = 5
		}
		seqDeadline := c.Deadline
		c.Deadline = c.Start.Add(fullDeadline.Sub(c.Start) * time.Duration(share) / 100)
		sqlconc.TwoSessions(c, "C13", d, nil)
		c.Deadline = seqDeadline
	}
	// engine front: every program up to fullDepth; one more statement (lastOps) for programs that start with BEGIN
	fullDepth, extra, lastOps, frontLen := 4, []int{modeLast}, []int{opCommit, opRollback}, 3
	if c.Thorough() {
		fullDepth, extra, lastOps, frontLen = 5, []int{modeLast, modeAll}, allOps, 4
	}
	// the wire front-ends run their programs sequentially on their own server, next to the engine phase
	var wg sync.WaitGroup
	wg.Add(1)
	ts := startServer()
	go func() { defer wg.Done(); phaseFrontends(ts, frontLen) }()
	phaseEngine(fullDepth, extra, lastOps)
	wg.Wait()
	flushKnownDefects(true)
	// concurrent sessions under the controlled scheduler (engine E1, package sqlconc)
	seqDone := !c.Expired()
	c.Deadline = fullDeadline
	bound, each := 1, 15*time.Second
	if c.Thorough() {
		bound, each = 2, 120*time.Second
	}
	sqlconc.Phase(c, "C13", each, bound)
	if !seqDone {
		c.CapHit("sequential phases stopped at their share of the time budget")
	}
	cleanup()
	c.Finish(fmt.Sprintf("engine front: every program over the %d-statement alphabet up to engine_full_depth_completed statements, plus the programs starting with BEGIN extended by one more statement (quick: COMMIT/ROLLBACK; thorough: any), each on a fresh store through sql.Engine.Exec in the observation modes all/last, against the reference interpreter: statement results, affected rows, generated keys, in-transaction view and outside view after every statement, Cancel of an abandoned transaction, close+reopen. Wire fronts (pgwire, session): every program over the 11-statement sub-alphabet up to front_*_length_completed. Two-sessions front: every sequential interleaving up to two_sessions_depth_completed statements of a session holding a read-write transaction with a session committing DDL/DML in autocommit, fresh engine per sequence, committed catalog and rows compared after the sequence and after reopen. distinct = (front/mode, program) pairs executed", nOps), !c.Expired())
}

func runFront(r replay) bool {
	switch r.Front {
	case "engine", "":
		return runEngine(r.Mode, r.Path)
	}
	return runOtherFront(r)
}

// phaseEngine: breadth-first over program length (= iterative deepening without re-running shorter programs):
// level d runs every one-statement extension of the programs of level d-1 that were not stopped. Lengths up
// to fullDepth: every program, modes all + last. Length fullDepth+1: only programs whose first statement is
// BEGIN (one transaction from the start), extended by lastOps only (quick: COMMIT / ROLLBACK, i.e. every
// transaction body of fullDepth-1 statements is also committed and rolled back; thorough: every statement).
func phaseEngine(fullDepth int, extraModes []int, lastOps []int) {
	c.Set("alphabet", strings.Join(opName[:], ", "))
	c.Set("engine_full_depth_target", fullDepth)
	c.Set("engine_begin_first_depth_target", fullDepth+1)
	frontier := [][][]int{{{}}, {{}}} // per mode
	level := func(d, mode int, fr [][]int, ops []int, what string) bool {
		nOps := len(ops)
		next := make([][]int, len(fr)*nOps)
		var done, ran atomic.Int64
		c.ParallelFor(len(fr)*nOps, func(i int) {
			if c.Expired() {
				return
			}
			path := append(append(make([]int, 0, d), fr[i/nOps]...), ops[i%nOps])
			var stop, na bool
			if p := lib.Catch(func() { stop, na = runEngine2(mode, path) }); p != "" {
				c.Violate(lib.Violation{Sig: fmt.Sprintf("panic program=%s mode=%s", prog(path), modeName[mode]), Detail: p, Replay: replay{"engine", mode, path}})
				stop = true
			}
			done.Add(1)
			if na {
				return
			}
			ran.Add(1)
			c.Eval(modeName[mode] + prog(path))
			c.AddStates(1, 1)
			if !stop {
				next[i] = path
				if i%4999 == 0 {
					c.Sample(map[string]any{"mode": modeName[mode], "program": prog(path)})
				}
			}
		})
		if c.Expired() {
			c.CapHit(fmt.Sprintf("engine front: time budget reached at length %d (%s) mode %s after %d of %d candidate programs", d, what, modeName[mode], done.Load(), len(fr)*nOps))
			return false
		}
		flushKnownDefects(false)
		c.Set(fmt.Sprintf("engine_programs_length_%d_%s_mode_%s", d, what, modeName[mode]), ran.Load())
		frontier[mode] = frontier[mode][:0]
		for _, p := range next {
			if p != nil {
				frontier[mode] = append(frontier[mode], p)
			}
		}
		return true
	}
	for d := 1; d <= fullDepth; d++ {
		for mode := modeAll; mode <= modeLast; mode++ {
			if !level(d, mode, frontier[mode], allOps, "all") {
				return
			}
		}
		c.Set("engine_full_depth_completed", d)
	}
	for _, mode := range extraModes {
		var fr [][]int
		for _, p := range frontier[mode] {
			if p[0] == opBegin {
				fr = append(fr, p)
			}
		}
		if !level(fullDepth+1, mode, fr, lastOps, "begin-first") {
			return
		}
		c.Set("engine_begin_first_depth_completed_mode_"+modeName[mode], fullDepth+1)
	}
}
