package main

func phaseFrontends() {}

func runOtherFront(r replay) bool { return true }
