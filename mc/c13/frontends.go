// Further front-ends of C13, smaller bound: the same reference interpreter, programs over the 11-statement
// sub-alphabet frontOps (no DDL, no second session), length <= 3 (quick) / 4 (thorough), executed
// SEQUENTIALLY on ONE in-process immudb server (auth on, pgsql on):
//
//	pgwire   PostgreSQL wire protocol over loopback TCP with github.com/lib/pq, one statement per simple query;
//	session  server-side session transactions over gRPC: NewTx / TxSQLExec / TxSQLQuery / Commit / Rollback,
//	         statements outside a transaction through SQLExec; after a failing TxSQLExec the client drops the
//	         transaction id (the server has deleted the transaction) and continues in autocommit.
//
// The tables are reset between programs (the server and the store are reused), therefore generated keys are
// not compared: table a is compared as the list of its v values. Compared: error / no error of every
// statement, the views after every statement (session: inside via TxSQLQuery + outside; pgwire: inside on the
// same connection + outside on a second connection), UpdatedRows of Commit / SQLExec (session), the final
// tables after the cleanup ROLLBACK, and for the first programs that end inside a transaction a dedicated
// connection / session is closed instead (closed session => nothing visible).
package main

import (
	"context"
	dsql "database/sql"
	"database/sql/driver"
	"fmt"
	"io"
	"os"
	"strings"
	"time"

	"github.com/codenotary/immudb/embedded/logger"
	"github.com/codenotary/immudb/pkg/api/schema"
	"github.com/codenotary/immudb/pkg/auth"
	"github.com/codenotary/immudb/pkg/server"
	"github.com/codenotary/immudb/pkg/server/sessions"
	_ "github.com/lib/pq"
	"google.golang.org/grpc"
	"google.golang.org/grpc/credentials/insecure"
	"google.golang.org/grpc/metadata"
	"google.golang.org/protobuf/types/known/emptypb"
	"verif/mc/lib"
)

var frontOps = []int{opBegin, opInsA, opIns1, opIns2, opUps1, opUpd, opDel1, opSp1, opRb1, opCommit, opRollback}

const closedSessionCases = 24 // programs per front whose open transaction is ended by closing the session

// front = one way of talking to the server; errors are returned as err != nil only.
type front interface {
	name() string
	exec(op int, inTx bool) (err error, committedUpd int) // committedUpd < 0: not reported
	view(inTx bool) views                                 // a = v values only
	endSession(closeIt bool) error                        // closeIt: drop the connection/session with the tx open, then reconnect
}

type testServer struct {
	srv  *server.ImmuServer
	dir  string
	conn *grpc.ClientConn
	cl   schema.ImmuServiceClient
}

func startServer() *testServer {
	// the server prints a banner to stdout: silence it while starting
	stdout := os.Stdout
	if null, err := os.OpenFile(os.DevNull, os.O_WRONLY, 0); err == nil {
		os.Stdout = null
		defer func() { os.Stdout = stdout; null.Close() }()
	}
	dir := lib.Scratch("c13-srv")
	opts := server.DefaultOptions().WithDir(dir).WithPort(0).WithAddress("127.0.0.1").WithAuth(true).WithAdminPassword("immudb").
		WithMetricsServer(false).WithWebServer(false).WithPgsqlServer(true).WithPgsqlServerPort(0).WithSynced(false).
		WithLogFormat(logger.LogFormatJSON).                                                                                                         // json + no log file: no call-to-action banner on stdout
		WithSessionOptions(sessions.DefaultOptions().WithMaxSessionInactivityTime(24 * time.Hour).WithTimeout(24 * time.Hour).WithMaxSessions(1000)) // no wall-clock session expiry
	srv := server.DefaultServer().WithOptions(opts).WithLogger(logger.NewMemoryLoggerWithLevel(logger.LogError)).(*server.ImmuServer)
	if err := srv.Initialize(); err != nil {
		panic(err)
	}
	go srv.Start()
	time.Sleep(100 * time.Millisecond) // listeners are bound by Initialize; Serve loops only need to be scheduled
	conn, err := grpc.Dial(srv.Listener.Addr().String(), grpc.WithTransportCredentials(insecure.NewCredentials()))
	if err != nil {
		panic(err)
	}
	return &testServer{srv: srv, dir: dir, conn: conn, cl: schema.NewImmuServiceClient(conn)}
}

// stop: the process exits right after the phases; a graceful srv.Stop() only adds log noise
func (ts *testServer) stop() {
	ts.conn.Close()
	os.RemoveAll(ts.dir)
}

func (ts *testServer) openSession() context.Context {
	r, err := ts.cl.OpenSession(ctx, &schema.OpenSessionRequest{Username: []byte(auth.SysAdminUsername), Password: []byte("immudb"), DatabaseName: "defaultdb"})
	if err != nil {
		panic(err)
	}
	return metadata.AppendToOutgoingContext(ctx, "sessionid", r.SessionID)
}

// ----- gRPC session front -----

type sessionFront struct {
	ts   *testServer
	sctx context.Context // session
	tctx context.Context // session + open transaction
}

func (f *sessionFront) name() string { return "session" }

func (f *sessionFront) exec(op int, inTx bool) (error, int) {
	switch {
	case op == opBegin && !inTx:
		r, err := f.ts.cl.NewTx(f.sctx, &schema.NewTxRequest{Mode: schema.TxMode_ReadWrite})
		if err != nil {
			return err, -1
		}
		f.tctx = metadata.AppendToOutgoingContext(f.sctx, "transactionid", r.TransactionID)
		return nil, -1
	case op == opCommit && inTx:
		r, err := f.ts.cl.Commit(f.tctx, &emptypb.Empty{})
		if err != nil {
			return err, -1
		}
		return nil, int(r.UpdatedRows)
	case op == opRollback && inTx:
		_, err := f.ts.cl.Rollback(f.tctx, &emptypb.Empty{})
		return err, -1
	case inTx:
		_, err := f.ts.cl.TxSQLExec(f.tctx, &schema.SQLExecRequest{Sql: sqlText[op]})
		return err, -1
	}
	r, err := f.ts.cl.SQLExec(f.sctx, &schema.SQLExecRequest{Sql: sqlText[op]})
	if err != nil {
		return err, -1
	}
	if r.OngoingTx {
		return fmt.Errorf("SQLExec left a transaction open"), -1
	}
	if len(r.Txs) == 1 {
		return nil, int(r.Txs[0].UpdatedRows)
	}
	return nil, -1
}

func rowsToString(rows []*schema.Row) string {
	s := make([]string, len(rows))
	for i, r := range rows {
		cs := make([]string, len(r.Values))
		for j, v := range r.Values {
			cs[j] = fmt.Sprint(v.GetN())
		}
		s[i] = strings.Join(cs, ":")
	}
	return "[" + strings.Join(s, " ") + "]"
}

func (f *sessionFront) query(inTx bool, q string) string {
	if !inTx {
		r, err := f.ts.cl.UnarySQLQuery(f.sctx, &schema.SQLQueryRequest{Sql: q})
		if err != nil {
			return "ERR " + err.Error()
		}
		return rowsToString(r.Rows)
	}
	st, err := f.ts.cl.TxSQLQuery(f.tctx, &schema.SQLQueryRequest{Sql: q})
	if err != nil {
		return "ERR " + err.Error()
	}
	var rows []*schema.Row
	for {
		r, err := st.Recv()
		if err == io.EOF {
			return rowsToString(rows)
		}
		if err != nil {
			return "ERR " + err.Error()
		}
		rows = append(rows, r.Rows...)
	}
}

func (f *sessionFront) view(inTx bool) views {
	return views{a: f.query(inTx, "SELECT v FROM a ORDER BY id"), t: f.query(inTx, "SELECT id, v FROM t ORDER BY id")}
}

func (f *sessionFront) endSession(closeIt bool) error {
	if !closeIt {
		_, err := f.ts.cl.Rollback(f.tctx, &emptypb.Empty{})
		return err
	}
	_, err := f.ts.cl.CloseSession(f.sctx, &emptypb.Empty{})
	f.sctx = f.ts.openSession()
	return err
}

// ----- PostgreSQL wire front -----

type pgFront struct {
	ts       *testServer
	db       *dsql.DB
	in, out  *dsql.Conn
	dsn      string
	lastExec error
}

func newPgFront(ts *testServer) *pgFront {
	f := &pgFront{ts: ts, dsn: fmt.Sprintf("host=127.0.0.1 port=%d sslmode=disable user=immudb dbname=defaultdb password=immudb", ts.srv.PgsqlSrv.GetPort())}
	db, err := dsql.Open("postgres", f.dsn)
	if err != nil {
		panic(err)
	}
	f.db = db
	if f.in, err = db.Conn(ctx); err != nil {
		panic(err)
	}
	if f.out, err = db.Conn(ctx); err != nil {
		panic(err)
	}
	return f
}

func (f *pgFront) name() string { return "pgwire" }

func (f *pgFront) exec(op int, inTx bool) (error, int) {
	_, err := f.in.ExecContext(ctx, sqlText[op])
	return err, -1
}

func pgQuery(conn *dsql.Conn, q string, cols int) string {
	rows, err := conn.QueryContext(ctx, q)
	if err != nil {
		return "ERR " + err.Error()
	}
	defer rows.Close()
	var s []string
	for rows.Next() {
		vals := make([]int64, cols)
		ptrs := make([]any, cols)
		for i := range vals {
			ptrs[i] = &vals[i]
		}
		if err := rows.Scan(ptrs...); err != nil {
			return "ERR " + err.Error()
		}
		cs := make([]string, cols)
		for i, v := range vals {
			cs[i] = fmt.Sprint(v)
		}
		s = append(s, strings.Join(cs, ":"))
	}
	if err := rows.Err(); err != nil {
		return "ERR " + err.Error()
	}
	return "[" + strings.Join(s, " ") + "]"
}

func (f *pgFront) view(inTx bool) views {
	conn := f.out
	if inTx {
		conn = f.in
	}
	return views{a: pgQuery(conn, "SELECT v FROM a ORDER BY id", 1), t: pgQuery(conn, "SELECT id, v FROM t ORDER BY id", 2)}
}

func (f *pgFront) endSession(closeIt bool) error {
	if !closeIt {
		_, err := f.in.ExecContext(ctx, "ROLLBACK")
		return err
	}
	// drop the TCP connection with the transaction open
	// (ErrBadConn makes database/sql discard the dead connection instead of pooling it)
	f.in.Raw(func(dc any) error { dc.(io.Closer).Close(); return driver.ErrBadConn })
	f.in.Close()
	var err error
	if f.in, err = f.db.Conn(ctx); err != nil {
		panic(err)
	}
	return nil
}

// ----- driver -----

func vlist(t tbl) string { // v values in key order
	s := t.String()
	var out []string
	for _, kv := range strings.Fields(strings.Trim(s, "[]")) {
		out = append(out, kv[strings.Index(kv, ":")+1:])
	}
	return "[" + strings.Join(out, " ") + "]"
}

func cmpFrontViews(got views, d db, skip bool) string {
	var w []string
	if got.a != vlist(d.a) {
		w = append(w, fmt.Sprintf("a(v)=%s want %s", got.a, vlist(d.a)))
	}
	if got.t != d.t.String() {
		w = append(w, fmt.Sprintf("t=%s want %s", got.t, d.t))
	}
	return strings.Join(w, ", ")
}

// runFrontProgram executes path through f (tables already reset). closeSession: end an open transaction by
// closing the session instead of ROLLBACK.
func runFrontProgram(f front, ts *testServer, path []int, closeSession bool) (stop, endedInTx bool) {
	fn := f.name()
	cs := newCandidates()
	inTx := false
	for k, op := range path {
		err, upd := f.exec(op, inTx)
		engErr := err != nil
		wasOpen := inTx
		var key int64 // generated keys are not observable here: a fresh synthetic key keeps the reference going
		for q := range cs.m {
			m := cs.m[q]
			for kk := range m.c.a {
				key = max(key, kk)
			}
			if m.tx != nil {
				for kk := range m.tx.w.a {
					key = max(key, kk)
				}
			}
		}
		key++
		var oc [nVariants]outcome
		if !cs.settle("stmt-result-mismatch", fn, modeAll, path, k, func(q int, m *model) string {
			o := m.step(op, k, engErr, key)
			oc[q] = o
			if o.err != 2 && (o.err == 1) != engErr {
				return fmt.Sprintf("%s returned err=%v, reference expects error=%v", opName[op], err, o.err == 1)
			}
			return ""
		}) {
			return true, false
		}
		q0 := firstAlive(cs)
		inTx = cs.m[q0].tx != nil
		if !cs.settle("updated-rows-mismatch", fn, modeAll, path, k, func(q int, m *model) string {
			if o := oc[q]; o.closed != nil && upd >= 0 && upd != o.closed.upd {
				return fmt.Sprintf("committed tx UpdatedRows=%d, reference applied %d", upd, o.closed.upd)
			}
			return ""
		}) {
			return true, false
		}
		if oc[q0].undefined {
			return true, false
		}
		if inTx {
			in := f.view(true)
			if !cs.settle("own-write-not-visible", fn, modeAll, path, k, func(q int, m *model) string {
				if m.tx == nil {
					return "reference has no open transaction"
				}
				return cmpFrontViews(in, m.tx.w, false)
			}) {
				return true, false
			}
		}
		out := f.view(false)
		kind := "rollback-left-effects"
		switch {
		case inTx:
			kind = "tx-visible-outside"
		case !engErr && (op == opCommit || !wasOpen):
			kind = "commit-mismatch"
		}
		if !cs.settle(kind, fn, modeAll, path, k, func(q int, m *model) string { return cmpFrontViews(out, m.c, false) }) {
			return true, false
		}
		note(op, wasOpen, engErr)
		if oc[q0].leaf {
			return true, false
		}
	}
	if inTx {
		if err := f.endSession(closeSession); err != nil && !closeSession {
			c.Violate(lib.Violation{Sig: fmt.Sprintf("cleanup-rollback-error program=%s front=%s", prog(path), fn), Detail: err.Error(), Replay: replay{fn, modeAll, path}})
			return true, false
		}
		if closeSession {
			c.Add("closed_session_with_open_tx_"+fn, 1)
		}
		out := f.view(false)
		return !cs.settle("rollback-left-effects", fn, modeAll, path, len(path)-1, func(q int, m *model) string {
			m.tx = nil
			if w := cmpFrontViews(out, m.c, false); w != "" {
				return "after ending the session's open transaction (closed session=" + fmt.Sprint(closeSession) + "): " + w
			}
			return ""
		}), true
	}
	return false, false
}

var resetStmts = []string{"DELETE FROM t", "DELETE FROM a", "INSERT INTO a(v) VALUES (0)", "INSERT INTO t(id,v) VALUES (1,1)"}

func (ts *testServer) reset(sctx context.Context, first bool) {
	stmts := resetStmts
	if first {
		stmts = setup
	}
	for _, q := range stmts {
		if _, err := ts.cl.SQLExec(sctx, &schema.SQLExecRequest{Sql: q}); err != nil {
			panic(fmt.Sprintf("reset %q: %v", q, err))
		}
	}
}

// phaseFrontends: breadth-first over the sub-alphabet, sequentially, both fronts on one server.
func phaseFrontends(ts *testServer, maxLen int) {
	defer ts.stop()
	admin := ts.openSession()
	ts.reset(admin, true)
	fronts := []front{&sessionFront{ts: ts, sctx: ts.openSession()}, newPgFront(ts)}
	c.Set("frontends_alphabet", func() string {
		var s []string
		for _, o := range frontOps {
			s = append(s, opName[o])
		}
		return strings.Join(s, ", ")
	}())
	c.Set("frontends_length_target", maxLen)
	frontier := [][][]int{{{}}, {{}}} // per front
	closed := []int{0, 0}
	for d := 1; d <= maxLen; d++ { // both fronts finish length d before d+1
		for fi, f := range fronts {
			var next [][]int
			n := 0
			for _, p := range frontier[fi] {
				for _, op := range frontOps {
					if c.Expired() {
						c.CapHit(fmt.Sprintf("front %s: time budget reached at length %d after %d programs", f.name(), d, n))
						return
					}
					path := append(append(make([]int, 0, d), p...), op)
					ts.reset(admin, false)
					closeIt := closed[fi] < closedSessionCases && d >= 2
					var stop, inTx bool
					if pn := lib.Catch(func() { stop, inTx = runFrontProgram(f, ts, path, closeIt) }); pn != "" {
						c.Violate(lib.Violation{Sig: fmt.Sprintf("panic program=%s front=%s", prog(path), f.name()), Detail: pn, Replay: replay{f.name(), modeAll, path}})
						return
					}
					if closeIt && inTx {
						closed[fi]++
					}
					n++
					c.Eval(f.name() + prog(path))
					c.AddStates(1, 1)
					if !stop {
						next = append(next, path)
					}
				}
			}
			c.Set(fmt.Sprintf("front_%s_programs_length_%d", f.name(), d), n)
			c.Set(fmt.Sprintf("front_%s_length_completed", f.name()), d)
			frontier[fi] = next
		}
	}
}

func runOtherFront(r replay) bool {
	ts := startServer()
	defer ts.stop()
	admin := ts.openSession()
	ts.reset(admin, true)
	var f front = &sessionFront{ts: ts, sctx: ts.openSession()}
	if r.Front == "pgwire" {
		f = newPgFront(ts)
	}
	stop, _ := runFrontProgram(f, ts, r.Path, false)
	return stop
}
