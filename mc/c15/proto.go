package main

// Part C — pkg/api/schema SQL value conversions (row_value.go / sql.go), both directions, with the wire format
// in between: AsSQLValue -> RawValue, TypedValueToRowValue -> RawValue, EncodeParams -> NamedParamsFromProto.

import (
	"fmt"
	"strings"

	"github.com/codenotary/immudb/embedded/sql"
	"github.com/codenotary/immudb/pkg/api/schema"
	"github.com/google/uuid"
	"google.golang.org/protobuf/proto"
	"verif/mc/lib"
)

// wire marshals and unmarshals; invalid UTF-8 in a proto3 string field is refused by the protobuf runtime
// (loudly, not silently): such a value simply cannot travel and is counted, not reported.
func wireSQLValue(v *schema.SQLValue) (*schema.SQLValue, error) {
	w, err := proto.Marshal(v)
	if err != nil {
		return nil, err
	}
	out := &schema.SQLValue{}
	return out, proto.Unmarshal(w, out)
}

func partC(k col, strLen int) {
	for _, v := range boundarySet(k, strLen) {
		if rawLen(v.Raw) > k.MaxLen && (k.T == sql.VarcharType || k.T == sql.BLOBType) {
			continue
		}
		id := fmt.Sprintf("type=%s v=%s", k.T, v.Label)
		c.Eval("P:" + id)
		if p := lib.Catch(func() {
			// typed value -> row value (server -> client direction)
			var rv *schema.SQLValue
			if v.Raw == nil {
				rv = &schema.SQLValue{Value: &schema.SQLValue_Null{}} // as pkg/server does for *sql.NullValue
			} else {
				rv = schema.TypedValueToRowValue(v.TV)
			}
			if rv == nil {
				viol("proto-roundtrip sqlvalue dir=row "+id, "TypedValueToRowValue returned nil", nil)
				return
			}
			rv2, err := wireSQLValue(rv)
			if err != nil {
				if strings.Contains(err.Error(), "UTF-8") {
					c.Add("C_wire_refused_invalid_utf8", 1)
				} else {
					viol("proto-roundtrip sqlvalue dir=row "+id, "wire: "+err.Error(), nil)
				}
			} else {
				back := schema.RawValue(rv2)
				want := v.Raw
				if u, ok := want.(uuid.UUID); ok { // UUIDs travel in their canonical text form
					if s, isStr := back.(string); isStr {
						if pu, err := uuid.Parse(s); err == nil {
							back = pu
						}
					}
					want = u
				}
				if !eqRaw(back, want) {
					viol("proto-roundtrip sqlvalue dir=row "+id, fmt.Sprintf("RawValue(TypedValueToRowValue(v)) = %s", render(back)), nil)
				}
				if eq, err := rv.Value.(schema.SqlValue).Equal(rv2.Value.(schema.SqlValue)); v.Raw != nil && !v.NoOrder && (err != nil || !eq) {
					viol("proto-roundtrip sqlvalue dir=row "+id, fmt.Sprintf("SQLValue.Equal(value, value after the wire) = %v, %v", eq, err), nil)
				}
			}
			// raw parameter -> SQLValue -> raw parameter (client -> server direction); uuid.UUID is not a supported parameter type
			if _, isUUID := v.Raw.(uuid.UUID); isUUID {
				return
			}
			ps, err := schema.EncodeParams(map[string]interface{}{"p": v.Raw})
			if err != nil {
				viol("proto-roundtrip sqlvalue dir=param "+id, "EncodeParams: "+err.Error(), nil)
				return
			}
			w, err := proto.Marshal(ps[0])
			np := &schema.NamedParam{}
			if err == nil {
				err = proto.Unmarshal(w, np)
			}
			if err != nil {
				if strings.Contains(err.Error(), "UTF-8") {
					c.Add("C_wire_refused_invalid_utf8", 1)
					return
				}
				viol("proto-roundtrip sqlvalue dir=param "+id, "wire: "+err.Error(), nil)
				return
			}
			got := schema.NamedParamsFromProto([]*schema.NamedParam{np})["p"]
			if !eqRaw(got, v.Raw) {
				viol("proto-roundtrip sqlvalue dir=param "+id, fmt.Sprintf("NamedParamsFromProto(EncodeParams(v)) = %s", render(got)), nil)
			}
		}); p != "" {
			viol("panic proto sqlvalue "+id, p, nil)
		}
	}
}
