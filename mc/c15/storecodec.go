package main

// Part B — store codecs (TxHeader, TxMetadata: Bytes/ReadFrom) and their pkg/api/schema proto conversions.
// Part D — exported-transaction framing: commit on a real store, ExportTx, ReplicateTx into a second store.

import (
	"bytes"
	"context"
	"crypto/sha256"
	"fmt"
	"math"
	"os"
	"strings"
	"time"

	"github.com/codenotary/immudb/embedded/logger"
	"github.com/codenotary/immudb/embedded/store"
	"github.com/codenotary/immudb/pkg/api/schema"
	"google.golang.org/protobuf/proto"
	"verif/mc/lib"
)

// ---- alphabets ----

type txmdCase struct {
	Name  string
	Build func() *store.TxMetadata
}

func txmd(trunc *uint64, extra []byte) func() *store.TxMetadata {
	return func() *store.TxMetadata {
		md := store.NewTxMetadata()
		if trunc != nil {
			md.WithTruncatedTxID(*trunc)
		}
		if extra != nil {
			if err := md.WithExtra(extra); err != nil {
				harnessBug("WithExtra: " + err.Error())
			}
		}
		return md
	}
}

func u64(x uint64) *uint64 { return &x }

// txmdAlphabet: none / empty / truncated-tx-id (boundary ids) / extra of length 0, 1, max / both.
func txmdAlphabet(full bool) []txmdCase {
	out := []txmdCase{
		{"nil", func() *store.TxMetadata { return nil }},
		{"empty", txmd(nil, nil)},
		{"extra(len0)", txmd(nil, []byte{})},
		{"extra(00)", txmd(nil, []byte{0})},
		{"extra(ff*256)", txmd(nil, bytes.Repeat([]byte{0xFF}, 256))},
		{"trunc(1)", txmd(u64(1), nil)},
		{"trunc(max)", txmd(u64(math.MaxUint64), nil)},
		{"trunc(2^32)+extra(ab*256)", txmd(u64(1<<32), bytes.Repeat([]byte{0xAB}, 256))},
		{"trunc(0)", txmd(u64(0), nil)},
	}
	if full {
		for _, t := range []uint64{0, 1, 1 << 32, math.MaxUint64} {
			for _, e := range [][]byte{{0xFF}, {0, 0}, bytes.Repeat([]byte{0}, 255), bytes.Repeat([]byte{0}, 256)} {
				out = append(out, txmdCase{fmt.Sprintf("trunc(%d)+extra(%02x*%d)", t, e[0], len(e)), txmd(u64(t), e)})
			}
		}
	}
	return out
}

func hashPattern(i int) (h [sha256.Size]byte) {
	for k := range h {
		switch i {
		case 1:
			h[k] = 0xFF
		case 2:
			h[k] = byte(k + 1)
		}
	}
	return
}

func txmdEquivalent(a, b *store.TxMetadata) bool {
	if a.IsEmpty() || b.IsEmpty() {
		return a.IsEmpty() && b.IsEmpty()
	}
	ta, ea := a.GetTruncatedTxID()
	tb, eb := b.GetTruncatedTxID()
	return bytes.Equal(a.Bytes(), b.Bytes()) && a.HasTruncatedTxID() == b.HasTruncatedTxID() && ta == tb && (ea == nil) == (eb == nil) && bytes.Equal(a.Extra(), b.Extra())
}

func hdrDiff(a, b *store.TxHeader) string {
	var d []string
	add := func(f string, x, y any) { d = append(d, fmt.Sprintf("%s: %v != %v", f, x, y)) }
	if a.ID != b.ID {
		add("ID", a.ID, b.ID)
	}
	if a.Ts != b.Ts {
		add("Ts", a.Ts, b.Ts)
	}
	if a.BlTxID != b.BlTxID {
		add("BlTxID", a.BlTxID, b.BlTxID)
	}
	if a.BlRoot != b.BlRoot {
		add("BlRoot", fmt.Sprintf("%x", a.BlRoot[:4]), fmt.Sprintf("%x", b.BlRoot[:4]))
	}
	if a.PrevAlh != b.PrevAlh {
		add("PrevAlh", fmt.Sprintf("%x", a.PrevAlh[:4]), fmt.Sprintf("%x", b.PrevAlh[:4]))
	}
	if a.Eh != b.Eh {
		add("Eh", fmt.Sprintf("%x", a.Eh[:4]), fmt.Sprintf("%x", b.Eh[:4]))
	}
	if a.Version != b.Version {
		add("Version", a.Version, b.Version)
	}
	if a.NEntries != b.NEntries {
		add("NEntries", a.NEntries, b.NEntries)
	}
	if !txmdEquivalent(a.Metadata, b.Metadata) {
		add("Metadata", mdBytes(a.Metadata), mdBytes(b.Metadata))
	}
	if len(d) == 0 && a.Alh() != b.Alh() {
		add("Alh", "", "")
	}
	return strings.Join(d, "; ")
}

func mdBytes(md *store.TxMetadata) string {
	if md == nil {
		return "nil"
	}
	b := md.Bytes()
	if len(b) > 16 {
		return fmt.Sprintf("%x…(%d bytes)", b[:16], len(b))
	}
	return fmt.Sprintf("%x", b)
}

// ---- part B ----

func partB() {
	mds := txmdAlphabet(c.Thorough())
	// TxMetadata alone: Bytes/ReadFrom and proto conversion. mdProtoBad[i]: reported at this level.
	mdProtoBad := make([]bool, len(mds))
	for i, m := range mds {
		md := m.Build()
		if md == nil {
			if schema.TxMetadataToProto(nil) != nil || schema.TxMetadataFromProto(nil) != nil {
				viol("proto-roundtrip txmd=nil", "nil metadata does not map to nil", nil)
			}
			continue
		}
		c.Eval("TXMD:" + m.Name)
		rd := store.NewTxMetadata()
		if err := rd.ReadFrom(md.Bytes()); err != nil || !txmdEquivalent(md, rd) || !bytes.Equal(md.Bytes(), rd.Bytes()) {
			viol("txmd-roundtrip md="+m.Name, fmt.Sprintf("ReadFrom(Bytes()): err=%v, %s -> %s", err, mdBytes(md), mdBytes(rd)), nil)
		}
		p := schema.TxMetadataToProto(md)
		w, err := proto.Marshal(p)
		p2 := &schema.TxMetadata{}
		if err == nil {
			err = proto.Unmarshal(w, p2)
		}
		back := schema.TxMetadataFromProto(p2)
		if t, terr := md.GetTruncatedTxID(); terr == nil && t == 0 {
			// transaction ids start at 1: "truncated up to tx 0" is never produced (pkg/database passes a real header id) and the
			// proto message uses 0 for "absent"; outside the property's domain, only counted
			mdProtoBad[i] = !txmdEquivalent(md, back)
			c.Add("B_proto_truncated_txid_0_not_compared", 1)
			continue
		}
		if err != nil || !txmdEquivalent(md, back) {
			mdProtoBad[i] = true
			viol("proto-roundtrip txmd="+m.Name, fmt.Sprintf("TxMetadataFromProto(TxMetadataToProto(md)): err=%v, metadata bytes %s became %s", err, mdBytes(md), mdBytes(back)), nil)
		}
	}

	ids := []uint64{1, 2, 1 << 32, math.MaxUint64}
	tss := []int64{math.MinInt64, -1, 0, 1, math.MaxInt64}
	type nv struct{ v, n int }
	var nvs []nv
	for _, n := range []int{1, 2, math.MaxUint16} {
		nvs = append(nvs, nv{0, n})
	}
	for _, n := range []int{1, 2, math.MaxUint16, math.MaxUint16 + 1, math.MaxInt32} {
		nvs = append(nvs, nv{1, n})
	}
	type job struct {
		id uint64
		ts int64
	}
	var jobs []job
	for _, id := range ids {
		for _, ts := range tss {
			jobs = append(jobs, job{id, ts})
		}
	}
	c.ParallelFor(len(jobs), func(q int) {
		id, ts := jobs[q].id, jobs[q].ts
		for _, bl := range []uint64{0, id - 1} {
			for hp := 0; hp < 27; hp++ {
				for _, x := range nvs {
					for mi, m := range mds {
						h := &store.TxHeader{ID: id, Ts: ts, BlTxID: bl, BlRoot: hashPattern(hp % 3), PrevAlh: hashPattern(hp / 3 % 3), Eh: hashPattern(hp / 9),
							Version: x.v, NEntries: x.n, Metadata: m.Build()}
						sig := fmt.Sprintf("id=%d ts=%d bltxid=%d hashes=%d%d%d version=%d nentries=%d md=%s", id, ts, bl, hp%3, hp/3%3, hp/9, x.v, x.n, m.Name)
						c.Eval("HDR:" + sig)
						rp := map[string]any{"part": "B"}
						if p := lib.Catch(func() {
							bs, err := h.Bytes()
							if x.v == 0 && !h.Metadata.IsEmpty() {
								if err == nil { // version 0 cannot carry metadata: it must be refused, not dropped
									viol("txheader-roundtrip "+sig, "Bytes() of a version-0 header with metadata succeeded", rp)
								}
								c.Add("B_headers_rejected", 1)
								return
							}
							if err != nil {
								viol("txheader-encode-error "+sig, err.Error(), rp)
								return
							}
							var rd store.TxHeader
							if err := rd.ReadFrom(bs); err != nil {
								viol("txheader-roundtrip "+sig, "ReadFrom(Bytes()): "+err.Error(), rp)
							} else if d := hdrDiff(h, &rd); d != "" {
								viol("txheader-roundtrip "+sig, "ReadFrom(Bytes()): "+d, rp)
							} else if bs2, err := rd.Bytes(); err != nil || !bytes.Equal(bs, bs2) {
								viol("txheader-roundtrip "+sig, fmt.Sprintf("re-encoding differs (err=%v)", err), rp)
							}
							// proto conversion (+ wire)
							ph := schema.TxHeaderToProto(h)
							w, err := proto.Marshal(ph)
							ph2 := &schema.TxHeader{}
							if err == nil {
								err = proto.Unmarshal(w, ph2)
							}
							if err != nil {
								viol("proto-roundtrip txheader "+sig, "wire: "+err.Error(), rp)
								return
							}
							if d := hdrDiff(h, schema.TxHeaderFromProto(ph2)); d != "" {
								if mdProtoBad[mi] && strings.HasPrefix(d, "Metadata:") {
									c.Add("B_header_proto_mismatch_explained_by_txmd_violation", 1)
								} else {
									viol("proto-roundtrip txheader "+sig, "TxHeaderFromProto(TxHeaderToProto(h)): "+d, rp)
								}
							}
						}); p != "" {
							viol("panic txheader "+sig, p, rp)
						}
					}
				}
			}
		}
	})
	c.Set("B_txmd_alphabet", len(mds))
}

// ---- KV metadata ----

type kvmdCase struct {
	Name    string
	Del, NI bool
	Exp     *int64 // unix seconds
	NilMD   bool
}

func (k kvmdCase) Build() *store.KVMetadata {
	if k.NilMD {
		return nil
	}
	md := store.NewKVMetadata()
	md.AsDeleted(k.Del)
	md.AsNonIndexable(k.NI)
	if k.Exp != nil {
		md.ExpiresAt(time.Unix(*k.Exp, 0))
	}
	return md
}

var year1 = time.Date(1, 1, 1, 0, 0, 0, 0, time.UTC).Unix()
var year9999 = time.Date(9999, 12, 31, 23, 59, 59, 0, time.UTC).Unix()

func kvmdAlphabet(exps []int64) []kvmdCase {
	out := []kvmdCase{{Name: "nil", NilMD: true}}
	for m := 0; m < 4; m++ {
		d, ni := m&1 != 0, m&2 != 0
		name := func(e string) string {
			var p []string
			if d {
				p = append(p, "deleted")
			}
			if ni {
				p = append(p, "nonindexable")
			}
			if e != "" {
				p = append(p, "expires("+e+")")
			}
			if len(p) == 0 {
				return "empty"
			}
			return strings.Join(p, "+")
		}
		out = append(out, kvmdCase{Name: name(""), Del: d, NI: ni})
		for _, e := range exps {
			e := e
			out = append(out, kvmdCase{Name: name(fmt.Sprint(e)), Del: d, NI: ni, Exp: &e})
		}
	}
	return out
}

func kvmdDiff(want kvmdCase, got *store.KVMetadata) string {
	if got == nil {
		if want.NilMD || (!want.Del && !want.NI && want.Exp == nil) {
			return ""
		}
		return "metadata lost (nil)"
	}
	var d []string
	if got.Deleted() != want.Del {
		d = append(d, fmt.Sprintf("deleted=%v", got.Deleted()))
	}
	if got.NonIndexable() != want.NI {
		d = append(d, fmt.Sprintf("nonIndexable=%v", got.NonIndexable()))
	}
	if got.IsExpirable() != (want.Exp != nil) {
		d = append(d, fmt.Sprintf("expirable=%v", got.IsExpirable()))
	} else if want.Exp != nil {
		if t, err := got.ExpirationTime(); err != nil || t.Unix() != *want.Exp {
			d = append(d, fmt.Sprintf("expiresAt=%d err=%v", t.Unix(), err))
		}
	}
	return strings.Join(d, ", ")
}

func partKVProto() {
	for _, k := range kvmdAlphabet([]int64{math.MinInt64, year1, -1, 0, 1, 1 << 31, year9999, math.MaxInt64}) {
		c.Eval("KVMD:" + k.Name)
		md := k.Build()
		p := schema.KVMetadataToProto(md)
		if k.NilMD {
			if p != nil || schema.KVMetadataFromProto(nil) != nil {
				viol("proto-roundtrip kvmd=nil", "nil metadata does not map to nil", nil)
			}
			continue
		}
		w, err := proto.Marshal(p)
		p2 := &schema.KVMetadata{}
		if err == nil {
			err = proto.Unmarshal(w, p2)
		}
		back := schema.KVMetadataFromProto(p2)
		if d := kvmdDiff(k, back); err != nil || d != "" || !bytes.Equal(back.Bytes(), md.Bytes()) {
			viol("proto-roundtrip kvmd="+k.Name, fmt.Sprintf("KVMetadataFromProto(KVMetadataToProto(md)): err=%v %s bytes %x -> %x", err, d, md.Bytes(), back.Bytes()), nil)
		}
	}
}

// ---- part D: export / replicate ----

type storeCfg struct {
	Embedded bool
	Version  int
}

type entryShape struct {
	Val  int // index in dValues
	KVMD int // index in the kvmd alphabet
}

var dValues = [][]byte{{}, []byte("v"), bytes.Repeat([]byte{0x00, 0xFF}, 32)}
var dKeys = [][]byte{[]byte("a"), []byte("ab"), bytes.Repeat([]byte("k"), 32)}

func fixedClock() time.Time { return time.Unix(1700000000, 0) }

func openStore(dir string, cf storeCfg) *store.ImmuStore {
	o := store.DefaultOptions().WithSynced(false).WithLogger(logger.NewMemoryLoggerWithLevel(logger.LogError)).
		WithFileSize(1 << 20).WithMaxTxEntries(4).WithMaxKeyLen(32).WithMaxValueLen(64).WithMaxConcurrency(4).
		WithMaxActiveTransactions(8).WithTxLogCacheSize(8).WithVLogCacheSize(0).WithWriteBufferSize(4096).
		WithAHTOptions(store.DefaultAHTOptions().WithWriteBufferSize(4096)).
		WithIndexOptions(store.DefaultIndexOptions().WithFlushBufferSize(4096).WithCacheSize(64)).
		WithEmbeddedValues(cf.Embedded).WithWriteTxHeaderVersion(cf.Version).WithTimeFunc(fixedClock)
	st, err := store.Open(dir, o)
	if err != nil {
		harnessBug("store.Open: " + err.Error())
	}
	return st
}

type txShape struct {
	Cfg     storeCfg
	TxMD    int
	Entries []entryShape
}

func (s txShape) sig(kvs []kvmdCase, mds []txmdCase) string {
	var es []string
	for i, e := range s.Entries {
		es = append(es, fmt.Sprintf("%s:%s=%s", kvs[e.KVMD].Name, shortHex(dKeys[i]), shortHex(dValues[e.Val])))
	}
	return fmt.Sprintf("embedded=%v hdrversion=%d txmd=%s entries=[%s]", s.Cfg.Embedded, s.Cfg.Version, mds[s.TxMD].Name, strings.Join(es, " "))
}

// runShapes commits every shape on a fresh source store (one after the other) and replicates it into a fresh
// destination store; everything observable is compared after each transaction.
func runShapes(cf storeCfg, shapes []txShape, kvs []kvmdCase, mds []txmdCase) {
	ds, dd := lib.Scratch("c15s"), lib.Scratch("c15d")
	defer os.RemoveAll(ds)
	defer os.RemoveAll(dd)
	src, dst := openStore(ds, cf), openStore(dd, cf)
	defer src.Close()
	defer dst.Close()
	ctx := context.Background()
	rtx, rtx2 := store.NewTx(4, 32), store.NewTx(4, 32)
	for _, sh := range shapes {
		if c.Expired() {
			c.CapHit("part D: not all entry-list shapes explored")
			return
		}
		sig := sh.sig(kvs, mds)
		rp := map[string]any{"part": "D", "shape": sh}
		c.Eval("TX:" + sig)
		tx, err := src.NewWriteOnlyTx(ctx)
		if err != nil {
			harnessBug("NewWriteOnlyTx: " + err.Error())
		}
		wantMD := mds[sh.TxMD].Build()
		tx.WithMetadata(mds[sh.TxMD].Build())
		hasTxMD, hasKVMD := !wantMD.IsEmpty(), false
		for i, e := range sh.Entries {
			md := kvs[e.KVMD].Build()
			if md != nil && len(md.Bytes()) > 0 {
				hasKVMD = true
			}
			if err := tx.Set(dKeys[i], md, dValues[e.Val]); err != nil {
				harnessBug("Set: " + err.Error())
			}
		}
		hdr, err := tx.AsyncCommit(ctx)
		if err != nil {
			tx.Cancel()
			if cf.Version == 0 && (hasTxMD || hasKVMD) { // header version 0 cannot carry metadata: refused, nothing serialized
				c.Add("D_rejected_metadata_with_header_v0", 1)
				continue
			}
			viol("commit-error "+sig, err.Error(), rp)
			continue
		}
		fail := func(what string) { viol("export-replicate "+sig, what, rp) }
		if cf.Version == 0 && hasKVMD {
			fail("a header-version-0 store accepted an entry with kv metadata")
		}
		exp, err := src.ExportTx(hdr.ID, false, false, rtx)
		if err != nil {
			fail("ExportTx: " + err.Error())
			return // the destination can no longer follow
		}
		if cf.Version == 0 && hasTxMD {
			// accepted although a version-0 header has no metadata field: what was acknowledged (the returned header) must be what is stored
			if rtx.Header().Metadata.IsEmpty() {
				viol("txmd-dropped-header-v0 txmd="+mds[sh.TxMD].Name, fmt.Sprintf("store with WriteTxHeaderVersion=0: Commit accepted a transaction with tx metadata %s and returned a header carrying it, "+
					"but the stored/exported transaction has no metadata (silently dropped; kv metadata is refused with ErrMetadataUnsupported in the same mode)", mdBytes(wantMD)), rp)
			}
			h2 := *hdr
			h2.Metadata, wantMD, hdr = nil, nil, &h2 // everything else is still compared
		}
		if d := compareTx("source", rtx, src, hdr, sh, kvs, wantMD); d != "" {
			fail(d)
		}
		// proto conversion of the whole transaction
		if p := lib.Catch(func() {
			back := schema.TxFromProto(schema.TxToProto(rtx))
			ha, hb := *rtx.Header(), *back.Header()
			if ha.Metadata != nil && ha.Metadata.HasTruncatedTxID() {
				if t, _ := ha.Metadata.GetTruncatedTxID(); t == 0 { // outside the proto message's domain, see partB
					ha.Metadata, hb.Metadata = nil, nil
					c.Add("B_proto_truncated_txid_0_not_compared", 1)
				}
			}
			if d := hdrDiff(&ha, &hb); d != "" {
				viol("proto-roundtrip tx "+sig, "TxFromProto(TxToProto(tx)) header: "+d, rp)
			}
			for i, e := range back.Entries() {
				o := rtx.Entries()[i]
				if !bytes.Equal(e.Key(), o.Key()) || e.VLen() != o.VLen() || e.HVal() != o.HVal() || kvmdDiff(kvs[sh.Entries[i].KVMD], e.Metadata()) != "" {
					viol("proto-roundtrip tx "+sig, fmt.Sprintf("TxFromProto(TxToProto(tx)) entry %d differs: %s", i, kvmdDiff(kvs[sh.Entries[i].KVMD], e.Metadata())), rp)
				}
			}
		}); p != "" {
			viol("panic proto tx "+sig, p, rp)
		}
		var rh *store.TxHeader
		if p := lib.Catch(func() { rh, err = dst.ReplicateTx(ctx, exp, false, false) }); p != "" {
			viol("panic export-replicate "+sig, "ReplicateTx of an honest ExportTx output: "+p, rp)
			return
		}
		if err != nil {
			fail("ReplicateTx: " + err.Error())
			return
		}
		if d := hdrDiff(hdr, rh); d != "" {
			fail("header returned by ReplicateTx: " + d)
		}
		exp2, err := dst.ExportTx(hdr.ID, false, false, rtx2)
		if err != nil {
			fail("ExportTx on the replica: " + err.Error())
			continue
		}
		if d := compareTx("replica", rtx2, dst, hdr, sh, kvs, wantMD); d != "" {
			fail(d)
		}
		if !bytes.Equal(exp, exp2) {
			fail(fmt.Sprintf("re-export from the replica differs: %x vs %x", exp, exp2))
		}
	}
}

// compareTx: the transaction read from st equals the committed header and the input entry list.
func compareTx(who string, rtx *store.Tx, st *store.ImmuStore, hdr *store.TxHeader, sh txShape, kvs []kvmdCase, wantMD *store.TxMetadata) string {
	if d := hdrDiff(hdr, rtx.Header()); d != "" {
		return who + " header: " + d
	}
	// the other decoders of the stored record: the header-only reader (decodes and re-hashes the entry list without
	// keeping it) and the single-entry reader
	if h2, err := st.ReadTxHeader(hdr.ID, false, false); err != nil {
		return fmt.Sprintf("%s ReadTxHeader: %v", who, err)
	} else if d := hdrDiff(hdr, h2); d != "" {
		return who + " ReadTxHeader: " + d
	}
	for i := range sh.Entries {
		e, h3, err := st.ReadTxEntry(hdr.ID, dKeys[i], false)
		if err != nil {
			return fmt.Sprintf("%s ReadTxEntry(%x): %v", who, dKeys[i], err)
		}
		if d := hdrDiff(hdr, h3); d != "" {
			return who + " ReadTxEntry header: " + d
		}
		if d := kvmdDiff(kvs[sh.Entries[i].KVMD], e.Metadata()); d != "" {
			return fmt.Sprintf("%s ReadTxEntry entry %d: kv metadata %s", who, i, d)
		}
	}
	if !txmdEquivalent(wantMD, rtx.Header().Metadata) {
		return fmt.Sprintf("%s tx metadata: %s, want %s", who, mdBytes(rtx.Header().Metadata), mdBytes(wantMD))
	}
	if len(rtx.Entries()) != len(sh.Entries) {
		return fmt.Sprintf("%s: %d entries, want %d", who, len(rtx.Entries()), len(sh.Entries))
	}
	for i, e := range rtx.Entries() {
		want := dValues[sh.Entries[i].Val]
		k := kvs[sh.Entries[i].KVMD]
		if !bytes.Equal(e.Key(), dKeys[i]) {
			return fmt.Sprintf("%s entry %d: key %x", who, i, e.Key())
		}
		if d := kvmdDiff(k, e.Metadata()); d != "" {
			return fmt.Sprintf("%s entry %d: kv metadata %s", who, i, d)
		}
		if e.VLen() != len(want) || e.HVal() != sha256.Sum256(want) {
			return fmt.Sprintf("%s entry %d: vLen=%d hVal=%x, want %d %x", who, i, e.VLen(), e.HVal(), len(want), sha256.Sum256(want))
		}
		if k.Exp == nil { // ReadValue consults the wall clock for expirable entries: only the digest is compared for those
			v, err := st.ReadValue(e)
			if err != nil || !bytes.Equal(v, want) {
				return fmt.Sprintf("%s entry %d: ReadValue=%x err=%v want %x", who, i, v, err, want)
			}
		}
	}
	return ""
}

// dAlphabets: the full kv-metadata and tx-metadata alphabets of part D (tier independent, so that a recorded shape
// replays in any tier); the tiers select subsets by index.
func dAlphabets() ([]kvmdCase, []txmdCase) {
	return kvmdAlphabet([]int64{year1, 0, year9999}), txmdAlphabet(false)
}

func partD() {
	kvs, mds := dAlphabets()
	// tx metadata: quick nil, extra(00), extra(ff*256), trunc(1), trunc(2^32)+extra; thorough: the whole alphabet
	var mdIdx []int
	for i, m := range mds {
		switch m.Name {
		case "nil", "extra(00)", "extra(ff*256)", "trunc(1)", "trunc(2^32)+extra(ab*256)":
			mdIdx = append(mdIdx, i)
		default:
			if c.Thorough() {
				mdIdx = append(mdIdx, i)
			}
		}
	}
	// kv metadata: quick nil, deleted, nonindexable, expires(9999), deleted+nonindexable+expires(9999); thorough: all 2^3 subsets x 3 expiry times
	kvIdx := []int{}
	for i, k := range kvs {
		if c.Thorough() || k.NilMD || (k.Exp == nil && (k.Del != k.NI)) || (k.Exp != nil && *k.Exp == year9999 && k.Del == k.NI) {
			kvIdx = append(kvIdx, i)
		}
	}
	var per []entryShape
	for v := range dValues {
		for _, k := range kvIdx {
			per = append(per, entryShape{v, k})
		}
	}
	var lists [][]entryShape
	var rec func(cur []entryShape)
	rec = func(cur []entryShape) {
		if len(cur) > 0 {
			lists = append(lists, append([]entryShape{}, cur...))
		}
		if len(cur) == 3 {
			return
		}
		for _, e := range per {
			rec(append(cur, e))
		}
	}
	rec(nil)
	type chunk struct {
		cf     storeCfg
		shapes []txShape
	}
	var chunks []chunk
	const chunkSize = 256
	for _, cf := range []storeCfg{{false, 1}, {true, 1}, {false, 0}, {true, 0}} {
		var shapes []txShape
		for _, l := range lists {
			plain := true
			for _, e := range l {
				if k := kvs[e.KVMD]; !k.NilMD {
					plain = false
				}
			}
			for _, mi := range mdIdx {
				if cf.Version == 0 && (!plain || mi > 0) && len(l) > 1 {
					continue // header version 0: metadata is refused; only 1-entry lists probe the refusal
				}
				shapes = append(shapes, txShape{cf, mi, l})
			}
		}
		for i := 0; i < len(shapes); i += chunkSize {
			chunks = append(chunks, chunk{cf, shapes[i:min(i+chunkSize, len(shapes))]})
		}
		c.Add("D_shapes", int64(len(shapes)))
	}
	c.Set("D_entry_variants", len(per))
	c.Set("D_entry_lists", len(lists))
	c.Sample(map[string]any{"part": "D", "shape": chunks[len(chunks)/3].shapes[7].sig(kvs, mds)})
	c.ParallelFor(len(chunks), func(i int) {
		if c.Expired() {
			c.CapHit("part D: not all entry-list shapes explored")
			return
		}
		if p := lib.Catch(func() { runShapes(chunks[i].cf, chunks[i].shapes, kvs, mds) }); p != "" {
			viol(fmt.Sprintf("panic export-replicate chunk=%d", i), p, nil)
		}
	})
}
