// C15 — codecs round-trip, and key encodings preserve SQL order.
//
// Engine: exhaustive enumeration of an explicit boundary alphabet against the real codecs of /repo.
//
// Alphabet (per SQL type; every set also contains NULL):
//
//	INTEGER   min, min+1, -2^32, -1, 0, 1, 2^32, max-1, max
//	FLOAT     ±Inf, ±MaxFloat64, ±1, ±SmallestNonzero, -0, +0; two NaN bit patterns (round trip only, no order claim)
//	VARCHAR,  ALL strings of length <= 3 over the bytes {00,'a','b',FF}, for declared
//	BLOB      lengths 1, 2, 3, 256 (thorough: + 1024 = MaxKeyLen); for length >= 256 also values of length max-1, max
//	          (a.., ..00, ..FF, 00.., FF..) and max+1; values longer than the declared length must be refused
//	BOOLEAN   false, true
//	TIMESTAMP 0001-01-01, the two µs grid points around the lower int64-nanosecond edge (1677-09-21), 1969-12-31T23:59:59.999999,
//	          epoch, epoch+1µs, the two µs grid points around the upper edge (2262-04-11), 9999-12-31T23:59:59.999999; all already
//	          normalised the way the engine does (Truncate(µs).UTC())
//	UUID      00..00, 00..01, 7FFF..FF, 8000..00, FF..FF
//	JSON      11 documents (value codec only)
//
// Oracles:
//
//	A1 DecodeValue(EncodeValue(v)) == v, DecodeNullableValue(EncodeNullableValue(v)) == v, DecodeValueFromKey(EncodeValueAsKey(v)) == v,
//	   each decoded from a buffer with trailing bytes: the consumed length must be the encoded length.
//	A2 for ALL pairs (a,b) of one column configuration: sign(bytes.Compare(key a, key b)) == sign(a.Compare(b)) == -sign(b.Compare(a))
//	   (TypedValue.Compare of embedded/sql), NULL first, Compare == 0 => identical bytes.
//	A3 for ALL pairs of 2-column composite keys (built with sql.MapKey as doUpsert does) of ALL ordered pairs of column
//	   configurations (fixed-width types and every VARCHAR/BLOB length >= 3): byte order == lexicographic order by column; the composite decodes back column by column. Mismatches that
//	   are the direct consequence of a column-level violation (reported once there) are only counted.
//	B  TxHeader.Bytes/ReadFrom and TxHeaderToProto/FromProto (+ wire) over ID x Ts x BlTxID x 27 hash patterns x version {0,1} x
//	   NEntries boundaries x tx-metadata alphabet {nil, empty, extra len 0/1/256, truncated-tx-id 0/1/max, both}; TxMetadata alone;
//	   KVMetadata (all 2^3 attribute subsets x 8 expiry boundaries) to/from proto.
//	C  SQL values through pkg/api/schema in both directions (+ wire).
//	D  every list of 1..3 entries over {value: empty, 1 byte, max} x {kv metadata: quick 5 of the subsets, thorough all 2^3 x 3 expiry
//	   times} x tx metadata (quick 5, thorough 9) x {embedded values} x {header version 1; version 0 for the shapes it can hold
//	   plus 1-entry probes of the refusal}: commit on a real store, ExportTx, ReplicateTx into a second store, compare headers, entries, values,
//	   re-export byte-identical, TxToProto/TxFromProto.
//	E  documents: DocumentID hex codec; insert boundary documents into a real document engine and read them back (by _id, by the
//	   indexed field, through AuditDocument).
//	F  every boundary value stored in an indexed column of a real SQL table and read back by primary key; A4: implicit
//	   conversions inside the codecs (INTEGER in a FLOAT column, textual UUID) encode like the converted value.
//
// Not compared (not stated by the property): any order for NaN; timestamps before the engine's own normalisation (sub-microsecond,
// non-UTC); TruncatedTxID == 0 through the proto message (transaction ids start at 1, the message uses 0 for "absent"); the value of
// expirable entries (ReadValue consults the wall clock; length and digest are compared instead); NEntries beyond the width of the
// header version's field; decoding into a reused (dirty) TxHeader; strings that are not valid UTF-8 on the protobuf wire (refused
// loudly by the runtime, counted).
package main

import (
	"fmt"
	"os"
	"time"

	"github.com/codenotary/immudb/embedded/sql"
	"verif/mc/lib"
)

var c *lib.Check

func viol(sig, detail string, replay any) {
	c.Violate(lib.Violation{Sig: sig, Detail: detail, Replay: replay})
}

func harnessBug(msg string) {
	fmt.Fprintln(os.Stderr, "HARNESS ERROR:", msg)
	os.Exit(2)
}

// columnConfigs: every column configuration of part A/C.
func columnConfigs(thorough bool) []col {
	ks := []col{{sql.IntegerType, 8}, {sql.Float64Type, 8}, {sql.BooleanType, 1}, {sql.TimestampType, 8}, {sql.UUIDType, 16}}
	lens := []int{1, 2, 3, 256}
	if thorough {
		lens = append(lens, sql.MaxKeyLen)
	}
	for _, t := range []sql.SQLValueType{sql.VarcharType, sql.BLOBType} {
		for _, l := range lens {
			ks = append(ks, col{t, l})
		}
	}
	return ks
}

func partA() {
	var cds []*colData
	for _, k := range columnConfigs(c.Thorough()) {
		cd := checkColumn(k, 3)
		if len(cd.Vals) > 4 {
			c.Sample(map[string]any{"part": "A", "column": k.String(), "values": len(cd.Vals), "e.g.": cd.Vals[len(cd.Vals)/2].Label, "key": fmt.Sprintf("%x", cd.Key[len(cd.Vals)/2])})
		}
		if (k.T != sql.VarcharType && k.T != sql.BLOBType) || k.MaxLen >= 3 { // composites: every configuration holding all strings up to length 3
			cds = append(cds, cd)
		}
		partC(k, 3)
	}
	checkJSON()
	checkComposite(cds)
	c.Set("A_composite_column_configurations", len(cds))
}

// timed records the wall time of a part in the evidence (information only, never an oracle).
func timed(name string, f func()) {
	t0 := time.Now()
	f()
	c.Set("wall_s_part_"+name, float64(int(time.Since(t0).Seconds()*10))/10)
}

type replay struct {
	Part   string   `json:"part"`
	Shape  *txShape `json:"shape"`
	Type   string   `json:"type"`
	MaxLen int      `json:"maxLen"`
}

func main() {
	c = lib.New("C15", "exploration", 100*time.Second, 25*time.Minute)
	c.Assume("values outside the boundary alphabet are not covered; timestamps are fed already normalised to microseconds/UTC as the engine does before encoding")
	c.Assume("header domains: BlTxID < ID, NEntries in [1,65535] for version 0 and [1,2^31-1] for version 1 (larger counts cannot be built in memory); expiry times are whole seconds")
	if c.ReplayPath != "" {
		var r replay
		c.LoadReplay(&r)
		switch r.Part { // every part is small: the recorded case is re-run together with its part
		case "B":
			partB()
			partKVProto()
		case "D":
			if r.Shape != nil { // exactly the recorded transaction shape, on fresh stores
				kvs, mds := dAlphabets()
				runShapes(r.Shape.Cfg, []txShape{*r.Shape}, kvs, mds)
			} else {
				partD()
			}
		case "E":
			partE()
		case "F":
			partF()
		default:
			if r.Type != "" { // the recorded column configuration: its values and all their pairs
				checkColumn(col{sql.SQLValueType(r.Type), r.MaxLen}, 3)
			} else {
				partA()
				partA4()
			}
		}
		c.Finish("replay", false)
	}
	timed("A", partA)
	timed("A4", partA4)
	timed("B", func() { partB(); partKVProto() })
	timed("E", partE)
	timed("F", partF)
	timed("D", partD)
	c.Finish("A: every value of the boundary alphabet, every pair of values per column configuration, every pair of 2-column composite keys; "+
		"B: every combination of header field boundaries x metadata alphabet; C: every boundary value in both proto directions; "+
		"D: every entry list of 1..3 entries over the entry alphabet x tx metadata x store configuration; E: every boundary document; F: every boundary value in a real table row. "+
		"distinct = distinct values + composite keys + headers + transaction shapes + documents (pairs are counted as evaluations)", !c.Expired())
}
