package main

// Part E — documents. embedded/document/type_conversions.go only has the struct -> SQL direction (unexported), so
// the round trip is observed through the real engine: a boundary document is inserted, read back by _id and by
// each indexed field, and must be the same structpb.Struct. DocumentID hex codec in both directions.

import (
	"bytes"
	"context"
	"errors"
	"fmt"
	"math"
	"os"
	"strings"

	"github.com/codenotary/immudb/embedded/document"
	"github.com/codenotary/immudb/embedded/logger"
	"github.com/codenotary/immudb/embedded/store"
	"github.com/codenotary/immudb/pkg/api/protomodel"
	"google.golang.org/protobuf/proto"
	"google.golang.org/protobuf/types/known/structpb"
	"verif/mc/lib"
)

func partE() {
	// DocumentID: raw bytes <-> hex string, all lengths 1..32 x byte patterns, and the refused lengths 0 and 33
	for l := 0; l <= document.MaxDocumentIDLength+1; l++ {
		for _, b := range []byte{0x00, 0x7F, 0x80, 0xFF} {
			raw := bytes.Repeat([]byte{b}, l)
			if l > 0 {
				raw[l-1] ^= 1
			}
			sig := fmt.Sprintf("docid len=%d fill=%02x", l, b)
			c.Eval("E:" + sig)
			id, err := document.NewDocumentIDFromRawBytes(raw)
			if l == 0 || l > document.MaxDocumentIDLength {
				if err == nil {
					viol("length-not-enforced "+sig, "NewDocumentIDFromRawBytes accepted it", nil)
				}
				continue
			}
			if err != nil {
				viol("docid-roundtrip "+sig, err.Error(), nil)
				continue
			}
			back, err := document.NewDocumentIDFromHexEncodedString(id.EncodeToHexString())
			if err != nil || !bytes.Equal(back, raw) {
				viol("docid-roundtrip "+sig, fmt.Sprintf("hex round trip: %x err=%v", []byte(back), err), nil)
			}
		}
	}

	dir := lib.Scratch("c15e")
	defer os.RemoveAll(dir)
	o := store.DefaultOptions().WithSynced(false).WithMultiIndexing(true).WithLogger(logger.NewMemoryLoggerWithLevel(logger.LogError)).
		WithFileSize(1 << 20).WithMaxTxEntries(64).WithMaxConcurrency(4).WithMaxActiveTransactions(8).WithTxLogCacheSize(8).
		WithVLogCacheSize(0).WithWriteBufferSize(1 << 16).WithAHTOptions(store.DefaultAHTOptions().WithWriteBufferSize(4096)).
		WithIndexOptions(store.DefaultIndexOptions().WithFlushBufferSize(4096).WithCacheSize(64))
	st, err := store.Open(dir, o)
	if err != nil {
		harnessBug("store.Open: " + err.Error())
	}
	defer st.Close()
	eng, err := document.NewEngine(st, document.DefaultOptions().WithPrefix([]byte{3}))
	if err != nil {
		harnessBug("document.NewEngine: " + err.Error())
	}
	ctx := context.Background()
	fields := []*protomodel.Field{{Name: "s", Type: protomodel.FieldType_STRING}, {Name: "n", Type: protomodel.FieldType_INTEGER},
		{Name: "d", Type: protomodel.FieldType_DOUBLE}, {Name: "b", Type: protomodel.FieldType_BOOLEAN}, {Name: "u", Type: protomodel.FieldType_UUID}}
	var idx []*protomodel.Index
	for _, f := range fields {
		idx = append(idx, &protomodel.Index{Fields: []string{f.Name}})
	}
	if err := eng.CreateCollection(ctx, "verif", "c15", "", fields, idx); err != nil {
		harnessBug("CreateCollection: " + err.Error())
	}

	type fv struct {
		field string
		v     *structpb.Value
		label string
	}
	var cases []fv
	for _, s := range []string{"", "a", "\x00", "a\x00b", "é\U0001F600", strings.Repeat("a", 512), strings.Repeat("\x00", 512)} {
		cases = append(cases, fv{"s", structpb.NewStringValue(s), shortQ(s)})
	}
	for _, n := range []float64{-(1 << 53), -(1 << 32), -1, 0, 1, 1 << 32, 1 << 53} {
		cases = append(cases, fv{"n", structpb.NewNumberValue(n), fmt.Sprint(n)})
	}
	for _, d := range []float64{math.Inf(-1), -math.MaxFloat64, -1, -math.SmallestNonzeroFloat64, math.Copysign(0, -1), 0, math.SmallestNonzeroFloat64, 1, math.MaxFloat64, math.Inf(1)} {
		l := fmt.Sprint(d)
		if d == 0 && math.Signbit(d) {
			l = "-0"
		}
		cases = append(cases, fv{"d", structpb.NewNumberValue(d), l})
	}
	cases = append(cases, fv{"b", structpb.NewBoolValue(false), "false"}, fv{"b", structpb.NewBoolValue(true), "true"})
	for _, u := range uuidBoundaries() {
		cases = append(cases, fv{"u", structpb.NewStringValue(u.String()), u.String()})
	}
	// unindexed payload present in every document: nesting, lists, null, empty containers
	extra := func() *structpb.Value {
		s, err := structpb.NewStruct(map[string]interface{}{"null": nil, "list": []interface{}{1.5, "x", nil, []interface{}{}, map[string]interface{}{}}, "": "", "deep": map[string]interface{}{"a": map[string]interface{}{"b": true}}})
		if err != nil {
			harnessBug(err.Error())
		}
		return structpb.NewStructValue(s)
	}
	for _, cs := range cases {
		sig := fmt.Sprintf("field=%s v=%s", cs.field, cs.label)
		c.Eval("E:" + sig)
		if c.Expired() {
			c.CapHit("part E: not all documents explored")
			return
		}
		if p := lib.Catch(func() {
			doc := &structpb.Struct{Fields: map[string]*structpb.Value{cs.field: cs.v, "x": extra()}}
			txID, id, err := eng.InsertDocument(ctx, "verif", "c15", doc)
			if err != nil {
				viol("document-insert-error "+sig, err.Error(), map[string]any{"part": "E"})
				return
			}
			if err := st.WaitForIndexingUpto(ctx, txID); err != nil { // AuditDocument reads the index as it is (no snapshot barrier)
				harnessBug("WaitForIndexingUpto: " + err.Error())
			}
			want := proto.Clone(doc).(*structpb.Struct) // InsertDocument added _id to doc
			if got := want.Fields[document.DefaultDocumentIDField].GetStringValue(); got != id.EncodeToHexString() {
				viol("document-roundtrip "+sig, "_id set in the document differs from the returned id", map[string]any{"part": "E"})
			}
			// audit path: decodes the stored row (sql.DecodeValue) and the tx metadata (username = extra attribute)
			revs, err := eng.AuditDocument(ctx, "c15", id, false, 0, 10, true)
			if err != nil || len(revs) != 1 || revs[0].Username != "verif" || !proto.Equal(revs[0].Document, want) {
				viol("document-roundtrip "+sig, fmt.Sprintf("AuditDocument: err=%v revisions=%v, want 1 revision by verif with %v", err, revs, want), map[string]any{"part": "E"})
			}
			for _, by := range []fv{{document.DefaultDocumentIDField, structpb.NewStringValue(id.EncodeToHexString()), ""}, cs} {
				q := &protomodel.Query{CollectionName: "c15", Expressions: []*protomodel.QueryExpression{{FieldComparisons: []*protomodel.FieldComparison{
					{Field: by.field, Operator: protomodel.ComparisonOperator_EQ, Value: by.v}}}}}
				r, err := eng.GetDocuments(ctx, q, 0)
				if err != nil {
					viol("document-roundtrip "+sig, fmt.Sprintf("query by %s: %v", by.field, err), map[string]any{"part": "E"})
					continue
				}
				found := false
				var last *structpb.Struct
				for {
					d, err := r.Read(ctx)
					if errors.Is(err, document.ErrNoMoreDocuments) {
						break
					}
					if err != nil {
						viol("document-roundtrip "+sig, fmt.Sprintf("read by %s: %v", by.field, err), map[string]any{"part": "E"})
						break
					}
					if d.Document.GetFields()[document.DefaultDocumentIDField].GetStringValue() == id.EncodeToHexString() {
						found, last = true, d.Document
					}
				}
				r.Close()
				if !found {
					viol("document-roundtrip "+sig, fmt.Sprintf("the inserted document is not returned by the query %s == (its own value)", by.field), map[string]any{"part": "E"})
				} else if !proto.Equal(last, want) {
					viol("document-roundtrip "+sig, fmt.Sprintf("read back by %s: %v, want %v", by.field, last, want), map[string]any{"part": "E"})
				}
			}
		}); p != "" {
			viol("panic document "+sig, p, map[string]any{"part": "E"})
		}
	}
	c.Set("E_documents", len(cases))
}
