package main

// Part A — SQL value codec, key codec, key order, composite keys.

import (
	"bytes"
	"encoding/hex"
	"fmt"
	"math"
	"reflect"
	"strings"
	"time"

	"github.com/codenotary/immudb/embedded/sql"
	"github.com/google/uuid"
	"verif/mc/lib"
)

// col is one column configuration (type + declared length as Column.MaxLen() reports it).
type col struct {
	T      sql.SQLValueType
	MaxLen int
}

func (k col) String() string {
	if k.T == sql.VarcharType || k.T == sql.BLOBType {
		return fmt.Sprintf("%s[%d]", k.T, k.MaxLen)
	}
	return string(k.T)
}

// val is one member of a boundary set. Raw == nil is NULL.
type val struct {
	Label   string
	Raw     interface{}
	TV      sql.TypedValue
	NoOrder bool // NaN: only round trip / no panic
}

func rawLen(raw interface{}) int {
	switch v := raw.(type) {
	case string:
		return len(v)
	case []byte:
		return len(v)
	}
	return 0
}

// ---- boundary sets ----

var byteAlphabet = []byte{0x00, 'a', 'b', 0xFF}

func allStrings(maxL int) []string {
	out := []string{""}
	prev := []string{""}
	for l := 1; l <= maxL; l++ {
		var cur []string
		for _, p := range prev {
			for _, b := range byteAlphabet {
				cur = append(cur, p+string([]byte{b}))
			}
		}
		out = append(out, cur...)
		prev = cur
	}
	return out
}

func tsBoundaries() []time.Time {
	lo := time.Unix(0, math.MinInt64).UTC().Truncate(time.Microsecond) // µs grid point just below the int64-ns range
	hi := time.Unix(0, math.MaxInt64).UTC().Truncate(time.Microsecond) // highest µs grid point inside
	return []time.Time{
		time.Date(1, 1, 1, 0, 0, 0, 0, time.UTC),
		lo, lo.Add(time.Microsecond),
		time.Date(1969, 12, 31, 23, 59, 59, 999999000, time.UTC),
		time.Unix(0, 0).UTC(), time.Unix(0, 1000).UTC(),
		hi, hi.Add(time.Microsecond),
		time.Date(9999, 12, 31, 23, 59, 59, 999999000, time.UTC),
	}
}

func uuidBoundaries() []uuid.UUID {
	var z, one, s7, s8, ff uuid.UUID
	one[15] = 1
	for i := range ff {
		ff[i] = 0xFF
		s7[i] = 0xFF
	}
	s7[0] = 0x7F
	s8[0] = 0x80
	return []uuid.UUID{z, one, s7, s8, ff}
}

// mkTimestamp obtains the engine's own Timestamp value for t: the engine only ever holds timestamps
// normalised with Truncate(time.Microsecond).UTC() (Param.substitute, CAST, NOW()); there is no exported
// constructor, so the typed value is produced by the value codec and compared with the normalised input.
func mkTimestamp(t time.Time) (sql.TypedValue, error) {
	enc, err := sql.EncodeRawValue(t, sql.TimestampType, 0, false)
	if err != nil {
		return nil, err
	}
	tv, _, err := sql.DecodeValue(enc, sql.TimestampType)
	return tv, err
}

func boundarySet(k col, strLen int) []val {
	vs := []val{{Label: "NULL", Raw: nil, TV: sql.NewNull(k.T)}}
	switch k.T {
	case sql.IntegerType:
		for _, i := range []int64{math.MinInt64, math.MinInt64 + 1, -(1 << 32), -1, 0, 1, 1 << 32, math.MaxInt64 - 1, math.MaxInt64} {
			vs = append(vs, val{Label: fmt.Sprint(i), Raw: i, TV: sql.NewInteger(i)})
		}
	case sql.Float64Type:
		for _, f := range []float64{math.Inf(-1), -math.MaxFloat64, -1, -math.SmallestNonzeroFloat64, math.Copysign(0, -1), 0,
			math.SmallestNonzeroFloat64, 1, math.MaxFloat64, math.Inf(1)} {
			l := fmt.Sprint(f)
			if f == 0 && math.Signbit(f) {
				l = "-0"
			}
			vs = append(vs, val{Label: l, Raw: f, TV: sql.NewFloat64(f)})
		}
		for _, bits := range []uint64{0x7FF8000000000001, 0xFFF8000000000001} {
			f := math.Float64frombits(bits)
			vs = append(vs, val{Label: fmt.Sprintf("NaN(%016x)", bits), Raw: f, TV: sql.NewFloat64(f), NoOrder: true})
		}
	case sql.BooleanType:
		vs = append(vs, val{Label: "false", Raw: false, TV: sql.NewBool(false)}, val{Label: "true", Raw: true, TV: sql.NewBool(true)})
	case sql.VarcharType, sql.BLOBType:
		strs := allStrings(strLen)
		if k.MaxLen >= 256 { // values of maximal length and one byte beyond
			m := k.MaxLen
			strs = append(strs, strings.Repeat("a", m-1), strings.Repeat("a", m), strings.Repeat("a", m-1)+"\x00", strings.Repeat("a", m-1)+"\xff",
				strings.Repeat("\x00", m), strings.Repeat("\xff", m), strings.Repeat("a", m+1), strings.Repeat("\x00", m+1))
		}
		for _, s := range strs {
			if k.T == sql.VarcharType {
				vs = append(vs, val{Label: shortQ(s), Raw: s, TV: sql.NewVarchar(s)})
			} else {
				vs = append(vs, val{Label: "x'" + shortHex([]byte(s)) + "'", Raw: []byte(s), TV: sql.NewBlob([]byte(s))})
			}
		}
	case sql.TimestampType:
		for _, t := range tsBoundaries() {
			tv, err := mkTimestamp(t)
			if err != nil {
				harnessBug("mkTimestamp: " + err.Error())
			}
			vs = append(vs, val{Label: t.Format("2006-01-02T15:04:05.000000Z"), Raw: t, TV: tv})
		}
	case sql.UUIDType:
		for _, u := range uuidBoundaries() {
			vs = append(vs, val{Label: u.String(), Raw: u, TV: sql.NewUUID(u)})
		}
	}
	return vs
}

func shortQ(s string) string {
	if len(s) > 8 {
		return fmt.Sprintf("%q*%d+%q", s[:1], len(s)-1, s[len(s)-1:])
	}
	return fmt.Sprintf("%q", s)
}

func shortHex(b []byte) string {
	if len(b) > 8 {
		return fmt.Sprintf("%02x*%d+%02x", b[0], len(b)-1, b[len(b)-1])
	}
	return hex.EncodeToString(b)
}

// eqRaw: equality of decoded and original raw values as a codec must preserve them (floats bitwise, any NaN
// payload must stay a NaN with the same bits; times as instants; blobs as byte strings, nil == empty).
func eqRaw(a, b interface{}) bool {
	switch x := a.(type) {
	case nil:
		return b == nil
	case float64:
		y, ok := b.(float64)
		return ok && math.Float64bits(x) == math.Float64bits(y)
	case []byte:
		y, ok := b.([]byte)
		return ok && bytes.Equal(x, y)
	case time.Time:
		y, ok := b.(time.Time)
		return ok && x.Equal(y)
	}
	return reflect.DeepEqual(a, b)
}

func eqTV(got sql.TypedValue, want val, k col) string {
	if got == nil {
		return "decoded value is nil"
	}
	if want.Raw == nil {
		if !got.IsNull() {
			return fmt.Sprintf("decoded %v (%s), want NULL", got.RawValue(), got.Type())
		}
		return ""
	}
	if got.IsNull() {
		return "decoded NULL, want " + want.Label
	}
	if got.Type() != k.T {
		return fmt.Sprintf("decoded type %s, want %s", got.Type(), k.T)
	}
	if !eqRaw(got.RawValue(), want.Raw) {
		return fmt.Sprintf("decoded %s, want %s", render(got.RawValue()), want.Label)
	}
	return ""
}

// sqlEqualZero: -0.0 and +0.0 are the same SQL value ("decodes back to an equal value"): an index key may
// normalise the sign of zero.
func sqlEqualZero(got sql.TypedValue, want val) bool {
	g, ok1 := got.RawValue().(float64)
	w, ok2 := want.Raw.(float64)
	return ok1 && ok2 && g == 0 && w == 0
}

func render(raw interface{}) string {
	switch v := raw.(type) {
	case string:
		return shortQ(v)
	case []byte:
		return "x'" + shortHex(v) + "'"
	case time.Time:
		return v.UTC().Format("2006-01-02T15:04:05.000000000Z")
	case float64:
		return fmt.Sprintf("%v(bits %016x)", v, math.Float64bits(v))
	}
	return fmt.Sprint(raw)
}

var trailing = []byte{0xAA, 0x55, 0x80}

// colData is everything computed once per column configuration.
type colData struct {
	K     col
	Vals  []val    // accepted, orderable values (NULL first by construction, not relied upon)
	Key   [][]byte // key encoding of Vals[i]
	Cmp   [][]int8 // sign of Vals[i].Compare(Vals[j])
	Bad   [][]bool // column-level order violation between i and j (already reported)
	RTBad []bool   // the single-column key round trip of Vals[i] failed (already reported)
}

func sign(x int) int8 {
	switch {
	case x < 0:
		return -1
	case x > 0:
		return 1
	}
	return 0
}

// checkColumn: oracles (1) and (2) for one column configuration.
func checkColumn(k col, strLen int) *colData {
	cd := &colData{K: k}
	for _, v := range boundarySet(k, strLen) {
		v := v
		tooLong := rawLen(v.Raw) > k.MaxLen && (k.T == sql.VarcharType || k.T == sql.BLOBType)
		id := fmt.Sprintf("type=%s v=%s", k, v.Label)
		c.Eval("V:" + id)
		rp := map[string]any{"part": "A", "type": string(k.T), "maxLen": k.MaxLen, "strLen": strLen}

		// --- value codec (row values)
		if p := lib.Catch(func() {
			if v.Raw != nil {
				enc, err := sql.EncodeValue(v.TV, k.T, k.MaxLen)
				switch {
				case tooLong && err == nil:
					viol("length-not-enforced codec=value "+id, fmt.Sprintf("EncodeValue accepted a value of length %d for declared length %d", rawLen(v.Raw), k.MaxLen), rp)
				case tooLong:
					c.Add("A_rejected_too_long", 1)
				case err != nil:
					viol("value-encode-error "+id, err.Error(), rp)
				default:
					dec, n, err := sql.DecodeValue(append(append([]byte{}, enc...), trailing...), k.T)
					if err != nil {
						viol("value-roundtrip "+id, "DecodeValue: "+err.Error(), rp)
					} else if d := eqTV(dec, v, k); d != "" || n != len(enc) {
						viol("value-roundtrip "+id, fmt.Sprintf("DecodeValue(EncodeValue(v)): %s; consumed %d of %d bytes; enc=%x", d, n, len(enc), enc), rp)
					}
				}
			}
			if !tooLong {
				// the nullable variant of the same codec (used for rows spilled to disk by the file sorter, maxLen -1)
				id := fmt.Sprintf("type=%s v=%s", k.T, v.Label) // the declared length plays no role here: one signature per type and value
				enc, err := sql.EncodeNullableValue(v.TV, k.T, -1)
				if err != nil {
					viol("nullable-encode-error "+id, err.Error(), rp)
				} else {
					dec, n, err := sql.DecodeNullableValue(append(append([]byte{}, enc...), trailing...), k.T)
					if err != nil {
						viol("nullable-roundtrip "+id, "DecodeNullableValue: "+err.Error(), rp)
					} else if d := eqTV(dec, v, k); d != "" || n != len(enc) {
						viol("nullable-roundtrip "+id, fmt.Sprintf("DecodeNullableValue(EncodeNullableValue(v)): %s; consumed %d of %d bytes; enc=%x", d, n, len(enc), enc), rp)
					}
				}
			}
		}); p != "" {
			viol("panic codec=value "+id, p, rp)
		}

		// --- key codec
		var key []byte
		okKey, rtBad := false, false
		if p := lib.Catch(func() {
			enc, n, err := sql.EncodeValueAsKey(v.TV, k.T, k.MaxLen)
			switch {
			case tooLong && err == nil:
				viol("length-not-enforced codec=key "+id, fmt.Sprintf("EncodeValueAsKey accepted a value of length %d for declared length %d", rawLen(v.Raw), k.MaxLen), rp)
				return
			case tooLong:
				c.Add("A_rejected_too_long", 1)
				return
			case err != nil:
				viol("key-encode-error "+id, err.Error(), rp)
				return
			}
			key, okKey = enc, true
			if (k.T == sql.VarcharType || k.T == sql.BLOBType) && n != rawLen(v.Raw) {
				viol("key-encode-length "+id, fmt.Sprintf("EncodeValueAsKey reported value length %d, want %d", n, rawLen(v.Raw)), rp)
			}
			dec, m, err := sql.DecodeValueFromKey(append(append([]byte{}, enc...), trailing...), k.T, k.MaxLen)
			if err != nil {
				rtBad = true
				viol("key-roundtrip "+id, "DecodeValueFromKey: "+err.Error(), rp)
			} else if d := eqTV(dec, v, k); (d != "" && !sqlEqualZero(dec, v)) || m != len(enc) {
				rtBad = true
				viol("key-roundtrip "+id, fmt.Sprintf("DecodeValueFromKey(EncodeValueAsKey(v)): %s; consumed %d of %d bytes; key=%x", d, m, len(enc), enc), rp)
			}
			// the raw-value entry point must agree with the typed one
			enc2, _, err := sql.EncodeRawValueAsKey(v.Raw, k.T, k.MaxLen)
			if err != nil || !bytes.Equal(enc, enc2) {
				viol("key-raw-vs-typed "+id, fmt.Sprintf("EncodeRawValueAsKey=%x err=%v, EncodeValueAsKey=%x", enc2, err, enc), rp)
			}
		}); p != "" {
			viol("panic codec=key "+id, p, rp)
		}
		if okKey && !v.NoOrder {
			cd.Vals = append(cd.Vals, v)
			cd.Key = append(cd.Key, key)
			cd.RTBad = append(cd.RTBad, rtBad)
		}
	}

	// --- order: all pairs
	n := len(cd.Vals)
	cd.Cmp = make([][]int8, n)
	cd.Bad = make([][]bool, n)
	for i := range cd.Cmp {
		cd.Cmp[i] = make([]int8, n)
		cd.Bad[i] = make([]bool, n)
	}
	for i := 0; i < n; i++ {
		for j := 0; j < n; j++ {
			r, err := cd.Vals[i].TV.Compare(cd.Vals[j].TV)
			if err != nil {
				viol(fmt.Sprintf("compare-error type=%s a=%s b=%s", k, cd.Vals[i].Label, cd.Vals[j].Label), err.Error(), nil)
				cd.Bad[i][j], cd.Bad[j][i] = true, true
			}
			cd.Cmp[i][j] = sign(r)
		}
	}
	for i := 0; i < n; i++ {
		for j := i; j < n; j++ {
			c.AddEvals(1)
			kc := sign(bytes.Compare(cd.Key[i], cd.Key[j]))
			a, b := cd.Vals[i], cd.Vals[j]
			rp := map[string]any{"part": "A", "type": string(k.T), "maxLen": k.MaxLen, "strLen": strLen}
			what := ""
			switch {
			case (a.Raw == nil) != (b.Raw == nil) && kc != map[bool]int8{true: -1, false: 1}[a.Raw == nil]:
				what = "NULL does not sort first in the key encoding"
			case cd.Cmp[i][j] != kc || cd.Cmp[j][i] != -kc:
				what = "byte order of the keys disagrees with SQL Compare"
				if cd.Cmp[i][j] == 0 && cd.Cmp[j][i] == 0 {
					what = "values compare equal in SQL but their key encodings differ"
				}
			}
			if what != "" {
				cd.Bad[i][j], cd.Bad[j][i] = true, true
				viol(fmt.Sprintf("order-mismatch type=%s a=%s b=%s", k, a.Label, b.Label),
					fmt.Sprintf("%s: Compare(a,b)=%d Compare(b,a)=%d bytes.Compare(key(a),key(b))=%d key(a)=%x key(b)=%x", what, cd.Cmp[i][j], cd.Cmp[j][i], kc, cd.Key[i], cd.Key[j]), rp)
			}
		}
	}
	c.Add("A_column_pairs", int64(n*(n+1)/2))
	for i := 0; i < n; i++ {
		for j := i + 1; j < n; j++ {
			switch cd.Cmp[i][j] {
			case 0:
				c.Add("A_column_pairs_sql_equal_distinct_values", 1)
			case -1:
				c.Add("A_column_pairs_sql_less", 1)
			default:
				c.Add("A_column_pairs_sql_greater", 1)
			}
		}
	}
	return cd
}

// checkComposite: oracle (3). Index keys are built exactly as the engine does (doUpsert/encodedKey):
// MapKey(prefix, MappedPrefix, EncodeID(table), EncodeID(index), enc(col1), enc(col2)).
func checkComposite(cds []*colData) {
	prefix := []byte{2}
	type job struct{ x, y int }
	var jobs []job
	for x := range cds {
		for y := range cds {
			jobs = append(jobs, job{x, y})
		}
	}
	c.ParallelFor(len(jobs), func(q int) {
		if c.Expired() {
			c.CapHit("part A: composite type pairs not all explored")
			return
		}
		A, B := cds[jobs[q].x], cds[jobs[q].y]
		na, nb := len(A.Vals), len(B.Vals)
		keys := make([][]byte, na*nb)
		hdr := len(sql.MapKey(prefix, sql.MappedPrefix, sql.EncodeID(1), sql.EncodeID(2)))
		for i := 0; i < na; i++ {
			for j := 0; j < nb; j++ {
				mk := sql.MapKey(prefix, sql.MappedPrefix, sql.EncodeID(1), sql.EncodeID(2), A.Key[i], B.Key[j])
				keys[i*nb+j] = mk
				id := fmt.Sprintf("types=(%s,%s) v=(%s,%s)", A.K, B.K, A.Vals[i].Label, B.Vals[j].Label)
				c.Distinct("K:" + id)
				// decode the composite back column by column (consumed lengths must chain)
				d1, n1, err1 := sql.DecodeValueFromKey(mk[hdr:], A.K.T, A.K.MaxLen)
				var d2 sql.TypedValue
				var n2 int
				var err2 error
				if err1 == nil {
					d2, n2, err2 = sql.DecodeValueFromKey(mk[hdr+n1:], B.K.T, B.K.MaxLen)
				}
				if err1 != nil || err2 != nil || hdr+n1+n2 != len(mk) {
					viol("composite-roundtrip "+id, fmt.Sprintf("err1=%v err2=%v consumed %d+%d of %d", err1, err2, n1, n2, len(mk)-hdr), nil)
				} else if e1, e2 := eqTV(d1, A.Vals[i], A.K), eqTV(d2, B.Vals[j], B.K); (e1 != "" && !sqlEqualZero(d1, A.Vals[i])) || (e2 != "" && !sqlEqualZero(d2, B.Vals[j])) {
					if !A.RTBad[i] && !B.RTBad[j] { // otherwise reported at column level
						viol("composite-roundtrip "+id, e1+" / "+e2, nil)
					}
				}
			}
		}
		var pairs, explained int64
		for p := 0; p < na*nb; p++ {
			i1, j1 := p/nb, p%nb
			for r := p; r < na*nb; r++ {
				i2, j2 := r/nb, r%nb
				pairs++
				want := A.Cmp[i1][i2]
				if want == 0 {
					want = B.Cmp[j1][j2]
				}
				if got := sign(bytes.Compare(keys[p], keys[r])); got != want {
					if A.Bad[i1][i2] || B.Bad[j1][j2] {
						explained++ // consequence of a column-level violation that is reported on its own
						continue
					}
					viol(fmt.Sprintf("composite-order-mismatch types=(%s,%s) a=(%s,%s) b=(%s,%s)", A.K, B.K, A.Vals[i1].Label, B.Vals[j1].Label, A.Vals[i2].Label, B.Vals[j2].Label),
						fmt.Sprintf("lexicographic SQL order %d, byte order %d, key(a)=%x key(b)=%x", want, got, keys[p], keys[r]), nil)
				}
			}
		}
		c.AddEvals(pairs)
		c.Add("A_composite_pairs", pairs)
		c.Add("A_composite_pairs_explained_by_column_violation", explained)
	})
}

// JSON row values: value codec only (JSON columns cannot be indexed).
func checkJSON() {
	docs := []string{`true`, `false`, `0`, `-1.5`, `1e300`, `""`, `"a\u0000b"`, `[]`, `{}`, `[1,"a",null,[true]]`, `{"k":{"n":null,"l":[1,2]},"":""}`}
	for _, d := range docs {
		id := "type=JSON v=" + d
		c.Eval("V:" + id)
		j, err := sql.NewJsonFromString(d)
		if err != nil {
			harnessBug("NewJsonFromString " + d + ": " + err.Error())
		}
		enc, err := sql.EncodeValue(j, sql.JSONType, 0)
		if err != nil {
			viol("value-encode-error "+id, err.Error(), nil)
			continue
		}
		dec, n, err := sql.DecodeValue(append(append([]byte{}, enc...), trailing...), sql.JSONType)
		if err != nil || n != len(enc) || dec.Type() != sql.JSONType || !reflect.DeepEqual(dec.RawValue(), j.RawValue()) {
			viol("value-roundtrip "+id, fmt.Sprintf("err=%v consumed %d of %d, decoded %#v want %#v", err, n, len(enc), rawOf(dec), j.RawValue()), nil)
		}
	}
}

func rawOf(tv sql.TypedValue) interface{} {
	if tv == nil {
		return nil
	}
	return tv.RawValue()
}
