package main

// Part F — SQL rows through the real engine: every boundary value of every type is stored in an indexed column of
// a real table (row codec + index key construction) and read back by primary key; the value must come back equal.
// Part A4 — implicit conversions applied inside the codecs (type_conversion.go): an INTEGER stored in a FLOAT column
// and a textual UUID stored in a UUID column must encode exactly like the converted value.

import (
	"bytes"
	"context"
	"errors"
	"fmt"
	"os"

	"github.com/codenotary/immudb/embedded/logger"
	"github.com/codenotary/immudb/embedded/sql"
	"github.com/codenotary/immudb/embedded/store"
	"github.com/google/uuid"
	"verif/mc/lib"
)

func partA4() {
	for _, i := range []int64{-(1 << 53), -(1 << 32), -1, 0, 1, 1 << 32, 1 << 53} { // exactly representable as float64
		id := fmt.Sprintf("from=INTEGER to=FLOAT v=%d", i)
		c.Eval("X:" + id)
		k1, _, e1 := sql.EncodeRawValueAsKey(i, sql.Float64Type, 8)
		k2, _, e2 := sql.EncodeRawValueAsKey(float64(i), sql.Float64Type, 8)
		v1, e3 := sql.EncodeRawValue(i, sql.Float64Type, 8, false)
		v2, e4 := sql.EncodeRawValue(float64(i), sql.Float64Type, 8, false)
		if e1 != nil || e2 != nil || e3 != nil || e4 != nil || !bytes.Equal(k1, k2) || !bytes.Equal(v1, v2) {
			viol("implicit-conversion "+id, fmt.Sprintf("key %x vs %x (%v,%v) value %x vs %x (%v,%v)", k1, k2, e1, e2, v1, v2, e3, e4), nil)
		}
	}
	for _, u := range uuidBoundaries() {
		id := "from=VARCHAR to=UUID v=" + u.String()
		c.Eval("X:" + id)
		k1, _, e1 := sql.EncodeRawValueAsKey(u.String(), sql.UUIDType, 16)
		k2, _, e2 := sql.EncodeRawValueAsKey(u, sql.UUIDType, 16)
		v1, e3 := sql.EncodeRawValue(u.String(), sql.UUIDType, 16, false)
		v2, e4 := sql.EncodeRawValue(u, sql.UUIDType, 16, false)
		if e1 != nil || e2 != nil || e3 != nil || e4 != nil || !bytes.Equal(k1, k2) || !bytes.Equal(v1, v2) {
			viol("implicit-conversion "+id, fmt.Sprintf("key %x vs %x (%v,%v) value %x vs %x (%v,%v)", k1, k2, e1, e2, v1, v2, e3, e4), nil)
		}
	}
}

func partF() {
	dir := lib.Scratch("c15f")
	defer os.RemoveAll(dir)
	o := store.DefaultOptions().WithSynced(false).WithMultiIndexing(true).WithLogger(logger.NewMemoryLoggerWithLevel(logger.LogError)).
		WithFileSize(1 << 20).WithMaxTxEntries(64).WithMaxConcurrency(4).WithMaxActiveTransactions(8).WithTxLogCacheSize(8).
		WithVLogCacheSize(0).WithWriteBufferSize(1 << 16).WithAHTOptions(store.DefaultAHTOptions().WithWriteBufferSize(4096)).
		WithIndexOptions(store.DefaultIndexOptions().WithFlushBufferSize(4096).WithCacheSize(64))
	st, err := store.Open(dir, o)
	if err != nil {
		harnessBug("store.Open: " + err.Error())
	}
	defer st.Close()
	eng, err := sql.NewEngine(st, sql.DefaultOptions().WithPrefix([]byte{4}))
	if err != nil {
		harnessBug("sql.NewEngine: " + err.Error())
	}
	ctx := context.Background()
	cols := []struct {
		name string
		k    col
		decl string
		expr string
	}{{"i", col{sql.IntegerType, 8}, "INTEGER", "@i"}, {"f", col{sql.Float64Type, 8}, "FLOAT", "@f"}, {"s", col{sql.VarcharType, 3}, "VARCHAR[3]", "@s"},
		{"b", col{sql.BLOBType, 3}, "BLOB[3]", "@b"}, {"bo", col{sql.BooleanType, 1}, "BOOLEAN", "@bo"}, {"ts", col{sql.TimestampType, 8}, "TIMESTAMP", "@ts"},
		{"u", col{sql.UUIDType, 16}, "UUID", "CAST(@u AS UUID)"}}
	ddl := "CREATE TABLE t(id INTEGER"
	names, exprs := "id", "@id"
	for _, cl := range cols {
		ddl += ", " + cl.name + " " + cl.decl
		names += ", " + cl.name
		exprs += ", " + cl.expr
	}
	stmts := []string{ddl + ", PRIMARY KEY id)"}
	for _, cl := range cols {
		stmts = append(stmts, "CREATE INDEX ON t("+cl.name+")")
	}
	for _, q := range stmts {
		if _, _, err := eng.Exec(ctx, nil, q, nil); err != nil {
			harnessBug(q + ": " + err.Error())
		}
	}
	sets := make([][]val, len(cols))
	rows := 0
	for i, cl := range cols {
		for _, v := range boundarySet(cl.k, 3) {
			if rawLen(v.Raw) <= cl.k.MaxLen || (cl.k.T != sql.VarcharType && cl.k.T != sql.BLOBType) {
				sets[i] = append(sets[i], v)
			}
		}
		rows = max(rows, len(sets[i]))
	}
	for r := 0; r < rows; r++ {
		if c.Expired() {
			c.CapHit("part F: not all rows explored")
			return
		}
		params := map[string]interface{}{"id": int64(r)}
		want := make([]val, len(cols))
		for i, cl := range cols {
			v := sets[i][r%len(sets[i])]
			want[i] = v
			params[cl.name] = v.Raw
			if u, ok := v.Raw.(uuid.UUID); ok {
				params[cl.name] = u.String()
			}
		}
		sig := fmt.Sprintf("row=%d", r)
		if p := lib.Catch(func() {
			if _, _, err := eng.Exec(ctx, nil, "INSERT INTO t("+names+") VALUES ("+exprs+")", params); err != nil {
				viol("sqlrow-insert-error "+sig, fmt.Sprintf("%v (values %v)", err, labels(want)), map[string]any{"part": "F"})
				return
			}
			rd, err := eng.Query(ctx, nil, "SELECT "+names+" FROM t WHERE id = @id", map[string]interface{}{"id": int64(r)})
			if err != nil {
				viol("sqlrow-roundtrip "+sig, err.Error(), map[string]any{"part": "F"})
				return
			}
			defer rd.Close()
			row, err := rd.Read(ctx)
			if err != nil {
				viol("sqlrow-roundtrip "+sig, "row not found by primary key: "+err.Error(), map[string]any{"part": "F"})
				return
			}
			for i, cl := range cols {
				c.Eval(fmt.Sprintf("F:%s=%s", cl.name, want[i].Label))
				if d := eqTV(row.ValuesByPosition[i+1], want[i], cl.k); d != "" {
					viol(fmt.Sprintf("sqlrow-roundtrip type=%s v=%s", cl.k, want[i].Label), "INSERT then SELECT by primary key: "+d, map[string]any{"part": "F"})
				}
			}
			if _, err := rd.Read(ctx); !errors.Is(err, sql.ErrNoMoreRows) {
				viol("sqlrow-roundtrip "+sig, fmt.Sprintf("more than one row for the primary key (err=%v)", err), map[string]any{"part": "F"})
			}
		}); p != "" {
			viol("panic sqlrow "+sig, p, map[string]any{"part": "F"})
		}
	}
	c.Set("F_rows", rows)
}

func labels(vs []val) []string {
	var out []string
	for _, v := range vs {
		out = append(out, v.Label)
	}
	return out
}
