// Package sched is engine E1: systematic exploration of the interleavings of a small harness running on
// the instrumented copy of immudb (see /verif/shim and /verif/tools/rewrite).
//
// Search: stateless depth-first search over choice sequences (every execution replays a prefix on a fresh
// store directory, then takes the default alternative everywhere), with
//   - iterative preemption/deviation bounding (switching away from a runnable thread at a non-voluntary
//     point, or a non-default environment choice, costs 1), complete for the bound it finishes;
//   - happens-before state-key pruning: a state reached again with no more budget left than at an earlier
//     visit is not expanded again.
//
// Work is sharded over worker processes (vsched has global state) by top-level branch.
package sched

import (
	"encoding/json"
	"flag"
	"fmt"
	"os"
	"os/exec"
	"sort"
	"strings"
	"sync"
	"time"

	"github.com/codenotary/immudb/embedded/vhooks/vos"
	"github.com/codenotary/immudb/embedded/vhooks/vsched"
	"verif/mc/lib"
)

// Scenario is one closed harness. Body runs as thread 0 under the scheduler on a fresh directory and returns a
// canonical observation string (used to count distinct outcomes). Oracle breaches are reported with Report.
type Scenario struct {
	Name string
	Body func(dir string) string
	// MaxSteps per execution (0 = default)
	MaxSteps int
	// Record: journal every storage operation of the execution (vos.Journal) for crash-image enumeration
	Record bool
	// Desc: iterate maps in descending key order (the rewriter makes map iteration canonical; running a scenario
	// in both orders shows that the verdict does not depend on one particular order)
	Desc bool
}

type Viol struct {
	Sig     string `json:"sig"`
	Detail  string `json:"detail"`
	Choices []int  `json:"choices"`
	Policy  int    `json:"policy,omitempty"`
}

var cur []Viol // violations reported by the running execution
var curMu sync.Mutex

// Report records an oracle breach of the current execution (may be called from any thread).
func Report(sig, detail string) {
	curMu.Lock()
	cur = append(cur, Viol{Sig: sig, Detail: detail})
	curMu.Unlock()
}

var hmu sync.Mutex

// Shared runs f under a process-wide harness mutex: harness code that updates state shared between workload
// threads uses it so that the free-running race-detector pass does not report (or crash on) the harness itself.
// f must not contain synchronisation operations of the code under test.
func Shared(f func()) {
	hmu.Lock()
	f()
	hmu.Unlock()
}

type Stats struct {
	Scenario   string         `json:"scenario"`
	Bound      int            `json:"bound"`
	Execs      int64          `json:"execs"`
	Pruned     int64          `json:"pruned"`
	States     int64          `json:"states"`
	Steps      int64          `json:"steps"`
	MaxPoints  int            `json:"max_points"`
	Outcomes   map[string]int `json:"outcomes"`
	Violations []Viol         `json:"violations"`
	Complete   bool           `json:"complete"`
	HarnessErr string         `json:"harness_error,omitempty"`
	Branches   int            `json:"branches"`
	// phase A: only switches between the harness's own (workload) threads are branched on, library goroutines follow
	// the default policy; explored before the full space, with one more preemption
	WorkExecs    int64 `json:"work_execs"`
	WorkComplete bool  `json:"work_complete"`
	WorkBound    int   `json:"work_bound"`
}

type explorer struct {
	sc       Scenario
	bound    int
	deadline time.Time
	shard, n int
	visited  map[uint64]int
	st       Stats
	curCost  int
	branch   int
	dir      string
	violSeen map[string]bool
	onExec   func(e *vsched.Exec, obs string) bool // optional: called for every completed execution; false stops
	stopped  bool
	workOnly bool
	curKeys  map[uint64]bool
}

// costBefore: the deviation budget used by the first i choices. Full phase: preemptions (switching away from a
// thread that could have continued; free at blocking points). Workload-thread phase: delay bounding — EVERY
// non-default choice costs one, also at blocking points, which keeps the space polynomial in the bound.
func (x *explorer) costBefore(pts []vsched.Point, i int) int {
	if !x.workOnly {
		return preemptionsBefore(pts, i)
	}
	n := 0
	for k := 0; k < i; k++ {
		if pts[k].Chosen != 0 {
			n++
		}
	}
	return n
}

func preemptionsBefore(pts []vsched.Point, i int) int {
	n := 0
	for k := 0; k < i; k++ {
		p := pts[k]
		if p.CurEnabled && !p.Voluntary && p.Chosen != 0 {
			n++
		}
	}
	return n
}

type outcome struct {
	e   *vsched.Exec
	obs string
	v   []Viol
}

func runOnce(sc Scenario, dir string, prefix []int, onPoint func(e *vsched.Exec, key uint64) bool, trace bool) outcome {
	os.RemoveAll(dir)
	os.MkdirAll(dir, 0755)
	vos.Reset(sc.Record)
	vsched.Descending = sc.Desc
	cur = nil
	var obs string
	e := vsched.Run(prefix, vsched.Options{MaxSteps: sc.MaxSteps, OnPoint: onPoint, KeepTrace: trace}, func() { obs = sc.Body(dir) })
	vos.CloseAll()
	v := cur
	cur = nil
	return outcome{e, obs, v}
}

func choicesOf(e *vsched.Exec) []int {
	c := make([]int, len(e.Points))
	for i, p := range e.Points {
		c[i] = p.Chosen
	}
	return c
}

func failureSig(sc Scenario, e *vsched.Exec) (string, string) {
	f := e.Failure
	first := strings.SplitN(f, "\n", 2)[0]
	switch {
	case e.Deadlock:
		// the set of blocked positions identifies the deadlock
		var w []string
		for _, l := range strings.Split(f, "\n") {
			if i := strings.Index(l, " at "); i >= 0 && strings.Contains(l, "done=false") {
				w = append(w, strings.TrimSpace(l[i+4:]))
			}
		}
		sort.Strings(w)
		return "deadlock scenario=" + sc.Name + " blocked=" + strings.Join(w, "|"), f
	case strings.HasPrefix(first, "panic"):
		return "panic scenario=" + sc.Name + " " + first, f
	default:
		return "liveness scenario=" + sc.Name + " " + first, f
	}
}

// check turns the result of one complete execution into violations (after confirming determinism by replay).
func (x *explorer) check(o outcome) {
	var vs []Viol
	if o.e.Failure != "" && !o.e.Pruned && !o.e.Diverged {
		sig, det := failureSig(x.sc, o.e)
		vs = append(vs, Viol{Sig: sig, Detail: det})
	}
	vs = append(vs, o.v...)
	if len(vs) == 0 {
		return
	}
	ch := choicesOf(o.e)
	fresh := false
	for _, v := range vs {
		if !x.violSeen[v.Sig] {
			fresh = true
		}
	}
	if !fresh {
		return
	}
	// a violation is only believed if the same schedule fails the same way on every replay
	for r := 0; r < 5; r++ {
		o2 := runOnce(x.sc, x.dir, ch, nil, false)
		var s2 []string
		if o2.e.Failure != "" {
			sig, _ := failureSig(x.sc, o2.e)
			s2 = append(s2, sig)
		}
		for _, v := range o2.v {
			s2 = append(s2, v.Sig)
		}
		var s1 []string
		for _, v := range vs {
			s1 = append(s1, v.Sig)
		}
		if strings.Join(s1, "\n") != strings.Join(s2, "\n") {
			x.st.HarnessErr = fmt.Sprintf("non-deterministic replay of %v: first %q, replay %d %q", ch, s1, r, s2)
			return
		}
	}
	for _, v := range vs {
		if x.violSeen[v.Sig] {
			continue
		}
		x.violSeen[v.Sig] = true
		v.Choices, v.Policy = ch, vsched.Policy
		if len(x.st.Violations) < 40 {
			x.st.Violations = append(x.st.Violations, v)
		}
	}
}

func (x *explorer) onPoint(e *vsched.Exec, key uint64) bool {
	// a key seen earlier in THIS execution is a polling loop (the key does not hold the yield counters that drive
	// the fair default order): the execution goes on; only states expanded by an earlier execution are pruned
	if x.curKeys[key] {
		return true
	}
	c := x.costBefore(e.Points, len(e.Points))
	if old, ok := x.visited[key]; ok && old <= c {
		return false
	}
	x.visited[key] = c
	x.curKeys[key] = true
	return true
}

func (x *explorer) explore(prefix []int, top bool) {
	if x.st.HarnessErr != "" {
		return
	}
	if time.Now().After(x.deadline) {
		x.st.Complete = false
		return
	}
	x.curKeys = map[uint64]bool{}
	o := runOnce(x.sc, x.dir, prefix, x.onPoint, false)
	e := o.e
	if e.Diverged {
		x.st.HarnessErr = fmt.Sprintf("replay divergence on prefix %v: %s", prefix, e.Failure)
		return
	}
	count := !top || x.shard == 0
	if count {
		x.st.Execs++
		x.st.Steps += int64(e.Steps)
		if len(e.Points) > x.st.MaxPoints {
			x.st.MaxPoints = len(e.Points)
		}
	}
	last := len(e.Points)
	if e.Pruned {
		if count {
			x.st.Pruned++
		}
		last-- // alternatives at the pruned point belong to the earlier visit of that state
	} else if count {
		x.st.Outcomes[o.obs]++
		x.check(o)
		if x.onExec != nil && !x.onExec(o.e, o.obs) {
			x.stopped = true
		}
	}
	if x.stopped {
		x.st.Complete = false
		return
	}
	if top && os.Getenv("SCHED_DEBUG_POINTS") != "" {
		fmt.Fprintf(os.Stderr, "DEBUG focus=%d points=%d workOnly=%v pruned=%v failure=%q obs=%q\n", e.FocusAt, len(e.Points), x.workOnly, e.Pruned, e.Failure, o.obs)
		for i, p := range e.Points {
			if i >= e.FocusAt && i < e.FocusAt+60 {
				fmt.Fprintf(os.Stderr, "DEBUG  point %d N=%d work=%b cur=%v vol=%v tid=%d\n", i, p.N, p.Work, p.CurEnabled, p.Voluntary, p.Tid)
			}
		}
	}
	first := len(prefix)
	if e.FocusAt > first {
		first = e.FocusAt // the setup phase (before vsched.Focus) is not permuted
	}
	// two passes: switches to a workload thread first (the interleavings of the harness's own threads are reached
	// before the time budget goes into the library's background goroutines), then all other alternatives
	for pass := 0; pass < 2; pass++ {
		for i := first; i < last; i++ {
			p := e.Points[i]
			cost := x.costBefore(e.Points, i)
			if x.workOnly || (p.CurEnabled && !p.Voluntary) {
				cost++
			}
			if cost > x.bound {
				continue
			}
			for alt := 1; alt < p.N; alt++ {
				work := p.Env || (alt < 64 && p.Work&(1<<uint(alt)) != 0)
				if work != (pass == 0) || (x.workOnly && !work) {
					continue
				}
				if top {
					x.branch++
					if x.branch%x.n != x.shard {
						continue
					}
				}
				np := make([]int, i+1)
				for k := 0; k < i; k++ {
					np[k] = e.Points[k].Chosen
				}
				np[i] = alt
				x.explore(np, false)
			}
		}
	}
	if top {
		x.st.Branches = x.branch
	}
}

// run: phase A (workload-thread switches only, bound+1, at most half of the time), then the full space at bound.
func (x *explorer) run() Stats {
	full := x.deadline
	x.st = Stats{Scenario: x.sc.Name, Bound: x.bound, Outcomes: map[string]int{}, Complete: true}
	{
		// iterative bounding under both default-order policies: every (bound, policy) is completed before the next one
		// starts; WorkBound = last bound completed under both
		jobBound := x.bound
		x.workOnly = true
		x.deadline = time.Now().Add(time.Until(full) / 2)
	phaseA:
		for b := 1; b <= jobBound+2 && x.st.HarnessErr == ""; b++ {
			for pol := 0; pol <= 2; pol++ {
				vsched.Policy = pol
				x.bound, x.visited, x.branch, x.st.Complete = b, map[uint64]int{}, 0, true
				x.explore(nil, true)
				if !x.st.Complete {
					break phaseA
				}
			}
			x.st.WorkBound, x.st.WorkComplete = b, true
		}
		vsched.Policy = 0
		x.st.WorkExecs = x.st.Execs
		x.workOnly, x.bound, x.deadline = false, jobBound, full
		x.visited, x.branch, x.st.Complete = map[uint64]int{}, 0, true
	}
	x.explore(nil, true)
	x.st.States = int64(len(x.visited))
	os.RemoveAll(x.dir)
	return x.st
}

// ExploreShard explores the shard's part of the bounded schedule space of sc.
func ExploreShard(sc Scenario, bound int, deadline time.Time, shard, n int) Stats {
	x := &explorer{sc: sc, bound: bound, deadline: deadline, shard: shard, n: n, visited: map[uint64]int{}, violSeen: map[string]bool{},
		dir: fmt.Sprintf("%s/w%d", scratchBase(), shard)}
	return x.run()
}

// ExploreLocal explores sc in this process (one worker) and hands every completed execution to onExec right
// after it ran (vos.Journal still holds its journal when sc.Record is set). onExec returns false to stop.
func ExploreLocal(sc Scenario, bound int, deadline time.Time, onExec func(e *vsched.Exec, obs string) bool) Stats {
	x := &explorer{sc: sc, bound: bound, deadline: deadline, shard: 0, n: 1, visited: map[uint64]int{}, violSeen: map[string]bool{},
		dir: fmt.Sprintf("%s/local", scratchBase()), onExec: onExec}
	return x.run()
}

// TraceOnce runs one schedule (debugging aid) and returns its scheduling trace and observation.
func TraceOnce(sc Scenario, choices []int, policy int) ([]string, string, *vsched.Exec) {
	vsched.Policy = policy
	o := runOnce(sc, scratchBase()+"/trace", choices, nil, true)
	vsched.Policy = 0
	return o.e.Trace, o.obs, o.e
}

func LocalDir() string { return fmt.Sprintf("%s/local", scratchBase()) }

// Cleanup removes the scratch area of this process.
func Cleanup() { os.RemoveAll(scratchBase()) }

var scratch string

func scratchBase() string {
	if scratch == "" {
		scratch = lib.Scratch("sched")
	}
	return scratch
}

// SelfCheck runs the default schedule twice (with traces) and requires identical traces and observations.
func SelfCheck(sc Scenario) error {
	dir := scratchBase() + "/self"
	a := runOnce(sc, dir, nil, nil, true)
	b := runOnce(sc, dir, nil, nil, true)
	os.RemoveAll(dir)
	if a.e.Failure != b.e.Failure || a.obs != b.obs || strings.Join(a.e.Trace, "\n") != strings.Join(b.e.Trace, "\n") {
		for i := range a.e.Trace {
			if i >= len(b.e.Trace) || a.e.Trace[i] != b.e.Trace[i] {
				lo := i - 12
				if lo < 0 {
					lo = 0
				}
				w := ""
				for k := lo; k < i+6 && k < len(a.e.Trace); k++ {
					w += fmt.Sprintf("\n    %4d  %-40s | %s", k, a.e.Trace[k], at(b.e.Trace, k))
				}
				return fmt.Errorf("scenario %s is not deterministic: traces differ at step %d (%q vs %q); obs %q vs %q%s", sc.Name, i, a.e.Trace[i], at(b.e.Trace, i), a.obs, b.obs, w)
			}
		}
		return fmt.Errorf("scenario %s is not deterministic: obs %q vs %q, failure %q vs %q", sc.Name, a.obs, b.obs, a.e.Failure, b.e.Failure)
	}
	return nil
}

func at(s []string, i int) string {
	if i < len(s) {
		return s[i]
	}
	return "<end>"
}

// ---------------- orchestration ----------------

type Job struct {
	Scenario string
	Bound    int
	Budget   time.Duration
}

var (
	flagRace   = flag.Int("racepass", 0, "internal: run every scenario body N times free-running (binary built with -race)")
	flagWorker = flag.String("worker", "", "internal: shard i/n")
	flagJob    = flag.String("job", "", "internal: scenario:bound:deadline-unix")
)

// IsWorker reports whether this process is a shard worker spawned by Main.
func IsWorker() bool {
	if !flag.Parsed() {
		flag.Parse()
	}
	return *flagWorker != "" || *flagRace > 0
}

type replayFile struct {
	Scenario string `json:"scenario"`
	Choices  []int  `json:"choices"`
	Policy   int    `json:"policy,omitempty"`
}

// Main drives a scheduler-based check: self-check, then every job sharded over worker processes; merges the
// statistics into c and finishes. find maps a scenario name to the scenario.
func Main(c *lib.Check, scenarios []Scenario, jobs []Job, rule string) {
	ex := Run(c, scenarios, jobs)
	c.Finish(rule, ex)
}

// Run is Main without the final c.Finish (for checks that combine a scheduler phase with other phases). In a
// worker process and for schedule replays it does not return.
func Run(c *lib.Check, scenarios []Scenario, jobs []Job) bool {
	find := func(name string) Scenario {
		for _, s := range scenarios {
			if s.Name == name {
				return s
			}
		}
		fmt.Fprintf(os.Stderr, "unknown scenario %q\n", name)
		os.Exit(2)
		return Scenario{}
	}
	if *flagRace > 0 {
		// free-running pass: the shims fall through to the real primitives (vsched inactive); the race detector
		// of a -race build reports unsynchronised accesses, which the cooperative scheduler cannot see
		for _, sc := range scenarios {
			for i := 0; i < *flagRace; i++ {
				dir := fmt.Sprintf("%s/race", scratchBase())
				os.RemoveAll(dir)
				os.MkdirAll(dir, 0755)
				vos.Reset(false)
				curMu.Lock()
				cur = nil
				curMu.Unlock()
				sc.Body(dir)
				vos.CloseAll()
			}
			fmt.Fprintf(os.Stderr, "racepass scenario=%s runs=%d\n", sc.Name, *flagRace)
		}
		os.RemoveAll(scratchBase())
		os.Exit(0)
	}
	if *flagWorker == "selfcheck" {
		// determinism self-check of one scenario in a fresh process (the parent may have run free-mode phases whose
		// background goroutines would disturb a scheduled execution)
		if err := SelfCheck(find(strings.Split(*flagJob, "\x1f")[0])); err != nil {
			fmt.Fprintln(os.Stderr, "HARNESS ERROR:", err)
			os.RemoveAll(scratchBase())
			os.Exit(3)
		}
		os.RemoveAll(scratchBase())
		os.Exit(0)
	}
	if *flagWorker != "" {
		var i, n, bound int
		var dl int64
		var name string
		fmt.Sscanf(*flagWorker, "%d/%d", &i, &n)
		p := strings.Split(*flagJob, "\x1f")
		name = p[0]
		fmt.Sscanf(p[1], "%d", &bound)
		fmt.Sscanf(p[2], "%d", &dl)
		st := ExploreShard(find(name), bound, time.Unix(dl, 0), i, n)
		os.RemoveAll(scratchBase())
		json.NewEncoder(os.Stdout).Encode(st)
		os.Exit(0)
	}
	defer os.RemoveAll(scratchBase())
	if only := os.Getenv("VERIF_ONLY"); only != "" { // debugging aid: only the jobs whose scenario name contains this
		var js []Job
		for _, j := range jobs {
			if strings.Contains(j.Scenario, only) {
				js = append(js, j)
			}
		}
		jobs = js
	}
	if c.ReplayPath != "" {
		var r replayFile
		c.LoadReplay(&r)
		if r.Scenario == "" {
			return true // not a schedule replay
		}
		sc := find(r.Scenario)
		vsched.Policy = r.Policy
		o := runOnce(sc, scratchBase()+"/replay", r.Choices, nil, true)
		for _, l := range o.e.Trace {
			fmt.Println("  ", l)
		}
		fmt.Printf("observation: %s\nfailure: %s\n", o.obs, o.e.Failure)
		if o.e.Failure != "" && !o.e.Diverged {
			sig, det := failureSig(sc, o.e)
			c.Violate(lib.Violation{Sig: sig, Detail: det, Replay: r})
		}
		for _, v := range o.v {
			c.Violate(lib.Violation{Sig: v.Sig, Detail: v.Detail, Replay: r})
		}
		c.AddEvals(1)
		c.AddStates(1, int64(len(o.e.Points)))
		os.RemoveAll(scratchBase())
		c.Finish("replay of one recorded schedule", false)
	}
	used := map[string]bool{}
	self, _ := os.Executable()
	for _, j := range jobs {
		if !used[j.Scenario] {
			used[j.Scenario] = true
			cmd := exec.Command(self, "-tier", c.Tier, "-worker", "selfcheck", "-job", j.Scenario)
			cmd.Stderr = os.Stderr
			if err := cmd.Run(); err != nil {
				os.RemoveAll(scratchBase())
				os.Exit(2)
			}
		}
	}
	exhaustive := true
	var summaries []any
	for _, j := range jobs {
		if c.Expired() {
			c.CapHit(fmt.Sprintf("job %s bound %d not started: time budget exhausted", j.Scenario, j.Bound))
			exhaustive = false
			continue
		}
		if v := os.Getenv("VERIF_JOB_BUDGET"); v != "" { // debugging aid
			if d, err := time.ParseDuration(v); err == nil {
				j.Budget = d
			}
		}
		dl := time.Now().Add(j.Budget)
		if dl.After(c.Deadline) {
			dl = c.Deadline
		}
		n := c.Workers
		res := make([]Stats, n)
		errs := make([]error, n)
		var wg sync.WaitGroup
		for i := 0; i < n; i++ {
			wg.Add(1)
			go func(i int) {
				defer wg.Done()
				cmd := exec.Command(self, "-tier", c.Tier, "-worker", fmt.Sprintf("%d/%d", i, n), "-job", fmt.Sprintf("%s\x1f%d\x1f%d", j.Scenario, j.Bound, dl.Unix()))
				cmd.Env = append(os.Environ(), "GOMAXPROCS=2")
				cmd.Stderr = os.Stderr
				out, err := cmd.Output()
				if err != nil {
					errs[i] = fmt.Errorf("worker %d: %v", i, err)
					return
				}
				if err := json.Unmarshal(out, &res[i]); err != nil {
					errs[i] = fmt.Errorf("worker %d: bad output: %v (%q)", i, err, trunc(string(out), 300))
				}
			}(i)
		}
		wg.Wait()
		tot := Stats{Scenario: j.Scenario, Bound: j.Bound, Outcomes: map[string]int{}, Complete: true, WorkComplete: true}
		for i := 0; i < n; i++ {
			if errs[i] != nil {
				fmt.Fprintln(os.Stderr, "HARNESS ERROR:", errs[i])
				os.Exit(2)
			}
			r := res[i]
			if r.HarnessErr != "" {
				fmt.Fprintln(os.Stderr, "HARNESS ERROR:", r.HarnessErr)
				os.Exit(2)
			}
			tot.Execs += r.Execs
			tot.Pruned += r.Pruned
			tot.States += r.States
			tot.Steps += r.Steps
			if r.MaxPoints > tot.MaxPoints {
				tot.MaxPoints = r.MaxPoints
			}
			tot.Complete = tot.Complete && r.Complete
			tot.WorkExecs += r.WorkExecs
			if i == 0 || r.WorkBound < tot.WorkBound {
				tot.WorkBound = r.WorkBound // the bound every shard completed
			}
			for k, v := range r.Outcomes {
				tot.Outcomes[k] += v
			}
			for _, v := range r.Violations {
				c.Violate(lib.Violation{Sig: v.Sig, Detail: v.Detail, Replay: replayFile{Scenario: j.Scenario, Choices: v.Choices, Policy: v.Policy}})
			}
		}
		if !tot.Complete {
			exhaustive = false
			c.CapHit(fmt.Sprintf("scenario %s bound %d: time budget reached after %d executions", j.Scenario, j.Bound, tot.Execs))
		}
		c.AddEvals(tot.Execs)
		c.AddStates(tot.States, tot.Steps)
		for k := range tot.Outcomes {
			c.Distinct(j.Scenario + ":" + k)
		}
		var outs []string
		for k, v := range tot.Outcomes {
			outs = append(outs, fmt.Sprintf("%dx %s", v, k))
		}
		sort.Strings(outs)
		if len(outs) > 12 {
			outs = outs[:12]
		}
		summaries = append(summaries, map[string]any{"scenario": j.Scenario, "preemption_bound": j.Bound, "executions": tot.Execs, "pruned_by_state_key": tot.Pruned,
			"hb_states_per_worker_sum": tot.States, "scheduling_steps": tot.Steps, "max_choice_points": tot.MaxPoints, "distinct_outcomes": len(tot.Outcomes), "complete": tot.Complete, "outcomes": outs,
			"workload_thread_phase": map[string]any{"preemption_bound_completed": tot.WorkBound, "executions": tot.WorkExecs}})
		fmt.Printf("  %s bound=%d execs=%d pruned=%d states=%d outcomes=%d complete=%v workload-phase: bound completed=%d execs=%d\n", j.Scenario, j.Bound, tot.Execs, tot.Pruned, tot.States, len(tot.Outcomes), tot.Complete, tot.WorkBound, tot.WorkExecs)
		if len(summaries) <= 4 {
			c.Sample(map[string]any{"scenario": j.Scenario, "bound": j.Bound, "some_outcomes": outs})
		}
	}
	if bs, err := os.ReadFile(fmt.Sprintf("%s/.overlay/%s/race.json", lib.VerifDir, strings.ToLower(c.ID))); err == nil {
		var rp map[string]any
		if json.Unmarshal(bs, &rp) == nil {
			c.Set("race_pass", rp)
		}
	}
	c.Set(jobsKey, summaries)
	os.RemoveAll(scratchBase())
	return exhaustive
}

var jobsKey = "jobs"

func trunc(s string, n int) string {
	if len(s) > n {
		return s[:n]
	}
	return s
}
