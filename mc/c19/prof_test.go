package main

import (
	"fmt"
	"testing"
	"time"
	"verif/mc/lib"
)

func TestProf(t *testing.T) {
	c = lib.New("C19", "model_checking", time.Hour, time.Hour)
	for _, f := range fields {
		ftype[f.Name] = f.T
	}
	buildA(false)
	for _, cf := range configs {
		cf.build()
		cf.items = grammar(domain(append(append([]string{}, cf.Docs...), "R1", "R2"), nil, 3), false, false)
	}
	t0 := time.Now()
	h := newH(cfgA)
	fmt.Println("newH", time.Since(t0))
	h.close()
	path := make([]int, len(cfgA.ops))
	for i := range path {
		path[i] = i
	}
	t0 = time.Now()
	_, _, _, h = runNode(cfgA, path, 0, 1, []query{})
	fmt.Println("A ops only", time.Since(t0), h.queries)
	t0 = time.Now()
	_, _, _, h = runNode(cfgA, path, 0, 64, nil)
	fmt.Println("A shard", time.Since(t0), h.queries, len(cfgA.items))
	cf := configs[0]
	t0 = time.Now()
	_, _, _, h = runNode(cf, []int{0, 1, 2}, 0, 1, []query{})
	fmt.Println("B ops only", time.Since(t0), h.queries)
	t0 = time.Now()
	_, _, _, h = runNode(cf, []int{0, 1, 2}, 0, 1, nil)
	fmt.Println("B node", time.Since(t0), h.queries, len(cf.items))
}
