package main

// Part C: document proofs at pkg/database level.

import (
	"fmt"
	"sort"
	"strings"
	"sync"

	"github.com/codenotary/immudb/embedded/logger"
	"github.com/codenotary/immudb/pkg/api/protomodel"
	"github.com/codenotary/immudb/pkg/api/schema"
	"github.com/codenotary/immudb/pkg/database"
	"github.com/codenotary/immudb/pkg/verification"
	"google.golang.org/protobuf/proto"
	"google.golang.org/protobuf/types/known/structpb"
	"verif/mc/lib"
)

var opsC = []string{"ins(A)", "insmany(A,H)", "replace(s EQ \"a\"->R1)", "delete(n EQ 1)"}

type alt struct {
	name  string
	proof *protomodel.ProofDocumentResponse
	doc   *structpb.Struct
	known *schema.ImmutableState
}

func flip(b []byte) []byte {
	o := append([]byte{}, b...)
	if len(o) > 0 {
		o[len(o)/2] ^= 1
	}
	return o
}

// hdrAlts: every single-field alteration of a transaction header.
func hdrAlts(get func(p *protomodel.ProofDocumentResponse) *schema.TxHeader, where string, mk func(name string, f func(a *alt))) {
	mk(where+".id+1", func(a *alt) { get(a.proof).Id++ })
	mk(where+".id-1", func(a *alt) { get(a.proof).Id-- })
	mk(where+".prevAlh", func(a *alt) { h := get(a.proof); h.PrevAlh = flip(h.PrevAlh) })
	mk(where+".ts", func(a *alt) { get(a.proof).Ts++ })
	mk(where+".nentries", func(a *alt) { get(a.proof).Nentries++ })
	mk(where+".eH", func(a *alt) { h := get(a.proof); h.EH = flip(h.EH) })
	mk(where+".blTxId+1", func(a *alt) { get(a.proof).BlTxId++ })
	mk(where+".blTxId-1", func(a *alt) { get(a.proof).BlTxId-- })
	mk(where+".blRoot", func(a *alt) { h := get(a.proof); h.BlRoot = flip(h.BlRoot) })
	mk(where+".version", func(a *alt) { h := get(a.proof); h.Version = 1 - h.Version })
}

// alterations: the explicit operator set; every element changes exactly one field of the verifier's input.
func alterations(p *protomodel.ProofDocumentResponse, doc *structpb.Struct, known *schema.ImmutableState, otherIDs []string, otherEnc [][]byte) []alt {
	var out []alt
	mk := func(name string, f func(a *alt)) {
		a := alt{name: name, proof: proto.Clone(p).(*protomodel.ProofDocumentResponse), doc: proto.Clone(doc).(*structpb.Struct)}
		if known != nil {
			a.known = proto.Clone(known).(*schema.ImmutableState)
		}
		f(&a)
		out = append(out, a)
	}
	// the document shown to the verifier
	var keys []string
	for k := range doc.Fields {
		keys = append(keys, k)
	}
	sort.Strings(keys)
	for _, k := range keys {
		k := k
		if k != "_id" {
			mk("doc."+k+".value", func(a *alt) {
				switch v := a.doc.Fields[k].Kind.(type) {
				case *structpb.Value_NumberValue:
					v.NumberValue++
				case *structpb.Value_StringValue:
					v.StringValue += "x"
				case *structpb.Value_BoolValue:
					v.BoolValue = !v.BoolValue
				default:
					a.doc.Fields[k] = structpb.NewNumberValue(0)
				}
			})
			mk("doc."+k+".removed", func(a *alt) { delete(a.doc.Fields, k) })
		}
	}
	mk("doc.field-added", func(a *alt) { a.doc.Fields["zz"] = structpb.NewNumberValue(1) })
	for i, id := range otherIDs {
		id := id
		mk(fmt.Sprintf("doc._id=other%d", i), func(a *alt) { a.doc.Fields["_id"] = structpb.NewStringValue(id) })
	}
	mk("doc._id=unknown", func(a *alt) { a.doc.Fields["_id"] = structpb.NewStringValue("00ff00ff") })
	// the proof
	for i := range p.EncodedDocument {
		i := i
		mk(fmt.Sprintf("encodedDocument[%d]", i), func(a *alt) { a.proof.EncodedDocument[i] ^= 1 })
	}
	mk("encodedDocument.truncated", func(a *alt) { a.proof.EncodedDocument = a.proof.EncodedDocument[:len(a.proof.EncodedDocument)-1] })
	mk("encodedDocument.extended", func(a *alt) { a.proof.EncodedDocument = append(a.proof.EncodedDocument, 0) })
	mk("encodedDocument.empty", func(a *alt) { a.proof.EncodedDocument = nil })
	for i, e := range otherEnc {
		e := e
		mk(fmt.Sprintf("encodedDocument=other%d", i), func(a *alt) { a.proof.EncodedDocument = append([]byte{}, e...) })
	}
	mk("collectionId+1", func(a *alt) { a.proof.CollectionId++ })
	mk("collectionId-1", func(a *alt) { a.proof.CollectionId-- })
	mk("documentIdFieldName=n", func(a *alt) { a.proof.DocumentIdFieldName = "n" })
	mk("documentIdFieldName=empty", func(a *alt) { a.proof.DocumentIdFieldName = "" })
	for i := range p.VerifiableTx.Tx.Entries {
		i := i
		ent := func(a *alt) *schema.TxEntry { return a.proof.VerifiableTx.Tx.Entries[i] }
		mk(fmt.Sprintf("tx.entries[%d].key", i), func(a *alt) { ent(a).Key = flip(ent(a).Key) })
		mk(fmt.Sprintf("tx.entries[%d].hValue", i), func(a *alt) { ent(a).HValue = flip(ent(a).HValue) })
		mk(fmt.Sprintf("tx.entries[%d].metadata", i), func(a *alt) {
			if ent(a).Metadata == nil {
				ent(a).Metadata = &schema.KVMetadata{Deleted: true}
			} else {
				ent(a).Metadata = nil
			}
		})
		mk(fmt.Sprintf("tx.entries[%d].dropped", i), func(a *alt) {
			es := a.proof.VerifiableTx.Tx.Entries
			a.proof.VerifiableTx.Tx.Entries = append(es[:i:i], es[i+1:]...)
		})
		mk(fmt.Sprintf("tx.entries[%d].duplicated", i), func(a *alt) {
			a.proof.VerifiableTx.Tx.Entries = append(a.proof.VerifiableTx.Tx.Entries, proto.Clone(ent(a)).(*schema.TxEntry))
		})
		if i > 0 {
			mk(fmt.Sprintf("tx.entries[%d].swapped", i), func(a *alt) {
				es := a.proof.VerifiableTx.Tx.Entries
				es[i-1], es[i] = es[i], es[i-1]
			})
		}
	}
	hdrAlts(func(p *protomodel.ProofDocumentResponse) *schema.TxHeader { return p.VerifiableTx.Tx.Header }, "tx.header", mk)
	hdrAlts(func(p *protomodel.ProofDocumentResponse) *schema.TxHeader {
		return p.VerifiableTx.DualProof.SourceTxHeader
	}, "dualProof.source", mk)
	hdrAlts(func(p *protomodel.ProofDocumentResponse) *schema.TxHeader {
		return p.VerifiableTx.DualProof.TargetTxHeader
	}, "dualProof.target", mk)
	mk("dualProof.headers-swapped", func(a *alt) {
		d := a.proof.VerifiableTx.DualProof
		d.SourceTxHeader, d.TargetTxHeader = d.TargetTxHeader, d.SourceTxHeader
	})
	terms := func(name string, get func(d *schema.DualProofV2) *[][]byte) {
		n := len(*get(p.VerifiableTx.DualProof))
		for i := 0; i < n; i++ {
			i := i
			mk(fmt.Sprintf("dualProof.%s[%d].flipped", name, i), func(a *alt) { t := get(a.proof.VerifiableTx.DualProof); (*t)[i] = flip((*t)[i]) })
			mk(fmt.Sprintf("dualProof.%s[%d].dropped", name, i), func(a *alt) {
				t := get(a.proof.VerifiableTx.DualProof)
				*t = append((*t)[:i:i], (*t)[i+1:]...)
			})
		}
		mk(fmt.Sprintf("dualProof.%s.term-appended", name), func(a *alt) {
			t := get(a.proof.VerifiableTx.DualProof)
			*t = append(*t, make([]byte, 32))
		})
	}
	terms("inclusionProof", func(d *schema.DualProofV2) *[][]byte { return &d.InclusionProof })
	terms("consistencyProof", func(d *schema.DualProofV2) *[][]byte { return &d.ConsistencyProof })
	if known != nil {
		mk("knownState.txHash", func(a *alt) { a.known.TxHash = flip(a.known.TxHash) })
		mk("knownState.txId+1", func(a *alt) { a.known.TxId++ })
		mk("knownState.txId-1", func(a *alt) { a.known.TxId-- })
	}
	return out
}

type cviol struct {
	path        []int
	sig, detail string
}

// runC executes one history on a fresh database and checks every proof.
func runC(path []int) (vs []cviol, nver int64) {
	dir := getDir()
	defer putDir(dir)
	opts := database.DefaultOptions().WithDBRootPath(dir).WithStoreOptions(storeOpts())
	db, err := database.NewDB("db1", nil, opts, logger.NewMemoryLoggerWithLevel(logger.LogError))
	if err != nil {
		panic(err)
	}
	defer db.Close()
	var names []string
	for _, o := range path {
		names = append(names, opsC[o])
	}
	hist := strings.Join(names, "; ")
	fail := func(class, what, detail string) {
		vs = append(vs, cviol{path, fmt.Sprintf("%s %s history=<%s>", class, what, hist), detail})
	}
	alh := map[uint64][]byte{}
	record := func() {
		st, err := db.CurrentState()
		if err != nil {
			panic(err)
		}
		alh[st.TxId] = st.TxHash
		if err := db.WaitForIndexingUpto(ctx, st.TxId); err != nil { // AuditDocument does not wait for the indexer
			panic(err)
		}
	}
	var ix []*protomodel.Index
	for _, f := range fields {
		ix = append(ix, &protomodel.Index{Fields: []string{f.Name}})
	}
	if _, err := db.CreateCollection(ctx, "u", &protomodel.CreateCollectionRequest{Name: "c", Fields: protoFields(), Indexes: ix}); err != nil {
		panic(err)
	}
	record()
	var ids []string
	for _, o := range path {
		switch o {
		case 0, 1:
			docs := []*structpb.Struct{S(alphabet["A"])}
			if o == 1 {
				docs = append(docs, S(alphabet["H"]))
			}
			r, err := db.InsertDocuments(ctx, "u", &protomodel.InsertDocumentsRequest{CollectionName: "c", Documents: docs})
			if err != nil {
				panic(err)
			}
			ids = append(ids, r.DocumentIds...)
		case 2:
			if _, err := db.ReplaceDocuments(ctx, "u", &protomodel.ReplaceDocumentsRequest{Query: query{G: [][]atom{{{"s", EQ, "a"}}}}.proto("c"), Document: S(alphabet["R1"])}); err != nil {
				panic(err)
			}
		case 3:
			if _, err := db.DeleteDocuments(ctx, "u", &protomodel.DeleteDocumentsRequest{Query: query{G: [][]atom{{{"n", EQ, 1.0}}}}.proto("c")}); err != nil {
				panic(err)
			}
		}
		record()
	}
	var txs []uint64
	for t := range alh {
		txs = append(txs, t)
	}
	sort.Slice(txs, func(i, j int) bool { return txs[i] < txs[j] })
	// every revision of every document
	type revT struct {
		id  string
		tx  uint64
		doc *structpb.Struct
	}
	var revs []revT
	for _, id := range ids {
		au, err := db.AuditDocument(ctx, &protomodel.AuditDocumentRequest{CollectionName: "c", DocumentId: id, Page: 1, PageSize: 100})
		if err != nil {
			panic(err)
		}
		for _, r := range au.Revisions {
			if !r.Metadata.GetDeleted() {
				revs = append(revs, revT{id, r.TransactionId, r.Document})
			}
		}
	}
	trueRev := func(d *structpb.Struct, tx uint64) bool {
		for _, r := range revs {
			if r.tx == tx && eqStruct(r.doc, d) {
				return true
			}
		}
		return false
	}
	var encs [][]byte
	for ri, r := range revs {
		for _, since := range txs {
			for _, withState := range []bool{false, true} {
				if !withState && since != 1 {
					continue
				}
				what := fmt.Sprintf("doc=%d tx=%d since=%d knownState=%v", ri, r.tx, since, withState)
				p, err := db.ProofDocument(ctx, &protomodel.ProofDocumentRequest{CollectionName: "c", DocumentId: r.id, TransactionId: r.tx, ProofSinceTransactionId: since})
				if err != nil {
					fail("proof-error", what, "ProofDocument: "+err.Error())
					continue
				}
				var known *schema.ImmutableState
				if withState {
					known = &schema.ImmutableState{Db: "db1", TxId: since, TxHash: alh[since]}
				}
				var st *schema.ImmutableState
				if pn := lib.Catch(func() { st, err = verification.VerifyDocument(ctx, p, r.doc, known, nil) }); pn != "" {
					fail("proof-verify-panic", "field=<none> "+what, pn)
					continue
				}
				nver++
				if err != nil || st.TxId != max(since, r.tx) || string(st.TxHash) != string(alh[st.TxId]) {
					fail("proof-rejected", what, fmt.Sprintf("VerifyDocument of the honest response: err=%v state=%v, true state of tx %d is %x", err, st, max(since, r.tx), alh[max(since, r.tx)]))
					continue
				}
				if since == 1 && !withState {
					encs = append(encs, p.EncodedDocument)
				}
				var others []string
				for _, id := range ids {
					if id != r.id {
						others = append(others, id)
					}
				}
				var oenc [][]byte
				for _, e := range encs {
					if string(e) != string(p.EncodedDocument) {
						oenc = append(oenc, e)
					}
				}
				for _, a := range alterations(p, r.doc, known, others, oenc) {
					var st *schema.ImmutableState
					var err error
					nver++
					if pn := lib.Catch(func() { st, err = verification.VerifyDocument(ctx, a.proof, a.doc, a.known, nil) }); pn != "" {
						fail("proof-verify-panic", "field=<"+a.name+">", what+"\n"+pn)
						continue
					}
					if err != nil {
						continue
					}
					// accepted: fine only when the altered claim is still true
					idv := a.doc.Fields["_id"].GetStringValue()
					claimTrue := a.proof.DocumentIdFieldName == "_id" && a.proof.CollectionId == p.CollectionId && idv == r.id &&
						trueRev(a.doc, a.proof.VerifiableTx.Tx.Header.Id) && alh[st.TxId] != nil && string(alh[st.TxId]) == string(st.TxHash)
					// (a known state with TxId 0 means "no previous state": then only the hash chain from tx 1 is claimed)
					if a.known != nil && a.known.TxId != 0 && (alh[a.known.TxId] == nil || string(alh[a.known.TxId]) != string(a.known.TxHash)) {
						claimTrue = false // a false previous state was "extended"
					}
					if !claimTrue {
						fail("proof-accepts-altered", "field=<"+a.name+">", fmt.Sprintf("%s: VerifyDocument accepted the altered input and returned state tx=%d hash=%x", what, st.TxId, st.TxHash))
					}
				}
			}
		}
	}
	return vs, nver
}

func partC(depth int, only []int) {
	var paths [][]int
	var gen func(p []int)
	gen = func(p []int) {
		if len(p) > 0 {
			paths = append(paths, append([]int{}, p...))
		}
		if len(p) < depth {
			for o := range opsC {
				gen(append(p, o))
			}
		}
	}
	gen(nil)
	if only != nil {
		paths = [][]int{only}
	}
	sort.SliceStable(paths, func(i, j int) bool { return len(paths[i]) < len(paths[j]) })
	res := make([][]cviol, len(paths))
	var mu sync.Mutex
	var total int64
	ran := 0
	c.ParallelFor(len(paths), func(i int) {
		if c.Expired() {
			return
		}
		vs, n := runC(paths[i])
		mu.Lock()
		res[i] = vs
		total += n
		ran++
		mu.Unlock()
	})
	if ran < len(paths) {
		c.CapHit(fmt.Sprintf("part C: %d of %d histories run", ran, len(paths)))
	}
	// one report per (class, altered field): the first (shortest) history showing it
	seen := map[string]bool{}
	for _, vs := range res {
		for _, v := range vs {
			k := v.sig[:strings.Index(v.sig, " history=")]
			if i := strings.Index(k, "> "); i >= 0 && strings.Contains(k, "field=<") {
				k = k[:i+1]
			}
			if seen[k] {
				continue
			}
			seen[k] = true
			violate(lib.Violation{Sig: v.sig, Detail: v.detail, Replay: map[string]any{"part": "C", "path": v.path}})
		}
	}
	c.AddEvals(total)
	c.Add("C_verifications", total)
	c.Set("C_depth", depth)
	c.Set("C_histories", ran)
	c.Distinct("C")
	c.Sample(map[string]any{"part": "C", "operations": opsC, "alteration_operators": "doc field value/removed/added, other or unknown _id, every byte of encodedDocument, truncated/extended/empty/other document's encoding, collectionId, documentIdFieldName, per tx entry key/hValue/metadata/dropped/duplicated/swapped, every field of tx / source / target header, headers swapped, each inclusion / consistency term flipped/dropped, term appended, knownState hash / id"})
}
