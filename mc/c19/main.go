// C19 — document collections store and find documents faithfully.
//
// Level: model checking. The real embedded/document.Engine (on a real store in /dev/shm) is driven through bounded
// exhaustive operation histories and compared with a reference model = a plain Go list of JSON documents with
// their revisions.
//
// Collections (identical operations on all, schema n INTEGER, s STRING, b BOOLEAN, d DOUBLE, "o.x" INTEGER):
//
//	c_plain no secondary index | c_ix one index per field, created before any data | c_late the indexes are created
//	after the history, just before the observations | c_mid indexes added / removed by operations of the history |
//	c_u a UNIQUE index on s (own reference model: duplicates must be refused)
//
// Part A — one fixed 28-operation history holding the whole 13-document alphabet (everything present / missing /
// null, zero values, negative, unicode, newline, nested null, nested sibling, non-object parent, literal dotted key,
// +-2^53, 1e308, denormal, -0.0, non-integral and out-of-range numbers in an INTEGER field, unindexed extras,
// replaced and deleted documents, six documents that must be refused): the complete query grammar — every operator
// x field x constant of the domain (+ null), each under 7 orderings; every field as sort key; AND pairs and OR pairs
// of two comparisons; (a AND b) OR c; paging (page size 1 and 2, all pages, by offset and on one open reader),
// Limit, CountDocuments (also with offset); queries that must be refused.
// Part B — ALL histories up to a depth (per configuration and tier, see configs: quick 3/3/2, thorough 4/3/3/3/3; no
// pruning; after an operation that left the reference unchanged only a light sweep) over 12 operations {insert x4, insert-many
// x2, replace by query, replace by id (document carrying _id), delete by query, delete oldest (order by _id limit
// 1), toggle indexes of c_mid, insert-many with one invalid document} for several 4-document configurations. After
// the last step of every history (every prefix is itself a history, so after every step) the configuration's grammar
// is swept on all five collections, followed by id lookup, revision and audit trail of every document ever inserted.
// Part C — pkg/database level: all histories up to depth 2 (thorough 3) over 4 operations; ProofDocument of every
// revision x every known state must be accepted by pkg/verification.VerifyDocument and yield the true database state;
// every alteration from an explicit operator set must be refused unless the altered claim is still true.
//
// Oracles. (1) reference filter in three-valued form: a document MUST be returned when the filter certainly holds and
// MUST NOT be returned when it certainly does not; what the property does not define (field missing/null under an
// operator other than EQ/LIKE, null constants, position of nulls in ordered results, two missing values under a
// UNIQUE index) is compared between the twin collections only. (2) identical results on c_plain / c_ix / c_late /
// c_mid for every query (lists when totally ordered, multisets otherwise). (3) every returned document equals the
// stored one bit for bit (+ _id); id lookup; revision through GetEncodedDocument, the replace result, the audit trail
// and the search result itself. (4) c_u: duplicates refused; refused operations change nothing (all collections).
// (5) AuditDocument: every revision, in order, with its content, user and increasing tx (ascending, descending, paged,
// without payload). (6) proofs, part C. Ordered results must respect the reference order (ties by _id if requested).
//
// Reporting: a wrong query result is reported under its reduced query (comparisons and ordering dropped while the
// same class persists) and only on a minimal history (if the same violation shows after removing any one operation
// it is left to that shorter history, which is explored too). Known root causes get their own class prefix
// (negzero-, int-coercion-, like-nonascii-, like-newline-), see cause().
package main

import (
	"context"
	"encoding/json"
	"errors"
	"fmt"
	"math"
	"os"
	"sort"
	"strings"
	"sync"
	"time"

	"github.com/codenotary/immudb/embedded/document"
	"github.com/codenotary/immudb/embedded/logger"
	"github.com/codenotary/immudb/embedded/store"
	"github.com/codenotary/immudb/pkg/api/protomodel"
	"google.golang.org/protobuf/types/known/structpb"
	"verif/mc/lib"
)

var (
	c   *lib.Check
	ctx = context.Background()
)

type docT = map[string]any
type obj = map[string]any

const two53 = 9007199254740992.0

// ---------- schema and document alphabet ----------

type fdef struct {
	Name string
	T    protomodel.FieldType
}

var fields = []fdef{{"n", protomodel.FieldType_INTEGER}, {"s", protomodel.FieldType_STRING}, {"b", protomodel.FieldType_BOOLEAN},
	{"d", protomodel.FieldType_DOUBLE}, {"o.x", protomodel.FieldType_INTEGER}}
var ftype = map[string]protomodel.FieldType{}

var alphabet = map[string]docT{
	"A":   {"n": 1.0, "s": "a", "b": true, "d": 1.5, "o": obj{"x": 7.0}},                                                       // everything present
	"B":   {},                                                                                                                  // everything missing
	"C":   {"n": nil, "s": nil, "b": nil, "d": nil, "o": nil},                                                                  // everything null
	"D":   {"n": 0.0, "s": "", "b": false, "d": 0.0, "o": obj{"x": 0.0}},                                                       // zero values
	"E":   {"n": -1.0, "s": "héllo ✓ 日本", "d": -1.5, "o": obj{"x": nil, "y": "deep"}},                                          // negative, unicode, nested null
	"F":   {"n": two53, "s": "b", "d": 1e308, "o": obj{"y": 1.0}},                                                              // largest exact integer, nested sibling only
	"G":   {"n": 1.0, "s": "a", "d": math.Copysign(0, -1)},                                                                     // negative zero; collides with A on n, s
	"H":   {"n": 1.0, "s": "a", "b": true, "extra": []any{1.0, "a", nil, obj{"k": 1.0}}, "z": obj{"deep": obj{"er": []any{}}}}, // unindexed extras; collides with A
	"I":   {"o": 5.0, "s": "A"},                                                                                                // o is not an object
	"J":   {"n": -two53, "s": "a\nb", "b": false, "d": 5e-324, "o": obj{"x": -1.0}},                                            // smallest exact integer, newline, denormal
	"K":   {"n": 1.5, "s": "k"},                                                                                                // non-integral value in an INTEGER field (part A only)
	"L":   {"n": 9223372036854775808.0, "s": "l"},                                                                              // 2^63 in an INTEGER field (part A only)
	"M":   {"o.x": 3.0, "s": "m"},                                                                                              // literal dotted key: not the nested path
	"N":   {"n": 1.0, "s": "r", "b": true},                                                                                     // collides with A on n only, with R1 on s only (composite unique index)
	"R1":  {"n": 5.0, "s": "r", "d": 2.5, "o": obj{"x": 7.0}},                                                                  // replacement documents
	"R2":  {"n": 1.0, "s": "q", "b": false},
	"BAD": {"n": "str"},
}

func cp(v any) any {
	switch x := v.(type) {
	case map[string]any:
		m := make(map[string]any, len(x))
		for k, e := range x {
			m[k] = cp(e)
		}
		return m
	case []any:
		l := make([]any, len(x))
		for i, e := range x {
			l[i] = cp(e)
		}
		return l
	}
	return v
}

func S(d docT) *structpb.Struct {
	s, err := structpb.NewStruct(cp(d).(docT))
	if err != nil {
		panic(err)
	}
	return s
}

func js(v any) string { b, _ := json.Marshal(v); return string(b) }

// eqValue: structural equality with bitwise number comparison (-0.0 != 0.0).
func eqValue(a, b *structpb.Value) bool {
	switch x := a.GetKind().(type) {
	case *structpb.Value_NullValue:
		_, ok := b.GetKind().(*structpb.Value_NullValue)
		return ok
	case *structpb.Value_NumberValue:
		y, ok := b.GetKind().(*structpb.Value_NumberValue)
		return ok && math.Float64bits(x.NumberValue) == math.Float64bits(y.NumberValue)
	case *structpb.Value_StringValue:
		y, ok := b.GetKind().(*structpb.Value_StringValue)
		return ok && x.StringValue == y.StringValue
	case *structpb.Value_BoolValue:
		y, ok := b.GetKind().(*structpb.Value_BoolValue)
		return ok && x.BoolValue == y.BoolValue
	case *structpb.Value_StructValue:
		y, ok := b.GetKind().(*structpb.Value_StructValue)
		return ok && eqStruct(x.StructValue, y.StructValue)
	case *structpb.Value_ListValue:
		y, ok := b.GetKind().(*structpb.Value_ListValue)
		if !ok || len(x.ListValue.GetValues()) != len(y.ListValue.GetValues()) {
			return false
		}
		for i := range x.ListValue.GetValues() {
			if !eqValue(x.ListValue.Values[i], y.ListValue.Values[i]) {
				return false
			}
		}
		return true
	}
	return a.GetKind() == nil && b.GetKind() == nil
}

func eqStruct(a, b *structpb.Struct) bool {
	if len(a.GetFields()) != len(b.GetFields()) {
		return false
	}
	for k, v := range a.GetFields() {
		w, ok := b.GetFields()[k]
		if !ok || !eqValue(v, w) {
			return false
		}
	}
	return true
}

// ---------- queries ----------

type atom struct {
	F  string
	Op protomodel.ComparisonOperator
	V  any
}

type ordc struct {
	F    string
	Desc bool
}

type query struct {
	G     [][]atom // OR of AND groups
	O     []ordc
	Limit uint32
}

const (
	EQ   = protomodel.ComparisonOperator_EQ
	NE   = protomodel.ComparisonOperator_NE
	LT   = protomodel.ComparisonOperator_LT
	LE   = protomodel.ComparisonOperator_LE
	GT   = protomodel.ComparisonOperator_GT
	GE   = protomodel.ComparisonOperator_GE
	LIKE = protomodel.ComparisonOperator_LIKE
	NLIK = protomodel.ComparisonOperator_NOT_LIKE
)

var cmpOps = []protomodel.ComparisonOperator{EQ, NE, LT, LE, GT, GE}

func (a atom) String() string { return fmt.Sprintf("%s %s %s", a.F, a.Op, js(a.V)) }

func (q query) String() string {
	var gs []string
	for _, g := range q.G {
		var as []string
		for _, a := range g {
			as = append(as, a.String())
		}
		gs = append(gs, strings.Join(as, " AND "))
	}
	s := strings.Join(gs, " OR ")
	if len(q.G) > 1 {
		s = "(" + strings.Join(gs, ") OR (") + ")"
	}
	if s == "" {
		s = "all"
	}
	if len(q.O) > 0 {
		var os []string
		for _, o := range q.O {
			os = append(os, o.F+map[bool]string{false: "+", true: "-"}[o.Desc])
		}
		s += " order=" + strings.Join(os, ",")
	}
	if q.Limit > 0 {
		s += fmt.Sprintf(" limit=%d", q.Limit)
	}
	return s
}

func (q query) proto(cn string) *protomodel.Query {
	p := &protomodel.Query{CollectionName: cn, Limit: q.Limit}
	for _, g := range q.G {
		e := &protomodel.QueryExpression{}
		for _, a := range g {
			v, err := structpb.NewValue(a.V)
			if err != nil {
				panic(err)
			}
			e.FieldComparisons = append(e.FieldComparisons, &protomodel.FieldComparison{Field: a.F, Operator: a.Op, Value: v})
		}
		p.Expressions = append(p.Expressions, e)
	}
	for _, o := range q.O {
		p.OrderBy = append(p.OrderBy, &protomodel.OrderByClause{Field: o.F, Desc: o.Desc})
	}
	return p
}

// total: the requested order is total (ends with _id, one direction or not).
func (q query) total() bool { return len(q.O) > 0 && q.O[len(q.O)-1].F == "_id" }

// ---------- reference semantics ----------

type tri int8

const (
	no tri = iota
	yes
	unk // not defined by the property: compared between twins only
)

// fieldOf follows the nested path; ok=false when the field is missing or null.
func fieldOf(d docT, path string) (any, bool) {
	var cur any = d
	for _, p := range strings.Split(path, ".") {
		m, isMap := cur.(map[string]any)
		if !isMap {
			return nil, false
		}
		v, present := m[p]
		if !present {
			return nil, false
		}
		cur = v
	}
	return cur, cur != nil
}

func lossyInt(x float64) bool { return x != math.Trunc(x) || math.Abs(x) > two53 }

func cmpVal(x, y any) (int, bool) {
	switch a := x.(type) {
	case float64:
		b, ok := y.(float64)
		if !ok {
			return 0, false
		}
		switch {
		case a < b:
			return -1, true
		case a > b:
			return 1, true
		}
		return 0, true
	case string:
		b, ok := y.(string)
		return strings.Compare(a, b), ok // code point order == UTF-8 byte order
	case bool:
		b, ok := y.(bool)
		if !ok {
			return 0, false
		}
		switch {
		case a == b:
			return 0, true
		case !a:
			return -1, true
		}
		return 1, true
	}
	return 0, false
}

// likeRef: SQL LIKE — % any sequence, _ exactly one character, backslash escapes the next character.
func likeRef(s, pat []rune) bool {
	if len(pat) == 0 {
		return len(s) == 0
	}
	switch {
	case pat[0] == '\\' && len(pat) > 1:
		return len(s) > 0 && s[0] == pat[1] && likeRef(s[1:], pat[2:])
	case pat[0] == '%':
		for i := 0; i <= len(s); i++ {
			if likeRef(s[i:], pat[1:]) {
				return true
			}
		}
		return false
	case pat[0] == '_':
		return len(s) > 0 && likeRef(s[1:], pat[1:])
	}
	return len(s) > 0 && s[0] == pat[0] && likeRef(s[1:], pat[1:])
}

// evalAtom: does the document (content without _id, id separately) satisfy the comparison? lossy reports that an
// INTEGER field holds / is compared with a value that is not an exactly representable integer.
func evalAtom(d docT, id string, a atom) (r tri, lossy bool) {
	if a.F == "_id" {
		if a.Op == EQ {
			if s, _ := a.V.(string); s == id {
				return yes, false
			}
			return no, false
		}
		return unk, false
	}
	if a.V == nil {
		return unk, false
	}
	v, ok := fieldOf(d, a.F)
	if !ok {
		if a.Op == EQ || a.Op == LIKE {
			return no, false
		}
		return unk, false
	}
	if ftype[a.F] == protomodel.FieldType_INTEGER {
		if x, isNum := v.(float64); isNum && lossyInt(x) {
			lossy = true
		}
		if x, isNum := a.V.(float64); isNum && lossyInt(x) {
			lossy = true
		}
	}
	b2t := func(b bool) tri {
		if b {
			return yes
		}
		return no
	}
	if a.Op == LIKE || a.Op == NLIK {
		s, ok1 := v.(string)
		p, ok2 := a.V.(string)
		if !ok1 || !ok2 {
			return unk, lossy
		}
		return b2t(likeRef([]rune(s), []rune(p)) == (a.Op == LIKE)), lossy
	}
	k, ok := cmpVal(v, a.V)
	if !ok {
		return unk, lossy
	}
	switch a.Op {
	case EQ:
		return b2t(k == 0), lossy
	case NE:
		return b2t(k != 0), lossy
	case LT:
		return b2t(k < 0), lossy
	case LE:
		return b2t(k <= 0), lossy
	case GT:
		return b2t(k > 0), lossy
	case GE:
		return b2t(k >= 0), lossy
	}
	return unk, lossy
}

// evalQuery: Kleene AND inside a group, Kleene OR between groups; no groups = every document.
func evalQuery(d docT, id string, q query) (tri, bool) {
	if len(q.G) == 0 {
		return yes, false
	}
	res, lossy := no, false
	for _, g := range q.G {
		gr := yes
		for _, a := range g {
			r, l := evalAtom(d, id, a)
			lossy = lossy || l
			if r == no {
				gr = no
				break
			}
			if r == unk {
				gr = unk
			}
		}
		if gr == yes {
			return yes, lossy
		}
		if gr == unk {
			res = unk
		}
	}
	return res, lossy
}

// validDoc: may the engine accept this document on insert? (typed fields must hold their type or null/missing)
func validDoc(d docT) bool {
	if _, has := d["_id"]; has {
		return false
	}
	if _, has := d["_doc"]; has {
		return false
	}
	for _, f := range fields {
		v, ok := fieldOf(d, f.Name)
		if !ok {
			continue
		}
		switch f.T {
		case protomodel.FieldType_INTEGER, protomodel.FieldType_DOUBLE:
			_, ok = v.(float64)
		case protomodel.FieldType_STRING:
			_, ok = v.(string)
		case protomodel.FieldType_BOOLEAN:
			_, ok = v.(bool)
		}
		if !ok {
			return false
		}
	}
	return true
}

// ---------- reference model ----------

type mrev struct {
	C   docT
	Del bool
}

type mdoc struct {
	Label string
	Revs  []mrev
}

func (d *mdoc) live() bool { return !d.Revs[len(d.Revs)-1].Del }
func (d *mdoc) cur() docT  { return d.Revs[len(d.Revs)-1].C }

type model struct{ Docs []*mdoc }

func (m *model) key() string {
	var sb strings.Builder
	for _, d := range m.Docs {
		for _, r := range d.Revs {
			if r.Del {
				sb.WriteString("X")
			} else {
				sb.WriteString(js(r.C))
			}
			sb.WriteString(";")
		}
		sb.WriteString("|")
	}
	return sb.String()
}

func (m *model) liveLabels() string {
	var l []string
	for _, d := range m.Docs {
		if d.live() {
			l = append(l, d.Label)
		}
	}
	return strings.Join(l, ",")
}

// ---------- configurations and operations ----------

type opKind int

const (
	kInsert opKind = iota
	kReplaceQ
	kReplaceID
	kDeleteQ
	kDeleteOldest
	kAddIx
	kRemIx
	kToggleIx // add the indexes when absent, remove them when present
)

type opDef struct {
	Name   string
	Kind   opKind
	Labels []string // documents to insert / replacement document
	Q      query    // filter of replace / delete
}

type config struct {
	Name  string
	Depth [2]int
	Docs  []string // the 4 single-insert documents
	Many  [][]string
	RepQ  atom
	DelQ  atom
	ops   []opDef
	items []item
}

func (cf *config) build() {
	for _, l := range cf.Docs {
		cf.ops = append(cf.ops, opDef{Name: "ins(" + l + ")", Kind: kInsert, Labels: []string{l}})
	}
	for _, m := range cf.Many {
		cf.ops = append(cf.ops, opDef{Name: "insmany(" + strings.Join(m, ",") + ")", Kind: kInsert, Labels: m})
	}
	cf.ops = append(cf.ops,
		opDef{Name: "replace(" + cf.RepQ.String() + "->R1)", Kind: kReplaceQ, Labels: []string{"R1"}, Q: query{G: [][]atom{{cf.RepQ}}}},
		opDef{Name: "replace-id(first->R2)", Kind: kReplaceID, Labels: []string{"R2"}},
		opDef{Name: "delete(" + cf.DelQ.String() + ")", Kind: kDeleteQ, Q: query{G: [][]atom{{cf.DelQ}}}},
		opDef{Name: "delete-oldest", Kind: kDeleteOldest, Q: query{O: []ordc{{"_id", false}}, Limit: 1}},
		opDef{Name: "toggle-indexes", Kind: kToggleIx},
		opDef{Name: "insmany(" + cf.Docs[1] + ",BAD)", Kind: kInsert, Labels: []string{cf.Docs[1], "BAD"}},
	)
}

func (cf *config) names(path []int) string {
	var s []string
	for _, o := range path {
		s = append(s, cf.ops[o].Name)
	}
	return strings.Join(s, "; ")
}

// item: one query of a sweep and what is done with it.
type item struct {
	Q       query
	Paging  bool // page it (only totally ordered queries)
	NoCount bool // skip CountDocuments
	Light   bool // part of the light sweep run after an operation that did not change the reference state
}

// domain: per field the distinct non-null values of the given documents (+ extra constants), sorted.
func domain(labels []string, extra map[string][]any, max int) map[string][]any {
	dom := map[string][]any{}
	for _, f := range fields {
		seen := map[string]bool{}
		var vals []any
		add := func(v any) {
			if x, isNum := v.(float64); isNum && x == 0 {
				v = 0.0 // the constant for a stored -0.0 is 0 (they are equal; the query must find both)
			}
			if k := js(v) + fmt.Sprintf("%T", v); !seen[k] {
				seen[k] = true
				vals = append(vals, v)
			}
		}
		for _, l := range labels {
			if v, ok := fieldOf(alphabet[l], f.Name); ok {
				add(v)
			}
		}
		sort.SliceStable(vals, func(i, j int) bool { k, _ := cmpVal(vals[i], vals[j]); return k < 0 })
		if max > 0 && len(vals) > max {
			vals = append(vals[:max-1:max-1], vals[len(vals)-1]) // smallest ones and the largest
		}
		for _, v := range extra[f.Name] {
			add(v)
		}
		dom[f.Name] = vals
	}
	return dom
}

var likePatterns = []string{"a%", "%", "_", "", "%b", "h_llo%", "hé%", "%日本", "a_b", "\\%"}

func atomsOf(dom map[string][]any, withNull bool, patterns []string) []atom {
	var out []atom
	for _, f := range fields {
		vals := dom[f.Name]
		if withNull {
			vals = append(append([]any{}, vals...), nil)
		}
		for _, op := range cmpOps {
			for _, v := range vals {
				out = append(out, atom{f.Name, op, v})
			}
		}
		if f.T == protomodel.FieldType_STRING {
			for _, p := range patterns {
				out = append(out, atom{f.Name, LIKE, p}, atom{f.Name, NLIK, p})
			}
		}
	}
	return out
}

func orderings(f string) [][]ordc {
	return [][]ordc{nil, {{f, false}, {"_id", false}}, {{f, true}, {"_id", true}}, {{f, false}}, {{f, true}}, {{f, false}, {"_id", true}}, {{"_id", true}}}
}

// grammarA: the complete grammar of part A. Every comparison under 7 orderings (paging on the two totally ordered,
// index-covered ones), every field as sort key, AND / OR of two comparisons (thorough: all pairs; quick: pairs over
// 8 comparisons per field + 7 special ones), (a AND b) OR c over 9 comparisons.
func grammarA(dom map[string][]any, allPairs bool) []item {
	atoms := atomsOf(dom, true, likePatterns)
	items := []item{{Q: query{}}, {Q: query{O: []ordc{{"_id", false}}}, Paging: true}, {Q: query{O: []ordc{{"_id", true}}}, Paging: true}}
	for _, a := range atoms {
		for k, o := range orderings(a.F) {
			items = append(items, item{Q: query{G: [][]atom{{a}}, O: o}, Paging: k == 1 || k == 2})
		}
	}
	for _, f := range fields {
		for _, o := range orderings(f.Name)[1:] {
			items = append(items, item{Q: query{O: o}, Paging: len(o) == 2})
		}
	}
	pa := atoms
	if !allPairs {
		pa = []atom{{"s", LIKE, "a%"}, {"s", NLIK, "%b"}, {"s", LIKE, "_"}, {"n", LT, nil}, {"d", NE, dom["d"][0]}, {"d", EQ, 0.0}, {"n", EQ, 1.5}}
		for _, f := range fields {
			v, n := dom[f.Name], f.Name
			pa = append(pa, atom{n, EQ, v[0]}, atom{n, GE, v[len(v)/2]}, atom{n, NE, v[len(v)/2]}, atom{n, LT, v[len(v)-1]}, atom{n, LE, v[0]}, atom{n, GT, v[len(v)/3]}, atom{n, EQ, nil}, atom{n, GE, nil})
		}
	}
	for i, a := range pa {
		for j := i; j < len(pa); j++ {
			b := pa[j]
			items = append(items, item{Q: query{G: [][]atom{{a, b}}}}, item{Q: query{G: [][]atom{{a}, {b}}}})
			if (i+j)%5 == 0 { // ordered by one of the fields: index range scan + residual filter
				items = append(items, item{Q: query{G: [][]atom{{a, b}}, O: []ordc{{a.F, false}}}}, item{Q: query{G: [][]atom{{a}, {b}}, O: []ordc{{b.F, true}}}})
			}
		}
	}
	var red []atom
	for i := 0; i < len(pa) && len(red) < 9; i += max(1, len(pa)/9) {
		red = append(red, pa[i])
	}
	for i, a := range red {
		for j := i + 1; j < len(red); j++ {
			for k, cc := range red {
				if k != i && k != j {
					items = append(items, item{Q: query{G: [][]atom{{a, red[j]}, {cc}}}})
				}
			}
		}
	}
	return items
}

// stateGrammar: the sweep run after every history of part B. A single-column index serves EQ (unordered) and any
// comparison under ORDER BY that column alone (ORDER BY f, _id is sorted in memory from a primary scan), hence: per
// field and constant of the configuration's domain (+ null) EQ unordered, LT ordered by the field ascending, GE ordered
// by it descending; NE / LE / GT on one constant; LIKE; every field alone as ascending and descending sort key; two
// total orders (paged); AND / OR pairs over 6 comparisons, a third of them ordered by a field.
func stateGrammar(dom map[string][]any) []item {
	one := func(a atom) [][]atom { return [][]atom{{a}} }
	items := []item{{Q: query{}, Light: true}}
	var pa []atom
	for fi, f := range fields {
		n := f.Name
		asc, desc := []ordc{{n, false}}, []ordc{{n, true}}
		for _, v := range append(append([]any{}, dom[n]...), nil) {
			items = append(items, item{Q: query{G: one(atom{n, EQ, v})}, Light: true},
				item{Q: query{G: one(atom{n, LT, v}), O: asc}, NoCount: true}, item{Q: query{G: one(atom{n, GE, v}), O: desc}, NoCount: true})
		}
		if v := dom[n]; len(v) > 0 {
			items = append(items, item{Q: query{G: one(atom{n, NE, v[len(v)/2]})}}, item{Q: query{G: one(atom{n, LE, v[0]}), O: desc}}, item{Q: query{G: one(atom{n, GT, v[0]}), O: asc}})
			if len(pa) < 6 {
				pa = append(pa, atom{n, EQ, v[0]}, atom{n, []protomodel.ComparisonOperator{GE, LT, NE}[fi%3], v[len(v)/2]})
			}
		}
		items = append(items, item{Q: query{O: asc}, NoCount: true, Light: true}, item{Q: query{O: desc}, NoCount: true})
	}
	items = append(items, item{Q: query{O: []ordc{{"n", false}, {"_id", false}}}, NoCount: true, Paging: true}, item{Q: query{O: []ordc{{"s", true}, {"_id", true}}}, NoCount: true, Paging: true})
	for _, a := range []atom{{"s", LIKE, "a%"}, {"s", NLIK, "a%"}, {"s", LIKE, "%"}, {"s", LIKE, "_"}} {
		items = append(items, item{Q: query{G: one(a)}})
	}
	for i, a := range pa {
		for j := i + 1; j < len(pa); j++ {
			b := pa[j]
			items = append(items, item{Q: query{G: [][]atom{{a, b}}}}, item{Q: query{G: [][]atom{{a}, {b}}}})
			if (i+j)%3 == 0 {
				items = append(items, item{Q: query{G: [][]atom{{a, b}}, O: []ordc{{a.F, false}}}, NoCount: true}, item{Q: query{G: [][]atom{{a}, {b}}, O: []ordc{{b.F, true}}}, NoCount: true})
			}
		}
	}
	return items
}

// Depth: history depth bound per tier {quick, thorough}; 0 = configuration not run in that tier.
var configs = []*config{
	{Name: "ABDH", Depth: [2]int{3, 4}, Docs: []string{"A", "B", "D", "H"}, Many: [][]string{{"A", "B"}, {"H", "A"}}, RepQ: atom{"s", EQ, "a"}, DelQ: atom{"n", EQ, 1.0}},
	{Name: "ACEG", Depth: [2]int{3, 3}, Docs: []string{"A", "C", "E", "G"}, Many: [][]string{{"A", "C"}, {"E", "E"}}, RepQ: atom{"n", EQ, 1.0}, DelQ: atom{"s", EQ, "a"}},
	{Name: "ANED", Depth: [2]int{3, 3}, Docs: []string{"A", "N", "E", "D"}, Many: [][]string{{"A", "N"}, {"E", "E"}}, RepQ: atom{"n", EQ, 1.0}, DelQ: atom{"s", EQ, "r"}},
	{Name: "DFIJ", Depth: [2]int{2, 3}, Docs: []string{"D", "F", "I", "J"}, Many: [][]string{{"D", "F"}, {"I", "I"}}, RepQ: atom{"b", EQ, false}, DelQ: atom{"o.x", EQ, 0.0}},
	{Name: "AEHM", Depth: [2]int{0, 3}, Docs: []string{"A", "E", "H", "M"}, Many: [][]string{{"A", "E"}, {"H", "H"}}, RepQ: atom{"o.x", EQ, 7.0}, DelQ: atom{"b", EQ, true}},
	{Name: "BCGJ", Depth: [2]int{0, 3}, Docs: []string{"B", "C", "G", "J"}, Many: [][]string{{"B", "C"}, {"G", "G"}}, RepQ: atom{"s", EQ, "a\nb"}, DelQ: atom{"n", EQ, 1.0}},
}

// ---------- harness ----------

type coll struct {
	Name    string
	IDs     []string // by ordinal
	ord     map[string]int
	indexed bool
}

type found struct {
	Class, What, Detail string
	Q                   *query // the (reduced) failing query, if the violation is about a query
}

type H struct {
	dir     string
	st      *store.ImmuStore
	e       *document.Engine
	twins   []*coll
	cu, cu2 *coll // UNIQUE index on s / composite UNIQUE index on (n, s)
	tm, um  *model
	um2     *model
	rec     bool // record violations (last operation and sweep only)
	found   []found
	stop    bool
	queries int64
	stats   map[string]int64
}

func storeOpts() *store.Options {
	return store.DefaultOptions().WithSynced(false).WithMultiIndexing(true).
		WithLogger(logger.NewMemoryLoggerWithLevel(logger.LogError)).
		WithFileSize(1 << 16).WithMaxTxEntries(64).WithMaxKeyLen(1024).WithMaxValueLen(1 << 13).WithMaxConcurrency(4).
		WithMaxActiveTransactions(8).WithTxLogCacheSize(8).WithVLogCacheSize(0).WithWriteBufferSize(1 << 14).
		WithAHTOptions(store.DefaultAHTOptions().WithWriteBufferSize(4096)).
		WithIndexOptions(store.DefaultIndexOptions().WithFlushBufferSize(4096).WithCacheSize(1 << 22).WithMaxBulkSize(1))
}

func protoFields() []*protomodel.Field {
	var fs []*protomodel.Field
	for _, f := range fields {
		fs = append(fs, &protomodel.Field{Name: f.Name, Type: f.T})
	}
	return fs
}

// Scratch directories are reused (a fixed set of paths under one fresh base directory): immudb registers metric series
// per store path and never drops them, fresh paths for 10^5 stores would accumulate gigabytes.
var (
	scratchBase = lib.Scratch("c19")
	slots       = func() chan string {
		ch := make(chan string, 64)
		for i := 0; i < cap(ch); i++ {
			ch <- fmt.Sprintf("%s/%d", scratchBase, i)
		}
		return ch
	}()
)

func getDir() string {
	d := <-slots
	os.RemoveAll(d)
	if err := os.MkdirAll(d, 0755); err != nil {
		panic(err)
	}
	return d
}

func putDir(d string) {
	os.RemoveAll(d)
	slots <- d
}

func finish(rule string, exhaustive bool) {
	os.RemoveAll(scratchBase)
	c.Finish(rule, exhaustive)
}

func newH(cf *config) *H {
	h := &H{dir: getDir(), tm: &model{}, um: &model{}, um2: &model{}, stats: map[string]int64{}}
	var err error
	if h.st, err = store.Open(h.dir, storeOpts()); err != nil {
		panic(err)
	}
	if h.e, err = document.NewEngine(h.st, document.DefaultOptions()); err != nil {
		panic(err)
	}
	mk := func(name string, ix []*protomodel.Index) *coll {
		if err := h.e.CreateCollection(ctx, "u", name, "", protoFields(), ix); err != nil {
			panic(fmt.Sprintf("CreateCollection %s: %v", name, err))
		}
		return &coll{Name: name, ord: map[string]int{}}
	}
	var all []*protomodel.Index
	for _, f := range fields {
		all = append(all, &protomodel.Index{Fields: []string{f.Name}})
	}
	h.twins = []*coll{mk("c_plain", nil), mk("c_ix", all), mk("c_late", nil), mk("c_mid", nil)}
	h.twins[1].indexed = true
	h.cu = mk("c_u", []*protomodel.Index{{Fields: []string{"s"}, IsUnique: true}})
	h.cu2 = mk("c_u2", []*protomodel.Index{{Fields: []string{"n", "s"}, IsUnique: true}})
	return h
}

func (h *H) close() {
	h.st.Close()
	putDir(h.dir)
}

func (h *H) rep(class, what, detail string) {
	if h.rec {
		h.found = append(h.found, found{Class: class, What: what, Detail: detail})
	}
}

// settle waits until the asynchronous indexer has caught up (inserts run with "unsafe MVCC" against whatever is
// indexed; the check explores the sequential behaviour only).
func (h *H) settle() {
	cx, cancel := context.WithTimeout(ctx, 10*time.Minute)
	defer cancel()
	if err := h.st.WaitForIndexingUpto(cx, h.st.LastPrecommittedTxID()); err != nil {
		// never a violation (no wall-clock oracle): the history is abandoned and the run is marked incomplete
		c.CapHit("indexer did not catch up within 10 minutes (" + err.Error() + "): history abandoned")
		h.stop = true
	}
}

func (h *H) createIndexes(cl *coll) []error {
	var errs []error
	for _, f := range fields {
		errs = append(errs, h.e.CreateIndex(ctx, "u", cl.Name, []string{f.Name}, false))
	}
	h.settle()
	return errs
}

// uniqueVerdict: may `news` (the new contents) be written while the live documents in `others` stay, under a UNIQUE
// index on `flds`? Two documents are duplicates when they agree on every indexed field; when the agreeing tuple has
// a missing / null field the property does not say whether they are duplicates (unk).
func uniqueVerdict(news []docT, others []*mdoc, flds []string) tri {
	keyOf := func(d docT) (string, bool) {
		k, null := "", false
		for _, f := range flds {
			if v, ok := fieldOf(d, f); ok {
				k += fmt.Sprintf("|%T:%v", v, v)
			} else {
				k += "|∅"
				null = true
			}
		}
		return k, null
	}
	seen := map[string]bool{}
	for _, d := range others {
		k, _ := keyOf(d.cur())
		seen[k] = true
	}
	res := yes
	for _, d := range news {
		k, null := keyOf(d)
		if seen[k] {
			if !null {
				return no
			}
			res = unk
		}
		seen[k] = true
	}
	return res
}

func errStr(err error) string {
	if err == nil {
		return "ok"
	}
	return "error: " + err.Error()
}

// apply executes one operation on a group of collections sharing one model.
func (h *H) apply(op opDef, m *model, cs []*coll, uniqFlds []string) {
	unique := len(uniqFlds) > 0
	grp := cs[0].Name
	if len(cs) > 1 {
		grp = "twins"
	}
	what := fmt.Sprintf("op=<%s> on=%s", op.Name, grp)
	var matched []int
	liveOthers := func() (o []*mdoc) {
		in := map[int]bool{}
		for _, k := range matched {
			in[k] = true
		}
		for k, d := range m.Docs {
			if d.live() && !in[k] {
				o = append(o, d)
			}
		}
		return
	}
	match := func(q query, cl *coll) []int {
		var r []int
		for k, d := range m.Docs {
			if !d.live() {
				continue
			}
			t, lossy := evalQuery(d.cur(), cl.IDs[k], q)
			if t == unk || lossy {
				panic("harness: mutation filter must be defined for every document: " + q.String())
			}
			if t == yes {
				r = append(r, k)
			}
		}
		return r
	}
	expect := yes
	var news []docT
	switch op.Kind {
	case kInsert:
		for _, l := range op.Labels {
			news = append(news, alphabet[l])
			if !validDoc(alphabet[l]) {
				expect = no
			}
		}
	case kReplaceQ:
		matched = match(op.Q, cs[0])
	case kReplaceID:
		if len(m.Docs) > 0 && m.Docs[0].live() {
			matched = []int{0}
		}
	case kDeleteQ:
		matched = match(op.Q, cs[0])
	case kDeleteOldest:
		for _, cl := range cs {
			if !sort.StringsAreSorted(cl.IDs) { // generated ids out of insertion order (clock step, counter wrap): "oldest" is ambiguous
				h.stats["nonmonotone_ids_history_abandoned"]++
				h.stop = true
				return
			}
		}
		for k, d := range m.Docs {
			if d.live() {
				matched = []int{k}
				break
			}
		}
	case kAddIx, kRemIx, kToggleIx:
		for _, cl := range cs {
			if cl.Name != "c_mid" {
				continue
			}
			if op.Kind == kToggleIx {
				op.Kind = map[bool]opKind{false: kAddIx, true: kRemIx}[cl.indexed]
			}
			for _, f := range fields {
				var err error
				if op.Kind == kAddIx {
					err = h.e.CreateIndex(ctx, "u", cl.Name, []string{f.Name}, false)
				} else {
					err = h.e.DeleteIndex(ctx, "u", cl.Name, []string{f.Name})
				}
				if wantOK := cl.indexed != (op.Kind == kAddIx); wantOK != (err == nil) {
					h.rep("index-op", fmt.Sprintf("%s field=%s", what, f.Name), fmt.Sprintf("index present=%v, %s returned %s", cl.indexed, op.Name, errStr(err)))
					h.stop = true
				}
			}
			cl.indexed = op.Kind == kAddIx
		}
		h.settle()
		return
	}
	if op.Kind == kReplaceQ || op.Kind == kReplaceID {
		for range matched {
			news = append(news, alphabet[op.Labels[0]])
		}
	}
	uniq := yes
	if unique && expect == yes && len(news) > 0 {
		uniq = uniqueVerdict(news, liveOthers(), uniqFlds)
		expect = uniq
	}
	// run on every collection of the group
	var outcome []string
	okAll, failAll := true, true
	for _, cl := range cs {
		var err error
		switch op.Kind {
		case kInsert:
			var docs []*structpb.Struct
			for _, d := range news {
				docs = append(docs, S(d))
			}
			var ids []document.DocumentID
			_, ids, err = h.e.InsertDocuments(ctx, "u", cl.Name, docs)
			if err == nil {
				if len(ids) != len(docs) {
					h.rep("insert-ids", what, fmt.Sprintf("%d ids returned for %d documents", len(ids), len(docs)))
					h.stop = true
				}
				for _, id := range ids {
					s := id.EncodeToHexString()
					if _, dup := cl.ord[s]; dup {
						h.rep("id-reused", what, "generated id "+s+" was already used in "+cl.Name)
						h.stop = true
					}
					cl.ord[s] = len(cl.IDs)
					cl.IDs = append(cl.IDs, s)
				}
			}
		case kReplaceQ, kReplaceID:
			q := op.Q
			r := cp(alphabet[op.Labels[0]]).(docT)
			if op.Kind == kReplaceID {
				r["_id"] = "00ff00ff"
				if len(cl.IDs) > 0 {
					r["_id"] = cl.IDs[0]
				}
			}
			var revs []*protomodel.DocumentAtRevision
			revs, err = h.e.ReplaceDocuments(ctx, "u", q.proto(cl.Name), S(r))
			if err == nil && expect != no {
				var got []string
				for _, rv := range revs {
					k, known := cl.ord[rv.DocumentId]
					if !known {
						k = -1
					}
					got = append(got, fmt.Sprintf("%d@%d", k, rv.Revision))
				}
				var want []string
				for _, k := range matched {
					want = append(want, fmt.Sprintf("%d@%d", k, len(m.Docs[k].Revs)+1))
				}
				sort.Strings(got)
				sort.Strings(want)
				if strings.Join(got, ",") != strings.Join(want, ",") {
					h.rep("replace-result", what+" coll="+cl.Name, fmt.Sprintf("replaced (ordinal@revision) %v, reference %v", got, want))
					h.stop = true
				}
			}
		case kDeleteQ, kDeleteOldest:
			err = h.e.DeleteDocuments(ctx, "u", op.Q.proto(cl.Name))
		}
		outcome = append(outcome, cl.Name+": "+errStr(err))
		okAll = okAll && err == nil
		failAll = failAll && err != nil
		h.settle()
	}
	if !okAll && !failAll {
		h.rep("op-diverge", what, "the same operation succeeded on some collections and failed on others: "+strings.Join(outcome, " | "))
		h.stop = true
		return
	}
	switch {
	case expect == yes && failAll:
		cl := "op-refused"
		if unique && uniq == yes {
			cl = "unique-false-conflict" // no live duplicate exists in the reference
		}
		h.rep(cl, what, "reference: must succeed (live: "+m.liveLabels()+"); "+strings.Join(outcome, " | "))
		if !unique {
			h.stop = true
		}
	case expect == no && okAll:
		cl := "invalid-accepted"
		if unique && uniq == no {
			cl = "unique-admits-duplicate"
		}
		h.rep(cl, what, "reference: must be refused (live: "+m.liveLabels()+"); "+strings.Join(outcome, " | "))
		h.stop = true
	}
	if unique && expect == unk {
		h.stats["unique_null_duplicate_"+map[bool]string{true: "accepted", false: "refused"}[okAll]]++
	}
	if failAll {
		return // refused: the model is unchanged, the sweep checks that the collections are too
	}
	// the model adopts the operation
	switch op.Kind {
	case kInsert:
		for i, d := range news {
			m.Docs = append(m.Docs, &mdoc{Label: op.Labels[i], Revs: []mrev{{C: d}}})
		}
	case kReplaceQ, kReplaceID:
		for _, k := range matched {
			m.Docs[k].Revs = append(m.Docs[k].Revs, mrev{C: alphabet[op.Labels[0]]})
			m.Docs[k].Label = op.Labels[0]
		}
	case kDeleteQ, kDeleteOldest:
		for _, k := range matched {
			m.Docs[k].Revs = append(m.Docs[k].Revs, mrev{Del: true})
		}
	}
}

type result struct {
	ords []int
	docs []*protomodel.DocumentAtRevision
	err  error
}

func (h *H) read(cl *coll, q query, offset int64, pageSize int) result {
	h.queries++
	r, err := h.e.GetDocuments(ctx, q.proto(cl.Name), offset)
	if err != nil {
		return result{err: err}
	}
	defer r.Close()
	return h.readN(cl, r, pageSize)
}

func (h *H) readN(cl *coll, r document.DocumentReader, n int) result {
	docs, err := r.ReadN(ctx, n)
	if errors.Is(err, document.ErrNoMoreDocuments) {
		err = nil
	}
	res := result{docs: docs, err: err}
	for _, d := range docs {
		k, ok := cl.ord[d.DocumentId]
		if !ok {
			k = -1
		}
		res.ords = append(res.ords, k)
	}
	return res
}

func ordsStr(m *model, o []int) string {
	var s []string
	for _, k := range o {
		if k < 0 || k >= len(m.Docs) {
			s = append(s, "?")
		} else {
			s = append(s, fmt.Sprintf("%d:%s", k, m.Docs[k].Label))
		}
	}
	return "[" + strings.Join(s, " ") + "]"
}

func sorted(o []int) []int { s := append([]int{}, o...); sort.Ints(s); return s }
func eqInts(a, b []int) bool {
	if len(a) != len(b) {
		return false
	}
	for i := range a {
		if a[i] != b[i] {
			return false
		}
	}
	return true
}

// diffDocs: the documents on which two results differ (for results that differ only in order: the displaced ones).
func diffDocs(a, b []int) []int {
	cnt := map[int]int{}
	for _, x := range a {
		cnt[x]++
	}
	for _, x := range b {
		cnt[x]--
	}
	var d []int
	for k, n := range cnt {
		if n != 0 {
			d = append(d, k)
		}
	}
	for i := range a {
		if len(d) == 0 && i < len(b) && a[i] != b[i] {
			d = append(d, a[i], b[i])
		}
	}
	sort.Ints(d)
	return d
}

// cause recognises the specific, separately reported root causes of a wrong result (docs = the documents that are
// wrongly present / absent / placed) and returns the class prefix: "negzero-" (d holds both 0.0 and -0.0 ... the
// wrong documents all hold a zero), "like-nonascii-" (a LIKE pattern with a non-ASCII literal), "like-newline-" (LIKE
// against strings containing a newline), "" otherwise. int-coercion is decided by the caller (lossy values involved).
func cause(m *model, q query, docs []int) string {
	if len(docs) == 0 {
		return ""
	}
	all := func(p func(d docT) bool) bool {
		for _, k := range docs {
			if k < 0 || k >= len(m.Docs) || !p(m.Docs[k].cur()) {
				return false
			}
		}
		return true
	}
	touchesD, like, nonASCII := false, false, false
	for _, g := range q.G {
		for _, a := range g {
			touchesD = touchesD || a.F == "d"
			if a.Op == LIKE || a.Op == NLIK {
				like = true
				for _, r := range fmt.Sprint(a.V) {
					nonASCII = nonASCII || r > 127
				}
			}
		}
	}
	for _, o := range q.O {
		touchesD = touchesD || o.F == "d"
	}
	negLive := false
	for _, d := range m.Docs {
		if v, ok := fieldOf(d.cur(), "d"); ok && d.live() {
			x, isNum := v.(float64)
			negLive = negLive || (isNum && x == 0 && math.Signbit(x))
		}
	}
	switch {
	case touchesD && negLive && all(func(d docT) bool { v, _ := fieldOf(d, "d"); x, isNum := v.(float64); return isNum && x == 0 }):
		return "negzero-"
	case like && nonASCII:
		return "like-nonascii-"
	case like && all(func(d docT) bool { v, _ := fieldOf(d, "s"); s, _ := v.(string); return strings.Contains(s, "\n") }):
		return "like-newline-"
	}
	return ""
}

// checkRef compares one result with the reference: class ("" = fine) and detail.
func (h *H) checkRef(m *model, cl *coll, q query, res result) (string, string) {
	if res.err != nil {
		return "query-error", res.err.Error()
	}
	seen := map[int]bool{}
	var must, may []int
	lossy := false
	for k, d := range m.Docs {
		if !d.live() {
			continue
		}
		t, l := evalQuery(d.cur(), cl.IDs[k], q)
		lossy = lossy || l
		if t == yes {
			must = append(must, k)
		} else if t == unk {
			may = append(may, k)
			h.stats["pairs_unspecified"]++
		}
		h.stats["pairs_evaluated"]++
	}
	cls := func(base string, docs []int) string {
		if lossy {
			return "int-coercion-" + base
		}
		return cause(m, q, docs) + base
	}
	// faithfulness of every returned document
	for i, k := range res.ords {
		if k < 0 || !m.Docs[k].live() || seen[k] {
			return "filter-mismatch", fmt.Sprintf("returned id %s is unknown, deleted or returned twice; result %s", res.docs[i].DocumentId, ordsStr(m, res.ords))
		}
		seen[k] = true
		want := S(m.Docs[k].cur())
		want.Fields["_id"] = structpb.NewStringValue(cl.IDs[k])
		if !eqStruct(res.docs[i].Document, want) || res.docs[i].DocumentId != cl.IDs[k] {
			return "doc-altered", fmt.Sprintf("doc=%s: returned %v, stored %v", m.Docs[k].Label, res.docs[i].Document, want)
		}
	}
	if q.Limit == 0 {
		allowed := map[int]bool{}
		for _, k := range may {
			allowed[k] = true
		}
		var bad []int
		for _, k := range must {
			allowed[k] = true
			if !seen[k] {
				bad = append(bad, k)
			}
		}
		for _, k := range res.ords {
			if !allowed[k] {
				bad = append(bad, k)
			}
		}
		if len(bad) > 0 {
			return cls("filter-mismatch", bad), fmt.Sprintf("returned %s; reference: must return %s, may return %s (live: %s)", ordsStr(m, res.ords), ordsStr(m, must), ordsStr(m, may), m.liveLabels())
		}
	}
	// order: among documents whose sort field is defined the reference order must hold (ties by the next clause)
	for i := 0; i+1 < len(res.ords) && len(q.O) > 0; i++ {
		a, b := res.ords[i], res.ords[i+1]
		pairLossy := lossy
		for _, o := range q.O {
			var k int
			if o.F == "_id" {
				k = strings.Compare(cl.IDs[a], cl.IDs[b])
			} else {
				va, oka := fieldOf(m.Docs[a].cur(), o.F)
				vb, okb := fieldOf(m.Docs[b].cur(), o.F)
				if !oka || !okb {
					break // the position of missing / null values is not defined
				}
				if ftype[o.F] == protomodel.FieldType_INTEGER {
					x, _ := va.(float64)
					y, _ := vb.(float64)
					pairLossy = pairLossy || lossyInt(x) || lossyInt(y)
				}
				k, _ = cmpVal(va, vb)
			}
			if o.Desc {
				k = -k
			}
			if k > 0 {
				c := cause(m, q, []int{a, b}) + "order-mismatch"
				if pairLossy {
					c = "int-coercion-order-mismatch"
				}
				return c, fmt.Sprintf("returned order %s: positions %d,%d violate the order on %s", ordsStr(m, res.ords), i, i+1, o.F)
			}
			if k < 0 {
				break
			}
		}
	}
	return "", ""
}

type group struct {
	m  *model
	cs []*coll
}

// evalQ runs one query on every collection and returns class -> detail of everything that is wrong with it.
func (h *H) evalQ(gs []group, it item) map[string]string {
	bad := map[string]string{}
	add := func(class, coll, detail string) {
		if class != "" {
			bad[class] += coll + ": " + detail + "\n"
		}
	}
	q := it.Q
	for _, g := range gs {
		mono := true
		var rs []result
		for _, cl := range g.cs {
			mono = mono && sort.StringsAreSorted(cl.IDs)
			r := h.read(cl, q, 0, 1000)
			rs = append(rs, r)
			class, detail := h.checkRef(g.m, cl, q, r)
			add(class, cl.Name, detail)
			if r.err != nil {
				continue
			}
			if len(r.ords) > 0 {
				h.stats["nonempty_results"]++
			}
			if !it.NoCount {
				n, err := h.e.CountDocuments(ctx, q.proto(cl.Name), 0)
				h.queries++
				if err != nil || n != int64(len(r.ords)) {
					add("count-mismatch", cl.Name, fmt.Sprintf("CountDocuments=%d err=%v, search returned %d documents", n, err, len(r.ords)))
				}
			}
			if it.Paging && q.total() && q.Limit == 0 {
				if d := h.paging(cl, q, r); d != "" {
					add("paging-mismatch", cl.Name, d)
				}
			}
		}
		for i := 1; i < len(g.cs); i++ { // index independence
			a, b := rs[0], rs[i]
			if (a.err == nil) != (b.err == nil) {
				add("index-diff", g.cs[i].Name, fmt.Sprintf("%s: %s, %s: %s", g.cs[0].Name, errStr(a.err), g.cs[i].Name, errStr(b.err)))
				continue
			}
			same := eqInts(sorted(a.ords), sorted(b.ords))
			if same && q.total() && mono && q.Limit == 0 {
				same = eqInts(a.ords, b.ords)
			}
			if q.Limit > 0 && !q.total() {
				same = len(a.ords) == len(b.ords) // which documents an unordered limit keeps is not defined
			}
			if !same {
				add(cause(g.m, q, diffDocs(a.ords, b.ords))+"index-diff", g.cs[i].Name, fmt.Sprintf("%s returned %s, %s returned %s (live: %s)", g.cs[0].Name, ordsStr(g.m, a.ords), g.cs[i].Name, ordsStr(g.m, b.ords), g.m.liveLabels()))
			}
		}
	}
	return bad
}

// reduce: the smallest query (atoms dropped one by one, then the ordering) that still shows the class.
func (h *H) reduce(gs []group, it item, class string) (item, string) {
	detail := ""
	for again := true; again; {
		again = false
		var cands []query
		n := 0
		for _, g := range it.Q.G {
			n += len(g)
		}
		for gi := range it.Q.G {
			for ai := range it.Q.G[gi] {
				if n == 1 {
					continue
				}
				q2 := query{O: it.Q.O, Limit: it.Q.Limit}
				for gj, g := range it.Q.G {
					var g2 []atom
					for aj, a := range g {
						if gi != gj || ai != aj {
							g2 = append(g2, a)
						}
					}
					if len(g2) > 0 {
						q2.G = append(q2.G, g2)
					}
				}
				cands = append(cands, q2)
			}
		}
		if len(it.Q.O) > 0 && class != "paging-mismatch" {
			cands = append(cands, query{G: it.Q.G, Limit: it.Q.Limit})
		}
		for _, q2 := range cands {
			if d, bad := h.evalQ(gs, item{Q: q2, Paging: it.Paging})[class]; bad {
				it.Q, detail, again = q2, d, true
				break
			}
		}
	}
	return it, detail
}

// sweep runs the items (shard i of n) and records what is wrong, each under its reduced query.
func (h *H) sweep(gs []group, items []item, shard, nshards int) {
	for idx, it := range items {
		if idx%nshards != shard {
			continue
		}
		bad := h.evalQ(gs, it)
		var classes []string
		for cl := range bad {
			classes = append(classes, cl)
		}
		sort.Strings(classes)
		for _, cl := range classes {
			rit, d := h.reduce(gs, it, cl)
			if d == "" {
				d = bad[cl]
			}
			q := rit.Q
			h.found = append(h.found, found{Class: cl, What: "query=<" + q.String() + ">", Detail: d, Q: &q})
		}
	}
}

// paging: pages of size 1 and 2 (fresh query with offset; one open reader), Limit, Count with offset. "" = fine.
func (h *H) paging(cl *coll, q query, full result) string {
	for _, ps := range []int{1, 2} {
		var byOffset, byReader []int
		for page := 0; page*ps <= len(full.ords); page++ {
			r := h.read(cl, q, int64(page*ps), ps)
			if r.err != nil {
				return fmt.Sprintf("page %d size %d: %v", page+1, ps, r.err)
			}
			byOffset = append(byOffset, r.ords...)
		}
		rd, err := h.e.GetDocuments(ctx, q.proto(cl.Name), 0)
		h.queries++
		if err != nil {
			return err.Error()
		}
		for page := 0; page*ps <= len(full.ords); page++ {
			r := h.readN(cl, rd, ps)
			if r.err != nil {
				rd.Close()
				return fmt.Sprintf("open reader page %d size %d: %v", page+1, ps, r.err)
			}
			byReader = append(byReader, r.ords...)
		}
		rd.Close()
		if !eqInts(byOffset, full.ords) || !eqInts(byReader, full.ords) {
			return fmt.Sprintf("page size %d: pages by offset %v, pages of one reader %v, unpaged result %v", ps, byOffset, byReader, full.ords)
		}
	}
	for _, lim := range []uint32{1, 2} {
		ql := q
		ql.Limit = lim
		r := h.read(cl, ql, 0, 1000)
		want := full.ords[:min(int(lim), len(full.ords))]
		n, err := h.e.CountDocuments(ctx, ql.proto(cl.Name), 0)
		h.queries++
		if r.err != nil || !eqInts(r.ords, want) || err != nil || n != int64(len(want)) {
			return fmt.Sprintf("limit %d: returned %v err=%v count=%d err=%v, first documents of the unlimited result %v", lim, r.ords, r.err, n, err, want)
		}
	}
	if n, err := h.e.CountDocuments(ctx, q.proto(cl.Name), 1); err != nil || n != int64(max(len(full.ords)-1, 0)) {
		return fmt.Sprintf("CountDocuments(offset 1)=%d err=%v, unpaged result has %d", n, err, len(full.ords))
	}
	return ""
}

// points: id lookup, revision, encoded document and audit trail of every document ever inserted.
func (h *H) points(m *model, cl *coll) {
	for k, d := range m.Docs {
		id := cl.IDs[k]
		what := fmt.Sprintf("doc=%d:%s coll=%s", k, d.Label, cl.Name)
		q := query{G: [][]atom{{{"_id", EQ, id}}}}
		r := h.read(cl, q, 0, 10)
		if class, detail := h.checkRef(m, cl, q, r); class != "" {
			h.rep("id-lookup-"+class, what, detail)
		}
		did, _ := document.NewDocumentIDFromHexEncodedString(id)
		_, idf, enc, err := h.e.GetEncodedDocument(ctx, cl.Name, did, 0)
		if d.live() {
			if err != nil || idf != "_id" || enc.Revision != uint64(len(d.Revs)) {
				h.rep("revision-mismatch", what, fmt.Sprintf("GetEncodedDocument: err=%v idField=%q revision=%v, reference revision %d", err, idf, enc, len(d.Revs)))
			}
			if r.err == nil && len(r.docs) == 1 && r.docs[0].Revision != uint64(len(d.Revs)) {
				// one signature per run: SearchDocuments never fills Revision / TransactionId
				h.rep("revision-missing-in-search", "", fmt.Sprintf("id lookup of %s returned Revision=%d TransactionId=%d, the document is at revision %d", what, r.docs[0].Revision, r.docs[0].TransactionId, len(d.Revs)))
			}
		} else if !errors.Is(err, document.ErrDocumentNotFound) {
			h.rep("revision-mismatch", what, fmt.Sprintf("GetEncodedDocument of a deleted document: err=%v", err))
		}
		au, err := h.e.AuditDocument(ctx, cl.Name, did, false, 0, 100, true)
		if err != nil || len(au) != len(d.Revs) {
			h.rep("audit-mismatch", what, fmt.Sprintf("AuditDocument returned %d revisions err=%v, reference has %d", len(au), err, len(d.Revs)))
			continue
		}
		var lastTx uint64
		for i, a := range au {
			want := d.Revs[i]
			ok := a.Revision == uint64(i+1) && a.DocumentId == id && a.TransactionId > lastTx && a.Username == "u"
			lastTx = a.TransactionId
			if want.Del {
				ok = ok && a.Metadata.GetDeleted() && len(a.Document.GetFields()) == 0
			} else {
				ws := S(want.C)
				ws.Fields["_id"] = structpb.NewStringValue(id)
				ok = ok && !a.Metadata.GetDeleted() && eqStruct(a.Document, ws)
			}
			if !ok {
				h.rep("audit-mismatch", what, fmt.Sprintf("entry %d: revision=%d tx=%d id=%s user=%q deleted=%v doc=%v; reference revision %d deleted=%v doc=%s", i, a.Revision, a.TransactionId, a.DocumentId, a.Username, a.Metadata.GetDeleted(), a.Document, i+1, want.Del, js(want.C)))
				break
			}
		}
		// descending, without payload; second entry alone (only when there is one)
		desc, err := h.e.AuditDocument(ctx, cl.Name, did, true, 0, 100, false)
		ok := err == nil && len(desc) == len(au)
		for i := 0; ok && i < len(desc); i++ {
			ok = desc[i].Revision == uint64(len(au)-i) && desc[i].TransactionId == au[len(au)-1-i].TransactionId && desc[i].Document == nil
		}
		if ok && len(au) > 1 {
			page, err := h.e.AuditDocument(ctx, cl.Name, did, false, 1, 1, true)
			ok = err == nil && len(page) == 1 && page[0].Revision == 2 && eqStruct(page[0].Document, au[1].Document)
		}
		if !ok {
			h.rep("audit-mismatch", what, fmt.Sprintf("descending or paged audit inconsistent with the ascending one: desc=%v err=%v", desc, err))
		}
	}
}

// runNode replays path on fresh collections; returns the violations of the last operation and of the final sweep.
// only != nil: instead of the configuration's sweep, exactly these queries are run.
func runNode(cf *config, path []int, shard, nshards int, only []query) (fs []found, stop bool, key string, h *H) {
	h = newH(cf)
	defer h.close()
	if p := lib.Catch(func() {
		stateKey := func() string {
			return fmt.Sprintf("%s#%s#%s#%v", h.tm.key(), h.um.key(), h.um2.key(), h.twins[3].indexed)
		}
		before := ""
		for k, o := range path {
			h.rec = k == len(path)-1 || cf == cfgA // part A has no prefix histories: every operation is checked here
			before = stateKey()
			op := cf.ops[o]
			h.apply(op, h.tm, h.twins, nil)
			if op.Kind < kAddIx {
				h.apply(op, h.um, []*coll{h.cu}, []string{"s"})
				if !h.stop {
					h.apply(op, h.um2, []*coll{h.cu2}, []string{"n", "s"})
				}
			}
			if h.stop {
				return
			}
		}
		h.rec = true
		for i, e := range h.createIndexes(h.twins[2]) { // c_late: indexes after the data
			if e != nil {
				h.rep("index-op", "late-index field="+fields[i].Name, "CreateIndex on the populated collection: "+e.Error())
			}
		}
		gs := []group{{h.tm, h.twins}, {h.um, []*coll{h.cu}}, {h.um2, []*coll{h.cu2}}}
		items := cf.items
		if only != nil {
			items = nil
			for _, q := range only {
				items = append(items, item{Q: q, Paging: true})
			}
		} else if len(path) > 1 && cf != cfgA && before == stateKey() {
			// the last operation changed nothing in the reference (refused, or no document matched): the full sweep of this
			// state was run at the parent history; here the light sweep checks that the collections did not change either
			items = nil
			for _, it := range cf.items {
				if it.Light {
					items = append(items, it)
				}
			}
			h.stats["light_sweeps"]++
		}
		h.sweep(gs, items, shard, nshards)
		if shard == 0 {
			for _, g := range gs {
				for _, cl := range g.cs {
					h.points(g.m, cl)
				}
			}
		}
	}); p != "" {
		if strings.HasPrefix(p, "harness:") {
			fmt.Fprintln(os.Stderr, "HARNESS ERROR:", p)
			os.Exit(2)
		}
		h.found = append(h.found, found{Class: "panic", Detail: p})
		h.stop = true
	}
	return h.found, h.stop, fmt.Sprintf("%s#%s#%s#%v", h.tm.key(), h.um.key(), h.um2.key(), h.twins[3].indexed), h
}

// violate forwards to the framework; C19_GREP=<substring> prints matching violations in full (development aid).
func violate(v lib.Violation) {
	if g := os.Getenv("C19_GREP"); g != "" && strings.Contains(v.Sig, g) {
		fmt.Fprintf(os.Stderr, "## %s\n   %s\n", v.Sig, v.Detail)
	}
	c.Violate(v)
}

const revSig = "revision-missing-in-search documents returned by a search carry Revision=0 and TransactionId=0"

func has(fs []found, f found) bool {
	for _, g := range fs {
		if g.Class == f.Class && g.What == f.What {
			return true
		}
	}
	return false
}

var (
	statMu   sync.Mutex
	states   = map[string]struct{}{}
	totStats = map[string]int64{}
)

func collect(h *H, key string) {
	statMu.Lock()
	if key != "" {
		states[key] = struct{}{}
	}
	for k, v := range h.stats {
		totStats[k] += v
	}
	totStats["queries"] += h.queries
	statMu.Unlock()
	c.AddEvals(h.queries)
}

// nodeFound: what every explored history showed, (cfg, path) -> "class what" set; shorter histories are complete
// before longer ones start (iterative deepening), so minimality can mostly be decided by lookup.
var nodeFound sync.Map

// node runs one history and reports its violations when the history is minimal for them; returns stop.
func node(cf *config, path []int) bool {
	fs, stop, key, h := runNode(cf, path, 0, 1, nil)
	collect(h, cf.Name+key)
	mine := map[string]bool{}
	var cand []found
	for _, f := range fs {
		if mine[f.Class+" "+f.What] {
			continue
		}
		mine[f.Class+" "+f.What] = true
		if f.Class == "revision-missing-in-search" {
			violate(lib.Violation{Sig: revSig, Detail: f.Detail, Replay: map[string]any{"part": "B", "cfg": cf.Name, "path": path}})
			continue
		}
		cand = append(cand, f)
	}
	nodeFound.Store(cf.Name+fmt.Sprint(path), mine)
	// the same violation on a history with one operation removed => not minimal (that history reports it)
	for i := 0; i < len(path) && len(cand) > 0; i++ {
		sub := append(append([]int{}, path[:i]...), path[i+1:]...)
		known, _ := nodeFound.Load(cf.Name + fmt.Sprint(sub))
		var keep, pending []found
		only := []query{}
		for _, f := range cand {
			switch {
			case strings.HasPrefix(f.What, "op=") && i == len(path)-1, len(sub) == 0:
				keep = append(keep, f) // the failing operation itself stays; the empty history shows nothing
			case known != nil && known.(map[string]bool)[f.Class+" "+f.What]:
			default:
				pending = append(pending, f)
				if f.Q != nil {
					only = append(only, *f.Q)
				}
			}
		}
		if len(pending) > 0 {
			fs2, _, _, h2 := runNode(cf, sub, 0, 1, only)
			collect(h2, "")
			for _, f := range pending {
				if !has(fs2, f) {
					keep = append(keep, f)
				}
			}
		}
		cand = keep
	}
	for _, f := range cand {
		violate(lib.Violation{Sig: fmt.Sprintf("%s %s history=<%s> cfg=%s", f.Class, f.What, cf.names(path), cf.Name), Detail: f.Detail, Replay: map[string]any{"part": "B", "cfg": cf.Name, "path": path}})
	}
	c.Distinct(cf.Name + fmt.Sprint(path))
	return stop
}

// ---------- part A ----------

var cfgA *config

func buildA(full bool) {
	labels := []string{"A", "B", "C", "D", "E", "F", "G", "H", "I", "J", "K", "L", "M"}
	cf := &config{Name: "ALL"}
	for _, l := range labels {
		cf.ops = append(cf.ops, opDef{Name: "ins(" + l + ")", Kind: kInsert, Labels: []string{l}})
	}
	alphabet["BADB"] = docT{"b": 1.0}
	alphabet["BADO"] = docT{"o": obj{"x": "str"}}
	alphabet["BADID"] = docT{"_id": "00112233", "n": 1.0}
	alphabet["BADDOC"] = docT{"_doc": "x"}
	alphabet["BADS"] = docT{"s": 1.0}
	bq, mq := atom{"s", EQ, "b"}, atom{"s", EQ, "m"}
	cf.ops = append(cf.ops,
		opDef{Name: "add-indexes", Kind: kAddIx},
		opDef{Name: "replace(" + bq.String() + "->R1)", Kind: kReplaceQ, Labels: []string{"R1"}, Q: query{G: [][]atom{{bq}}}},
		opDef{Name: "remove-indexes", Kind: kRemIx},
		opDef{Name: "ins(F)", Kind: kInsert, Labels: []string{"F"}},
		opDef{Name: "delete(" + mq.String() + ")", Kind: kDeleteQ, Q: query{G: [][]atom{{mq}}}},
		opDef{Name: "remove-indexes", Kind: kRemIx}, // must fail: no index
		opDef{Name: "ins(M)", Kind: kInsert, Labels: []string{"M"}},
		opDef{Name: "add-indexes", Kind: kAddIx},
		opDef{Name: "add-indexes", Kind: kAddIx}) // must fail: already there
	for _, l := range []string{"BAD", "BADB", "BADO", "BADID", "BADDOC", "BADS"} { // documents that must be refused
		cf.ops = append(cf.ops, opDef{Name: "ins(" + l + ")", Kind: kInsert, Labels: []string{l}})
	}
	dom := domain(append(labels, "R1"), map[string][]any{"n": {2.0, 1.5, -two53 - 2, 9223372036854775808.0}, "s": {"zz", "h"}, "d": {-1.0, 2.0}, "o.x": {3.0}}, 0)
	cf.items = grammarA(dom, full)
	cfgA = cf
}

// badQueries must be refused on every collection, by every operation taking a query.
var badQueries = []atom{{"n", EQ, "x"}, {"s", EQ, 1.0}, {"b", EQ, "true"}, {"d", LT, "1"}, {"zz", EQ, 1.0}, {"n", LIKE, "1"}, {"s", LIKE, 1.0}, {"o", EQ, 1.0}, {"_doc", EQ, "x"}}

func partA() {
	const shards = 64
	path := make([]int, len(cfgA.ops))
	for i := range path {
		path[i] = i
	}
	c.ParallelFor(shards, func(i int) {
		fs, _, key, h := runNode(cfgA, path, i, shards, nil)
		collect(h, "ALL"+key)
		c.Add("A_queries", h.queries)
		seen := map[string]bool{}
		for _, f := range fs {
			if seen[f.Class+f.What] {
				continue
			}
			seen[f.Class+f.What] = true
			sig := fmt.Sprintf("%s %s part=A", f.Class, f.What)
			if f.Class == "revision-missing-in-search" {
				sig = revSig
			}
			violate(lib.Violation{Sig: sig, Detail: f.Detail + "\nhistory: " + cfgA.names(path), Replay: map[string]any{"part": "A"}})
		}
	})
	h := newH(cfgA)
	defer h.close()
	for _, a := range badQueries {
		for _, cl := range append(append([]*coll{}, h.twins...), h.cu) {
			q := query{G: [][]atom{{a}}}
			r := h.read(cl, q, 0, 10)
			_, cerr := h.e.CountDocuments(ctx, q.proto(cl.Name), 0)
			err := h.e.DeleteDocuments(ctx, "u", q.proto(cl.Name))
			_, rerr := h.e.ReplaceDocuments(ctx, "u", q.proto(cl.Name), S(alphabet["R1"]))
			if r.err == nil || cerr == nil || err == nil || rerr == nil {
				violate(lib.Violation{Sig: fmt.Sprintf("invalid-accepted query=<%s> coll=%s part=A", q, cl.Name), Detail: fmt.Sprintf("search: %s, count: %s, delete: %s, replace: %s", errStr(r.err), errStr(cerr), errStr(err), errStr(rerr)), Replay: map[string]any{"part": "A"}})
			}
			c.AddEvals(4)
		}
	}
	c.Set("A_query_shapes", len(cfgA.items))
	c.Set("A_documents", 13)
	c.Distinct("A")
}

func main() {
	c = lib.New("C19", "model_checking", 100*time.Second, 25*time.Minute)
	for _, f := range fields {
		ftype[f.Name] = f.T
	}
	c.Assume("single client, sequential use; the asynchronous indexer is allowed to catch up after every operation (document inserts validate UNIQUE constraints against whatever is indexed, see report)")
	c.Assume("comparisons the property does not define (missing/null field with NE/LT/LE/GT/GE/NOT_LIKE, null constants, position of null values in ordered results, uniqueness of two missing values) are compared between twin collections only")
	c.Assume("proofs: adversary restricted to the explicit single-field alteration operators; SHA-256 collision resistance")
	buildA(c.Thorough())
	tier, depthC := 0, 2
	if c.Thorough() {
		tier, depthC = 1, 3
	}
	var cfgs []*config
	depth := 0
	for _, cf := range configs {
		if cf.Depth[tier] > 0 {
			cfgs = append(cfgs, cf)
			depth = max(depth, cf.Depth[tier])
		}
	}
	for _, cf := range configs {
		cf.build()
		cf.items = stateGrammar(domain(append(append([]string{}, cf.Docs...), "R1", "R2"), nil, 3))
	}
	if c.ReplayPath != "" {
		var r struct {
			Part string `json:"part"`
			Cfg  string `json:"cfg"`
			Path []int  `json:"path"`
		}
		c.LoadReplay(&r)
		switch r.Part {
		case "A":
			partA()
		case "C":
			partC(len(r.Path), r.Path)
		default:
			for _, cf := range configs {
				if cf.Name == r.Cfg {
					node(cf, r.Path)
				}
			}
		}
		c.AddStates(1, 1)
		finish("replay of one recorded history", false)
	}
	parts := os.Getenv("C19_PARTS") // development aid: run only some parts (the run is then reported as not exhaustive)
	if parts == "" {
		parts = "ABC"
	} else {
		c.CapHit("C19_PARTS=" + parts)
	}
	if strings.Contains(parts, "A") {
		partA()
	}
	c.Set("A_wall_s", time.Since(c.Start).Seconds())
	if strings.Contains(parts, "C") {
		partC(depthC, nil)
	}
	c.Set("AC_wall_s", time.Since(c.Start).Seconds())
	if !strings.Contains(parts, "B") {
		depth = 0
	}
	// part B: iterative deepening, all configurations at each depth, no pruning
	level := map[string][][]int{}
	for _, cf := range cfgs {
		level[cf.Name] = [][]int{{}}
	}
	var transitions int64
	done := 0
	type job struct {
		cf   *config
		path []int
	}
	for d := 1; d <= depth && !c.Expired(); d++ {
		var jobs []job
		for _, cf := range cfgs {
			if d > cf.Depth[tier] {
				continue
			}
			for _, p := range level[cf.Name] {
				for o := range cf.ops {
					jobs = append(jobs, job{cf, append(append([]int{}, p...), o)})
				}
			}
			level[cf.Name] = nil
		}
		ext, ran := make([]bool, len(jobs)), make([]bool, len(jobs))
		c.ParallelFor(len(jobs), func(i int) {
			if !c.Expired() {
				ext[i], ran[i] = !node(jobs[i].cf, jobs[i].path), true
			}
		})
		n := 0
		for i, j := range jobs {
			if ran[i] {
				n++
			}
			if ext[i] {
				level[j.cf.Name] = append(level[j.cf.Name], j.path)
			}
		}
		transitions += int64(n)
		if n < len(jobs) {
			c.CapHit(fmt.Sprintf("part B: time budget reached at depth %d (%d of %d histories of that depth run)", d, n, len(jobs)))
			break
		}
		done = d
	}
	c.Set("B_depth_completed", done)
	c.Set("B_depth_target", depth)
	var cfn []string
	for _, cf := range cfgs {
		cfn = append(cfn, fmt.Sprintf("%s(depth %d)", cf.Name, cf.Depth[tier]))
	}
	c.Set("B_configurations", strings.Join(cfn, " "))
	c.Set("B_operations", len(cfgs[0].ops))
	c.Set("B_query_shapes_per_state", len(cfgs[0].items))
	c.Set("B_histories", transitions)
	c.Set("traces_validated_against_impl", transitions+1)
	for k, v := range totStats {
		c.Set(k, v)
	}
	c.AddStates(int64(len(states)), transitions)
	var opn []string
	for _, o := range cfgs[0].ops {
		opn = append(opn, o.Name)
	}
	mid := func(it []item) []string {
		return []string{it[5].Q.String(), it[len(it)/3].Q.String(), it[len(it)/2].Q.String(), it[len(it)-1].Q.String()}
	}
	c.Sample(map[string]any{"part": "B", "cfg": cfgs[0].Name, "operations": opn, "example_queries": mid(cfgs[0].items)})
	c.Sample(map[string]any{"part": "A", "history": cfgA.names(func() []int {
		p := make([]int, len(cfgA.ops))
		for i := range p {
			p[i] = i
		}
		return p
	}()), "example_queries": mid(cfgA.items)})
	finish("A: the complete query grammar (A_query_shapes shapes) on 5 collections holding the 13-document alphabet after a fixed 28-operation history; "+
		"B: every history over the 12-operation alphabet up to the depth given in B_configurations for each 4-document configuration (no pruning), the configuration's grammar (B_query_shapes_per_state shapes; a 26-query light sweep after an operation that left the reference state unchanged) on all 5 collections after the last step, then id lookup / revision / audit of every document; "+
		"C: every history up to C_depth over 4 operations at pkg/database level, every (document revision, known state) proof verified, every alteration of the operator set refused. "+
		"evaluations = queries and proof verifications executed; distinct = distinct histories; states = distinct reference states (full revision history + index state)", done == depth)
}
