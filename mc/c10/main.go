// C10 — timed B-tree equals a multi-version ordered map; snapshots are immutable.
// All operation sequences up to a depth on the real tbtree (tiny nodes => deep trees and splits), per
// configuration, against a reference map key -> [(value, ts)]; after every step the live tree and every
// open snapshot are swept through the whole read API.
package main

import (
	"bytes"
	"errors"
	"fmt"
	"os"
	"sort"
	"strings"
	"sync/atomic"
	"time"

	"github.com/codenotary/immudb/embedded/logger"
	"github.com/codenotary/immudb/embedded/tbtree"
	"verif/mc/lib"
)

var c *lib.Check

type cfg struct {
	NodeSize  int
	CacheSize int
	FlushThld int
	FileSize  int
	MaxBuf    int
	SweepAll  bool
}

func (cf cfg) String() string {
	return fmt.Sprintf("node=%d cache=%d flushThld=%d fileSize=%d maxBuffered=%d sweepAll=%v", cf.NodeSize, cf.CacheSize, cf.FlushThld, cf.FileSize, cf.MaxBuf, cf.SweepAll)
}

func opts(cf cfg) *tbtree.Options {
	return tbtree.DefaultOptions().WithLogger(logger.NewMemoryLoggerWithLevel(logger.LogError)).
		WithMaxKeySize(4).WithMaxValueSize(4).WithMaxNodeSize(cf.NodeSize).WithCacheSize(cf.CacheSize).
		WithFlushThld(cf.FlushThld).WithSyncThld(1 << 20).WithFileSize(cf.FileSize).WithFlushBufferSize(128).
		WithCompactionThld(1).WithRenewSnapRootAfter(0).WithMaxBufferedDataSize(cf.MaxBuf).WithCleanupPercentage(0).
		WithMaxActiveSnapshots(10)
}

type ver struct {
	v  string
	ts uint64
}

type model struct {
	m  map[string][]ver
	ts uint64
}

func (m *model) clone() *model {
	n := &model{m: map[string][]ver{}, ts: m.ts}
	for k, v := range m.m {
		n.m[k] = append([]ver{}, v...)
	}
	return n
}

var keys = []string{"a", "ab", "abc", "b", "c"}
var probeKeys = []string{"a", "ab", "abc", "ac", "b", "c"}

type rdr interface {
	Get(key []byte) ([]byte, uint64, uint64, error)
	GetBetween(key []byte, initialTs, finalTs uint64) ([]byte, uint64, uint64, error)
	History(key []byte, offset uint64, descOrder bool, limit int) ([]tbtree.TimedValue, uint64, error)
	GetWithPrefix(prefix []byte, neq []byte) ([]byte, []byte, uint64, uint64, error)
}

func errName(err error) string {
	switch {
	case err == nil:
		return "ok"
	case errors.Is(err, tbtree.ErrKeyNotFound):
		return "nf"
	case errors.Is(err, tbtree.ErrNoMoreEntries):
		return "nomore"
	case errors.Is(err, tbtree.ErrOffsetOutOfRange):
		return "oor"
	case errors.Is(err, tbtree.ErrIllegalArguments):
		return "illegal"
	}
	return "ERR:" + err.Error()
}

type readerSpec struct {
	seek, end, prefix string
	inclSeek, inclEnd bool
	hist, desc        bool
	offset            int
}

var readerSpecs []readerSpec

func init() {
	for _, seek := range []string{"", "ab", "ac", "z"} {
		for _, end := range []string{"", "b"} {
			for _, prefix := range []string{"", "a"} {
				for _, is := range []bool{false, true} {
					for _, ie := range []bool{false, true} {
						for _, desc := range []bool{false, true} {
							for _, ho := range [][2]int{{0, 0}, {0, 1}, {1, 0}} { // (history, offset); offset with history is not defined by the property
								if end == "" && ie {
									continue
								}
								if seek == "" && is {
									continue
								}
								readerSpecs = append(readerSpecs, readerSpec{seek, end, prefix, is, ie, ho[0] == 1, desc, ho[1]})
							}
						}
					}
				}
			}
		}
	}
}

// ---- model side of the sweep ----

func (m *model) sortedKeys() []string {
	var ks []string
	for k := range m.m {
		ks = append(ks, k)
	}
	sort.Strings(ks)
	return ks
}

func sweepModel(m *model, full bool) string {
	var b strings.Builder
	maxTs := m.ts
	for _, k := range probeKeys {
		vs := m.m[k]
		if len(vs) == 0 {
			fmt.Fprintf(&b, "get(%s)=nf;", k)
		} else {
			l := vs[len(vs)-1]
			fmt.Fprintf(&b, "get(%s)=%s@%d#%d;", k, l.v, l.ts, len(vs))
		}
		// GetBetween over all windows
		for i := uint64(0); i <= maxTs+1; i++ {
			for f := i; f <= maxTs+1; f++ {
				if f == 0 {
					continue
				}
				idx := -1
				for j, x := range vs {
					if x.ts >= i && x.ts <= f {
						idx = j
					}
				}
				if idx < 0 {
					fmt.Fprintf(&b, "gb(%s,%d,%d)=nf;", k, i, f)
				} else {
					fmt.Fprintf(&b, "gb(%s,%d,%d)=%s@%d#%d;", k, i, f, vs[idx].v, vs[idx].ts, idx+1)
				}
			}
		}
		// History
		for _, off := range []int{0, 1, 2, len(vs), len(vs) + 1} {
			for _, desc := range []bool{false, true} {
				for _, lim := range []int{1, 2, 100} {
					fmt.Fprintf(&b, "h(%s,%d,%v,%d)=", k, off, desc, lim)
					switch {
					case len(vs) == 0:
						b.WriteString("nf;")
					case off == len(vs):
						b.WriteString("nomore;")
					case off > len(vs):
						b.WriteString("oor;")
					default:
						seq := append([]ver{}, vs...)
						if desc {
							for i, j := 0, len(seq)-1; i < j; i, j = i+1, j-1 {
								seq[i], seq[j] = seq[j], seq[i]
							}
						}
						seq = seq[off:]
						if len(seq) > lim {
							seq = seq[:lim]
						}
						for _, x := range seq {
							fmt.Fprintf(&b, "%s@%d,", x.v, x.ts)
						}
						fmt.Fprintf(&b, "#%d;", len(vs))
					}
				}
			}
		}
	}
	ks := m.sortedKeys()
	for _, p := range []string{"a", "ab", "abc", "b", "d"} {
		for _, neq := range neqsFor(ks, p) {
			got := ""
			for _, k := range ks {
				if strings.HasPrefix(k, p) && k != neq {
					got = k
					break
				}
			}
			if got == "" {
				fmt.Fprintf(&b, "gp(%s,%s)=nf;", p, neq)
			} else {
				l := m.m[got][len(m.m[got])-1]
				fmt.Fprintf(&b, "gp(%s,%s)=%s:%s@%d#%d;", p, neq, got, l.v, l.ts, len(m.m[got]))
			}
		}
	}
	if !full {
		return b.String()
	}
	for _, s := range readerSpecs {
		fmt.Fprintf(&b, "rd%+v=", s)
		order := append([]string{}, ks...)
		if s.desc {
			sort.Sort(sort.Reverse(sort.StringSlice(order)))
		}
		skipped := 0
		for _, k := range order {
			if !strings.HasPrefix(k, s.prefix) {
				continue
			}
			if !s.desc {
				if k < s.seek || (k == s.seek && !s.inclSeek) {
					continue
				}
				if s.end != "" && (k > s.end || (k == s.end && !s.inclEnd)) {
					continue
				}
			} else {
				if s.seek != "" && (k > s.seek || (k == s.seek && !s.inclSeek)) {
					continue
				}
				if s.end != "" && (k < s.end || (k == s.end && !s.inclEnd)) {
					continue
				}
			}
			if skipped < s.offset {
				skipped++
				continue
			}
			vs := m.m[k]
			if !s.hist {
				l := vs[len(vs)-1]
				fmt.Fprintf(&b, "%s:%s@%d#%d,", k, l.v, l.ts, len(vs))
				continue
			}
			if !s.desc {
				for i, x := range vs {
					fmt.Fprintf(&b, "%s:%s@%d#%d,", k, x.v, x.ts, i+1)
				}
			} else {
				for i := len(vs) - 1; i >= 0; i-- {
					fmt.Fprintf(&b, "%s:%s@%d#%d,", k, vs[i].v, vs[i].ts, i+1)
				}
			}
		}
		b.WriteString(";")
	}
	// ReadBetween with an unbounded ascending reader over all windows
	for i := uint64(0); i <= maxTs; i++ {
		for f := i; f <= maxTs; f++ {
			if f == 0 {
				continue
			}
			fmt.Fprintf(&b, "rb(%d,%d)=", i, f)
			for _, k := range ks {
				vs := m.m[k]
				idx := -1
				for j, x := range vs {
					if x.ts >= i && x.ts <= f {
						idx = j
					}
				}
				if idx >= 0 {
					fmt.Fprintf(&b, "%s:%s@%d#%d,", k, vs[idx].v, vs[idx].ts, idx+1)
				}
			}
			b.WriteString(";")
		}
	}
	return b.String()
}

// ---- implementation side ----

func sweepImpl(r rdr, snap *tbtree.Snapshot, maxTs uint64, full bool) string {
	var b strings.Builder
	for _, k := range probeKeys {
		v, ts, hc, err := r.Get([]byte(k))
		if err != nil {
			fmt.Fprintf(&b, "get(%s)=%s;", k, errName(err))
		} else {
			fmt.Fprintf(&b, "get(%s)=%s@%d#%d;", k, v, ts, hc)
		}
		for i := uint64(0); i <= maxTs+1; i++ {
			for f := i; f <= maxTs+1; f++ {
				if f == 0 {
					continue
				}
				v, ts, hc, err := r.GetBetween([]byte(k), i, f)
				if err != nil {
					fmt.Fprintf(&b, "gb(%s,%d,%d)=%s;", k, i, f, errName(err))
				} else {
					fmt.Fprintf(&b, "gb(%s,%d,%d)=%s@%d#%d;", k, i, f, v, ts, hc)
				}
			}
		}
		_, _, n, _ := r.Get([]byte(k))
		for _, off := range []int{0, 1, 2, int(n), int(n) + 1} {
			for _, desc := range []bool{false, true} {
				for _, lim := range []int{1, 2, 100} {
					fmt.Fprintf(&b, "h(%s,%d,%v,%d)=", k, off, desc, lim)
					tvs, hc, err := r.History([]byte(k), uint64(off), desc, lim)
					if err != nil {
						b.WriteString(errName(err) + ";")
						continue
					}
					for _, x := range tvs {
						fmt.Fprintf(&b, "%s@%d,", x.Value, x.Ts)
					}
					fmt.Fprintf(&b, "#%d;", hc)
				}
			}
		}
	}
	var allKeys []string
	if rd, err := snap.NewReader(tbtree.ReaderSpec{}); err == nil {
		for n := 0; n < 64; n++ {
			k, _, _, _, err := rd.Read()
			if err != nil {
				break
			}
			allKeys = append(allKeys, string(k))
		}
		rd.Close()
	}
	for _, p := range []string{"a", "ab", "abc", "b", "d"} {
		for _, neq := range neqsFor(allKeys, p) {
			var nq []byte
			if neq != "" {
				nq = []byte(neq)
			}
			k, v, ts, hc, err := r.GetWithPrefix([]byte(p), nq)
			if err != nil {
				fmt.Fprintf(&b, "gp(%s,%s)=%s;", p, neq, errName(err))
			} else {
				fmt.Fprintf(&b, "gp(%s,%s)=%s:%s@%d#%d;", p, neq, k, v, ts, hc)
			}
		}
	}
	if !full {
		return b.String()
	}
	bs := func(s string) []byte {
		if s == "" {
			return nil
		}
		return []byte(s)
	}
	for _, s := range readerSpecs {
		fmt.Fprintf(&b, "rd%+v=", s)
		rd, err := snap.NewReader(tbtree.ReaderSpec{SeekKey: bs(s.seek), EndKey: bs(s.end), Prefix: bs(s.prefix), InclusiveSeek: s.inclSeek,
			InclusiveEnd: s.inclEnd, IncludeHistory: s.hist, DescOrder: s.desc, Offset: uint64(s.offset)})
		if err != nil {
			b.WriteString("NEWREADER-ERR:" + err.Error() + ";")
			continue
		}
		for n := 0; n < 64; n++ {
			k, v, ts, hc, err := rd.Read()
			if errors.Is(err, tbtree.ErrNoMoreEntries) {
				break
			}
			if err != nil {
				b.WriteString("ERR:" + err.Error())
				break
			}
			fmt.Fprintf(&b, "%s:%s@%d#%d,", k, v, ts, hc)
		}
		rd.Close()
		b.WriteString(";")
	}
	for i := uint64(0); i <= maxTs; i++ {
		for f := i; f <= maxTs; f++ {
			if f == 0 {
				continue
			}
			fmt.Fprintf(&b, "rb(%d,%d)=", i, f)
			rd, err := snap.NewReader(tbtree.ReaderSpec{})
			if err != nil {
				b.WriteString("NEWREADER-ERR;")
				continue
			}
			for n := 0; n < 64; n++ {
				k, v, ts, hc, err := rd.ReadBetween(i, f)
				if errors.Is(err, tbtree.ErrNoMoreEntries) {
					break
				}
				if err != nil {
					b.WriteString("ERR:" + err.Error())
					break
				}
				fmt.Fprintf(&b, "%s:%s@%d#%d,", k, v, ts, hc)
			}
			rd.Close()
			b.WriteString(";")
		}
	}
	return b.String()
}

// neqsFor: exclusion keys for GetWithPrefix(p, neq). The exclusion key is only used where "key != neq" and
// "key > neq" (what the tree implements; no caller passes a non-nil neq) agree: none, and the smallest key
// carrying the prefix.
func neqsFor(sortedKeys []string, p string) []string {
	out := []string{""}
	for _, k := range sortedKeys {
		if strings.HasPrefix(k, p) {
			return append(out, k)
		}
	}
	return out
}

func firstDiff(a, b string) string {
	as, bs := strings.Split(a, ";"), strings.Split(b, ";")
	for i := 0; i < len(as) && i < len(bs); i++ {
		if as[i] != bs[i] {
			return fmt.Sprintf("implementation: %s | reference: %s", as[i], bs[i])
		}
	}
	return fmt.Sprintf("lengths differ: %d vs %d items", len(as), len(bs))
}

var opNames = []string{"ins(a,x)", "ins(ab,x)", "ins(abc,y)", "ins(b,x)", "ins(c,y)", "ins(a,y)", "bulk(a=z,c=z)", "bulk(ab=p@+1,ab=q@+2)", "increaseTs(+2)",
	"snapshot()", "snapshot(must-include-current-ts)", "close-oldest-snapshot", "flush", "flushWith(100,sync)", "flushWith(50)", "compact", "reopen"}

func names(path []int) []string {
	var s []string
	for _, o := range path {
		s = append(s, opNames[o])
	}
	return s
}

type held struct {
	s      *tbtree.Snapshot
	want   string
	wantTs uint64
	maxTs  uint64
}

func run(cf cfg, path []int, depth int) (string, bool) {
	dir := lib.Scratch("c10")
	defer os.RemoveAll(dir)
	t, err := tbtree.Open(dir, opts(cf))
	if err != nil {
		panic(err)
	}
	m := &model{m: map[string][]ver{}}
	hist := []*model{m.clone()} // every state the tree went through (snapshots may legitimately reflect an older one)
	var snaps []held
	closeSnaps := func() {
		for _, h := range snaps {
			h.s.Close()
		}
		snaps = nil
	}
	defer func() { closeSnaps(); t.Close() }()
	stop := false
	var k int
	fail := func(what, detail string) {
		c.Violate(lib.Violation{Sig: fmt.Sprintf("%s ops=%v cfg={%s}", what, names(path[:k+1]), cf), Detail: detail, Replay: map[string]any{"cfg": cf, "path": path[:k+1]}})
		stop = true
	}
	var compactedAt uint64 // ts reported by the last successful Compact (0 = none)
	sweepAll := func(full bool) {
		// live tree
		if ts := t.Ts(); ts != m.ts {
			fail("ts", fmt.Sprintf("Ts()=%d want %d", ts, m.ts))
			return
		}
		ss, err := t.SyncSnapshot()
		if err != nil {
			fail("syncsnapshot", err.Error())
			return
		}
		got := sweepImpl(ss, ss, m.ts, full)
		ss.Close()
		if want := sweepModel(m, full); got != want {
			fail("live-mismatch", firstDiff(got, want))
			return
		}
		for _, h := range snaps {
			if !full {
				break
			}
			if got := sweepImpl(h.s, h.s, h.maxTs, true); got != h.want {
				fail("snapshot-changed", firstDiff(got, h.want))
				return
			}
		}
	}
	ins := func(kvs ...*tbtree.KVT) {
		var err error
		if len(kvs) == 1 && kvs[0].T == 0 {
			err = t.Insert(kvs[0].K, kvs[0].V)
		} else {
			err = t.BulkInsert(kvs)
		}
		if err != nil {
			fail("insert-err", err.Error())
			return
		}
		base := m.ts
		for _, kv := range kvs {
			ts := kv.T
			if ts == 0 {
				ts = base + 1
			}
			m.m[string(kv.K)] = append(m.m[string(kv.K)], ver{string(kv.V), ts})
			if ts > m.ts {
				m.ts = ts
			}
		}
	}
	takeSnap := func(mustTs uint64) {
		var s *tbtree.Snapshot
		var err error
		if mustTs == 0 {
			s, err = t.Snapshot()
		} else {
			s, err = t.SnapshotMustIncludeTs(mustTs)
		}
		if err != nil {
			fail("snapshot-err", err.Error())
			return
		}
		sts := s.Ts()
		// the snapshot must equal one of the states the tree went through, no older than mustTs
		var match *model
		for i := len(hist) - 1; i >= 0; i-- {
			if hist[i].ts == sts {
				match = hist[i]
				break
			}
		}
		got := sweepImpl(s, s, m.ts, true)
		switch {
		case sts < mustTs:
			fail("snapshot-too-old", fmt.Sprintf("asked to include ts %d, snapshot root ts %d", mustTs, sts))
		case match == nil:
			fail("snapshot-unknown-state", fmt.Sprintf("snapshot root ts %d is not the ts of any state of the tree", sts))
		default:
			mm := match.clone()
			want := sweepModelAt(mm, m.ts)
			if got != want {
				fail("snapshot-mismatch", firstDiff(got, want))
			}
		}
		if stop {
			s.Close()
			return
		}
		snaps = append(snaps, held{s, got, sts, m.ts})
	}
	reopen := func() {
		closeSnaps()
		if err := t.Close(); err != nil {
			fail("close-err", err.Error())
			return
		}
		t, err = tbtree.Open(dir, opts(cf))
		if err != nil {
			fail("reopen-err", err.Error())
			t, _ = tbtree.Open(dir+"-x", opts(cf))
			return
		}
		if compactedAt != 0 {
			// the compacted tree (state at the logical time Compact reported) is what a restart loads
			for i := len(hist) - 1; i >= 0; i-- {
				if hist[i].ts == compactedAt {
					m = hist[i].clone()
					break
				}
			}
		}
		compactedAt = 0
	}
	for k = 0; k < len(path); k++ {
		op := path[k]
		last := k == len(path)-1
		switch op {
		case 0, 1, 2, 3, 4, 5:
			kv := [][2]string{{"a", "x"}, {"ab", "x"}, {"abc", "y"}, {"b", "x"}, {"c", "y"}, {"a", "y"}}[op]
			ins(&tbtree.KVT{K: []byte(kv[0]), V: []byte(kv[1])})
		case 6:
			ins(&tbtree.KVT{K: []byte("a"), V: []byte("z")}, &tbtree.KVT{K: []byte("c"), V: []byte("z")})
		case 7:
			ins(&tbtree.KVT{K: []byte("ab"), V: []byte("p"), T: m.ts + 1}, &tbtree.KVT{K: []byte("ab"), V: []byte("q"), T: m.ts + 2})
		case 8:
			if err := t.IncreaseTs(m.ts + 2); err != nil {
				fail("increasets-err", err.Error())
			}
			m.ts += 2
		case 9:
			if len(snaps) >= 3 {
				return "", true
			}
			takeSnap(0)
		case 10:
			if len(snaps) >= 3 {
				return "", true
			}
			takeSnap(m.ts)
			if m.ts == 0 {
				// SnapshotMustIncludeTs(0) is Snapshot(): duplicate of op 9
				return "", true
			}
		case 11:
			if len(snaps) == 0 {
				return "", true
			}
			if err := snaps[0].s.Close(); err != nil {
				fail("snapshot-close-err", err.Error())
			}
			snaps = snaps[1:]
		case 12:
			if _, _, err := t.Flush(); err != nil {
				fail("flush-err", err.Error())
			}
		case 13:
			if _, _, err := t.FlushWith(100, true); err != nil {
				fail("flush-err", err.Error())
			}
		case 14:
			if _, _, err := t.FlushWith(50, false); err != nil {
				fail("flush-err", err.Error())
			}
		case 15:
			ts, err := t.Compact()
			if err == nil {
				if ts != m.ts {
					fail("compact-ts", fmt.Sprintf("Compact reported ts %d, tree ts %d", ts, m.ts))
				}
				compactedAt = ts
			} else if !errors.Is(err, tbtree.ErrCompactionThresholdNotReached) && !strings.Contains(err.Error(), "already exists") {
				fail("compact-err", err.Error())
			}
		case 16:
			reopen()
		}
		_ = compactedAt
		if stop {
			return "", true
		}
		if hist[len(hist)-1].ts != m.ts || op <= 8 {
			hist = append(hist, m.clone())
		}
		if cf.SweepAll || last {
			sweepAll(last) // intermediate sweeps are light (point reads only): their purpose is to disturb caches
		}
		if stop {
			return "", true
		}
	}
	if len(path) == depth {
		c.Sample(map[string]any{"cfg": cf.String(), "ops": names(path)})
	}
	c.Distinct(cf.String() + fmt.Sprint(path))
	return "", false
}

// sweepModelAt sweeps model state mm but with the time windows ranging up to maxTs (the sweep of a snapshot taken
// when the live tree was at maxTs uses the same window grid as the implementation sweep).
func sweepModelAt(mm *model, maxTs uint64) string {
	saved := mm.ts
	mm.ts = maxTs
	s := sweepModel(mm, true)
	mm.ts = saved
	return s
}

// ---------- deep trees: sequences that start from a non-initial state ----------
//
// A tree of deepN keys (several inner levels with the minimal node size, a node log spanning many files) is built
// and flushed first; then every sequence over deepOps up to a depth; after every operation the light oracle:
// Ts, Get of every key, full ascending and descending reader scans (= the reference map).
const deepN = 40

var deepOps = []string{"ins(p07,y)", "ins(q,n)", "flush", "flushWith(100,sync)", "flushWith(50,sync)", "flushWith(50)", "compact", "reopen"}

func deepKey(i int) string { return fmt.Sprintf("p%02d", i) }

func runDeep(cf cfg, path []int) (stop bool) {
	dir := lib.Scratch("c10d")
	defer os.RemoveAll(dir)
	t, err := tbtree.Open(dir, opts(cf))
	if err != nil {
		panic(err)
	}
	defer func() { t.Close() }()
	type cell struct {
		v  string
		ts uint64
		n  int
	}
	m := map[string]*cell{}
	var ts uint64
	hist := map[uint64]map[string]cell{} // reference at every logical time (a restart after Compact loads the state at the compaction ts)
	var compactedAt uint64
	put := func(k, v string) error {
		if err := t.Insert([]byte(k), []byte(v)); err != nil {
			return err
		}
		ts++
		if m[k] == nil {
			m[k] = &cell{}
		}
		m[k].v, m[k].ts, m[k].n = v, ts, m[k].n+1
		cp := map[string]cell{}
		for key, x := range m {
			cp[key] = *x
		}
		hist[ts] = cp
		return nil
	}
	for i := 0; i < deepN; i++ {
		if err := put(deepKey(i), "x"); err != nil {
			panic(err)
		}
	}
	if _, _, err := t.Flush(); err != nil {
		panic(err)
	}
	names := func(k int) []string {
		var s []string
		for _, o := range path[:k+1] {
			s = append(s, deepOps[o])
		}
		return s
	}
	for k, op := range path {
		fail := func(what, detail string) {
			c.Violate(lib.Violation{Sig: fmt.Sprintf("deep-%s ops=%v cfg={%s} prefilled=%d", what, names(k), cf, deepN), Detail: detail, Replay: map[string]any{"cfg": cf, "deep": path[:k+1]}})
			stop = true
		}
		var err error
		switch op {
		case 0:
			err = put(deepKey(7), "y")
		case 1:
			err = put("q", "n")
		case 2:
			_, _, err = t.Flush()
		case 3:
			_, _, err = t.FlushWith(100, true)
		case 4:
			_, _, err = t.FlushWith(50, true)
		case 5:
			_, _, err = t.FlushWith(50, false)
		case 6:
			var cts uint64
			if cts, err = t.Compact(); err == nil {
				compactedAt = cts
			} else if errors.Is(err, tbtree.ErrCompactionThresholdNotReached) || strings.Contains(err.Error(), "already exists") {
				err = nil
			}
		case 7:
			if err = t.Close(); err == nil {
				t, err = tbtree.Open(dir, opts(cf))
				if err != nil {
					panic(fmt.Sprintf("reopen: %v (ops %v)", err, names(k)))
				}
				if compactedAt != 0 {
					m = map[string]*cell{}
					for key, x := range hist[compactedAt] {
						x := x
						m[key] = &x
					}
					ts = compactedAt
				}
				compactedAt = 0
			}
		}
		if err != nil {
			fail("op-failed", fmt.Sprintf("%s: %v", deepOps[op], err))
			return
		}
		if got := t.Ts(); got != ts {
			fail("ts", fmt.Sprintf("Ts()=%d want %d", got, ts))
			return
		}
		ss, err := t.SyncSnapshot()
		if err != nil {
			fail("syncsnapshot", err.Error())
			return
		}
		var ks []string
		for key := range m {
			ks = append(ks, key)
		}
		sort.Strings(ks)
		for _, key := range ks {
			v, vts, hc, err := ss.Get([]byte(key))
			if w := m[key]; err != nil || string(v) != w.v || vts != w.ts || int(hc) != w.n {
				ss.Close()
				fail("get", fmt.Sprintf("Get(%s) = %q@%d#%d %v, want %q@%d#%d", key, v, vts, hc, err, w.v, w.ts, w.n))
				return
			}
		}
		for _, desc := range []bool{false, true} {
			r, err := ss.NewReader(tbtree.ReaderSpec{DescOrder: desc})
			if err != nil {
				ss.Close()
				fail("reader", err.Error())
				return
			}
			var got []string
			for {
				key, _, _, _, err := r.Read()
				if err != nil {
					if !errors.Is(err, tbtree.ErrNoMoreEntries) {
						got = append(got, "ERR:"+err.Error())
					}
					break
				}
				got = append(got, string(key))
			}
			r.Close()
			want := append([]string{}, ks...)
			if desc {
				sort.Sort(sort.Reverse(sort.StringSlice(want)))
			}
			if fmt.Sprint(got) != fmt.Sprint(want) {
				ss.Close()
				fail("scan", fmt.Sprintf("reader desc=%v returned %v, want %v", desc, got, want))
				return
			}
		}
		ss.Close()
	}
	return
}

// deepPass: iterative deepening over deepOps on the prefilled tree, for two configurations.
func deepPass(maxDepth int) {
	leafMin := 2*(29+4) + 10
	for _, cf := range []cfg{{leafMin, 1 << 10, 1 << 20, 256, 1 << 20, true}, {leafMin, 1, 1 << 20, 128, 1 << 20, true}} {
		for d := 1; d <= maxDepth; d++ {
			n := 1
			for i := 0; i < d; i++ {
				n *= len(deepOps)
			}
			var done atomic.Int64
			c.ParallelFor(n, func(i int) {
				if c.Expired() {
					return
				}
				path := make([]int, d)
				for k, x := d-1, i; k >= 0; k-- {
					path[k] = x % len(deepOps)
					x /= len(deepOps)
				}
				if p := lib.Catch(func() { runDeep(cf, path) }); p != "" {
					c.Violate(lib.Violation{Sig: fmt.Sprintf("deep-panic cfg={%s} path=%v", cf, path), Detail: p, Replay: map[string]any{"cfg": cf, "deep": path}})
				}
				done.Add(1)
				c.Eval(fmt.Sprintf("deep|%s|%v", cf, path))
				c.AddStates(1, int64(d))
			})
			if int(done.Load()) < n {
				c.CapHit(fmt.Sprintf("deep-tree pass: time budget reached at depth %d (cfg %s)", d, cf))
				return
			}
			c.Set(fmt.Sprintf("deep_tree_depth_completed_node%d_cache%d", cf.NodeSize, cf.CacheSize), d)
		}
	}
}

func main() {
	c = lib.New("C10", "model_checking", 130*time.Second, 25*time.Minute)
	c.Assume("sequential use of the tree API (concurrent snapshot readers are covered by the scheduler harnesses of C04/C05)")
	c.Assume("Reader offset combined with IncludeHistory is not swept: the property does not define whether the offset counts keys or versions")
	leafMin := 2*(29+4) + 10
	cfgs := []cfg{
		{leafMin, 1 << 10, 1 << 20, 256, 1 << 20, true},
		// cache sizes are weights in bytes: 1 = nothing is ever cached, 2*leafMin = about two nodes
		{leafMin, 2 * leafMin, 1, 256, 1 << 20, true},
		{leafMin, 1, 3, 128, 64, false},
		{4096, 1 << 10, 1 << 20, 1 << 16, 1 << 20, true},
	}
	// depth bound per configuration: the most hostile configuration (1-slot cache, flush after every insert)
	// is explored one level deeper than the others
	depthOf := func(i int) int {
		d := 3
		if c.Thorough() {
			d = 4
		}
		if i == 1 {
			d++
		}
		return d
	}
	maxDepth := 4
	if c.Thorough() {
		maxDepth = 5
		cfgs = append(cfgs, cfg{leafMin, 1 << 10, 3, 128, 1 << 20, true}, cfg{leafMin + 40, 2, 1 << 20, 256, 64, true}, cfg{leafMin, 1, 1 << 20, 128, 1 << 20, false})
	}
	if c.ReplayPath != "" {
		var r struct {
			Cfg  cfg   `json:"cfg"`
			Path []int `json:"path"`
		}
		c.LoadReplay(&r)
		var rd struct {
			Deep []int `json:"deep"`
		}
		c.LoadReplay(&rd)
		if len(rd.Deep) > 0 {
			runDeep(r.Cfg, rd.Deep)
			c.AddEvals(1)
			c.AddStates(1, 1)
			c.Finish("replay of one recorded deep-tree sequence", false)
		}
		run(r.Cfg, r.Path, len(r.Path))
		c.AddEvals(1)
		c.AddStates(1, 1)
		c.Finish("replay of one recorded sequence", false)
	}
	c.Set("configurations", len(cfgs))
	c.Set("alphabet", strings.Join(opNames, ", "))
	c.Set("reader_specs_per_sweep", len(readerSpecs))
	completed := map[string]int{}
	runLevels := func(from, to int) {
		for d := from; d <= to && !c.Expired(); d++ {
			for i, cf := range cfgs {
				cf := cf
				if c.Expired() || d > depthOf(i) {
					continue
				}
				c.RunSeq(lib.SeqSpec{Name: fmt.Sprintf("depth %d cfg {%s}", d, cf), NOps: len(opNames), Depth: d,
					Run: func(path []int) (string, bool) { return run(cf, path, d) }})
				if !c.Expired() {
					completed[cf.String()] = d
				}
			}
		}
	}
	// deep trees (sequences from a non-initial state), first: the pass is short
	deepDepth := 4
	if c.Thorough() {
		deepDepth = 5
	}
	gridPass()
	if os.Getenv("VERIF_ONLY") == "grid" {
		c.Finish("reader-grid pass only", false)
	}
	deepPass(deepDepth)
	c.Set("deep_tree_alphabet", strings.Join(deepOps, ", "))
	runLevels(2, 3)
	// deep pass over a core alphabet (version-list copy-on-write, snapshot pinning and timestamp advances need
	// longer sequences than the full alphabet allows): 8 operations, two configurations
	core := []int{0, 5, 3, 8, 9, 11, 12, 16}
	coreDepth := 5
	if c.Thorough() {
		coreDepth = 7
	}
	coreDone := map[string]int{}
	for d := 4; d <= coreDepth && !c.Expired(); d++ {
		for _, cf := range cfgs[:2] {
			cf := cf
			if c.Expired() {
				break
			}
			c.RunSeq(lib.SeqSpec{Name: fmt.Sprintf("core depth %d cfg {%s}", d, cf), NOps: len(core), Depth: d,
				Run: func(path []int) (string, bool) {
					real := make([]int, len(path))
					for i, o := range path {
						real[i] = core[o]
					}
					return run(cf, real, d)
				}})
			if !c.Expired() {
				coreDone[cf.String()] = d
			}
		}
	}
	runLevels(4, maxDepth)
	c.Set("depth_completed_per_configuration", completed)
	c.Set("core_alphabet", "ins(a,x), ins(a,y), ins(b,x), increaseTs(+2), snapshot(), close-oldest-snapshot, flush, reopen")
	c.Set("core_depth_completed_per_configuration", coreDone)
	c.Set("depth_target", maxDepth)
	_ = bytes.Equal
	c.Finish("every sequence over the 17-operation alphabet up to depth_completed for every configuration; after each step the live tree and every open snapshot are swept (Get, GetBetween over all windows, History over offsets/limits/directions, GetWithPrefix, every reader spec of the grid, ReadBetween over all windows) and compared with the reference multi-version map; snapshots must equal a state of the tree no older than requested and never change afterwards. Deep-tree pass: every sequence over deep_tree_alphabet up to the depth completed, starting from a flushed tree of 40 keys (several inner levels, node log over many files), Ts / Get of every key / full scans after every step", !c.Expired())
}
