// Reader-grid pass of C10: on a few fixed trees every ReaderSpec over a probe alphabet that contains the keys, their
// neighbours and the byte-value boundaries (0xFF keys and prefixes, seek = prefix, seek = end, end below seek) is
// compared with the ordered-map definition. Exhaustive in the spec, not in the tree (the sequence passes are).
package main

import (
	"errors"
	"fmt"
	"os"
	"sort"
	"strings"

	"github.com/codenotary/immudb/embedded/tbtree"
	"verif/mc/lib"
)

var gridKeys = []string{"a", "ab", "abc", "b", "c\xff", "\xff", "\xff\xff"}
var gridProbes = []string{"", "a", "ab", "abc", "ac", "b", "c", "c\xff", "\xff", "\xff\xff", "z"}

func gridModel(keys []string, latest map[string]string, seek, end, prefix string, is, ie, desc bool, offset int) string {
	order := append([]string{}, keys...)
	sort.Strings(order)
	if desc {
		sort.Sort(sort.Reverse(sort.StringSlice(order)))
	}
	var b strings.Builder
	skipped := 0
	for _, k := range order {
		if !strings.HasPrefix(k, prefix) {
			continue
		}
		if !desc {
			if k < seek || (k == seek && !is) {
				continue
			}
			if end != "" && (k > end || (k == end && !ie)) {
				continue
			}
		} else {
			if seek != "" && (k > seek || (k == seek && !is)) {
				continue
			}
			if end != "" && (k < end || (k == end && !ie)) {
				continue
			}
		}
		if skipped < offset {
			skipped++
			continue
		}
		fmt.Fprintf(&b, "%q:%s,", k, latest[k])
	}
	return b.String()
}

func gridPass() {
	leafMin := 2*(29+4) + 10
	type variant struct {
		name   string
		cf     cfg
		reopen bool
	}
	vars := []variant{
		{"in-memory", cfg{leafMin, 1 << 10, 1 << 20, 256, 1 << 20, true}, false},
		{"flushed-reopened-nocache", cfg{leafMin, 1, 1 << 20, 128, 1 << 20, true}, true},
		{"one-big-leaf", cfg{4096, 1 << 10, 1 << 20, 1 << 16, 1 << 20, true}, false},
	}
	specs := 0
	for _, v := range vars {
		dir := lib.Scratch("c10g")
		t, err := tbtree.Open(dir, opts(v.cf))
		if err != nil {
			panic(err)
		}
		latest := map[string]string{}
		put := func(k, val string) {
			if err := t.Insert([]byte(k), []byte(val)); err != nil {
				panic(err)
			}
			latest[k] = val
		}
		for _, k := range gridKeys {
			put(k, "x")
		}
		put("ab", "y")
		put("\xff", "y")
		if v.reopen {
			if _, _, err := t.Flush(); err != nil {
				panic(err)
			}
			if err := t.Close(); err != nil {
				panic(err)
			}
			if t, err = tbtree.Open(dir, opts(v.cf)); err != nil {
				panic(err)
			}
		}
		snap, err := t.Snapshot()
		if err != nil {
			panic(err)
		}
		bs := func(s string) []byte {
			if s == "" {
				return nil
			}
			return []byte(s)
		}
		for _, seek := range gridProbes {
			for _, end := range gridProbes {
				for _, prefix := range gridProbes {
					for fl := 0; fl < 16; fl++ {
						is, ie, desc, off := fl&1 != 0, fl&2 != 0, fl&4 != 0, (fl>>3)&1
						if (seek == "" && is) || (end == "" && ie) {
							continue
						}
						specs++
						want := gridModel(gridKeys, latest, seek, end, prefix, is, ie, desc, off)
						got := ""
						rd, err := snap.NewReader(tbtree.ReaderSpec{SeekKey: bs(seek), EndKey: bs(end), Prefix: bs(prefix), InclusiveSeek: is, InclusiveEnd: ie, DescOrder: desc, Offset: uint64(off)})
						if err != nil {
							got = "NEWREADER-ERR:" + err.Error()
						} else {
							for n := 0; n < 64; n++ {
								k, val, _, _, err := rd.Read()
								if errors.Is(err, tbtree.ErrNoMoreEntries) {
									break
								}
								if err != nil {
									got += "ERR:" + err.Error()
									break
								}
								got += fmt.Sprintf("%q:%s,", k, val)
							}
							rd.Close()
						}
						c.Eval(fmt.Sprintf("grid|%s|%q|%q|%q|%d", v.name, seek, end, prefix, fl))
						if got != want {
							c.Violate(lib.Violation{Sig: fmt.Sprintf("reader-grid tree=%s seek=%q end=%q prefix=%q inclSeek=%v inclEnd=%v desc=%v offset=%d", v.name, seek, end, prefix, is, ie, desc, off),
								Detail: fmt.Sprintf("keys %q (ab and \\xff overwritten)\nreader returned %s\nordered map says  %s", gridKeys, got, want)})
						}
					}
				}
			}
		}
		snap.Close()
		t.Close()
		os.RemoveAll(dir)
	}
	c.Set("reader_grid_specs", specs)
	c.Set("reader_grid_probe_alphabet", fmt.Sprintf("%q", gridProbes))
}
