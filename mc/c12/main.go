// C12 — SQL integrity constraints hold in every reachable state (SEQUENTIAL part).
//
// Space: for each schema of a small explicit list (schemas(), S1..S8: NOT NULL/VARCHAR[3] + unique index,
// auto-increment, composite pk, CHECK, FLOAT unique (0.0 / -0.0), FLOAT pk, late index creation, column DDL)
// ALL statement histories up to a depth (quick 4, thorough 5) over that schema's alphabet of 6..14 statements
// whose values are chosen to collide, each history in every transaction mode:
//
//	auto        every statement autocommit;
//	tx@k        the first k statements autocommit, the rest inside one BEGIN .. COMMIT   (k = 0 .. n-1);
//	rollback@k  the same, ended by ROLLBACK.
//
// Bound: quick = histories of up to 4 statements (with 4 statements at most the last 2 inside the transaction),
// thorough = up to 5 statements (with 5 statements at most the last 4 inside the transaction).
// Iterative deepening on the history length n (level n is finished for every schema and mode before n+1).
// Every case runs on a FRESH store + sql.Engine (real code of /repo) by replaying its history; the harness reads
// only committed state (own read-only transactions between autocommit statements, never inside the transaction
// under test). Signatures: "<class> schema=<S> mode=<auto|tx@k|rollback@k> [cause=..] history=<compact history>".
// Pruning (stated in the evidence): autocommit states are deduplicated by the raw latest-version content of the
// catalog index and of every table index INCLUDING tombstones (failed / no-op statements leave it unchanged);
// the representative of a state is the first history in (length, parent order, statement index) order
// (deterministic); a history is not extended after a violation; a transaction is not extended after a failed
// statement (immudb cancels the whole transaction on the first failing statement; later statements would run
// outside of it) nor after a statement that touched no row (UPDATE/DELETE matching nothing, ON CONFLICT DO
// NOTHING on an existing key: the engine reports no updated row and the reference model agrees).
//
// Oracle (only what the property states):
//
//	invariant of every committed state (full scan through the primary index and through each unique index with
//	USE INDEX ON): no duplicate pk; no two live rows equal on all (non-NULL) columns of a unique index (NULLs are
//	never flagged: immudb treats NULLs as equal, which is stricter); no NULL in NOT NULL columns; CHECK true
//	(rows where it evaluates to NULL are skipped); values of the declared Go type, VARCHAR length <= declared;
//	pk scan and unique index scans return the same multiset of rows; a generated auto-increment id is new and
//	greater than every existing id (inside a transaction "existing" = the rows the reference model expects);
//	a failing statement (autocommit) leaves the visible state (catalog shape + all scans) exactly as before; a
//	failing statement inside a transaction, a failing COMMIT and a ROLLBACK leave the state of BEGIN;
//	must-fail expectations from a tiny reference model (standard INSERT/UPSERT/UPDATE/DELETE semantics applied to
//	the observed pre-state; inside a transaction to the state observed at BEGIN, as long as every committed
//	result of the parent histories equalled the model's): a statement whose result would contain a duplicate pk (plain INSERT of an existing
//	pk), a unique clash among live rows, NULL in a NOT NULL column, a false CHECK, an over-long or wrongly typed
//	value must fail. Reported only when the resulting state itself looks clean (otherwise the state invariant
//	reports it). Nothing is ever required to succeed.
package main

import (
	"context"
	"crypto/sha256"
	"encoding/hex"
	"errors"
	"fmt"
	"math"
	"os"
	"sort"
	"strings"
	"sync/atomic"
	"syscall"
	"time"

	"github.com/codenotary/immudb/embedded/logger"
	"github.com/codenotary/immudb/embedded/sql"
	"github.com/codenotary/immudb/embedded/store"
	"verif/mc/lib"
	"verif/mc/sched"
	"verif/mc/sqlconc"
)

var (
	c   *lib.Check
	ctx = context.Background()
)

type row = map[string]any // column name -> int64 | float64 | string | bool | nil

// ---------------------------------------------------------------- alphabet

const (
	kInsert        = iota
	kInsertNothing // INSERT .. ON CONFLICT DO NOTHING
	kInsertUpdate  // INSERT .. ON CONFLICT DO UPDATE SET (Set)
	kUpsert
	kUpdate
	kDelete
	kDDL
)

type op struct {
	Name    string // compact name used in signatures
	SQL     string
	Kind    int
	Rows    []row            // kInsert*/kUpsert: the rows written (absent column = NULL / generated)
	Where   func(r row) bool // kUpdate/kDelete
	Set     func(r row)      // kUpdate/kInsertUpdate
	Uses    []string         // further columns the statement names
	NotNull string           // ALTER COLUMN .. SET NOT NULL: the column declared NOT NULL on success
	Auto    bool             // INSERT without id into an auto-increment table
	Unique  bool             // CREATE UNIQUE INDEX
}

type schema struct {
	Name  string
	DDL   []string
	Ops   []op
	Check func(r row) (holds, known bool) // the CHECK expression of the schema
}

func whereEq(kv ...any) func(row) bool {
	return func(r row) bool {
		for i := 0; i < len(kv); i += 2 {
			if !eq(r[kv[i].(string)], kv[i+1]) {
				return false
			}
		}
		return true
	}
}
func setCol(col string, v any) func(row) { return func(r row) { r[col] = v } }

func lit(v any) string {
	switch x := v.(type) {
	case nil:
		return "NULL"
	case string:
		return "'" + x + "'"
	case float64:
		if x == 0 && math.Signbit(x) {
			return "0.0 * (0.0 - 1.0)" // the literal -0.0 is folded to 0.0 by the parser
		}
		return fmt.Sprintf("%.1f", x)
	}
	return fmt.Sprint(v)
}

// ins builds INSERT/UPSERT statements: cols "id,u,v", one or more value tuples.
func ins(kind int, cols string, tuples ...[]any) op {
	cs := strings.Split(cols, ",")
	var o op
	o.Kind = kind
	var sqlRows, names []string
	for _, t := range tuples {
		r := row{}
		var ls, ns []string
		for i, col := range cs {
			r[col] = t[i]
			ls = append(ls, lit(t[i]))
			ns = append(ns, short(t[i]))
		}
		o.Rows = append(o.Rows, r)
		sqlRows = append(sqlRows, "("+strings.Join(ls, ",")+")")
		names = append(names, "("+strings.Join(ns, ",")+")")
	}
	verb, pfx := "INSERT", "I"
	if kind == kUpsert {
		verb, pfx = "UPSERT", "UPS"
	}
	o.SQL = fmt.Sprintf("%s INTO t(%s) VALUES %s", verb, cols, strings.Join(sqlRows, ","))
	o.Name = pfx + strings.Join(names, "")
	if cols != "id,u,v" && cols != "id,u" && cols != "a,b,u" && cols != "id,f" && cols != "f,u" && cols != "id,a,b" {
		o.Name = pfx + "[" + cols + "]" + strings.Join(names, "")
	}
	if kind == kInsertNothing {
		o.SQL += " ON CONFLICT DO NOTHING"
		o.Name += "ocn"
	}
	return o
}

func short(v any) string {
	switch x := v.(type) {
	case nil:
		return "NULL"
	case float64:
		if x == 0 && math.Signbit(x) {
			return "-0.0"
		}
		return fmt.Sprintf("%.1f", x)
	}
	return fmt.Sprint(v)
}

func upd(name, sqlText string, where func(row) bool, set func(row), uses ...string) op {
	return op{Name: name, SQL: sqlText, Kind: kUpdate, Where: where, Set: set, Uses: uses}
}
func del(name, sqlText string, where func(row) bool, uses ...string) op {
	return op{Name: name, SQL: sqlText, Kind: kDelete, Where: where, Uses: uses}
}
func ddl(name, sqlText string) op { return op{Name: name, SQL: sqlText, Kind: kDDL} }

func addInt(col string, d int64) func(row) {
	return func(r row) {
		if x, ok := r[col].(int64); ok {
			r[col] = x + d
		}
	}
}

var negZero = math.Copysign(0, -1)

func schemas() []*schema {
	i := func(vs ...any) []any {
		for k, v := range vs {
			if n, ok := v.(int); ok {
				vs[k] = int64(n)
			}
		}
		return vs
	}
	t1 := "CREATE TABLE t(id INTEGER, u INTEGER, v VARCHAR[3] NOT NULL, PRIMARY KEY id)"
	uq := "CREATE UNIQUE INDEX ON t(u)"
	s1 := &schema{Name: "S1", DDL: []string{t1, uq}, Ops: []op{
		ins(kInsert, "id,u,v", i(1, 5, "a")),
		ins(kInsert, "id,u,v", i(2, 5, "b")), // unique clash with row 1
		ins(kInsert, "id,u,v", i(2, 6, "b")),
		ins(kInsert, "id,u,v", i(1, 7, "c")), // pk clash with row 1
		ins(kUpsert, "id,u,v", i(1, 6, "a")), // moves u of row 1, clashes with (2,6)
		ins(kInsertNothing, "id,u,v", i(2, 5, "b")),
		upd("U(id=2:u=5)", "UPDATE t SET u = 5 WHERE id = 2", whereEq("id", int64(2)), setCol("u", int64(5)), "id", "u"),
		upd("U(id=1:id=2)", "UPDATE t SET id = 2 WHERE id = 1", whereEq("id", int64(1)), setCol("id", int64(2)), "id"), // key column
		del("D(id=1)", "DELETE FROM t WHERE id = 1", whereEq("id", int64(1)), "id"),
		ins(kInsert, "id,u,v", i(3, 7, nil)),    // NULL in NOT NULL column
		ins(kInsert, "id,u,v", i(3, 7, "abcd")), // too long
		ins(kInsert, "id,u,v", i(3, "x", "c")),  // wrong type
		upd("U(id=1:v=NULL)", "UPDATE t SET v = NULL WHERE id = 1", whereEq("id", int64(1)), setCol("v", nil), "id", "v"),
		upd("U(id=1:v=abcd)", "UPDATE t SET v = 'abcd' WHERE id = 1", whereEq("id", int64(1)), setCol("v", "abcd"), "id", "v"),
	}}
	autoIns := func(us ...int64) op {
		var ts [][]any
		for _, u := range us {
			ts = append(ts, []any{u})
		}
		o := ins(kInsert, "u", ts...)
		o.Auto = true
		return o
	}
	s2 := &schema{Name: "S2", DDL: []string{"CREATE TABLE t(id INTEGER AUTO_INCREMENT, u INTEGER, PRIMARY KEY id)", uq}, Ops: []op{
		autoIns(5),
		autoIns(6),
		autoIns(7, 5),                 // two generated ids in one statement, second clashes with u=5 when present
		ins(kInsert, "id,u", i(1, 7)), // explicit id, collides with the first generated one
		ins(kInsert, "id,u", i(3, 8)), // explicit id ahead of the counter
		ins(kUpsert, "id,u", i(1, 6)),
		del("D(id=1)", "DELETE FROM t WHERE id = 1", whereEq("id", int64(1)), "id"),
		del("D(id>=2)", "DELETE FROM t WHERE id >= 2", func(r row) bool { x, ok := r["id"].(int64); return ok && x >= 2 }, "id"),
		upd("U(id=2:u=5)", "UPDATE t SET u = 5 WHERE id = 2", whereEq("id", int64(2)), setCol("u", int64(5)), "id", "u"),
	}}
	s3 := &schema{Name: "S3", DDL: []string{"CREATE TABLE t(a INTEGER, b INTEGER, u INTEGER, PRIMARY KEY (a, b))", uq}, Ops: []op{
		ins(kInsert, "a,b,u", i(1, 1, 5)),
		ins(kInsert, "a,b,u", i(1, 2, 5)), // unique clash
		ins(kInsert, "a,b,u", i(1, 2, 6)),
		ins(kInsert, "a,b,u", i(1, 1, 7)), // pk clash
		ins(kInsert, "a,b,u", i(2, 1, 6)),
		ins(kUpsert, "a,b,u", i(1, 1, 6)),
		upd("U(a=1,b=2:u=5)", "UPDATE t SET u = 5 WHERE a = 1 AND b = 2", whereEq("a", int64(1), "b", int64(2)), setCol("u", int64(5)), "a", "b", "u"),
		upd("U(a=1:u=7)", "UPDATE t SET u = 7 WHERE a = 1", whereEq("a", int64(1)), setCol("u", int64(7)), "a", "u"), // clash among the updated rows
		del("D(a=1,b=1)", "DELETE FROM t WHERE a = 1 AND b = 1", whereEq("a", int64(1), "b", int64(1)), "a", "b"),
		del("D(a=1)", "DELETE FROM t WHERE a = 1", whereEq("a", int64(1)), "a"),
	}}
	ocu := ins(kInsertUpdate, "id,u", i(1, 9))
	ocu.SQL += " ON CONFLICT DO UPDATE SET u = u - 5"
	ocu.Name += "ocu(u=u-5)"
	ocu.Set = addInt("u", -5)
	s4 := &schema{Name: "S4", DDL: []string{"CREATE TABLE t(id INTEGER, u INTEGER, PRIMARY KEY id, CHECK (u > 0))"},
		Check: func(r row) (bool, bool) { x, ok := r["u"].(int64); return x > 0, ok },
		Ops: []op{
			ins(kInsert, "id,u", i(1, 5)),
			ins(kInsert, "id,u", i(2, 0)), // CHECK violation
			ins(kInsert, "id,u", i(2, 1)),
			ins(kUpsert, "id,u", i(1, 0)), // CHECK violation
			ins(kUpsert, "id,u", i(1, 3)),
			upd("U(id=2:u=u-1)", "UPDATE t SET u = u - 1 WHERE id = 2", whereEq("id", int64(2)), addInt("u", -1), "id", "u"),
			upd("U(*:u=u-3)", "UPDATE t SET u = u - 3", func(row) bool { return true }, addInt("u", -3), "u"), // may violate on the 2nd row only
			ocu,
			del("D(id=1)", "DELETE FROM t WHERE id = 1", whereEq("id", int64(1)), "id"),
			ins(kInsert, "id,u", i(3, nil)), // CHECK evaluates to NULL: no expectation
			ddl("DROPCOL(u)", "ALTER TABLE t DROP COLUMN u"),
		}}
	s5 := &schema{Name: "S5", DDL: []string{"CREATE TABLE t(id INTEGER, f FLOAT, PRIMARY KEY id)", "CREATE UNIQUE INDEX ON t(f)"}, Ops: []op{
		ins(kInsert, "id,f", i(1, 0.0)),
		ins(kInsert, "id,f", i(2, negZero)),
		ins(kInsert, "id,f", i(2, 0.0)),
		ins(kInsert, "id,f", i(2, 1.5)),
		ins(kUpsert, "id,f", i(1, negZero)),
		upd("U(id=2:f=-0.0)", "UPDATE t SET f = 0.0 * (0.0 - 1.0) WHERE id = 2", whereEq("id", int64(2)), setCol("f", negZero), "id", "f"),
		upd("U(id=2:f=0.0)", "UPDATE t SET f = 0.0 WHERE id = 2", whereEq("id", int64(2)), setCol("f", 0.0), "id", "f"),
		del("D(id=1)", "DELETE FROM t WHERE id = 1", whereEq("id", int64(1)), "id"),
	}}
	s6 := &schema{Name: "S6", DDL: []string{"CREATE TABLE t(f FLOAT, u INTEGER, PRIMARY KEY f)"}, Ops: []op{
		ins(kInsert, "f,u", i(0.0, 1)),
		ins(kInsert, "f,u", i(negZero, 2)),
		ins(kUpsert, "f,u", i(negZero, 3)),
		ins(kInsert, "f,u", i(1.5, 4)),
		del("D(f=0.0)", "DELETE FROM t WHERE f = 0.0", whereEq("f", 0.0), "f"),
		upd("U(f=0.0:u=9)", "UPDATE t SET u = 9 WHERE f = 0.0", whereEq("f", 0.0), setCol("u", int64(9)), "f", "u"),
	}}
	s7 := &schema{Name: "S7", DDL: []string{t1}, Ops: []op{ // S1 without the unique index: late creation
		ins(kInsert, "id,u,v", i(1, 5, "a")),
		ins(kInsert, "id,u,v", i(2, 5, "b")),
		ins(kInsert, "id,u,v", i(2, 6, "b")),
		ins(kInsert, "id,u,v", i(2, 5, "b"), i(3, 5, "c")),
		ins(kInsert, "id,u,v", i(3, 5, "c")),
		del("D(id=1)", "DELETE FROM t WHERE id = 1", whereEq("id", int64(1)), "id"),
		{Name: "CREATE-UNIQUE(u)", SQL: uq, Kind: kDDL, Unique: true},
		ddl("CREATE-INDEX(u)", "CREATE INDEX ON t(u)"),
		ins(kUpsert, "id,u,v", i(1, 6, "a")),
		upd("U(id=2:u=5)", "UPDATE t SET u = 5 WHERE id = 2", whereEq("id", int64(2)), setCol("u", int64(5)), "id", "u"),
	}}
	setNN := ddl("SET-NOT-NULL(u)", "ALTER TABLE t ALTER COLUMN u SET NOT NULL")
	setNN.NotNull = "u"
	s8 := &schema{Name: "S8", DDL: []string{t1, uq}, Ops: []op{ // column DDL
		ins(kInsert, "id,u,v", i(1, 5, "a")),
		ins(kInsert, "id,u,v", i(2, 5, "b")), // unique clash
		ins(kInsert, "id,u,v", i(2, nil, "b")),
		del("D(id=1)", "DELETE FROM t WHERE id = 1", whereEq("id", int64(1)), "id"),
		ddl("ADDCOL(w)", "ALTER TABLE t ADD COLUMN w INTEGER"),
		ddl("DROPCOL(w)", "ALTER TABLE t DROP COLUMN w"),
		ddl("RENAME(u,uu)", "ALTER TABLE t RENAME COLUMN u TO uu"),
		ins(kInsert, "id,uu,v", i(2, 5, "b")), // unique clash through the renamed column
		ddl("DROPCOL(v)", "ALTER TABLE t DROP COLUMN v"),
		ddl("DROPCOL(u)", "ALTER TABLE t DROP COLUMN u"), // indexed column
		ins(kInsert, "id,u", i(3, 6)),                    // omits the NOT NULL column v
		ins(kInsert, "id,u,v,w", i(3, 7, "c", 1)),
		setNN,
	}}
	// CHECK whose truth depends on a column being NULL; multi-row statements mixing rows that satisfy it with rows that do not
	s9 := &schema{Name: "S9", DDL: []string{"CREATE TABLE t(id INTEGER, k INTEGER, e INTEGER, PRIMARY KEY id, CHECK (k = 0 OR e IS NOT NULL))"},
		Check: func(r row) (bool, bool) {
			k, ok := r["k"].(int64)
			if !ok {
				return false, false // k NULL: the expression is NULL, no expectation
			}
			return k == 0 || r["e"] != nil, true
		},
		Ops: []op{
			ins(kInsert, "id,k,e", i(1, 1, 7)),
			ins(kInsert, "id,k,e", i(2, 1, nil)),               // CHECK violation
			ins(kInsert, "id,k,e", i(2, 1, 7), i(3, 1, nil)),   // second row violates: nothing may be inserted
			ins(kInsert, "id,k,e", i(4, 0, nil), i(5, 1, nil)), // second row violates
			ins(kInsert, "id,k,e", i(6, 0, nil), i(7, 1, 8)),   // both fine
			ins(kUpsert, "id,k,e", i(1, 1, 9), i(2, 1, nil)),   // second row violates
			upd("U(id=1:e=NULL)", "UPDATE t SET e = NULL WHERE id = 1", whereEq("id", int64(1)), setCol("e", nil), "id", "e"),
			upd("U(*:k=1)", "UPDATE t SET k = 1", func(row) bool { return true }, setCol("k", int64(1)), "k"),
			del("D(id=1)", "DELETE FROM t WHERE id = 1", whereEq("id", int64(1)), "id"),
		}}
	// composite unique index: statements that change only the leading / only the last indexed column of a row
	s10 := &schema{Name: "S10", DDL: []string{"CREATE TABLE t(id INTEGER, a INTEGER, b INTEGER, PRIMARY KEY id)", "CREATE UNIQUE INDEX ON t(a, b)"}, Ops: []op{
		ins(kInsert, "id,a,b", i(1, 1, 7)),
		ins(kInsert, "id,a,b", i(2, 2, 7)),
		ins(kInsert, "id,a,b", i(3, 1, 8)),
		ins(kInsert, "id,a,b", i(4, 1, 7)), // unique clash with row 1
		upd("U(id=2:a=1)", "UPDATE t SET a = 1 WHERE id = 2", whereEq("id", int64(2)), setCol("a", int64(1)), "id", "a"), // leading column only: clashes with (1,7)
		upd("U(id=3:b=7)", "UPDATE t SET b = 7 WHERE id = 3", whereEq("id", int64(3)), setCol("b", int64(7)), "id", "b"), // last column only: clashes with (1,7)
		ins(kUpsert, "id,a,b", i(2, 1, 7)), // row 2 moved onto (1,7)
		upd("U(id=1:a=2)", "UPDATE t SET a = 2 WHERE id = 1", whereEq("id", int64(1)), setCol("a", int64(2)), "id", "a"), // clashes with (2,7)
		del("D(id=1)", "DELETE FROM t WHERE id = 1", whereEq("id", int64(1)), "id"),
	}}
	return []*schema{s1, s2, s3, s4, s5, s6, s7, s8, s9, s10}
}

// ---------------------------------------------------------------- database under test

type db struct {
	dir string
	st  *store.ImmuStore
	e   *sql.Engine
	tx  *sql.SQLTx
}

func openDB(s *schema) *db {
	dir := lib.Scratch("c12")
	so := store.DefaultOptions().WithSynced(false).WithMultiIndexing(true).
		WithLogger(logger.NewMemoryLoggerWithLevel(logger.LogError)).
		WithFileSize(1 << 14).WithMaxTxEntries(16).WithMaxKeyLen(128).WithMaxValueLen(128).WithMaxConcurrency(2).
		WithMaxActiveTransactions(4).WithTxLogCacheSize(4).WithVLogCacheSize(0).WithWriteBufferSize(2048).
		WithAHTOptions(store.DefaultAHTOptions().WithWriteBufferSize(1024).WithSyncThld(64)).
		WithIndexOptions(store.DefaultIndexOptions().WithFlushBufferSize(2048).WithCacheSize(32).WithMaxBulkSize(1))
	st, err := store.Open(dir, so)
	if err != nil {
		panic(err)
	}
	e, err := sql.NewEngine(st, sql.DefaultOptions().WithPrefix([]byte("s")))
	if err != nil {
		panic(err)
	}
	d := &db{dir: dir, st: st, e: e}
	for _, q := range s.DDL {
		if err := d.exec(q); err != nil {
			panic(fmt.Sprintf("schema %s: %s: %v", s.Name, q, err))
		}
	}
	return d
}

func (d *db) close() {
	if d.tx != nil {
		d.tx.Cancel()
	}
	d.st.Close()
	os.RemoveAll(d.dir)
}

// exec runs one statement in the current transaction (autocommit when there is none).
func (d *db) exec(q string) error {
	ntx, _, err := d.e.Exec(ctx, d.tx, q, nil)
	d.tx = ntx // nil: autocommit, COMMIT/ROLLBACK done, or the transaction was cancelled by a failing statement
	return err
}

type colInfo struct {
	Name          string
	Type          string
	MaxLen        int
	NotNull, Auto bool
}

type catalog struct {
	Cols    []colInfo
	PK      []string
	Uniq    [][]string
	IDs     []uint32 // all index ids (raw dump)
	UniqIDs []uint32 // parallel to Uniq
}

func (ct *catalog) col(name string) *colInfo {
	for i := range ct.Cols {
		if ct.Cols[i].Name == name {
			return &ct.Cols[i]
		}
	}
	return nil
}

func (ct *catalog) String() string {
	var sb strings.Builder
	for _, cl := range ct.Cols {
		fmt.Fprintf(&sb, "%s %s[%d] notnull=%v auto=%v, ", cl.Name, cl.Type, cl.MaxLen, cl.NotNull, cl.Auto)
	}
	fmt.Fprintf(&sb, "pk=%v unique=%v", ct.PK, ct.Uniq)
	return sb.String()
}

func catalogOf(cat *sql.Catalog) *catalog {
	t, err := cat.GetTableByName("t")
	if err != nil {
		panic(err)
	}
	ct := &catalog{}
	for _, cl := range t.Cols() {
		ct.Cols = append(ct.Cols, colInfo{cl.Name(), string(cl.Type()), cl.MaxLen(), !cl.IsNullable(), cl.IsAutoIncremental()})
	}
	for _, ix := range t.GetIndexes() {
		var names []string
		for _, cl := range ix.Cols() {
			names = append(names, cl.Name())
		}
		ct.IDs = append(ct.IDs, ix.ID())
		if ix.IsPrimary() {
			ct.PK = names
		} else if ix.IsUnique() {
			ct.Uniq = append(ct.Uniq, names)
			ct.UniqIDs = append(ct.UniqIDs, ix.ID())
		}
	}
	return ct
}

// obs is the visible committed state: catalog shape, pk scan, one scan per unique index.
type obs struct {
	Cat  *catalog
	Rows []row
	Idx  [][]row // parallel to Cat.Uniq
	Err  string
}

func (d *db) query(tx *sql.SQLTx, q string) ([]row, error) {
	r, err := d.e.Query(ctx, tx, q, nil)
	if err != nil {
		return nil, err
	}
	defer r.Close()
	cols, err := r.Columns(ctx)
	if err != nil {
		return nil, err
	}
	rs, err := sql.ReadAllRows(ctx, r)
	if err != nil {
		return nil, err
	}
	var out []row
	for _, x := range rs {
		m := row{}
		for i, v := range x.ValuesByPosition {
			m[cols[i].Column] = v.RawValue()
		}
		out = append(out, m)
	}
	return out, nil
}

// observe reads the committed state in one read-only transaction (never inside the transaction under test).
func (d *db) observe() *obs {
	tx, err := d.e.NewTx(ctx, sql.DefaultTxOptions().WithReadOnly(true))
	if err != nil {
		return &obs{Cat: &catalog{}, Err: "read-only tx: " + err.Error()}
	}
	defer tx.Cancel()
	o := &obs{Cat: catalogOf(tx.Catalog())}
	if o.Rows, err = d.query(tx, "SELECT * FROM t"); err != nil {
		o.Err = "SELECT * FROM t: " + err.Error()
		return o
	}
	for _, u := range o.Cat.Uniq {
		q := "SELECT * FROM t USE INDEX ON (" + strings.Join(u, ", ") + ")"
		rs, err := d.query(tx, q)
		if err != nil {
			o.Err = q + ": " + err.Error()
			return o
		}
		o.Idx = append(o.Idx, rs)
	}
	return o
}

func fmtVal(v any) string {
	switch x := v.(type) {
	case nil:
		return "NULL"
	case string:
		return "'" + x + "'"
	case float64:
		if x == 0 && math.Signbit(x) {
			return "-0.0"
		}
		return fmt.Sprintf("%g", x)
	}
	return fmt.Sprint(v)
}

func fmtRow(ct *catalog, r row) string {
	var s []string
	for _, cl := range ct.Cols {
		s = append(s, fmtVal(r[cl.Name]))
	}
	return "(" + strings.Join(s, ",") + ")"
}

func fmtRows(ct *catalog, rs []row, sorted bool) string {
	var s []string
	for _, r := range rs {
		s = append(s, fmtRow(ct, r))
	}
	if sorted {
		sort.Strings(s)
	}
	return strings.Join(s, " ")
}

// String is the canonical visible state (multisets: scan order is not part of it).
func (o *obs) String() string {
	s := "catalog{" + o.Cat.String() + "} rows{" + fmtRows(o.Cat, o.Rows, true) + "}"
	for i, rs := range o.Idx {
		s += fmt.Sprintf(" via%v{%s}", o.Cat.Uniq[i], fmtRows(o.Cat, rs, true))
	}
	if o.Err != "" {
		s += " ERR " + o.Err
	}
	return s
}

type rawEntry struct {
	Key     string
	Deleted bool
}

// rawState reads the latest version of every entry (tombstones included) of the catalog index and of every
// table index: the deduplication key of committed states, and the evidence for the cause of a unique duplicate.
func (d *db) rawState(ct *catalog) (string, map[uint32][]rawEntry) {
	tx, err := d.st.NewTx(ctx, &store.TxOptions{Mode: store.ReadOnlyTx, SnapshotMustIncludeTxID: func(l uint64) uint64 { return l }})
	if err != nil {
		panic(err)
	}
	defer tx.Cancel()
	h := sha256.New()
	byIndex := map[uint32][]rawEntry{}
	read := func(prefix []byte, id uint32, keep bool) {
		r, err := tx.NewKeyReader(store.KeyReaderSpec{Prefix: prefix})
		if errors.Is(err, store.ErrIndexNotFound) {
			return
		}
		if err != nil {
			panic(err)
		}
		defer r.Close()
		for {
			k, vr, err := r.Read(ctx)
			if errors.Is(err, store.ErrNoMoreEntries) {
				return
			}
			if err != nil {
				panic(err)
			}
			deleted := vr.KVMetadata() != nil && vr.KVMetadata().Deleted()
			v, _ := vr.Resolve()
			fmt.Fprintf(h, "%q %v %q\n", k, deleted, v)
			if keep {
				byIndex[id] = append(byIndex[id], rawEntry{string(k[len(prefix):]), deleted})
			}
		}
	}
	read([]byte("sCTL."), 0, false)
	for _, id := range ct.IDs {
		read(sql.MapKey([]byte("s"), sql.MappedPrefix, sql.EncodeID(1), sql.EncodeID(id)), id, true)
	}
	return hex.EncodeToString(h.Sum(nil)[:12]), byIndex
}

// ---------------------------------------------------------------- invariant and reference model

func eq(a, b any) bool {
	if a == nil || b == nil {
		return false // NULL equals nothing
	}
	return a == b // int64/string/float64 (0.0 == -0.0, as in SQL)
}

func sameOn(a, b row, cols []string) bool {
	for _, cl := range cols {
		if !eq(a[cl], b[cl]) {
			return false
		}
	}
	return true
}

type finding struct{ Class, Extra, Detail string }

// checkRows evaluates the declared constraints on a set of live rows. notNull: columns declared NOT NULL by a
// successful ALTER COLUMN .. SET NOT NULL (the catalog forgets it).
func checkRows(s *schema, ct *catalog, rows []row, notNull map[string]bool) (out []finding) {
	for i, r := range rows {
		for j := 0; j < i; j++ {
			if len(ct.PK) > 0 && sameOn(r, rows[j], ct.PK) {
				out = append(out, finding{"pk-duplicate", map[bool]string{true: "cause=signed-zero", false: "cause=other"}[zeroFloat(r, ct.PK)], fmt.Sprintf("rows %s and %s have the same primary key %v", fmtRow(ct, rows[j]), fmtRow(ct, r), ct.PK)})
			}
			for _, u := range ct.Uniq {
				if sameOn(r, rows[j], u) {
					out = append(out, finding{"unique-duplicate", "", fmt.Sprintf("live rows %s and %s are equal on the unique index %v", fmtRow(ct, rows[j]), fmtRow(ct, r), u)})
				}
			}
		}
		for _, cl := range ct.Cols {
			v := r[cl.Name]
			if v == nil {
				if declared := cl.NotNull || contains(ct.PK, cl.Name); declared || notNull[cl.Name] {
					cause := map[bool]string{true: "cause=dml", false: "cause=alter-set-not-null-not-applied"}[declared]
					out = append(out, finding{"notnull-violated", cause, fmt.Sprintf("row %s holds NULL in NOT NULL column %s", fmtRow(ct, r), cl.Name)})
				}
				continue
			}
			ok := true
			switch cl.Type {
			case "INTEGER":
				_, ok = v.(int64)
				if _, generated := v.(genID); generated {
					ok = true
				}
			case "VARCHAR":
				var sv string
				if sv, ok = v.(string); ok && cl.MaxLen > 0 && len(sv) > cl.MaxLen {
					out = append(out, finding{"length-violated", "", fmt.Sprintf("row %s: %s longer than VARCHAR[%d]", fmtRow(ct, r), cl.Name, cl.MaxLen)})
				}
			case "FLOAT":
				_, ok = v.(float64)
			}
			if !ok {
				out = append(out, finding{"type-violated", "", fmt.Sprintf("row %s: column %s %s holds a %T", fmtRow(ct, r), cl.Name, cl.Type, v)})
			}
		}
		if s.Check != nil {
			if holds, known := s.Check(r); known && !holds {
				out = append(out, finding{"check-violated", "", fmt.Sprintf("row %s does not satisfy the CHECK constraint", fmtRow(ct, r))})
			}
		}
	}
	return out
}

func contains(l []string, x string) bool {
	for _, y := range l {
		if x == y {
			return true
		}
	}
	return false
}

func cloneRows(rs []row) []row {
	out := make([]row, len(rs))
	for i, r := range rs {
		m := row{}
		for k, v := range r {
			m[k] = v
		}
		out[i] = m
	}
	return out
}

type genID struct{ n int } // placeholder pk of a generated id: equal to nothing else

// apply is the reference model: standard semantics of the statement on the live rows `pre`. defined=false: the
// model does not cover the statement in this state (DDL, unknown column). mustFail names the constraint that the
// result would violate ("" = the model sees no reason for the statement to fail).
func apply(s *schema, o *op, ct *catalog, pre []row, notNull map[string]bool) (post []row, mustFail string, defined bool) {
	if o.Kind == kDDL {
		return nil, "", false
	}
	for _, r := range o.Rows {
		for cl := range r {
			if ct.col(cl) == nil {
				return nil, "", false
			}
		}
	}
	for _, cl := range o.Uses {
		if ct.col(cl) == nil {
			return nil, "", false
		}
	}
	post = cloneRows(pre)
	find := func(r row) int {
		for i, x := range post {
			if sameOn(x, r, ct.PK) {
				return i
			}
		}
		return -1
	}
	gen := 0
	switch o.Kind {
	case kInsert, kInsertNothing, kInsertUpdate, kUpsert:
		for _, r := range cloneRows(o.Rows) {
			if o.Auto {
				gen++
				r[ct.PK[0]] = genID{gen}
			}
			i := find(r)
			switch {
			case i < 0:
				post = append(post, r)
			case o.Kind == kInsert:
				return nil, "pk", true
			case o.Kind == kInsertUpdate:
				o.Set(post[i])
			case o.Kind == kUpsert:
				post[i] = r
			}
		}
	case kUpdate:
		for _, r := range post {
			if o.Where(r) {
				o.Set(r)
			}
		}
	case kDelete:
		var kept []row
		for _, r := range post {
			if !o.Where(r) {
				kept = append(kept, r)
			}
		}
		post = kept
	}
	before := map[string]int{}
	for _, f := range checkRows(s, ct, pre, notNull) {
		before[f.Class]++
	}
	after := map[string]int{}
	for _, f := range checkRows(s, ct, post, notNull) {
		after[f.Class]++
	}
	for _, cl := range []string{"pk-duplicate", "unique-duplicate", "notnull-violated", "length-violated", "type-violated", "check-violated"} {
		if after[cl] > before[cl] { // the statement itself would add a violation
			return post, strings.TrimSuffix(strings.TrimSuffix(cl, "-violated"), "-duplicate"), true
		}
	}
	return post, "", true
}

// ---------------------------------------------------------------- one case

type caseID struct {
	Schema string `json:"schema"`
	Path   []int  `json:"path"`
	Split  int    `json:"split"` // statements [0,Split) autocommit, [Split,n) in one transaction; Split==n: all autocommit
	End    string `json:"end"`   // auto | commit | rollback
	Model  bool   `json:"model"` // tx cases: the reference model followed the parent history (must-fail expectations apply)
}

func (s *schema) history(path []int) string {
	var n []string
	for _, p := range path {
		n = append(n, s.Ops[p].Name)
	}
	return strings.Join(n, ";")
}

func (id caseID) mode() string {
	switch id.End {
	case "commit":
		return fmt.Sprintf("tx@%d", id.Split)
	case "rollback":
		return fmt.Sprintf("rollback@%d", id.Split)
	}
	return "auto"
}

type result struct {
	Key      string // raw committed state (auto cases)
	StmtOK   bool   // the last statement succeeded
	Violated bool
	Trusted  bool // tx cases: the reference model followed the transaction up to here
	Mismatch bool // replay did not behave as its parent did
	NoOp     bool // tx cases: the last statement touched no row (model and engine agree): not extended
}

var nModelDiverged, nMustFailSeen, nFailedStmts, nReplayMismatch int64

func runCase(s *schema, id caseID) (res result) {
	path, trusted := id.Path, id.Model
	n := len(path)
	last := &s.Ops[path[n-1]]
	d := openDB(s)
	defer d.close()
	violate := func(class, extra, detail string) {
		res.Violated = true
		if extra != "" {
			extra = " " + extra
		}
		var sqls []string
		for k, p := range path {
			if k == id.Split && id.End != "auto" {
				sqls = append(sqls, "BEGIN TRANSACTION")
			}
			sqls = append(sqls, s.Ops[p].SQL)
		}
		if id.End != "auto" {
			sqls = append(sqls, strings.ToUpper(id.End))
		}
		c.Violate(lib.Violation{Sig: fmt.Sprintf("%s schema=%s mode=%s%s history=%s", class, s.Name, id.mode(), extra, s.history(path)),
			Detail: detail + "\nschema: " + strings.Join(s.DDL, "; ") + "\nstatements: " + strings.Join(sqls, "; "), Replay: id})
	}
	notNull := map[string]bool{}
	run := func(o *op) error {
		err := d.exec(o.SQL)
		if err == nil && o.NotNull != "" {
			notNull[o.NotNull] = true
		}
		return err
	}
	// committed-state invariant; returns true when clean
	invariant := func(o *obs) bool {
		if o.Err != "" {
			violate("scan-failed", "", "the committed state can not be read: "+o.Err)
			return false
		}
		fs := checkRows(s, o.Cat, o.Rows, notNull)
		for i, u := range o.Cat.Uniq {
			if fmtRows(o.Cat, o.Idx[i], true) != fmtRows(o.Cat, o.Rows, true) {
				fs = append(fs, finding{"index-scan-mismatch", "", fmt.Sprintf("scan through unique index %v returns {%s}, primary index returns {%s}", u, fmtRows(o.Cat, o.Idx[i], false), fmtRows(o.Cat, o.Rows, false))})
			}
		}
		seen := map[string]bool{}
		for _, f := range fs {
			if seen[f.Class] {
				continue
			}
			seen[f.Class] = true
			if f.Class == "unique-duplicate" {
				inTxIndex := false // CREATE UNIQUE INDEX inside the transaction under test
				for _, p := range path[min(id.Split, n):] {
					inTxIndex = inTxIndex || s.Ops[p].Unique
				}
				f.Extra = "cause=" + dupCause(s, id, d, o, last, inTxIndex)
			}
			violate(f.Class, f.Extra, f.Detail+"\nstate: "+o.String())
		}
		return len(fs) == 0
	}
	autoInc := func(pre []row, post *obs) {
		pk := post.Cat.PK[0]
		var maxPre int64 = math.MinInt64
		for _, r := range pre {
			if x, ok := r[pk].(int64); ok && x > maxPre {
				maxPre = x
			}
		}
		fresh := 0
		for _, r := range post.Rows {
			isNew := true
			for _, p := range pre {
				if eq(p[pk], r[pk]) {
					isNew = false
				}
			}
			if !isNew {
				continue
			}
			fresh++
			if x, ok := r[pk].(int64); !ok || x <= maxPre {
				// The property only requires that generated keys never COLLIDE with existing ones (checked below);
				// a generated id below an explicitly inserted one is counted, not reported.
				c.Add("autoincrement_id_not_greater_than_existing_max", 1)
			}
		}
		if fresh != len(last.Rows) {
			violate("autoincrement-collision", "", fmt.Sprintf("%d rows inserted with generated ids but %d new primary keys appeared (before: {%s})\nstate: %s", len(last.Rows), fresh, fmtRows(post.Cat, pre, true), post))
		}
	}

	if id.End == "auto" {
		for _, p := range path[:n-1] {
			run(&s.Ops[p])
		}
		pre := d.observe()
		if pre.Err != "" {
			res.Mismatch = true // the parent was clean
			return
		}
		mpost, mustFail, defined := apply(s, last, pre.Cat, pre.Rows, notNull)
		err := run(last)
		post := d.observe()
		res.StmtOK = err == nil
		if err != nil {
			atomic.AddInt64(&nFailedStmts, 1)
			if post.String() != pre.String() {
				violate("failed-statement-left-effects", "", fmt.Sprintf("%s failed (%v) but the visible state changed\nbefore: %s\nafter:  %s", last.SQL, err, pre, post))
			}
		} else {
			clean := invariant(post)
			if clean && last.Auto {
				autoInc(pre.Rows, post)
			}
			if defined && mustFail != "" {
				atomic.AddInt64(&nMustFailSeen, 1)
				if clean {
					violate("constraint-not-enforced", "kind="+mustFail, fmt.Sprintf("%s succeeded although its result violates the %s constraint\nbefore: %s\nafter:  %s", last.SQL, mustFail, pre, post))
				}
			} else if defined && clean && !last.Auto && fmtRows(post.Cat, mpost, true) != fmtRows(post.Cat, post.Rows, true) {
				atomic.AddInt64(&nModelDiverged, 1) // not a violation: the property does not define statement results
			}
		}
		if post.Err == "" {
			res.Key, _ = d.rawState(post.Cat)
			res.Key += fmt.Sprint(len(notNull))
		}
		return
	}

	// transaction modes
	for _, p := range path[:id.Split] {
		run(&s.Ops[p])
	}
	base := d.observe()
	if base.Err != "" {
		res.Mismatch = true
		return
	}
	if err := d.exec("BEGIN TRANSACTION"); err != nil {
		panic(err)
	}
	model := cloneRows(base.Rows)
	var modelPre []row
	pending := ""
	for k := id.Split; k < n; k++ {
		o := &s.Ops[path[k]]
		var mpost []row
		var mustFail string
		var defined bool
		if trusted {
			mpost, mustFail, defined = apply(s, o, catalogOf(d.tx.Catalog()), model, notNull)
		}
		updatedBefore := d.tx.UpdatedRows()
		err := run(o)
		if err != nil && k < n-1 {
			res.Mismatch = true // the parent executed this statement successfully
			return
		}
		if err != nil {
			atomic.AddInt64(&nFailedStmts, 1)
			post := d.observe()
			if post.String() != base.String() {
				violate("failed-statement-left-effects", "", fmt.Sprintf("%s failed inside the transaction (%v), which cancels it, but the visible state differs from the state at BEGIN\nat BEGIN: %s\nafter:    %s", o.SQL, err, base, post))
			}
			return
		}
		if d.tx == nil {
			res.Mismatch = true
			return
		}
		modelPre = model
		if trusted && defined {
			if o.Auto { // fill in the generated ids (in-memory read of the transaction, no store access)
				lastPK := d.tx.LastInsertedPKs()["t"]
				g := 0
				for _, r := range mpost {
					if _, ok := r[base.Cat.PK[0]].(genID); ok {
						g++
					}
				}
				for _, r := range mpost {
					if x, ok := r[base.Cat.PK[0]].(genID); ok {
						r[base.Cat.PK[0]] = lastPK - int64(g-x.n)
					}
				}
			}
			if k == n-1 {
				pending = mustFail
				res.NoOp = (o.Kind == kUpdate || o.Kind == kDelete || o.Kind == kInsertNothing) && d.tx.UpdatedRows() == updatedBefore &&
					fmtRows(base.Cat, model, true) == fmtRows(base.Cat, mpost, true)
			}
			model = mpost
		} else {
			trusted = false
		}
	}
	res.StmtOK = true
	if id.End == "rollback" {
		err := d.exec("ROLLBACK")
		post := d.observe()
		if err != nil || post.String() != base.String() {
			violate("rollback-left-effects", "", fmt.Sprintf("ROLLBACK (err=%v): the visible state differs from the state at BEGIN\nat BEGIN: %s\nafter:    %s", err, base, post))
		}
		return
	}
	err := d.exec("COMMIT")
	post := d.observe()
	if err != nil {
		if post.String() != base.String() {
			violate("failed-statement-left-effects", "", fmt.Sprintf("COMMIT failed (%v) but the visible state differs from the state at BEGIN\nat BEGIN: %s\nafter:    %s", err, base, post))
		}
		res.StmtOK = false
		return
	}
	clean := invariant(post)
	if clean && trusted {
		if last.Auto {
			autoInc(modelPre, post)
		}
		if pending != "" {
			atomic.AddInt64(&nMustFailSeen, 1)
			violate("constraint-not-enforced", "kind="+pending, fmt.Sprintf("%s succeeded inside the transaction although its result violates the %s constraint\nexpected rows before it: {%s}\ncommitted: %s", last.SQL, pending, fmtRows(post.Cat, modelPre, true), post))
		} else if fmtRows(post.Cat, model, true) != fmtRows(post.Cat, post.Rows, true) {
			atomic.AddInt64(&nModelDiverged, 1)
			trusted = false
		}
	}
	res.Trusted = trusted && clean
	return
}

// dupCause classifies a unique duplicate for the signature (evidence only; the violation is the duplicate).
func dupCause(s *schema, id caseID, d *db, o *obs, last *op, inTxIndex bool) string {
	for i, r := range o.Rows {
		for j := 0; j < i; j++ {
			for _, u := range o.Cat.Uniq {
				if sameOn(r, o.Rows[j], u) && zeroFloat(r, u) {
					return "signed-zero" // 0.0 / -0.0 compare equal but are different index keys
				}
			}
		}
	}
	if inTxIndex {
		return "index-created-in-same-transaction"
	}
	if last.Unique {
		return "index-created-over-duplicates"
	}
	// Was the first raw entry of the duplicated value a tombstone when the last statement (auto) / the transaction
	// (tx) started? Fixed-width INTEGER/FLOAT index columns: 9 key bytes each. Uses a second replay of the prefix.
	_, post := d.rawState(o.Cat)
	p := openDB(s)
	defer p.close()
	m := len(id.Path) - 1
	if id.End != "auto" {
		m = id.Split
	}
	for _, k := range id.Path[:m] {
		p.exec(s.Ops[k].SQL)
	}
	_, pre := p.rawState(p.observe().Cat)
	for i, ix := range o.Cat.UniqIDs {
		w := 9 * len(o.Cat.Uniq[i])
		live := map[string]int{}
		for _, e := range post[ix] {
			if !e.Deleted && len(e.Key) >= w {
				live[e.Key[:w]]++
			}
		}
		first := map[string]bool{}
		for _, e := range pre[ix] {
			if len(e.Key) >= w && !first[e.Key[:w]] {
				first[e.Key[:w]] = true
				if e.Deleted && live[e.Key[:w]] > 1 {
					return "deleted-entry-first"
				}
			}
		}
	}
	return "other"
}

func zeroFloat(r row, cols []string) bool {
	for _, cl := range cols {
		if f, ok := r[cl].(float64); ok && f == 0 {
			return true
		}
	}
	return false
}

// ---------------------------------------------------------------- exploration

type node struct {
	S       *schema
	Path    []int
	Split   int // == len(Path) for autocommit nodes
	Trusted bool
}

func ext(path []int, op int) []int { return append(append(make([]int, 0, len(path)+1), path...), op) }

func main() {
	c = lib.New("C12", "model_checking", 140*time.Second, 25*time.Minute)
	if sched.IsWorker() {
		sqlconc.Phase(c, "C12", 0, 1) // shard worker of the concurrent-sessions phase: does not return
	}
	if c.ReplayPath != "" {
		var sr struct {
			Scenario string `json:"scenario"`
		}
		c.LoadReplay(&sr)
		if sr.Scenario != "" {
			sqlconc.Phase(c, "C12", 0, 1) // schedule replay: does not return
		}
	}
	fullDeadline := c.Deadline
	c.Deadline = c.Start.Add(fullDeadline.Sub(c.Start) * 65 / 100) // the sequential phases get 65% of the budget
	c.Assume("sequential part only: one session, no concurrent transactions (the concurrent-sessions phase is a separate exploration)")
	c.Assume("one table per store; values from 2-3 element colliding domains; no temporal queries, no restart between statements")
	c.Assume("state deduplication assumes that the future of a committed state depends only on the latest version (incl. tombstones) of every catalog/index entry, not on transaction ids or older revisions")
	all := schemas()
	byName := map[string]*schema{}
	for _, s := range all {
		byName[s.Name] = s
	}
	if c.ReplayPath != "" {
		var id caseID
		c.LoadReplay(&id)
		s := byName[id.Schema]
		if s == nil || len(id.Path) == 0 {
			fmt.Fprintln(os.Stderr, "bad replay case")
			os.Exit(2)
		}
		runCase(s, id)
		c.AddEvals(1)
		c.AddStates(1, 1)
		c.Finish("replay of one recorded history", false)
	}
	// quick: histories of up to 4 statements; with 4 statements at most the last 2 are inside the transaction;
	// thorough: up to 5 statements; with 5 statements at most the last 4 are inside the transaction.
	maxDepth, maxTx := 4, func(n int) int { return map[bool]int{true: n, false: 2}[n < 4] }
	if c.Thorough() {
		maxDepth, maxTx = 5, func(n int) int { return min(n, 4) }
	}
	// two sessions, sequentially interleaved, with DDL committed by the second one (package sqlconc, twosess.go):
	// constraints declared by a committed DDL are enforced whatever other session was open meanwhile
	{
		d := 4
		if c.Thorough() {
			d = 5
		}
		seqDeadline := c.Deadline
		c.Deadline = c.Start.Add(fullDeadline.Sub(c.Start) * 30 / 100)
		sqlconc.TwoSessions(c, "C12", d, func(class string) bool {
			return strings.Contains(class, "unique") || strings.Contains(class, "statement-result") || strings.Contains(class, "duplicate-pk")
		})
		c.Deadline = seqDeadline
	}
	explore(all, maxDepth, maxTx)
	// concurrent sessions under the controlled scheduler (engine E1, package sqlconc)
	seqDone := !c.Expired()
	c.Deadline = fullDeadline
	bound, each := 1, 12*time.Second
	if c.Thorough() {
		bound, each = 2, 90*time.Second
	}
	concDone := sqlconc.Phase(c, "C12", each, bound)
	_ = concDone
	if !seqDone {
		c.CapHit("sequential phase stopped at its share of the time budget")
	}
	c.Set("model_divergences_not_reported", atomic.LoadInt64(&nModelDiverged))
	c.Set("must_fail_expectations_evaluated", atomic.LoadInt64(&nMustFailSeen))
	c.Set("failed_statements_checked_for_effects", atomic.LoadInt64(&nFailedStmts))
	c.Set("replay_mismatches", atomic.LoadInt64(&nReplayMismatch))
	var ru syscall.Rusage
	syscall.Getrusage(syscall.RUSAGE_SELF, &ru)
	c.Set("cpu_s", float64(ru.Utime.Nano()+ru.Stime.Nano())/1e9)
	c.Finish("every statement history up to depth_completed over each schema's alphabet, in modes auto / tx@k / rollback@k for every k, each on a fresh store+engine; after the last statement of every case: constraint invariant on the committed state through the primary and every unique index, failed statements / cancelled transactions / rollbacks leave the previous visible state, must-fail expectations from the reference model; autocommit states deduplicated by raw index content incl. tombstones; distinct = distinct (schema, mode, history) cases executed", !c.Expired())
}

// explore runs the sequential phase: level n = all cases whose history has n statements.
func explore(all []*schema, maxDepth int, maxTx func(n int) int) {
	seen := map[string]bool{}
	auto := map[int][]node{} // autocommit frontier by depth: representatives of distinct committed states
	txf := map[int][]node{}  // open-transaction frontier by total depth: every statement in the tx succeeded
	for _, s := range all {
		auto[0] = append(auto[0], node{S: s})
	}
	var alpha []string
	for _, s := range all {
		var names []string
		for _, o := range s.Ops {
			names = append(names, o.Name)
		}
		alpha = append(alpha, fmt.Sprintf("%s {%s} [%s]", s.Name, strings.Join(s.DDL, "; "), strings.Join(names, " | ")))
	}
	c.Set("schemas_and_alphabets", alpha)
	c.Set("depth_target", maxDepth)
	var states, noops int64
	perMode := map[string]int64{}
	for n := 1; n <= maxDepth && !c.Expired(); n++ {
		type job struct {
			node
			res, resRb result
			done       bool
		}
		var jobs []*job
		for _, nd := range auto[n-1] {
			for k := range nd.S.Ops {
				jobs = append(jobs, &job{node: node{nd.S, ext(nd.Path, k), n, true}})     // autocommit
				jobs = append(jobs, &job{node: node{nd.S, ext(nd.Path, k), n - 1, true}}) // BEGIN right here
			}
		}
		for _, nd := range txf[n-1] {
			if n-nd.Split > maxTx(n) {
				continue
			}
			for k := range nd.S.Ops {
				jobs = append(jobs, &job{node: node{nd.S, ext(nd.Path, k), nd.Split, nd.Trusted}})
			}
		}
		var expired atomic.Bool
		c.ParallelFor(len(jobs), func(i int) {
			j := jobs[i]
			if expired.Load() || c.Expired() {
				expired.Store(true)
				return
			}
			id := caseID{j.S.Name, j.Path, j.Split, "auto", j.Trusted}
			if j.Split == len(j.Path) {
				j.res = runCase(j.S, id)
				c.Eval(j.S.Name + " auto " + fmt.Sprint(j.Path))
			} else {
				id.End = "commit"
				j.res = runCase(j.S, id)
				c.Eval(j.S.Name + " " + id.mode() + " " + fmt.Sprint(j.Path))
				if j.res.StmtOK && !j.res.Mismatch { // a failed last statement has cancelled the tx: nothing to roll back
					id.End, id.Model = "rollback", false
					j.resRb = runCase(j.S, id)
					j.resRb.Mismatch = j.resRb.Mismatch || !j.resRb.StmtOK // the same statements succeeded in the commit run
					c.Eval(j.S.Name + " " + id.mode() + " " + fmt.Sprint(j.Path))
				}
			}
			j.done = true
		})
		complete := true
		for _, j := range jobs { // deterministic order: schema, parent order, statement index
			if !j.done {
				complete = false
				continue
			}
			if j.res.Mismatch || j.resRb.Mismatch {
				atomic.AddInt64(&nReplayMismatch, 1)
				continue
			}
			if j.Split == len(j.Path) {
				perMode["auto"]++
				if j.res.Violated || j.res.Key == "" || seen[j.S.Name+j.res.Key] {
					continue
				}
				seen[j.S.Name+j.res.Key] = true
				states++
				auto[n] = append(auto[n], j.node)
				if n == maxDepth && len(auto[n])%100 == 1 {
					c.Sample(map[string]any{"schema": j.S.Name, "mode": "auto", "history": j.S.history(j.Path)})
				}
			} else {
				perMode["tx"]++
				if j.res.StmtOK {
					perMode["rollback"]++
				}
				if j.res.NoOp {
					noops++
				}
				if j.res.StmtOK && !j.res.Violated && !j.resRb.Violated && !j.res.NoOp {
					nd := j.node
					nd.Trusted = j.res.Trusted
					txf[n] = append(txf[n], nd)
					if n == maxDepth && len(txf[n])%1000 == 1 {
						c.Sample(map[string]any{"schema": j.S.Name, "mode": fmt.Sprintf("tx@%d and rollback@%d", j.Split, j.Split), "history": j.S.history(j.Path)})
					}
				}
			}
		}
		c.Set(fmt.Sprintf("level_%d", n), map[string]any{"jobs": len(jobs), "new_committed_states": len(auto[n]), "open_tx_histories": len(txf[n]), "max_statements_in_tx": min(n, maxTx(n))})
		if !complete {
			c.CapHit(fmt.Sprintf("time budget reached inside level %d (histories of %d statements): %d jobs of that level not run", n, n, func() (m int) {
				for _, j := range jobs {
					if !j.done {
						m++
					}
				}
				return
			}()))
			break
		}
		c.Set("depth_completed", n)
	}
	c.AddStates(states, c.Evals())
	c.Set("cases_per_mode", perMode)
	c.Set("tx_histories_not_extended_after_noop_statement", noops)
}
