// Package merkle is the independent reference Merkle-tree definition (RFC 6962 shape: split at the
// largest power of two strictly below n, leaf prefix 0x00, node prefix 0x01). It shares no code with
// embedded/ahtree or embedded/htree and is used as oracle by C01, C02, C03, C07, C08.
package merkle

import "crypto/sha256"

type H = [sha256.Size]byte

func Leaf(payload []byte) H {
	b := make([]byte, 1+len(payload))
	copy(b[1:], payload)
	return sha256.Sum256(b)
}

func Node(l, r H) H {
	var b [1 + 2*sha256.Size]byte
	b[0] = 1
	copy(b[1:], l[:])
	copy(b[1+sha256.Size:], r[:])
	return sha256.Sum256(b[:])
}

func split(n int) int {
	k := 1
	for k*2 < n {
		k *= 2
	}
	return k
}

// Root of the tree over the given leaf hashes (len >= 1).
func Root(l []H) H {
	if len(l) == 1 {
		return l[0]
	}
	k := split(len(l))
	return Node(Root(l[:k]), Root(l[k:]))
}

// Path is the audit path of leaf m (0-based) in the tree over l, leaf-to-root order.
func Path(m int, l []H) []H {
	if len(l) == 1 {
		return nil
	}
	k := split(len(l))
	if m < k {
		return append(Path(m, l[:k]), Root(l[k:]))
	}
	return append(Path(m-k, l[k:]), Root(l[:k]))
}

// EvalPath recomputes the root from leaf hash h at 0-based index m in a tree of n leaves; ok=false
// when the path length does not fit (m,n).
func EvalPath(m, n int, h H, path []H) (H, bool) {
	if n == 1 {
		return h, len(path) == 0
	}
	if len(path) == 0 {
		return h, false
	}
	k := split(n)
	last := path[len(path)-1]
	if m < k {
		s, ok := EvalPath(m, k, h, path[:len(path)-1])
		return Node(s, last), ok
	}
	s, ok := EvalPath(m-k, n-k, h, path[:len(path)-1])
	return Node(last, s), ok
}

// ConsProof is RFC 6962 PROOF(m, D[n]) for 0 < m <= n.
func ConsProof(m int, l []H) []H { return sub(m, l, true) }

func sub(m int, l []H, b bool) []H {
	n := len(l)
	if m == n {
		if b {
			return nil
		}
		return []H{Root(l)}
	}
	k := split(n)
	if m <= k {
		return append(sub(m, l[:k], b), Root(l[k:]))
	}
	return append(sub(m-k, l[k:], false), Root(l[:k]))
}

// VerifyInclusion is the reference inclusion verifier: leaf hash h at 1-based position i of the tree of
// size j with root r. It rejects any proof whose length is not the audit-path length of (i, j).
func VerifyInclusion(path []H, i, j uint64, h, r H) bool {
	if i < 1 || i > j || j > 1<<40 {
		return false
	}
	got, ok := EvalPath(int(i-1), int(j), h, path)
	return ok && got == r
}

// VerifyConsistency is the RFC 9162 (2.1.4.2) consistency verification algorithm for proofs whose first
// term is always explicit (immudb's format), including the two "sn == 0" length checks. For i == j the
// empty proof is accepted iff both roots are equal; immudb's non-empty proofs for i == j (a decomposition
// of the root) have no RFC counterpart: whatever their shape the claim can only be true if ri == rj, and
// that is all the reference requires (callers treat ref=true, impl=false as "no opinion" for i == j).
func VerifyConsistency(path []H, i, j uint64, ri, rj H) bool {
	if i < 1 || i > j {
		return false
	}
	if i == j {
		return ri == rj
	}
	if len(path) == 0 {
		return false
	}
	fn, sn := i-1, j-1
	for fn&1 == 1 {
		fn >>= 1
		sn >>= 1
	}
	fr, sr := path[0], path[0]
	for _, c := range path[1:] {
		if sn == 0 {
			return false
		}
		if fn&1 == 1 || fn == sn {
			fr = Node(c, fr)
			sr = Node(c, sr)
			for fn&1 == 0 && fn != 0 {
				fn >>= 1
				sn >>= 1
			}
		} else {
			sr = Node(sr, c)
		}
		fn >>= 1
		sn >>= 1
	}
	return fr == ri && sr == rj && sn == 0
}
