package sqlconc

// Two sessions, executed SEQUENTIALLY in every order: session A holds a (possibly idle) read-write transaction while
// session B commits DDL and DML in autocommit. Every sequence over the alphabet below up to a depth runs on a fresh
// copy of a fixture store with a fresh engine (cold catalog cache); no query is issued but the ones of the sequence,
// and the oracle reads only after the last statement (reads in between would warm the engine's caches and are part
// of the alphabet instead).
//
// Oracle (reference = committed catalog + committed rows; what the open transaction of A sees is not compared):
//   - a statement of B fails iff the reference says so (table exists / does not exist, unique index violated);
//   - after the sequence, from a fresh autocommit session and again after close + reopen: every table created by a
//     committed DDL is queryable and holds exactly the committed rows (C13: a committed transaction is visible as a
//     whole); a declared unique index has no duplicates among live rows (C12).

import (
	"context"
	"fmt"
	"io"
	"os"
	"path/filepath"
	"sort"
	"strings"
	"sync"

	"github.com/codenotary/immudb/embedded/sql"
	"github.com/codenotary/immudb/embedded/store"
	"verif/mc/lib"
)

const (
	tsABegin = iota
	tsASelect
	tsAInsert
	tsACommit
	tsARollback
	tsBCreateU
	tsBUpsertU
	tsBUniqueIx
	tsBInsertDup
	tsBSelect
	tsN
)

var tsName = [tsN]string{"A:BEGIN", "A:SELECT t", "A:INSERT t(2,2)", "A:COMMIT", "A:ROLLBACK", "B:CREATE TABLE u", "B:UPSERT u(1)",
	"B:CREATE UNIQUE INDEX t(v)", "B:INSERT t(next,1)", "B:SELECT t"}

func tsProg(path []int) string {
	s := make([]string, len(path))
	for i, o := range path {
		s[i] = tsName[o]
	}
	return "[" + strings.Join(s, "; ") + "]"
}

func copyTree(src, dst string) error {
	return filepath.Walk(src, func(p string, info os.FileInfo, err error) error {
		if err != nil {
			return err
		}
		rel, _ := filepath.Rel(src, p)
		if info.IsDir() {
			return os.MkdirAll(filepath.Join(dst, rel), 0755)
		}
		in, err := os.Open(p)
		if err != nil {
			return err
		}
		defer in.Close()
		out, err := os.Create(filepath.Join(dst, rel))
		if err != nil {
			return err
		}
		defer out.Close()
		_, err = io.Copy(out, in)
		return err
	})
}

type tsViolation struct {
	class, detail string
	path          []int
}

// tsRun executes one sequence; returns the violations found (class without the program).
func tsRun(fixture, dir string, path []int, prop string) (vs []tsViolation, stmts int) {
	rep := func(class, detail string) {
		vs = append(vs, tsViolation{class, detail + "\nprogram: " + tsProg(path), append([]int{}, path...)})
	}
	os.RemoveAll(dir)
	if err := copyTree(fixture, dir); err != nil {
		panic(err)
	}
	defer os.RemoveAll(dir)
	st, e, err := open(dir)
	if err != nil {
		rep("open-failed", err.Error())
		return
	}
	ctx := context.Background()
	// reference
	uExists, uniq := false, false
	uRows := 0
	tRows := map[int64]int64{} // committed rows of t (the fixture table is empty: a unique index can only be created on an empty table)
	nextID := int64(3)
	var atx *sql.SQLTx
	aWrote := false
	dupV := func() bool {
		seen := map[int64]bool{}
		for _, v := range tRows {
			if seen[v] {
				return true
			}
			seen[v] = true
		}
		return false
	}
	expect := func(op int, want bool, err error) {
		if want != (err == nil) {
			rep(fmt.Sprintf("two-sessions-statement-result stmt=<%s> expected=%v", tsName[op], map[bool]string{true: "success", false: "error"}[want]),
				fmt.Sprintf("%s returned %v; reference: table u exists=%v, unique index on t(v)=%v, committed t=%v", tsName[op], err, uExists, uniq, tRows))
		}
	}
	for _, op := range path {
		stmts++
		switch op {
		case tsABegin:
			if atx != nil {
				// nested BEGIN: an error that aborts the transaction
				_, _, err := e.Exec(ctx, atx, "BEGIN TRANSACTION", nil)
				if err == nil {
					rep("two-sessions-nested-begin-accepted", "BEGIN inside an open transaction succeeded")
				}
				atx, aWrote = nil, false
				break
			}
			ntx, _, err := e.Exec(ctx, nil, "BEGIN TRANSACTION", nil)
			expect(op, true, err)
			atx, aWrote = ntx, false
		case tsASelect:
			if _, err := query(e, atx, "SELECT COUNT(*) FROM t"); err != nil {
				rep("two-sessions-select-failed session=A", "SELECT COUNT(*) FROM t failed: "+err.Error())
				atx, aWrote = nil, false
			}
		case tsAInsert:
			ntx, _, err := e.Exec(ctx, atx, "INSERT INTO t(id,v) VALUES (2,2)", nil)
			_, committed := tRows[2]
			switch {
			case atx == nil: // autocommit
				want := !committed
				// (v=2 never collides: every other row has v=1)
				expect(op, want, err)
				if err == nil {
					tRows[2] = 2
				}
			case err != nil:
				if !committed && !aWrote {
					rep("two-sessions-statement-result stmt=<A:INSERT t(2,2)> expected=success", fmt.Sprintf("inside the open transaction: %v; committed t=%v", err, tRows))
				}
				atx, aWrote = nil, false
			default:
				if aWrote {
					rep("two-sessions-statement-result stmt=<A:INSERT t(2,2)> expected=error", "the transaction inserted the same primary key twice")
				}
				atx, aWrote = ntx, true
			}
		case tsACommit:
			if atx == nil {
				_, _, err := e.Exec(ctx, nil, "COMMIT", nil)
				expect(op, false, err)
				break
			}
			_, ctxs, err := e.Exec(ctx, atx, "COMMIT", nil)
			_ = ctxs
			if err == nil && aWrote {
				if _, dup := tRows[2]; dup {
					rep("two-sessions-commit-duplicate-pk", "the transaction's INSERT t(2,2) was committed although t[2] had been committed meanwhile")
				}
				tRows[2] = 2
			}
			atx, aWrote = nil, false // a failed COMMIT (read conflict) is legitimate: nothing of it becomes visible
		case tsARollback:
			if atx == nil {
				_, _, err := e.Exec(ctx, nil, "ROLLBACK", nil)
				expect(op, false, err)
				break
			}
			_, _, err := e.Exec(ctx, atx, "ROLLBACK", nil)
			expect(op, true, err)
			atx, aWrote = nil, false
		case tsBCreateU:
			_, _, err := e.Exec(ctx, nil, "CREATE TABLE u(id INTEGER, PRIMARY KEY id)", nil)
			expect(op, !uExists, err)
			if err == nil {
				uExists = true
			}
		case tsBUpsertU:
			_, _, err := e.Exec(ctx, nil, "UPSERT INTO u(id) VALUES (1)", nil)
			expect(op, uExists, err)
			if err == nil {
				uRows = 1
			}
		case tsBUniqueIx:
			_, _, err := e.Exec(ctx, nil, "CREATE UNIQUE INDEX ON t(v)", nil)
			switch {
			case uniq:
				expect(op, false, err)
			case len(tRows) == 0:
				expect(op, true, err)
			case err == nil && dupV():
				expect(op, false, err)
			} // (on a populated table without duplicates the engine may refuse: not defined by the property)
			if err == nil {
				uniq = true
			}
		case tsBInsertDup:
			_, _, err := e.Exec(ctx, nil, fmt.Sprintf("INSERT INTO t(id,v) VALUES (%d,1)", nextID), nil)
			hasV1 := false
			for _, v := range tRows {
				hasV1 = hasV1 || v == 1
			}
			expect(op, !(uniq && hasV1), err)
			if err == nil {
				tRows[nextID] = 1
			}
			nextID++
		case tsBSelect:
			got, err := query(e, nil, "SELECT COUNT(*) FROM t")
			if want := fmt.Sprintf("(%d)", len(tRows)); err != nil || got != want {
				rep("two-sessions-committed-rows-mismatch table=t", fmt.Sprintf("autocommit SELECT COUNT(*) FROM t = %q %v, committed rows %v", got, err, tRows))
			}
		}
	}
	if atx != nil {
		atx.Cancel()
	}
	final := func(phase string, e *sql.Engine) {
		var want []string
		for id, v := range tRows {
			want = append(want, fmt.Sprintf("(%d,%d)", id, v))
		}
		sort.Strings(want)
		got := rowsOfErr(e, "SELECT id, v FROM t")
		sort.Strings(got)
		if strings.Join(got, "") != strings.Join(want, "") {
			rep("two-sessions-committed-rows-mismatch table=t phase="+phase, fmt.Sprintf("SELECT id, v FROM t = %v, committed rows %v", got, want))
		}
		if uniq {
			seen := map[string]bool{}
			for _, r := range got {
				v := r[strings.IndexByte(r, ',')+1:]
				if seen[v] {
					rep("two-sessions-unique-duplicate index=t(v) phase="+phase, fmt.Sprintf("UNIQUE INDEX ON t(v) was created by a committed statement, live rows: %v", got))
					break
				}
				seen[v] = true
			}
		}
		gu := rowsOfErr(e, "SELECT COUNT(*) FROM u")
		wu := fmt.Sprintf("[(%d)]", uRows)
		switch {
		case uExists && fmt.Sprint(gu) != wu:
			rep("two-sessions-committed-table-not-visible table=u phase="+phase, fmt.Sprintf("CREATE TABLE u was committed (rows: %d), SELECT COUNT(*) FROM u = %v", uRows, gu))
		case !uExists && (len(gu) != 1 || !strings.HasPrefix(gu[0], "ERR")):
			rep("two-sessions-uncommitted-table-visible table=u phase="+phase, fmt.Sprintf("no CREATE TABLE u was committed, SELECT COUNT(*) FROM u = %v", gu))
		}
	}
	final("end", e)
	st.Close()
	st2, e2, err := open(dir)
	if err != nil {
		rep("two-sessions-reopen-failed", err.Error())
		return
	}
	final("reopened", e2)
	st2.Close()
	_ = prop
	return
}

func rowsOfErr(e *sql.Engine, q string) []string {
	s, err := query(e, nil, q)
	if err != nil {
		return []string{"ERR " + err.Error()}
	}
	if s == "" {
		return nil
	}
	var out []string
	for _, r := range strings.SplitAfter(s, ")") {
		if r != "" {
			out = append(out, r)
		}
	}
	return out
}

// TwoSessions explores every sequence up to maxDepth (iterative deepening: all sequences of length d before d+1).
// A violation class is reported once, with the shortest (then first) program showing it. Returns whether all depths
// were completed.
func TwoSessions(c *lib.Check, prop string, maxDepth int, only func(class string) bool) bool {
	root := lib.Scratch("twosess")
	defer os.RemoveAll(root)
	fixture := filepath.Join(root, "fixture")
	st, e, err := open(fixture)
	if err != nil {
		panic(err)
	}
	for _, q := range []string{"CREATE TABLE t(id INTEGER, v INTEGER, PRIMARY KEY id)"} {
		if _, _, err := e.Exec(context.Background(), nil, q, nil); err != nil {
			panic(err)
		}
	}
	if err := st.WaitForIndexingUpto(context.Background(), st.LastCommittedTxID()); err != nil {
		panic(err)
	}
	st.Close()
	var mu sync.Mutex
	best := map[string]tsViolation{}
	complete := true
	var seqs, stmts int64
	for d := 1; d <= maxDepth && complete; d++ {
		n := 1
		for i := 0; i < d; i++ {
			n *= tsN
		}
		done := make([]bool, n)
		c.ParallelFor(n, func(i int) {
			if c.Expired() {
				return
			}
			path := make([]int, d)
			for k, x := d-1, i; k >= 0; k-- {
				path[k] = x % tsN
				x /= tsN
			}
			var vs []tsViolation
			var ns int
			if p := lib.Catch(func() { vs, ns = tsRun(fixture, filepath.Join(root, fmt.Sprintf("d%d-%d", d, i)), path, prop) }); p != "" {
				vs = append(vs, tsViolation{"two-sessions-panic", p + "\nprogram: " + tsProg(path), path})
			}
			mu.Lock()
			seqs++
			stmts += int64(ns)
			done[i] = true
			for _, v := range vs {
				if only != nil && !only(v.class) {
					continue
				}
				if b, ok := best[v.class]; !ok || len(v.path) < len(b.path) || (len(v.path) == len(b.path) && fmt.Sprint(v.path) < fmt.Sprint(b.path)) {
					best[v.class] = v
				}
			}
			mu.Unlock()
		})
		for _, ok := range done {
			complete = complete && ok
		}
		if complete {
			c.Set("two_sessions_depth_completed", d)
		}
	}
	c.AddEvals(stmts)
	c.AddStates(seqs, stmts)
	c.Set("two_sessions_sequences", seqs)
	var classes []string
	for k := range best {
		classes = append(classes, k)
	}
	sort.Strings(classes)
	for _, k := range classes {
		v := best[k]
		c.Violate(lib.Violation{Sig: k + " prog=" + tsProg(v.path), Detail: v.detail, Replay: map[string]any{"two_sessions": v.path}})
	}
	if !complete {
		c.CapHit("two-sessions front: time budget reached before the target depth")
	}
	return complete
}

var _ = store.ErrKeyNotFound
