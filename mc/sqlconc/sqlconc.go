// Package sqlconc: concurrent SQL sessions under the controlled scheduler (engine E1), shared by the checks of
// C12 (constraints hold under every interleaving) and C13 (isolation / atomic visibility).
// Each scenario runs 2 sessions as threads against one real sql.Engine on a real store (with its indexer
// threads); every schedule up to the preemption bound is explored by mc/sched.
package sqlconc

import (
	"context"
	"errors"
	"fmt"
	"sort"
	"strings"
	"time"

	"github.com/codenotary/immudb/embedded/sql"
	"github.com/codenotary/immudb/embedded/store"
	"github.com/codenotary/immudb/embedded/vhooks/vsched"
	"verif/mc/lib"
	"verif/mc/sched"
	"verif/mc/storeh"
)

type session struct {
	stmts []string // executed in order through one session; BEGIN ... COMMIT keep the transaction handle
}

type scen struct {
	name  string
	prop  string   // C12 or C13
	setup []string // executed before the sessions start
	sess  []session
	check func(e *sql.Engine, res [][]string, reads [][]string) // oracle after all sessions finished
}

func open(dir string) (*store.ImmuStore, *sql.Engine, error) {
	so := storeh.SmallOptions().WithMultiIndexing(true).WithMaxTxEntries(16).WithMaxKeyLen(128).WithMaxValueLen(128)
	st, err := store.Open(dir, so)
	if err != nil {
		return nil, nil, err
	}
	e, err := sql.NewEngine(st, sql.DefaultOptions().WithPrefix([]byte("s")))
	return st, e, err
}

func query(e *sql.Engine, tx *sql.SQLTx, q string) (string, error) {
	ctx := context.Background()
	rd, err := e.Query(ctx, tx, q, nil)
	if err != nil {
		return "", err
	}
	defer rd.Close()
	var rows []string
	for {
		r, err := rd.Read(ctx)
		if errors.Is(err, sql.ErrNoMoreRows) {
			break
		}
		if err != nil {
			return "", err
		}
		var vs []string
		for _, v := range r.ValuesByPosition {
			vs = append(vs, fmt.Sprint(v.RawValue()))
		}
		rows = append(rows, "("+strings.Join(vs, ",")+")")
	}
	return strings.Join(rows, ""), nil
}

func errClass(err error) string {
	if err == nil {
		return "ok"
	}
	switch {
	case errors.Is(err, store.ErrTxReadConflict):
		return "conflict"
	case errors.Is(err, store.ErrKeyAlreadyExists):
		return "exists"
	}
	s := err.Error()
	if i := strings.Index(s, ":"); i > 0 {
		s = s[:i]
	}
	return "err(" + strings.ReplaceAll(s, " ", "_") + ")"
}

// runSession executes the statements of one session; SELECTs are recorded in reads.
func runSession(e *sql.Engine, s session) (res []string, reads []string) {
	ctx := context.Background()
	var tx *sql.SQLTx
	for _, q := range s.stmts {
		if strings.HasPrefix(q, "SELECT") {
			out, err := query(e, tx, q)
			if err != nil {
				out = "ERR:" + errClass(err)
			}
			reads = append(reads, out)
			res = append(res, "read")
			continue
		}
		ntx, _, err := e.Exec(ctx, tx, q, nil)
		res = append(res, errClass(err))
		tx = ntx
		if err != nil {
			tx = nil // a failing statement aborts the transaction
		}
	}
	if tx != nil {
		tx.Cancel()
	}
	return
}

func body(sc scen) func(dir string) string {
	return func(dir string) string {
		st, e, err := open(dir)
		if err != nil {
			sched.Report("open-failed", err.Error())
			return "open-failed"
		}
		for _, q := range sc.setup {
			if _, _, err := e.Exec(context.Background(), nil, q, nil); err != nil {
				sched.Report("setup-failed", q+": "+err.Error())
				return "setup-failed"
			}
		}
		res := make([][]string, len(sc.sess))
		reads := make([][]string, len(sc.sess))
		vsched.Focus()
		for i, s := range sc.sess {
			i, s := i, s
			vsched.Spawn(func() { res[i], reads[i] = runSession(e, s) })
		}
		vsched.Join()
		sc.check(e, res, reads)
		out := fmt.Sprint(res, reads)
		st.Close()
		return out
	}
}

func rowsOf(e *sql.Engine, q string) []string {
	out, err := query(e, nil, q)
	if err != nil {
		sched.Report("final-scan-failed", q+": "+err.Error())
		return nil
	}
	if out == "" {
		return nil
	}
	return strings.Split(strings.TrimSuffix(strings.TrimPrefix(out, "("), ")"), ")(")
}

// constraintCheck: no duplicate pk, no duplicate unique value among live rows, same rows through both indexes,
// row count = initial rows + successful inserts.
func constraintCheck(name string, initial int, uniqueCol int) func(e *sql.Engine, res [][]string, reads [][]string) {
	return func(e *sql.Engine, res [][]string, reads [][]string) {
		rows := rowsOf(e, "SELECT * FROM t")
		seenPK, seenU := map[string]bool{}, map[string]bool{}
		for _, r := range rows {
			f := strings.Split(r, ",")
			if seenPK[f[0]] {
				sched.Report("pk-duplicate scenario="+name, fmt.Sprintf("rows %v after %v", rows, res))
			}
			seenPK[f[0]] = true
			if uniqueCol > 0 && f[uniqueCol] != "<nil>" {
				if seenU[f[uniqueCol]] {
					sched.Report("unique-duplicate scenario="+name, fmt.Sprintf("two live rows with the same unique value: %v after %v", rows, res))
				}
				seenU[f[uniqueCol]] = true
			}
		}
		if uniqueCol > 0 {
			via := rowsOf(e, "SELECT * FROM t USE INDEX ON (u)")
			a, b := append([]string{}, rows...), append([]string{}, via...)
			sort.Strings(a)
			sort.Strings(b)
			if strings.Join(a, "") != strings.Join(b, "") {
				sched.Report("index-scan-mismatch scenario="+name, fmt.Sprintf("pk scan %v, unique-index scan %v", rows, via))
			}
		}
		okInserts := 0
		for _, r := range res {
			for _, x := range r {
				if x == "ok" {
					okInserts++
				}
			}
		}
		if strings.HasPrefix(name, "ins") && len(rows) != initial+okInserts {
			sched.Report("acknowledged-insert-lost scenario="+name, fmt.Sprintf("%d rows, expected %d (+%d successful inserts): %v %v", len(rows), initial, okInserts, rows, res))
		}
	}
}

func scenarios() []scen {
	tbl := []string{"CREATE TABLE t(id INTEGER, u INTEGER, PRIMARY KEY id)", "CREATE UNIQUE INDEX ON t(u)"}
	auto := []string{"CREATE TABLE t(id INTEGER AUTO_INCREMENT, u INTEGER, PRIMARY KEY id)"}
	one := func(q string) session { return session{stmts: []string{q}} }
	iso := []string{"CREATE TABLE t(id INTEGER, u INTEGER, PRIMARY KEY id)", "INSERT INTO t(id,u) VALUES (1,1)"}
	return []scen{
		{name: "ins-same-pk", prop: "C12", setup: tbl, sess: []session{one("INSERT INTO t(id,u) VALUES (1,5)"), one("INSERT INTO t(id,u) VALUES (1,6)")}, check: constraintCheck("ins-same-pk", 0, 1)},
		{name: "ins-same-unique", prop: "C12", setup: tbl, sess: []session{one("INSERT INTO t(id,u) VALUES (1,5)"), one("INSERT INTO t(id,u) VALUES (2,5)")}, check: constraintCheck("ins-same-unique", 0, 1)},
		{name: "ins-autoincrement", prop: "C12", setup: auto, sess: []session{one("INSERT INTO t(u) VALUES (5)"), one("INSERT INTO t(u) VALUES (6)")}, check: constraintCheck("ins-autoincrement", 0, 0)},
		{name: "upd-vs-ins-unique", prop: "C12", setup: append(append([]string{}, tbl...), "INSERT INTO t(id,u) VALUES (2,6)"),
			sess: []session{one("UPDATE t SET u = 5 WHERE id = 2"), one("INSERT INTO t(id,u) VALUES (3,5)")}, check: constraintCheck("upd-vs-ins-unique", 1, 1)},
		{name: "tx-ins-vs-tx-ins-unique", prop: "C12", setup: tbl, sess: []session{
			{stmts: []string{"BEGIN TRANSACTION", "INSERT INTO t(id,u) VALUES (1,5)", "COMMIT"}},
			{stmts: []string{"BEGIN TRANSACTION", "INSERT INTO t(id,u) VALUES (2,5)", "COMMIT"}}}, check: constraintCheck("tx-ins-vs-tx-ins-unique", 0, 1)},
		// C13: a writer transaction with two statements vs a reader
		{name: "writer-vs-autocommit-reads", prop: "C13", setup: iso, sess: []session{
			{stmts: []string{"BEGIN TRANSACTION", "INSERT INTO t(id,u) VALUES (2,2)", "UPDATE t SET u = 10 WHERE id = 1", "COMMIT"}},
			{stmts: []string{"SELECT id, u FROM t", "SELECT id, u FROM t"}}},
			check: func(e *sql.Engine, res [][]string, reads [][]string) {
				// every read sees all of the writer's changes or none of them, and never goes back in time
				before, after := "(1,1)", "(1,10)(2,2)"
				committed := res[0][len(res[0])-1] == "ok"
				for i, r := range reads[1] {
					if r != before && r != after {
						sched.Report("uncommitted-or-partial-read scenario=writer-vs-autocommit-reads", fmt.Sprintf("read %d returned %q (writer results %v)", i, r, res[0]))
					}
					if r == after && !committed {
						sched.Report("read-of-aborted-transaction scenario=writer-vs-autocommit-reads", fmt.Sprintf("read %d returned %q but the writer did not commit: %v", i, r, res[0]))
					}
				}
				if len(reads[1]) == 2 && reads[1][0] == after && reads[1][1] == before {
					sched.Report("non-monotonic-reads scenario=writer-vs-autocommit-reads", fmt.Sprint(reads[1]))
				}
			}},
		{name: "writer-vs-reader-tx", prop: "C13", setup: iso, sess: []session{
			{stmts: []string{"BEGIN TRANSACTION", "INSERT INTO t(id,u) VALUES (2,2)", "UPDATE t SET u = 10 WHERE id = 1", "COMMIT"}},
			{stmts: []string{"BEGIN TRANSACTION", "SELECT id, u FROM t", "SELECT id, u FROM t", "COMMIT"}}},
			check: func(e *sql.Engine, res [][]string, reads [][]string) {
				before, after := "(1,1)", "(1,10)(2,2)"
				for i, r := range reads[1] {
					if r != before && r != after {
						sched.Report("uncommitted-or-partial-read scenario=writer-vs-reader-tx", fmt.Sprintf("read %d returned %q (writer results %v)", i, r, res[0]))
					}
				}
				// inside one transaction every statement sees the same fixed snapshot
				if len(reads[1]) == 2 && reads[1][0] != reads[1][1] {
					sched.Report("snapshot-not-fixed scenario=writer-vs-reader-tx", fmt.Sprintf("two reads of one transaction differ: %v (writer %v)", reads[1], res[0]))
				}
			}},
		{name: "two-writers-same-row", prop: "C13", setup: iso, sess: []session{
			{stmts: []string{"BEGIN TRANSACTION", "SELECT u FROM t WHERE id = 1", "UPDATE t SET u = u + 10 WHERE id = 1", "COMMIT"}},
			{stmts: []string{"BEGIN TRANSACTION", "SELECT u FROM t WHERE id = 1", "UPDATE t SET u = u + 100 WHERE id = 1", "COMMIT"}}},
			check: func(e *sql.Engine, res [][]string, reads [][]string) {
				// lost update: both committed => the final value must include both increments
				ok0, ok1 := res[0][len(res[0])-1] == "ok", res[1][len(res[1])-1] == "ok"
				final := rowsOf(e, "SELECT u FROM t WHERE id = 1")
				want := 1
				if ok0 {
					want += 10
				}
				if ok1 {
					want += 100
				}
				if len(final) != 1 || final[0] != fmt.Sprint(want) {
					sched.Report("lost-update scenario=two-writers-same-row", fmt.Sprintf("final u=%v, committed: %v %v, expected %d", final, res[0], res[1], want))
				}
			}},
	}
}

// Phase explores the scenarios of one property; returns whether every job completed.
func Phase(c *lib.Check, prop string, budgetEach time.Duration, bound int) bool {
	// library goroutines that take part in the workload-thread phase: syncer, value-appending precommit goroutines
	vsched.WorkDaemons = []string{"store.OpenWith", "(*ImmuStore).precommit", "(*ImmuStore).preCommitWith"}
	var scs []sched.Scenario
	var jobs []sched.Job
	for _, s := range scenarios() {
		if s.prop != prop {
			continue
		}
		scs = append(scs, sched.Scenario{Name: s.name, MaxSteps: 1000000, Body: body(s)})
		jobs = append(jobs, sched.Job{Scenario: s.name, Bound: bound, Budget: budgetEach})
	}
	return sched.Run(c, scs, jobs)
}
