// C17 — appendables behave as a persistent byte log.
// All operation sequences up to a depth over a configuration grid, on the real singleapp / multiapp
// implementations, against a byte-slice (or entry-table, for compressed logs) reference model, with a
// full read sweep after every step.
package main

import (
	"bytes"
	"errors"
	"fmt"
	"io"
	"os"
	"path/filepath"
	"strings"
	"time"

	"github.com/codenotary/immudb/embedded/appendable"
	"github.com/codenotary/immudb/embedded/appendable/multiapp"
	"github.com/codenotary/immudb/embedded/appendable/singleapp"
	"github.com/codenotary/immudb/embedded/vhooks/vsched"
	"verif/mc/lib"
	"verif/mc/sched"
)

var c *lib.Check

type cfg struct {
	Multi     bool
	FileSize  int
	WBuf      int
	Retryable bool
	AutoSync  bool
	Prealloc  bool
	Comp      int
	MaxOpen   int
	Prefetch  int
	SweepAll  bool
}

func (cf cfg) String() string {
	k := "single"
	if cf.Multi {
		k = fmt.Sprintf("multi(fileSize=%d,maxOpen=%d,prefetch=%d,prealloc=%v)", cf.FileSize, cf.MaxOpen, cf.Prefetch, cf.Prealloc)
	}
	return fmt.Sprintf("%s wbuf=%d retryable=%v autosync=%v comp=%d sweepAll=%v", k, cf.WBuf, cf.Retryable, cf.AutoSync, cf.Comp, cf.SweepAll)
}

var meta = []byte("verif-meta")

func open(dir string, cf cfg) (appendable.Appendable, error) {
	if cf.Multi {
		o := multiapp.DefaultOptions().WithFileSize(cf.FileSize).WithWriteBufferSize(cf.WBuf).WithRetryableSync(cf.Retryable).
			WithAutoSync(cf.AutoSync).WithPrealloc(cf.Prealloc).WithCompressionFormat(cf.Comp).WithMaxOpenedFiles(cf.MaxOpen).
			WithMetadata(meta).WithFileExt("aof").WithReadBufferSize(16).WithPrefetchAheadDepth(cf.Prefetch)
		return multiapp.Open(filepath.Join(dir, "m"), o)
	}
	o := singleapp.DefaultOptions().WithWriteBuffer(make([]byte, cf.WBuf)).WithRetryableSync(cf.Retryable).WithAutoSync(cf.AutoSync).
		WithCompressionFormat(cf.Comp).WithMetadata(meta).WithReadBufferSize(16)
	return singleapp.Open(filepath.Join(dir, "s.aof"), o)
}

type entry struct {
	off  int64
	n    int
	data []byte
}

type model struct {
	data     []byte  // uncompressed logs
	ents     []entry // compressed logs
	discard  int64   // bytes below are no longer required to be readable
	readOnly bool
	maxSize  int64 // largest logical size ever reached
	rewound  bool  // a rewind happened and the log has not grown back to maxSize since
}

func (m *model) size(comp bool) int64 {
	if !comp {
		return int64(len(m.data))
	}
	if len(m.ents) == 0 {
		return 0
	}
	l := m.ents[len(m.ents)-1]
	return l.off + int64(l.n)
}

var opNames = []string{"append(1)", "append(3)", "append(9)", "flush", "sync", "setoffset(0)", "setoffset(mid)", "setoffset(size-1|last-entry)",
	"discard(mid)", "switch-readonly", "reopen", "copy", "read-sweep"}

func names(path []int) []string {
	var s []string
	for _, o := range path {
		s = append(s, opNames[o])
	}
	return s
}

// run executes path on a fresh appendable; returns stop=true when the path must not be extended.
func run(cf cfg, path []int, depth int) (string, bool) {
	dir := lib.Scratch("c17")
	defer os.RemoveAll(dir)
	a, err := open(dir, cf)
	if err != nil {
		panic(err)
	}
	defer func() { a.Close() }()
	comp := cf.Comp != appendable.NoCompression
	m := &model{}
	if cf.Prealloc {
		// a preallocated chunk reports its full size until the owner positions it (the store does the same)
		if err := a.SetOffset(0); err != nil {
			panic(err)
		}
	}
	stop := false
	var k int
	fail := func(what, detail string) {
		c.Violate(lib.Violation{Sig: fmt.Sprintf("%s ops=%v cfg={%s}", what, names(path[:k+1]), cf), Detail: detail, Replay: map[string]any{"cfg": cf, "path": path[:k+1]}})
		stop = true
	}
	type copyRec struct {
		dst     string
		data    []byte
		ents    []entry
		discard int64
		rewound bool
	}
	var copies []copyRec
	openCopy := func(dst string) (appendable.Appendable, error) {
		if cf.Multi {
			o := multiapp.DefaultOptions().WithFileSize(cf.FileSize).WithWriteBufferSize(cf.WBuf).WithPrealloc(cf.Prealloc).WithFileExt("aof").WithReadBufferSize(16).WithMaxOpenedFiles(cf.MaxOpen)
			return multiapp.Open(dst, o)
		}
		return singleapp.Open(dst, singleapp.DefaultOptions().WithWriteBuffer(make([]byte, cf.WBuf)).WithReadBufferSize(16))
	}
	checkCopy := func(cr copyRec, what string) bool {
		b, err := openCopy(cr.dst)
		if err != nil {
			fail(what+"-open", err.Error())
			return false
		}
		defer b.Close()
		bsz, _ := b.Size()
		if !comp {
			if bsz < int64(len(cr.data)) || ((!cr.rewound && !cf.Prealloc) && bsz != int64(len(cr.data))) {
				fail(what+"-size", fmt.Sprintf("copy has size %d, source had %d when it was copied", bsz, len(cr.data)))
				return false
			} else if int64(len(cr.data)) > cr.discard {
				buf := make([]byte, int64(len(cr.data))-cr.discard)
				_, err := b.ReadAt(buf, cr.discard)
				if err != nil || !bytes.Equal(buf, cr.data[cr.discard:]) {
					fail(what+"-content", fmt.Sprintf("copy content %q err=%v want %q", buf, err, cr.data[cr.discard:]))
					return false
				}
			}
			return true
		}
		for _, e := range cr.ents {
			if e.off < cr.discard {
				continue
			}
			buf := make([]byte, len(e.data))
			if _, err := b.ReadAt(buf, e.off); err != nil || !bytes.Equal(buf, e.data) {
				fail(what+"-content", fmt.Sprintf("copy entry@%d = %q err=%v want %q", e.off, buf, err, e.data))
				return false
			}
		}
		return true
	}
	fill := byte('a')
	sweep := func() {
		sz, err := a.Size()
		if err != nil || sz != m.size(comp) {
			fail("size", fmt.Sprintf("Size()=%d err=%v want %d", sz, err, m.size(comp)))
			return
		}
		if !bytes.Equal(a.Metadata(), meta) {
			fail("metadata", fmt.Sprintf("Metadata()=%q", a.Metadata()))
			return
		}
		if comp {
			for _, e := range m.ents {
				if e.off < m.discard {
					continue
				}
				for _, l := range []int{len(e.data), len(e.data) - 1, len(e.data) + 2} {
					if cf.Multi && l > len(e.data) {
						// a multi-file read longer than the entry continues "at the next offset", which is not an entry
						// offset of a compressed log: undefined by the property (reads are addressed at entry offsets)
						continue
					}
					if l <= 0 {
						continue
					}
					buf := make([]byte, l)
					rn, err := a.ReadAt(buf, e.off)
					wn := min(l, len(e.data))
					if rn != wn || !bytes.Equal(buf[:min(rn, wn)], e.data[:min(rn, wn)]) || (l > len(e.data)) != errors.Is(err, io.EOF) || (err != nil && !errors.Is(err, io.EOF)) {
						fail("readat-entry", fmt.Sprintf("ReadAt(entry@%d,len=%d)=%q n=%d err=%v want %q", e.off, l, buf[:max(rn, 0)], rn, err, e.data[:wn]))
						return
					}
				}
			}
			return
		}
		n := len(m.data)
		for _, off := range []int{0, n / 2, n - 1, n, n + 1} {
			if off < 0 || int64(off) < m.discard {
				continue
			}
			for _, l := range []int{1, 2, n - off, n - off + 2} {
				if l <= 0 {
					continue
				}
				buf := make([]byte, l)
				rn, err := a.ReadAt(buf, int64(off))
				var want []byte
				if off < n {
					want = m.data[off:]
				}
				wn, wantEOF := l, false
				if len(want) < l {
					wn, wantEOF = len(want), true
				}
				if rn != wn || !bytes.Equal(buf[:min(max(rn, 0), wn)], want[:min(max(rn, 0), wn)]) || wantEOF != errors.Is(err, io.EOF) || (err != nil && !errors.Is(err, io.EOF)) {
					fail("readat", fmt.Sprintf("size=%d ReadAt(off=%d,len=%d)=%q n=%d err=%v want %q eof=%v", n, off, l, buf[:max(rn, 0)], rn, err, want[:wn], wantEOF))
					return
				}
			}
		}
	}
	rewindTo := func(off int64) {
		if off < m.size(comp) {
			m.rewound = true
		}
		if comp {
			i := 0
			for i < len(m.ents) && m.ents[i].off < off {
				i++
			}
			m.ents = m.ents[:i]
		} else {
			m.data = m.data[:off]
		}
	}
	for k = 0; k < len(path); k++ {
		op := path[k]
		last := k == len(path)-1
		switch op {
		case 0, 1, 2:
			bs := bytes.Repeat([]byte{fill}, []int{1, 3, 9}[op])
			fill++
			prev := m.size(comp)
			off, n, err := a.Append(bs)
			if m.readOnly {
				if err == nil {
					fail("append-readonly", "Append succeeded in read-only mode")
				}
				break
			}
			if err != nil && cf.Retryable && !cf.AutoSync && errors.Is(err, singleapp.ErrBufferFull) {
				if comp || cf.Multi {
					// resource limit of this configuration (retryable sync without autosync: the write buffer holds
					// everything not yet synced): what a refused append of a compressed record / across chunks leaves
					// behind is not defined by the property; the sequence is not extended
					return "", true
				}
				// documented: Sync must be called to free buffer space; the first n bytes were taken
				m.data = append(m.data, bs[:n]...)
				break
			}
			if err != nil {
				fail("append-err", err.Error())
				break
			}
			if comp {
				if off < prev && !(cf.Multi) {
					fail("append-offset", fmt.Sprintf("off=%d previous size=%d", off, prev))
					break
				}
				if cf.Multi && off != prev {
					if off%int64(cf.FileSize) != 0 || off > prev {
						fail("append-offset", fmt.Sprintf("off=%d previous size=%d", off, prev))
						break
					}
					// compressed entries are never split: the chunk overflowed and the next entry starts the next
					// chunk at a smaller offset than the previous size; reported once under its own signature
					c.Violate(lib.Violation{Sig: "append-offset-compressed-multi-overflow", Detail: fmt.Sprintf("cfg={%s} ops=%v: Append returned off=%d while Size() was %d", cf, names(path[:k+1]), off, prev)})
					return "", true
				}
				// n is the uncompressed length for multi-file logs and the stored length for single files: the
				// model takes the stored length from the observed size (must grow)
				sz, _ := a.Size()
				if sz <= off {
					fail("append-size", fmt.Sprintf("Size()=%d after an append at %d", sz, off))
					break
				}
				_ = n
				m.ents = append(m.ents, entry{off, int(sz - off), bs})
			} else {
				if off != prev || n != len(bs) {
					fail("append-offset", fmt.Sprintf("off=%d n=%d want off=%d n=%d", off, n, prev, len(bs)))
					break
				}
				m.data = append(m.data, bs...)
			}
		case 3, 4:
			var err error
			if op == 3 {
				err = a.Flush()
			} else {
				err = a.Sync()
			}
			if m.readOnly != (err != nil) {
				fail("flush-sync", fmt.Sprintf("op=%s readOnly=%v err=%v", opNames[op], m.readOnly, err))
			}
		case 5, 6, 7:
			var off int64
			sz := m.size(comp)
			if comp {
				if len(m.ents) == 0 {
					return "", true
				}
				switch op {
				case 6:
					off = m.ents[len(m.ents)/2].off
				case 7:
					off = m.ents[len(m.ents)-1].off
				}
			} else {
				switch op {
				case 6:
					off = sz / 2
				case 7:
					off = sz - 1
				}
			}
			if sz == 0 || off < 0 || (op != 5 && off == 0) || off < m.discard {
				return "", true // not applicable / duplicate of setoffset(0)
			}
			err := a.SetOffset(off)
			if m.readOnly {
				if err == nil {
					fail("setoffset-readonly", "SetOffset succeeded in read-only mode")
				}
				break
			}
			if err != nil {
				fail("setoffset-err", fmt.Sprintf("SetOffset(%d) size=%d: %v", off, sz, err))
				break
			}
			rewindTo(off)
		case 8:
			sz := m.size(comp)
			off := sz / 2
			if comp {
				if len(m.ents) == 0 {
					return "", true
				}
				off = m.ents[len(m.ents)/2].off
			}
			if sz == 0 {
				return "", true
			}
			if err := a.DiscardUpto(off); err != nil {
				fail("discard-err", err.Error())
				break
			}
			if off > m.discard {
				m.discard = off
			}
		case 9:
			err := a.SwitchToReadOnlyMode()
			if m.readOnly != (err != nil) {
				fail("switch-readonly", fmt.Sprintf("readOnly=%v err=%v", m.readOnly, err))
			}
			m.readOnly = true
		case 10:
			if err := a.Close(); err != nil {
				fail("close-err", err.Error())
				break
			}
			a, err = open(dir, cf)
			if err != nil {
				fail("reopen-err", err.Error())
				return "", true
			}
			m.readOnly = false
			if cf.Prealloc {
				// preallocated files do not record their logical size: the owner restores it
				if err := a.SetOffset(m.size(comp)); err != nil {
					fail("reopen-setoffset", err.Error())
				}
				break
			}
			sz, _ := a.Size()
			if m.rewound && sz > m.size(comp) && sz <= m.maxSize {
				// specific known history: a rewind whose discarded tail was not fully overwritten before the
				// close: files are never truncated, the stale tail is back after reopen. The prefix must still
				// be intact; the model then adopts the observed tail so that exploration continues.
				c.Violate(lib.Violation{Sig: fmt.Sprintf("rewind-not-persisted ops=%v cfg={%s}", names(path[:k+1]), cf),
					Detail: fmt.Sprintf("logical size %d before close, Size()=%d after reopen", m.size(comp), sz), Replay: map[string]any{"cfg": cf, "path": path[:k+1]}})
				if comp {
					return "", true
				}
				tail := make([]byte, sz-int64(len(m.data)))
				if _, err := a.ReadAt(tail, int64(len(m.data))); err != nil {
					fail("reopen-stale-tail-unreadable", err.Error())
					break
				}
				m.data = append(m.data, tail...)
			}
			m.rewound = false
			m.maxSize = m.size(comp)
		case 11:
			dst := filepath.Join(dir, fmt.Sprintf("copy%d", k))
			if !cf.Multi {
				dst += ".aof"
			}
			if err := a.Copy(dst); err != nil {
				fail("copy-err", err.Error())
				break
			}
			// the copy, opened on its own, must hold the same log (when nothing was rewound: same size) - now and
			// after whatever happens to the source later (re-verified after every later step that sweeps)
			cr := copyRec{dst: dst, data: append([]byte{}, m.data...), ents: append([]entry{}, m.ents...), discard: m.discard, rewound: m.rewound}
			if !checkCopy(cr, "copy") {
				break
			}
			copies = append(copies, cr)
			// and the other way round: a second copy is rewound and overwritten; the source must not notice (swept below)
			dst2 := filepath.Join(dir, fmt.Sprintf("scribble%d", k))
			if !cf.Multi {
				dst2 += ".aof"
			}
			if err := a.Copy(dst2); err != nil {
				fail("copy-err", err.Error())
				break
			}
			if b, err := openCopy(dst2); err != nil {
				fail("copy-open", err.Error())
			} else {
				if bsz, _ := b.Size(); bsz > m.discard {
					if err := b.SetOffset(m.discard); err == nil {
						b.Append(bytes.Repeat([]byte{'#'}, int(bsz-m.discard)))
						b.Flush()
					}
				}
				b.Close()
			}
		case 12:
			if !cf.SweepAll && !last {
				sweep()
			}
		}
		if stop {
			return "", true
		}
		if s := m.size(comp); s >= m.maxSize {
			m.maxSize = s
			m.rewound = false
		}
		if cf.SweepAll || last {
			sweep()
			// copies taken earlier are independent of the source: they still hold what the source held then
			if op != 11 {
				for _, cr := range copies {
					if stop || !checkCopy(cr, "copy-after-source-changed") {
						break
					}
				}
			}
		}
		if stop {
			return "", true
		}
	}
	if len(path) == depth {
		c.Sample(map[string]any{"cfg": cf.String(), "ops": names(path)})
	}
	c.Distinct(cf.String() + fmt.Sprint(path))
	return "", false
}

func configs(thorough bool) []cfg {
	var out []cfg
	if !thorough {
		return []cfg{
			{false, 0, 4, false, true, false, 0, 0, 0, true},
			{false, 0, 8, true, true, false, 0, 0, 0, true},
			{false, 0, 4, true, false, false, 0, 0, 0, true},
			{false, 0, 4, false, true, false, appendable.FlateCompression, 0, 0, true},
			{true, 8, 4, false, true, false, 0, 1, 0, true},
			{true, 8, 16, true, true, false, 0, 2, 0, false},
			{true, 16, 4, true, true, true, 0, 1, 0, true},
			{true, 8, 4, false, true, false, 0, 2, 0, true},
			{true, 64, 8, false, true, false, appendable.FlateCompression, 1, 0, true},
		}
	}
	for _, wb := range []int{4, 8, 64} {
		for _, rs := range [][2]bool{{false, true}, {true, true}, {true, false}} {
			for _, comp := range []int{appendable.NoCompression, appendable.FlateCompression, appendable.GZipCompression} {
				if comp != 0 && wb == 8 {
					continue
				}
				out = append(out, cfg{false, 0, wb, rs[0], rs[1], false, comp, 0, 0, true})
				for _, fs := range []int{8, 16} {
					if comp != 0 {
						fs = 64
					}
					for _, mo := range []int{1, 2} {
						for _, pre := range []bool{false, true} {
							if pre && comp != 0 {
								continue
							}
							out = append(out, cfg{true, fs, wb, rs[0], rs[1], pre, comp, mo, 0, mo == 1})
						}
					}
					if comp != 0 {
						break
					}
				}
			}
		}
	}
	out = append(out, cfg{true, 8, 4, false, true, false, 0, 2, 0, true}, cfg{true, 8, 4, true, true, false, 0, 2, 1, false})
	return out
}

// ---- E1: concurrent readers (and the prefetch-ahead goroutines) during/after appends on a multi-file log
func concScenario(name string, maxOpen, prefetch, readers int, appendWhileReading bool) sched.Scenario {
	return sched.Scenario{Name: name, MaxSteps: 400000, Body: func(dir string) string {
		o := multiapp.DefaultOptions().WithFileSize(8).WithWriteBufferSize(4).WithMaxOpenedFiles(maxOpen).WithFileExt("aof").
			WithReadBufferSize(16).WithPrefetchAheadDepth(prefetch).WithMetadata(meta)
		a, err := multiapp.Open(filepath.Join(dir, "m"), o)
		if err != nil {
			sched.Report("open-failed", err.Error())
			return "open-failed"
		}
		var data []byte
		for i := 0; i < 3; i++ {
			bs := bytes.Repeat([]byte{byte('a' + i)}, 9)
			if _, _, err := a.Append(bs); err != nil {
				sched.Report("append-failed", err.Error())
			}
			data = append(data, bs...)
		}
		if err := a.Flush(); err != nil {
			sched.Report("flush-failed", err.Error())
		}
		stable := len(data) // bytes appended before the readers start
		res := make([]string, readers)
		vsched.Focus()
		for r := 0; r < readers; r++ {
			r := r
			vsched.Spawn(func() {
				// sequential reads chunk by chunk (the pattern that triggers prefetch-ahead)
				for off := 8 * r; off+8 <= stable; off += 8 {
					buf := make([]byte, 8)
					n, err := a.ReadAt(buf, int64(off))
					if err != nil || n != 8 || !bytes.Equal(buf, data[off:off+8]) {
						sched.Report(fmt.Sprintf("concurrent-read scenario=%s err=%s", name, errWord(err)), fmt.Sprintf("ReadAt(off=%d,len=8)=%q n=%d err=%v want %q", off, buf[:max(n, 0)], n, err, data[off:off+8]))
						res[r] = "bad"
						return
					}
				}
				res[r] = "ok"
			})
		}
		if appendWhileReading {
			vsched.Spawn(func() {
				if _, _, err := a.Append([]byte("zzzzzzzzz")); err != nil {
					sched.Report("append-failed", err.Error())
				}
			})
		}
		vsched.Join()
		if err := a.Close(); err != nil {
			sched.Report("close-failed scenario="+name+" "+errWord(err), err.Error())
		}
		return fmt.Sprint(res)
	}}
}

func errWord(err error) string {
	if err == nil {
		return "none"
	}
	return strings.ReplaceAll(err.Error(), " ", "_")
}

func concScenarios() ([]sched.Scenario, []string) {
	scs := []sched.Scenario{
		concScenario("reader-prefetch1-open1", 1, 1, 1, false),
		concScenario("2readers-prefetch1-open2", 2, 1, 2, false),
		concScenario("reader+appender-open1", 1, 0, 1, true),
	}
	var names []string
	for _, s := range scs {
		names = append(names, s.Name)
	}
	return scs, names
}

func main() {
	c = lib.New("C17", "model_checking", 120*time.Second, 25*time.Minute)
	{
		// scheduler workers / schedule replays of the concurrent scenarios
		scs, _ := concScenarios()
		if sched.IsWorker() {
			sched.Run(c, scs, nil)
		}
		if c.ReplayPath != "" {
			var sr struct {
				Scenario string `json:"scenario"`
			}
			c.LoadReplay(&sr)
			if sr.Scenario != "" {
				sched.Run(c, scs, nil)
			}
		}
	}
	fullDeadline := c.Deadline
	c.Deadline = c.Start.Add(fullDeadline.Sub(c.Start) * 60 / 100)
	c.Assume("single process, sequential use (concurrent readers are exercised by C02/C14 scheduler harnesses through the store)")
	c.Assume("remote (S3) appendables are out of scope")
	cfgs := configs(c.Thorough())
	maxDepth := 4
	if c.Thorough() {
		maxDepth = 6
	}
	if c.ReplayPath != "" {
		var r struct {
			Cfg  cfg   `json:"cfg"`
			Path []int `json:"path"`
		}
		c.LoadReplay(&r)
		run(r.Cfg, r.Path, len(r.Path))
		c.AddEvals(1)
		c.AddStates(1, 1)
		c.Finish("replay of one recorded sequence", false)
	}
	c.Set("configurations", len(cfgs))
	c.Set("alphabet", strings.Join(opNames, ", "))
	for d := 3; d <= maxDepth && !c.Expired(); d++ {
		for _, cf := range cfgs {
			cf := cf
			if c.Expired() {
				break
			}
			c.RunSeq(lib.SeqSpec{Name: fmt.Sprintf("depth %d cfg {%s}", d, cf), NOps: len(opNames), Depth: d,
				Run: func(path []int) (string, bool) { return run(cf, path, d) }})
		}
		if !c.Expired() {
			c.Set("depth_completed", d)
		}
	}
	c.Set("depth_target", maxDepth)
	{
		seqDone := !c.Expired()
		c.Deadline = fullDeadline
		scs, names := concScenarios()
		var jobs []sched.Job
		bound, each := 2, 12*time.Second
		if c.Thorough() {
			bound, each = 3, 2*time.Minute
		}
		for _, n := range names {
			jobs = append(jobs, sched.Job{Scenario: n, Bound: bound, Budget: each})
		}
		sched.Run(c, scs, jobs)
		if !seqDone {
			c.CapHit("sequence phase stopped at its share of the time budget")
		}
	}
	c.Finish("every sequence over the 13-operation alphabet up to depth_completed (iterative deepening, all configurations at each depth); after every step Size, Metadata and ReadAt on a grid of (offset,len) incl. across the end are compared with the byte-slice / entry-table model; distinct = distinct (configuration, sequence) pairs that ran to their end; plus, under the controlled scheduler, every schedule up to the preemption bound of concurrent readers / prefetch-ahead goroutines / an appender on a multi-file log", !c.Expired())
}
