// C02 — committed history is append-only and immutable.
// Engine E1: all interleavings (preemption-bounded, HB-state pruned) of 2–3 committer threads, an optional
// maintenance thread and an observer on the instrumented real store; oracle = storeh.Ledger.CheckHistory at
// every observer step, at the end, and after close/reopen.
package main

import (
	"bytes"
	"context"
	"errors"
	"fmt"
	"strings"
	"time"

	"github.com/codenotary/immudb/embedded/store"
	"github.com/codenotary/immudb/embedded/vhooks/vsched"
	"verif/mc/lib"
	"verif/mc/sched"
	"verif/mc/storeh"
)

type variant struct {
	name     string
	opts     func() *store.Options
	writers  []string // per committer thread: program name
	maint    string   // "", "flush", "sync", "discard"
	observer bool
	reopen   int
}

func baseOpts() *store.Options { return storeh.SmallOptions().WithMultiIndexing(true) } // no indexer thread

func commitProgram(st *store.ImmuStore, l *storeh.Ledger, who int, prog string) string {
	ctx := context.Background()
	key := []byte("k")
	val := []byte{byte('a' + who)}
	ack := func(h *store.TxHeader) string {
		// the commit was acknowledged: record what it is from now on
		rec, err := storeh.ReadRec(st, h.ID, true)
		if err != nil {
			sched.Report(fmt.Sprintf("acked-unreadable prog=%s", prog), fmt.Sprintf("tx %d acknowledged but ReadTx fails: %v", h.ID, err))
			return "unreadable"
		}
		if rec.Alh != h.Alh() {
			sched.Report(fmt.Sprintf("acked-header-mismatch prog=%s", prog), fmt.Sprintf("tx %d: header returned by commit differs from the stored one", h.ID))
		}
		sched.Shared(func() {
			if _, dup := l.Acked[h.ID]; dup {
				sched.Report("id-reassigned", fmt.Sprintf("tx id %d acknowledged twice", h.ID))
			}
			l.Acked[h.ID] = rec
		})
		return fmt.Sprintf("tx%d", h.ID)
	}
	switch prog {
	case "commit", "commit2":
		tx, err := st.NewWriteOnlyTx(ctx)
		if err != nil {
			return "newtx:" + err.Error()
		}
		tx.Set(key, nil, val)
		if prog == "commit2" {
			tx.Set([]byte("k2"), store.NewKVMetadata(), append(val, val...))
		}
		h, err := tx.Commit(ctx)
		if err != nil {
			return "err:" + err.Error()
		}
		return ack(h)
	case "commit-large":
		// three 22 KiB values: the total crosses the 64 KiB boundary of 2-byte length fields
		tx, err := st.NewWriteOnlyTx(ctx)
		if err != nil {
			return "newtx:" + err.Error()
		}
		for e := 0; e < 3; e++ {
			tx.Set([]byte(fmt.Sprintf("big%d", e)), nil, bytes.Repeat([]byte{byte('A' + who + e)}, 22<<10))
		}
		h, err := tx.Commit(ctx)
		if err != nil {
			return "err:" + err.Error()
		}
		return ack(h)
	case "async":
		tx, err := st.NewWriteOnlyTx(ctx)
		if err != nil {
			return "newtx:" + err.Error()
		}
		tx.Set(key, nil, val)
		h, err := tx.AsyncCommit(ctx)
		if err != nil {
			return "err:" + err.Error()
		}
		if err := st.WaitForTx(ctx, h.ID, false); err != nil {
			return "waitfortx:" + err.Error()
		}
		return ack(h)
	case "precond-fail":
		tx, err := st.NewWriteOnlyTx(ctx)
		if err != nil {
			return "newtx:" + err.Error()
		}
		tx.Set([]byte("p"), nil, val)
		tx.AddPrecondition(&store.PreconditionKeyMustExist{Key: []byte("never-written")})
		_, err = tx.Commit(ctx)
		if err == nil {
			sched.Report("failed-precondition-committed", "a tx with an unsatisfied KeyMustExist precondition committed")
			return "committed!"
		}
		return "rejected"
	case "cancelled":
		cctx, cancel := context.WithCancel(ctx)
		tx, err := st.NewWriteOnlyTx(cctx)
		if err != nil {
			return "newtx:" + err.Error()
		}
		tx.Set([]byte("c"), nil, val)
		cancel()
		h, err := tx.Commit(cctx)
		if err != nil {
			return "cancelled"
		}
		return ack(h)
	case "commitwith":
		h, err := st.CommitWith(ctx, func(txID uint64, index store.KeyIndex) ([]*store.EntrySpec, []store.Precondition, error) {
			return []*store.EntrySpec{{Key: []byte(fmt.Sprintf("cw%d", txID)), Value: val}}, nil, nil
		}, false)
		if err != nil {
			return "err:" + err.Error()
		}
		return ack(h)
	}
	panic("unknown program " + prog)
}

func scenario(v variant) sched.Scenario {
	return sched.Scenario{Name: v.name, Body: func(dir string) string {
		st, err := store.Open(dir, v.opts())
		if err != nil {
			sched.Report("open-failed", err.Error())
			return "open-failed"
		}
		l := storeh.NewLedger()
		res := make([]string, len(v.writers))
		vsched.Focus()
		for i, p := range v.writers {
			i, p := i, p
			vsched.Spawn(func() { res[i] = commitProgram(st, l, i, p) })
		}
		if v.maint != "" {
			vsched.Spawn(func() {
				switch v.maint {
				case "flush":
					if err := st.FlushIndexes(0, false); err != nil {
						sched.Report("maintenance-failed op=flush", err.Error())
					}
				case "sync":
					if err := st.Sync(); err != nil {
						sched.Report("maintenance-failed op=sync", err.Error())
					}
				}
			})
		}
		if v.observer {
			vsched.Spawn(func() {
				for r := 0; r < 2; r++ {
					if d := l.CheckHistory(st, 0); d != "" {
						sched.Report("history-breach phase=concurrent "+firstWords(d), d)
						return
					}
					vsched.Yield("observer")
				}
			})
		}
		vsched.Join()
		out := fmt.Sprint(res)
		if d := l.CheckHistory(st, 0); d != "" {
			sched.Report("history-breach phase=end "+firstWords(d), d)
		}
		fp := storeh.Fingerprint(st)
		nAck := len(l.Acked)
		if n, _ := st.CommittedAlh(); int(n) < nAck {
			sched.Report("committed-fewer-than-acked", fmt.Sprintf("%d acknowledged, %d committed", nAck, n))
		}
		if err := st.Close(); err != nil {
			sched.Report("close-failed", err.Error())
			return out + " close:" + err.Error()
		}
		for r := 0; r < v.reopen; r++ {
			st, err = store.Open(dir, v.opts())
			if err != nil {
				sched.Report("reopen-failed", err.Error())
				return out + " reopen-failed"
			}
			if d := l.CheckHistory(st, 0); d != "" {
				sched.Report("history-breach phase=reopen "+firstWords(d), d)
			}
			if fp2 := storeh.Fingerprint(st); fp2 != fp {
				sched.Report("history-changed-by-reopen", fmt.Sprintf("before close: %s\nafter reopen: %s", fp, fp2))
			}
			// one more commit must extend the history
			tx, _ := st.NewWriteOnlyTx(context.Background())
			tx.Set([]byte("after"), nil, []byte{byte('0' + r)})
			h, err := tx.Commit(context.Background())
			if err != nil {
				sched.Report("commit-after-reopen-failed", err.Error())
			} else {
				rec, _ := storeh.ReadRec(st, h.ID, true)
				l.Acked[h.ID] = rec
				fp = storeh.Fingerprint(st)
			}
			if err := st.Close(); err != nil {
				sched.Report("close-failed", err.Error())
			}
		}
		return out + " " + fp
	}}
}

// scenarioDiscard: "… not after precommit discarding": a store with external commit allowance (sync replication) holds a
// small precommitted tx 2, discards it (fail-over), the id is re-used by a large transaction (record above the 4 KiB
// read buffer) which is then allowed and acknowledged. What was acknowledged is what every later read returns.
func scenarioDiscard() sched.Scenario {
	return sched.Scenario{Name: "extallow-discard-reuse", MaxSteps: 1000000, Body: func(dir string) string {
		opts := func() *store.Options {
			return baseOpts().WithExternalCommitAllowance(true).WithMaxTxEntries(64).WithMaxKeyLen(80).WithFileSize(1 << 16)
		}
		st, err := store.Open(dir, opts())
		if err != nil {
			sched.Report("open-failed", err.Error())
			return "open-failed"
		}
		l := storeh.NewLedger()
		commit := func(cctx context.Context, n int, tag string) (*store.TxHeader, error) {
			tx, err := st.NewWriteOnlyTx(cctx)
			if err != nil {
				return nil, err
			}
			for i := 0; i < n; i++ {
				tx.Set([]byte(fmt.Sprintf("%s%02d-%s", tag, i, strings.Repeat("x", 60))), nil, []byte(tag))
			}
			return tx.Commit(cctx)
		}
		ack := func(who string, h *store.TxHeader) {
			rec, err := storeh.ReadRec(st, h.ID, true)
			if err != nil {
				sched.Report("acked-unreadable prog="+who, fmt.Sprintf("tx %d acknowledged but ReadTx fails: %v", h.ID, err))
				return
			}
			if rec.Alh != h.Alh() {
				sched.Report("acked-header-mismatch prog="+who, fmt.Sprintf("tx %d: the header returned by Commit (alh %x) differs from the stored one (alh %x)", h.ID, h.Alh(), rec.Alh))
			}
			sched.Shared(func() { l.Acked[h.ID] = rec })
		}
		waitPre := func(id uint64) {
			for st.LastPrecommittedTxID() < id {
				vsched.Pause("poll")
			}
		}
		ctx := context.Background()
		res := make([]string, 3)
		vsched.Focus()
		vsched.Spawn(func() { // tx 1
			if h, err := commit(ctx, 2, "one"); err != nil {
				res[0] = "err:" + err.Error()
			} else {
				ack("tx1", h)
				res[0] = fmt.Sprintf("tx%d", h.ID)
			}
		})
		vsched.Spawn(func() { // controller: what a replication fail-over does
			waitPre(1)
			if err := st.AllowCommitUpto(1); err != nil {
				sched.Report("allow-failed", err.Error())
			}
			// small tx 2 of the old primary: stays precommitted; its committer gives up (context cancelled) before the
			// fail-over discards it
			actx, cancelA := context.WithCancel(ctx)
			doneA := false
			vsched.Spawn(func() {
				if _, err := commit(actx, 1, "old"); err == nil {
					res[1] = "committed!"
					sched.Report("unallowed-tx-committed", "a transaction beyond the commit allowance was reported committed")
				} else {
					res[1] = "cancelled"
				}
				sched.Shared(func() { doneA = true })
			})
			waitPre(2)
			cancelA()
			for !doneA {
				vsched.Pause("poll")
			}
			if _, err := st.DiscardPrecommittedTxsSince(2); err != nil {
				sched.Report("discard-failed", err.Error())
			}
			vsched.Spawn(func() { // large tx 2 of the new primary
				if h, err := commit(ctx, 60, "new"); err != nil {
					res[2] = "err:" + err.Error()
				} else {
					ack("tx2-new", h)
					res[2] = fmt.Sprintf("tx%d", h.ID)
				}
			})
			waitPre(2)
			if err := st.AllowCommitUpto(2); err != nil {
				sched.Report("allow-failed", err.Error())
			}
		})
		vsched.Join()
		if d := l.CheckHistory(st, 0); d != "" {
			sched.Report("history-breach phase=end "+firstWords(d), d)
		}
		fp := storeh.Fingerprint(st)
		if err := st.Close(); err != nil {
			sched.Report("close-failed", err.Error())
		}
		st, err = store.Open(dir, opts())
		if err != nil {
			sched.Report("reopen-failed", err.Error())
			return fmt.Sprint(res) + " reopen-failed"
		}
		if d := l.CheckHistory(st, 0); d != "" {
			sched.Report("history-breach phase=reopen "+firstWords(d), d)
		}
		if fp2 := storeh.Fingerprint(st); fp2 != fp {
			sched.Report("history-changed-by-reopen", fmt.Sprintf("before close: %s\nafter reopen: %s", fp, fp2))
		}
		st.Close()
		return fmt.Sprint(res) + " " + fp
	}}
}

// scenarioDiscardRace: the fail-over of scenarioDiscard with a committer in flight. Tx 1 is committed and allowed; the old
// primary's tx 2 is precommitted and its committer gives up; committer "mid" starts while tx 2 is still precommitted and
// may be anywhere inside precommit() when the controller discards tx 2; committer "new" starts after the discard. Whatever
// ids the two end up with, the acknowledged history must be the one every later read returns (chaining, BlRoot over the
// Alh of the transactions that are really there).
func scenarioDiscardRace() sched.Scenario {
	return sched.Scenario{Name: "extallow-discard-race", MaxSteps: 1000000, Body: func(dir string) string {
		opts := func() *store.Options {
			return baseOpts().WithExternalCommitAllowance(true)
		}
		st, err := store.Open(dir, opts())
		if err != nil {
			sched.Report("open-failed", err.Error())
			return "open-failed"
		}
		l := storeh.NewLedger()
		commit := func(cctx context.Context, tag string) (*store.TxHeader, error) {
			tx, err := st.NewWriteOnlyTx(cctx)
			if err != nil {
				return nil, err
			}
			tx.Set([]byte(tag), nil, []byte(tag+"-value"))
			return tx.Commit(cctx)
		}
		ack := func(who string, h *store.TxHeader) {
			rec, err := storeh.ReadRec(st, h.ID, true)
			if err != nil {
				sched.Report("acked-unreadable prog="+who, fmt.Sprintf("tx %d acknowledged but ReadTx fails: %v", h.ID, err))
				return
			}
			if rec.Alh != h.Alh() {
				sched.Report("acked-header-mismatch prog="+who, fmt.Sprintf("tx %d: the header returned by Commit (alh %x) differs from the stored one (alh %x)", h.ID, h.Alh(), rec.Alh))
			}
			sched.Shared(func() { l.Acked[h.ID] = rec })
		}
		waitPre := func(id uint64) {
			for st.LastPrecommittedTxID() < id {
				vsched.Pause("poll")
			}
		}
		ctx := context.Background()
		res := make([]string, 3)
		// set-up: tx 1 committed, old tx 2 precommitted
		done1 := false
		vsched.Spawn(func() {
			if h, err := commit(ctx, "one"); err != nil {
				sched.Report("setup-failed", err.Error())
			} else {
				ack("tx1", h)
			}
			sched.Shared(func() { done1 = true })
		})
		waitPre(1)
		if err := st.AllowCommitUpto(1); err != nil {
			sched.Report("allow-failed", err.Error())
		}
		for !done1 {
			vsched.Pause("poll")
		}
		actx, cancelOld := context.WithCancel(ctx)
		doneOld := false
		vsched.Spawn(func() {
			if _, err := commit(actx, "old"); err == nil {
				res[0] = "committed!"
				sched.Report("unallowed-tx-committed", "a transaction beyond the commit allowance was reported committed")
			} else {
				res[0] = "cancelled"
			}
			sched.Shared(func() { doneOld = true })
		})
		waitPre(2)
		vsched.Focus()
		finished := 0
		committer := func(slot int, tag string) {
			if h, err := commit(ctx, tag); err != nil {
				res[slot] = "err:" + err.Error()
			} else {
				ack(tag, h)
				res[slot] = fmt.Sprintf("tx%d", h.ID)
			}
			sched.Shared(func() { finished++ })
		}
		// "mid" gives up (context cancelled by the controller) when its transaction was discarded together with tx 2:
		// nothing will ever take its id
		mctx, cancelMid := context.WithCancel(ctx)
		vsched.Spawn(func() {
			if h, err := commit(mctx, "mid"); err != nil {
				res[1] = "err:" + errClass(err)
			} else {
				ack("mid", h)
				res[1] = fmt.Sprintf("tx%d", h.ID)
			}
			sched.Shared(func() { finished++ })
		})
		vsched.Spawn(func() { // controller: the fail-over
			cancelOld()
			for !doneOld {
				vsched.Pause("poll")
			}
			if _, err := st.DiscardPrecommittedTxsSince(2); err != nil {
				sched.Report("discard-failed", err.Error())
			}
			vsched.Spawn(func() { committer(2, "new") })
			idle := 0
			for finished < 2 {
				n := st.LastPrecommittedTxID()
				if n > 1 && n > st.LastCommittedTxID() {
					if err := st.AllowCommitUpto(n); err != nil {
						sched.Report("allow-failed", err.Error())
						return
					}
					idle = 0
				} else if idle++; idle == 4 {
					cancelMid()
				}
				vsched.Pause("poll")
			}
		})
		vsched.Join()
		if d := l.CheckHistory(st, 0); d != "" {
			sched.Report("history-breach phase=end "+firstWords(d), d)
		}
		fp := storeh.Fingerprint(st)
		if err := st.Close(); err != nil {
			sched.Report("close-failed", err.Error())
		}
		st, err = store.Open(dir, opts())
		if err != nil {
			sched.Report("reopen-failed", err.Error())
			return fmt.Sprint(res) + " reopen-failed"
		}
		if d := l.CheckHistory(st, 0); d != "" {
			sched.Report("history-breach phase=reopen "+firstWords(d), d)
		}
		if fp2 := storeh.Fingerprint(st); fp2 != fp {
			sched.Report("history-changed-by-reopen", fmt.Sprintf("before close: %s\nafter reopen: %s", fp, fp2))
		}
		st.Close()
		return fmt.Sprint(res) + " " + fp
	}}
}

func errClass(err error) string {
	switch {
	case errors.Is(err, context.Canceled):
		return "cancelled"
	case errors.Is(err, store.ErrAlreadyClosed):
		return "closed"
	}
	return err.Error()
}

func firstWords(s string) string {
	// stable class of a history breach: text up to the first digit
	for i, r := range s {
		if r >= '0' && r <= '9' {
			return "kind=" + trimSpaces(s[:i])
		}
	}
	return "kind=" + trimSpaces(s)
}

func trimSpaces(s string) string {
	out := []rune{}
	for _, r := range s {
		if r == ' ' {
			r = '_'
		}
		out = append(out, r)
	}
	return string(out)
}

func main() {
	c := lib.New("C02", "model_checking", 150*time.Second, 25*time.Minute)
	// library goroutines that take part in the workload-thread phase: syncer, value-appending precommit goroutines
	vsched.WorkDaemons = []string{"store.OpenWith", "(*ImmuStore).precommit", "(*ImmuStore).preCommitWith"}
	c.Assume("code between two synchronisation operations is data-race free (checked separately by a free-running -race pass)")
	c.Assume("virtual clock is fixed; tx timestamps are all equal")
	synced := func() *store.Options { return baseOpts().WithSynced(true) }
	embedded := func() *store.Options {
		return baseOpts().WithEmbeddedValues(true).WithPreallocFiles(true).WithWriteTxHeaderVersion(0)
	}
	tinyFiles := func() *store.Options { return baseOpts().WithFileSize(256).WithMaxIOConcurrency(2) }
	largeEmbedded := func() *store.Options {
		return baseOpts().WithEmbeddedValues(true).WithMaxValueLen(32 << 10).WithFileSize(1 << 20).WithWriteBufferSize(1 << 17)
	}
	largePlain := func() *store.Options {
		return baseOpts().WithMaxValueLen(32 << 10).WithFileSize(1 << 16).WithWriteBufferSize(1 << 12)
	}
	variants := []variant{
		{name: "2commit", opts: baseOpts, writers: []string{"commit", "commit"}, observer: false, reopen: 1},
		{name: "commit+async+observer", opts: baseOpts, writers: []string{"commit", "async"}, observer: true, reopen: 1},
		{name: "commit+precondfail+cancelled", opts: baseOpts, writers: []string{"commit2", "precond-fail", "cancelled"}, reopen: 1},
		{name: "commit+commitwith+sync", opts: baseOpts, writers: []string{"commit", "commitwith"}, maint: "sync", reopen: 1},
		{name: "synced-2commit", opts: synced, writers: []string{"commit", "commit2"}, reopen: 1},
		{name: "embedded-prealloc-v0", opts: embedded, writers: []string{"commit", "commit2"}, reopen: 2},
		{name: "tinyfiles-3commit", opts: tinyFiles, writers: []string{"commit2", "commit2", "commit"}, reopen: 1},
		{name: "embedded-large-tx", opts: largeEmbedded, writers: []string{"commit-large", "commit"}, reopen: 2},
		{name: "plain-large-tx", opts: largePlain, writers: []string{"commit-large", "commit2"}, reopen: 1},
	}
	var scs []sched.Scenario
	for _, v := range variants {
		scs = append(scs, scenario(v))
	}
	scs = append(scs, scenarioDiscard(), scenarioDiscardRace())
	var jobs []sched.Job
	if c.Thorough() {
		jobs = append(jobs, sched.Job{Scenario: "extallow-discard-reuse", Bound: 1, Budget: 2 * time.Minute})
		jobs = append(jobs, sched.Job{Scenario: "extallow-discard-race", Bound: 2, Budget: 3 * time.Minute})
		for _, v := range variants {
			jobs = append(jobs, sched.Job{Scenario: v.name, Bound: 1, Budget: 2 * time.Minute})
		}
		for _, v := range variants {
			jobs = append(jobs, sched.Job{Scenario: v.name, Bound: 2, Budget: 3 * time.Minute})
		}
		jobs = append(jobs, sched.Job{Scenario: "2commit", Bound: 1 << 20, Budget: 4 * time.Minute})
	} else {
		jobs = append(jobs, sched.Job{Scenario: "extallow-discard-reuse", Bound: 1, Budget: 12 * time.Second})
		jobs = append(jobs, sched.Job{Scenario: "extallow-discard-race", Bound: 1, Budget: 12 * time.Second})
		for _, v := range variants {
			jobs = append(jobs, sched.Job{Scenario: v.name, Bound: 1, Budget: 13 * time.Second})
		}
	}
	_ = errors.Is
	sched.Main(c, scs, jobs, "every schedule of each harness (2–3 committers + optional maintenance/observer threads on the real store) up to the stated preemption bound, modulo happens-before state equivalence; after every execution and after each reopen the whole history is re-read and compared with the ledger of acknowledged commits; distinct = distinct observable outcomes (commit orders x results)")
}
