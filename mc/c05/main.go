// C05 — read-write transactions are serializable in commit order (MVCC).
// E1: two or three transaction programs (≤ 3 operations each, from a small grammar of reads and writes on
// colliding keys) run as threads on the real store together with its asynchronous indexer; every schedule up to
// the preemption bound is explored. Oracle: replay the committed transactions in id order on a reference map;
// every read recorded by a committed program must equal the same read on the state produced by all smaller ids
// (own writes visible); aborted programs leave no trace.
package main

import (
	"context"
	"errors"
	"fmt"
	"sort"
	"strings"
	"time"

	"github.com/codenotary/immudb/embedded/store"
	"github.com/codenotary/immudb/embedded/vhooks/vsched"
	"verif/mc/lib"
	"verif/mc/sched"
	"verif/mc/storeh"
)

type op struct {
	kind  string // get, getprefix, scan, scandesc, scan1 (early stop), set, del, settransient
	key   string
	val   string
	seek  string
	end   string
	reset bool
}

type program struct {
	name  string
	ops   []op
	wo    bool // write-only transaction
	stale bool // snapshot may be arbitrarily stale (SnapshotMustIncludeTxID -> 0)
}

var programs = map[string]program{
	"rA-wB":          {name: "rA-wB", ops: []op{{kind: "get", key: "a"}, {kind: "set", key: "b", val: "$"}}},
	"rB-wA":          {name: "rB-wA", ops: []op{{kind: "get", key: "b"}, {kind: "set", key: "a", val: "$"}}},
	"rA-wA":          {name: "rA-wA", ops: []op{{kind: "get", key: "a"}, {kind: "set", key: "a", val: "$"}}},
	"ins-c":          {name: "ins-c", ops: []op{{kind: "get", key: "c"}, {kind: "set", key: "c", val: "$"}}},
	"prefix-a-wab":   {name: "prefix-a-wab", ops: []op{{kind: "getprefix", key: "a"}, {kind: "set", key: "ab", val: "$"}}},
	"scan-w":         {name: "scan-w", ops: []op{{kind: "scan"}, {kind: "set", key: "z", val: "$"}}},
	"scandesc-w":     {name: "scandesc-w", ops: []op{{kind: "scandesc", seek: "b", end: "a"}, {kind: "set", key: "a", val: "$"}}},
	"scan1-w":        {name: "scan1-w", ops: []op{{kind: "scan1", seek: "a"}, {kind: "set", key: "b", val: "$"}}},
	"w-own-read":     {name: "w-own-read", ops: []op{{kind: "set", key: "a", val: "own"}, {kind: "get", key: "a"}, {kind: "set", key: "b", val: "$"}}},
	"del-a":          {name: "del-a", ops: []op{{kind: "get", key: "a"}, {kind: "del", key: "a"}}},
	"wo-a":           {name: "wo-a", wo: true, ops: []op{{kind: "set", key: "a", val: "W"}}},
	"wo-ab-c":        {name: "wo-ab-c", wo: true, ops: []op{{kind: "set", key: "ab", val: "W"}, {kind: "set", key: "c", val: "W"}}},
	"stale-rA-wB":    {name: "stale-rA-wB", stale: true, ops: []op{{kind: "get", key: "a"}, {kind: "set", key: "b", val: "$"}}},
	"stale-scan-w":   {name: "stale-scan-w", stale: true, ops: []op{{kind: "scan"}, {kind: "set", key: "z", val: "$"}}},
	"wo-b":           {name: "wo-b", wo: true, ops: []op{{kind: "set", key: "b", val: "W"}}},
	"stale-rA-rB-wA": {name: "stale-rA-rB-wA", stale: true, ops: []op{{kind: "get", key: "a"}, {kind: "get", key: "b"}, {kind: "set", key: "a", val: "$"}}},
	"stale-rB-rA-wB": {name: "stale-rB-rA-wB", stale: true, ops: []op{{kind: "get", key: "b"}, {kind: "get", key: "a"}, {kind: "set", key: "b", val: "$"}}},
	"rA-rB-wA":       {name: "rA-rB-wA", ops: []op{{kind: "get", key: "a"}, {kind: "get", key: "b"}, {kind: "set", key: "a", val: "$"}}},
	"reset-scan-w":   {name: "reset-scan-w", ops: []op{{kind: "scan", reset: true}, {kind: "set", key: "z", val: "$"}}},
	// (scenarios whose name starts with "sib:" start from a state in which one transaction wrote a, ab and b: after a
	// concurrent delete of a, a prefix read of "a" resolves to the sibling ab, written by the same transaction)
	"prefix-a-wz": {name: "prefix-a-wz", ops: []op{{kind: "getprefix", key: "a"}, {kind: "set", key: "z", val: "$"}}},
}

// result of one program execution
type result struct {
	prog      program
	who       int
	reads     []string // observed result of each op (reads only; "" for writes)
	committed bool
	txID      uint64
	err       string
}

type kv struct{ k, v string }

// reference state: key -> value ("" + deleted flag)
type state map[string]string

func (s state) keys() []string {
	var ks []string
	for k := range s {
		ks = append(ks, k)
	}
	sort.Strings(ks)
	return ks
}

// evalRead evaluates a read op on a reference state extended with the program's own earlier writes.
func evalRead(s state, o op) string {
	ks := s.keys()
	switch o.kind {
	case "get":
		if v, ok := s[o.key]; ok {
			return v
		}
		return "<nf>"
	case "getprefix":
		for _, k := range ks {
			if strings.HasPrefix(k, o.key) {
				return k + "=" + s[k]
			}
		}
		return "<nf>"
	case "scan", "scan1":
		var out []string
		for _, k := range ks {
			if k < o.seek {
				continue
			}
			out = append(out, k+"="+s[k])
			if o.kind == "scan1" {
				break
			}
		}
		return strings.Join(out, ",")
	case "scandesc":
		var out []string
		for i := len(ks) - 1; i >= 0; i-- {
			k := ks[i]
			if (o.seek != "" && k > o.seek) || (o.end != "" && k < o.end) {
				continue
			}
			out = append(out, k+"="+s[k])
		}
		return strings.Join(out, ",")
	}
	return ""
}

func applyWrites(s state, r *result) {
	for _, o := range r.prog.ops {
		switch o.kind {
		case "set":
			v := o.val
			if v == "$" {
				v = fmt.Sprintf("p%d", r.who)
			}
			s[o.key] = v
		case "del":
			delete(s, o.key)
		}
	}
}

func runProgram(st *store.ImmuStore, p program, who int) *result {
	ctx := context.Background()
	r := &result{prog: p, who: who}
	var tx *store.OngoingTx
	var err error
	if p.wo {
		tx, err = st.NewWriteOnlyTx(ctx)
	} else {
		o := store.DefaultTxOptions()
		if p.stale {
			o = o.WithSnapshotMustIncludeTxID(func(uint64) uint64 { return 0 })
		}
		tx, err = st.NewTx(ctx, o)
	}
	if err != nil {
		r.err = "newtx: " + err.Error()
		return r
	}
	readAll := func(rd store.KeyReader, max int) string {
		var out []string
		for i := 0; i < max; i++ {
			k, vr, err := rd.Read(ctx)
			if errors.Is(err, store.ErrNoMoreEntries) {
				break
			}
			if err != nil {
				return "ERR:" + err.Error()
			}
			b, _ := vr.Resolve()
			out = append(out, string(k)+"="+string(b))
		}
		return strings.Join(out, ",")
	}
	for _, o := range p.ops {
		obs := ""
		switch o.kind {
		case "get":
			vr, err := tx.Get(ctx, []byte(o.key))
			switch {
			case errors.Is(err, store.ErrKeyNotFound):
				obs = "<nf>"
			case err != nil:
				obs = "ERR:" + err.Error()
			default:
				b, _ := vr.Resolve()
				obs = string(b)
			}
		case "getprefix":
			k, vr, err := tx.GetWithPrefix(ctx, []byte(o.key), nil)
			switch {
			case errors.Is(err, store.ErrKeyNotFound):
				obs = "<nf>"
			case err != nil:
				obs = "ERR:" + err.Error()
			default:
				b, _ := vr.Resolve()
				obs = string(k) + "=" + string(b)
			}
		case "scan", "scan1", "scandesc":
			spec := store.KeyReaderSpec{Filters: []store.FilterFn{store.IgnoreExpired, store.IgnoreDeleted}, InclusiveSeek: true, InclusiveEnd: true}
			if o.seek != "" {
				spec.SeekKey = []byte(o.seek)
			}
			if o.end != "" {
				spec.EndKey = []byte(o.end)
			}
			spec.DescOrder = o.kind == "scandesc"
			rd, err := tx.NewKeyReader(spec)
			if err != nil {
				obs = "ERR:" + err.Error()
				break
			}
			max := 100
			if o.kind == "scan1" {
				max = 1
			}
			if o.reset {
				readAll(rd, 1)
				rd.Reset()
			}
			obs = readAll(rd, max)
			rd.Close()
		case "set":
			v := o.val
			if v == "$" {
				v = fmt.Sprintf("p%d", who)
			}
			if err := tx.Set([]byte(o.key), nil, []byte(v)); err != nil {
				obs = "ERR:" + err.Error()
			}
		case "del":
			if err := tx.Delete(ctx, []byte(o.key)); err != nil && !errors.Is(err, store.ErrKeyNotFound) {
				obs = "ERR:" + err.Error()
			}
		}
		r.reads = append(r.reads, obs)
	}
	h, err := tx.Commit(ctx)
	if err != nil {
		r.err = err.Error()
		if !errors.Is(err, store.ErrTxReadConflict) && !errors.Is(err, store.ErrNoEntriesProvided) {
			sched.Report("commit-error prog="+p.name+" "+firstWord(err.Error()), err.Error())
		}
		return r
	}
	r.committed, r.txID = true, h.ID
	return r
}

func firstWord(s string) string {
	if i := strings.IndexAny(s, ":"); i > 0 {
		s = s[:i]
	}
	return strings.ReplaceAll(s, " ", "_")
}

func scenario(name string, progs []string, opts func() *store.Options, multi bool) sched.Scenario {
	sibling := strings.HasPrefix(name, "sib:")
	return sched.Scenario{Name: name, MaxSteps: 400000, Body: func(dir string) string {
		st, err := store.Open(dir, opts())
		if err != nil {
			sched.Report("open-failed", err.Error())
			return "open-failed"
		}
		if multi {
			// two indexes: keys starting with "a" and keys starting with "b"
			for _, p := range []string{"a", "b"} {
				if err := st.InitIndexing(&store.IndexSpec{SourcePrefix: []byte(p), TargetPrefix: []byte(p)}); err != nil {
					sched.Report("init-indexing-failed", err.Error())
					return "init-indexing-failed"
				}
			}
		}
		ctx := context.Background()
		// committed initial state
		init := state{"a": "a0", "b": "b0"}
		tx, _ := st.NewWriteOnlyTx(ctx)
		tx.Set([]byte("a"), nil, []byte("a0"))
		tx.Set([]byte("b"), nil, []byte("b0"))
		if sibling {
			init["ab"] = "ab0"
			tx.Set([]byte("ab"), nil, []byte("ab0"))
		}
		if _, err := tx.Commit(ctx); err != nil {
			sched.Report("setup-failed", err.Error())
			return "setup-failed"
		}
		res := make([]*result, len(progs))
		vsched.Focus()
		for i, pn := range progs {
			i, p := i, programs[pn]
			vsched.Spawn(func() { res[i] = runProgram(st, p, i) })
		}
		vsched.Join()
		// ---- oracle
		var committed []*result
		for _, r := range res {
			if r.committed {
				committed = append(committed, r)
			}
		}
		sort.Slice(committed, func(i, j int) bool { return committed[i].txID < committed[j].txID })
		s := state{}
		for k, v := range init {
			s[k] = v
		}
		for _, r := range committed {
			// the program's reads must be what they would be on s (state produced by all smaller ids), own writes visible
			own := state{}
			for k, v := range s {
				own[k] = v
			}
			for i, o := range r.prog.ops {
				switch o.kind {
				case "set":
					v := o.val
					if v == "$" {
						v = fmt.Sprintf("p%d", r.who)
					}
					own[o.key] = v
				case "del":
					delete(own, o.key)
				default:
					if want := evalRead(own, o); want != r.reads[i] {
						sched.Report(fmt.Sprintf("non-serializable-read prog=%s op=%d(%s) with=%v", r.prog.name, i, o.kind, progs),
							fmt.Sprintf("program %s committed as tx %d but its %s(%s) returned %q; on the state produced by all transactions with smaller ids it returns %q\nall results: %s", r.prog.name, r.txID, o.kind, o.key, r.reads[i], want, render(res)))
					}
				}
			}
			applyWrites(s, r)
		}
		// final committed state equals the serial replay; aborted programs left nothing
		if err := st.WaitForIndexingUpto(ctx, st.LastCommittedTxID()); err != nil {
			sched.Report("indexing-failed", err.Error())
		}
		for _, k := range []string{"a", "ab", "b", "c", "z"} {
			if multi && (k == "c" || k == "z") {
				continue
			}
			vr, err := st.Get(ctx, []byte(k))
			got := "<nf>"
			if err == nil {
				b, _ := vr.Resolve()
				got = string(b)
			} else if !errors.Is(err, store.ErrKeyNotFound) {
				got = "ERR:" + err.Error()
			}
			want, ok := s[k]
			if !ok {
				want = "<nf>"
			}
			if got != want {
				sched.Report(fmt.Sprintf("final-state-mismatch key=%s with=%v", k, progs), fmt.Sprintf("Get(%s)=%q, serial replay of committed txs gives %q\n%s", k, got, want, render(res)))
			}
		}
		if int(st.LastCommittedTxID()) != 1+len(committed) {
			sched.Report("tx-count-mismatch", fmt.Sprintf("%d committed programs but %d txs", len(committed), st.LastCommittedTxID()-1))
		}
		out := render(res)
		if err := st.Close(); err != nil {
			sched.Report("close-failed", err.Error())
		}
		return out
	}}
}

func render(res []*result) string {
	var parts []string
	for _, r := range res {
		if r == nil {
			parts = append(parts, "nil")
			continue
		}
		st := "abort(" + firstWord(r.err) + ")"
		if r.committed {
			st = fmt.Sprintf("tx%d", r.txID)
		}
		parts = append(parts, fmt.Sprintf("%s:%s%v", r.prog.name, st, r.reads))
	}
	return strings.Join(parts, " | ")
}

func main() {
	c := lib.New("C05", "model_checking", 170*time.Second, 25*time.Minute)
	// library goroutines that take part in the workload-thread phase: syncer, value-appending precommit goroutines and indexers
	vsched.WorkDaemons = []string{"store.OpenWith", "(*ImmuStore).precommit", "(*ImmuStore).preCommitWith", "store.(*indexer)"}
	c.Assume("code between two synchronisation operations is data-race free")
	c.Assume("default (safe) MVCC mode; single default index")
	base := func() *store.Options { return storeh.SmallOptions() }
	type sc struct {
		progs []string
	}
	quick := [][]string{
		{"rA-wB", "rB-wA"}, {"rA-wA", "rA-wA"}, {"ins-c", "ins-c"}, {"prefix-a-wab", "wo-ab-c"}, {"scan-w", "wo-ab-c"}, {"scandesc-w", "wo-a"},
		{"scan1-w", "wo-a"}, {"w-own-read", "rB-wA"}, {"del-a", "rA-wB"}, {"stale-rA-wB", "wo-a"}, {"stale-scan-w", "wo-ab-c"}, {"reset-scan-w", "ins-c"},
		{"2idx:stale-rA-rB-wA", "wo-b"}, {"2idx:stale-rB-rA-wB", "wo-a"}, {"2idx:rA-rB-wA", "wo-b"},
		{"sib:prefix-a-wz", "del-a"},
	}
	var scs []sched.Scenario
	var jobs []sched.Job
	multiOpts := func() *store.Options { return storeh.SmallOptions().WithMultiIndexing(true) }
	add := func(progs []string, bound int, budget time.Duration) {
		name := strings.Join(progs, "+")
		multi := strings.HasPrefix(progs[0], "2idx:")
		if multi {
			progs = append([]string{strings.TrimPrefix(progs[0], "2idx:")}, progs[1:]...)
		}
		if strings.HasPrefix(progs[0], "sib:") {
			progs = append([]string{strings.TrimPrefix(progs[0], "sib:")}, progs[1:]...)
		}
		found := false
		for _, s := range scs {
			if s.Name == name {
				found = true
			}
		}
		if !found {
			if multi {
				scs = append(scs, scenario(name, progs, multiOpts, true))
			} else {
				scs = append(scs, scenario(name, progs, base, false))
			}
		}
		jobs = append(jobs, sched.Job{Scenario: name, Bound: bound, Budget: budget})
	}
	if c.Thorough() {
		var names []string
		for n := range programs {
			names = append(names, n)
		}
		sort.Strings(names)
		for i, a := range names {
			for _, b := range names[i:] {
				add([]string{a, b}, 1, 40*time.Second)
			}
		}
		for _, p := range quick {
			add(p, 2, 90*time.Second)
		}
		// the two-index scenarios again with maps iterated in descending order (snapshot validation order)
		for _, p := range quick {
			if strings.HasPrefix(p[0], "2idx:") {
				name := strings.Join(p, "+") + "/desc"
				pp := append([]string{strings.TrimPrefix(p[0], "2idx:")}, p[1:]...)
				sc := scenario(name, pp, multiOpts, true)
				sc.Desc = true
				scs = append(scs, sc)
				jobs = append(jobs, sched.Job{Scenario: name, Bound: 1, Budget: 60 * time.Second})
			}
		}
		add([]string{"rA-wB", "rB-wA", "wo-a"}, 1, 2*time.Minute)
		add([]string{"scan-w", "ins-c", "wo-ab-c"}, 1, 2*time.Minute)
	} else {
		for _, p := range quick {
			add(p, 1, 11*time.Second)
		}
	}
	sched.Main(c, scs, jobs, "every schedule (up to the preemption bound, modulo happens-before equivalence) of each set of transaction programs running against the real store and its indexer thread; committed transactions are replayed in id order on a reference map and every recorded read must match the read on the state produced by all smaller ids; distinct = distinct outcome vectors (commit order x results x conflicts)")
}
