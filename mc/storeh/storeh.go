// Package storeh: helpers shared by the store-level harnesses (C01–C07, C14): small store options, a ledger
// of acknowledged transactions and the "history is intact" oracle of C02.
package storeh

import (
	"bytes"
	"crypto/sha256"
	"encoding/binary"
	"fmt"
	"os"
	"time"

	"github.com/codenotary/immudb/embedded/logger"
	"github.com/codenotary/immudb/embedded/store"
	"verif/mc/merkle"
)

// SmallOptions: every buffer/pool tiny so that opening a store costs ~1 ms.
func SmallOptions() *store.Options {
	var lg logger.Logger = logger.NewMemoryLoggerWithLevel(logger.LogError)
	if os.Getenv("VERIF_LOG") != "" {
		lg = logger.NewSimpleLoggerWithLevel("immudb", os.Stderr, logger.LogDebug)
	}
	return smallOptions(lg)
}

func smallOptions(lg logger.Logger) *store.Options {
	return store.DefaultOptions().WithSynced(false).WithSyncFrequency(time.Millisecond).
		WithLogger(lg).
		WithFileSize(1 << 12).WithMaxTxEntries(4).WithMaxKeyLen(32).WithMaxValueLen(64).WithMaxConcurrency(4).
		WithMaxActiveTransactions(8).WithTxLogCacheSize(8).WithVLogCacheSize(0).WithWriteBufferSize(4096).
		WithAHTOptions(store.DefaultAHTOptions().WithWriteBufferSize(4096)).
		WithIndexOptions(store.DefaultIndexOptions().WithFlushBufferSize(4096).WithCacheSize(64).WithBulkPreparationTimeout(time.Hour))
}

type EntryRec struct {
	Key   []byte
	MD    []byte
	Value []byte // nil when the value could not be read (truncated)
	HVal  [sha256.Size]byte
	VLen  int
}

// TxRec is everything C02 calls "a committed transaction": id, header, entries, values, accumulated hash.
type TxRec struct {
	ID     uint64
	Header []byte // TxHeader.Bytes()
	Hdr    store.TxHeader
	Alh    [sha256.Size]byte
	Ents   []EntryRec
}

func (a *TxRec) Equal(b *TxRec) bool { return a.Diff(b) == "" }

func (a *TxRec) Diff(b *TxRec) string {
	switch {
	case a.ID != b.ID:
		return fmt.Sprintf("id %d vs %d", a.ID, b.ID)
	case !bytes.Equal(a.Header, b.Header):
		return fmt.Sprintf("header of tx %d: %x vs %x", a.ID, a.Header, b.Header)
	case a.Alh != b.Alh:
		return fmt.Sprintf("alh of tx %d", a.ID)
	case len(a.Ents) != len(b.Ents):
		return fmt.Sprintf("tx %d: %d vs %d entries", a.ID, len(a.Ents), len(b.Ents))
	}
	for i := range a.Ents {
		x, y := a.Ents[i], b.Ents[i]
		if !bytes.Equal(x.Key, y.Key) || !bytes.Equal(x.MD, y.MD) || x.HVal != y.HVal || x.VLen != y.VLen {
			return fmt.Sprintf("tx %d entry %d: key/metadata/digest %q,%x vs %q,%x", a.ID, i, x.Key, x.MD, y.Key, y.MD)
		}
		if x.Value != nil && y.Value != nil && !bytes.Equal(x.Value, y.Value) {
			return fmt.Sprintf("tx %d entry %d: value %q vs %q", a.ID, i, x.Value, y.Value)
		}
	}
	return ""
}

// ReadRec reads tx id through ReadTx (+ReadValue for each entry).
func ReadRec(st *store.ImmuStore, id uint64, withValues bool) (*TxRec, error) {
	tx := store.NewTx(st.MaxTxEntries(), st.MaxKeyLen())
	if err := st.ReadTx(id, false, tx); err != nil {
		return nil, err
	}
	return RecOf(st, tx, withValues)
}

func RecOf(st *store.ImmuStore, tx *store.Tx, withValues bool) (*TxRec, error) {
	h := tx.Header()
	hb, err := h.Bytes()
	if err != nil {
		return nil, err
	}
	r := &TxRec{ID: h.ID, Header: hb, Hdr: *h, Alh: h.Alh()}
	for _, e := range tx.Entries() {
		er := EntryRec{Key: append([]byte{}, e.Key()...), HVal: e.HVal(), VLen: e.VLen()}
		if e.Metadata() != nil {
			er.MD = e.Metadata().Bytes()
		}
		if withValues {
			v, err := st.ReadValue(e)
			if err != nil {
				return nil, fmt.Errorf("ReadValue(tx %d, key %q): %w", h.ID, e.Key(), err)
			}
			er.Value = append([]byte{}, v...)
			if len(er.Value) == 0 {
				er.Value = []byte{}
			}
		}
		r.Ents = append(r.Ents, er)
	}
	return r, nil
}

// Ledger is the harness-side record of acknowledged commits.
type Ledger struct {
	Acked map[uint64]*TxRec
}

func NewLedger() *Ledger { return &Ledger{Acked: map[uint64]*TxRec{}} }

// CheckHistory is the C02 oracle: with n = committed tx id, ids are dense 1..n, every tx re-reads (ReadTx,
// ReadTxHeader, ExportTx, TxReader asc) identically to what the ledger recorded at acknowledgement, PrevAlh
// chains, BlRoot is the reference Merkle root over Alh(1..BlTxID), and CommittedAlh is the Alh of tx n.
// It returns "" or a description of the first breach. minReadable: values of txs below it may be truncated.
func (l *Ledger) CheckHistory(st *store.ImmuStore, minReadable uint64) string {
	n, calh := st.CommittedAlh()
	for id := range l.Acked {
		if id > n {
			return fmt.Sprintf("acknowledged tx %d is beyond the committed frontier %d", id, n)
		}
	}
	prev := sha256.Sum256(nil) // accumulated hash of the empty history
	var alhs []merkle.H
	for id := uint64(1); id <= n; id++ {
		rec, err := ReadRec(st, id, id >= minReadable)
		if err != nil {
			return fmt.Sprintf("ReadTx(%d) of %d committed: %v", id, n, err)
		}
		if rec.ID != id {
			return fmt.Sprintf("ReadTx(%d) returned tx %d", id, rec.ID)
		}
		if a, ok := l.Acked[id]; ok {
			if d := a.Diff(rec); d != "" {
				return "committed tx changed after acknowledgement: " + d
			}
		}
		if rec.Hdr.PrevAlh != prev {
			return fmt.Sprintf("tx %d: PrevAlh does not chain to tx %d", id, id-1)
		}
		if rec.Hdr.BlTxID >= id {
			return fmt.Sprintf("tx %d: BlTxID %d not smaller than the id", id, rec.Hdr.BlTxID)
		}
		if rec.Hdr.BlTxID > 0 {
			if r := merkle.Root(alhs[:rec.Hdr.BlTxID]); r != rec.Hdr.BlRoot {
				return fmt.Sprintf("tx %d: BlRoot is not the Merkle root over Alh(1..%d)", id, rec.Hdr.BlTxID)
			}
		} else if rec.Hdr.BlRoot != ([sha256.Size]byte{}) && id == 1 {
			return "tx 1: non-zero BlRoot"
		}
		hdr, err := st.ReadTxHeader(id, false, false)
		if err != nil {
			return fmt.Sprintf("ReadTxHeader(%d): %v", id, err)
		}
		if hb, _ := hdr.Bytes(); !bytes.Equal(hb, rec.Header) {
			return fmt.Sprintf("ReadTxHeader(%d) differs from ReadTx", id)
		}
		prev = rec.Alh
		alhs = append(alhs, merkle.Leaf(rec.Alh[:]))
	}
	if n > 0 && calh != prev {
		return fmt.Sprintf("CommittedAlh() is not the Alh of the last committed tx %d", n)
	}
	if n == 0 && calh != sha256.Sum256(nil) {
		return "CommittedAlh of an empty store is not the hash of the empty history"
	}
	// sequential reader must agree and chain
	if n > 0 {
		tx := store.NewTx(st.MaxTxEntries(), st.MaxKeyLen())
		rd, err := st.NewTxReader(1, false, tx)
		if err != nil {
			return "NewTxReader: " + err.Error()
		}
		for id := uint64(1); id <= n; id++ {
			t, err := rd.Read()
			if err != nil {
				return fmt.Sprintf("TxReader.Read at tx %d: %v", id, err)
			}
			if t.Header().ID != id {
				return fmt.Sprintf("TxReader returned tx %d at position %d", t.Header().ID, id)
			}
			if a, ok := l.Acked[id]; ok && t.Header().Alh() != a.Alh {
				return fmt.Sprintf("TxReader: tx %d differs from the acknowledged one", id)
			}
		}
	}
	return ""
}

// Fingerprint is a compact canonical rendering of the committed history (for outcome counting).
func Fingerprint(st *store.ImmuStore) string {
	n, _ := st.CommittedAlh()
	var b bytes.Buffer
	for id := uint64(1); id <= n; id++ {
		rec, err := ReadRec(st, id, true)
		if err != nil {
			fmt.Fprintf(&b, "tx%d:ERR(%v);", id, err)
			continue
		}
		fmt.Fprintf(&b, "tx%d[", id)
		for _, e := range rec.Ents {
			fmt.Fprintf(&b, "%s=%s,", e.Key, e.Value)
		}
		b.WriteString("];")
	}
	return b.String()
}

func U64(x uint64) []byte {
	var b [8]byte
	binary.BigEndian.PutUint64(b[:], x)
	return b[:]
}
