// Package crashfs is engine E2: given the journal of storage operations of one workload execution (recorded
// by the vos façade), enumerate every crash point and, for each, every combination of which un-fsynced
// writes of each file reached the disk (any per-file prefix, torn next write), materialise the image and hand
// it to an oracle.
//
// Persistence model (primary): per file everything up to its last fsync/fdatasync is durable; of the later
// writes any prefix may be durable and the first missing write may be torn; files are independent; a newly
// created file or directory exists once it was itself fsynced or its parent directory was synced after the
// creation; remove/rename are atomic and ordered. Stale bytes past a rewound offset are present naturally
// (nothing truncates).
package crashfs

import (
	"crypto/sha256"
	"fmt"
	"os"
	"path/filepath"
	"sort"
	"strings"

	"github.com/codenotary/immudb/embedded/vhooks/vos"
)

type fileState struct {
	durable []byte
	pending []vos.Op
	exists  bool // directory entry durable
	created bool
	isDir   bool
}

func applyWrite(content []byte, op vos.Op, n int) []byte {
	end := int(op.Off) + n
	if end > len(content) {
		content = append(content, make([]byte, end-len(content))...)
	}
	copy(content[op.Off:], op.Data[:n])
	return content
}

type Options struct {
	EarlyDirent bool // pessimistic model: directory entries durable at creation
	Torn        bool
	// Holes: un-fsynced writes of one file may reach the disk out of order (page cache write-back has no order):
	// besides every prefix, every "prefix with one earlier write missing" is enumerated
	Holes       bool
	MaxPerPoint int
	// Base: durable content present before the first journal operation (repeated crashes: the image the
	// recovery run started from)
	BaseFiles map[string][]byte
	BaseDirs  []string
	Marks     []string // markers inherited from the first-level image
}

// stateAt computes the per-file state after ops[0:k].
func stateAt(ops []vos.Op, k int, o Options) map[string]*fileState {
	files := map[string]*fileState{}
	for p, c := range o.BaseFiles {
		files[p] = &fileState{durable: append([]byte{}, c...), exists: true, created: true}
	}
	for _, d := range o.BaseDirs {
		files[d] = &fileState{isDir: true, exists: true, created: true}
	}
	get := func(p string) *fileState {
		f := files[p]
		if f == nil {
			f = &fileState{}
			files[p] = f
		}
		return f
	}
	for _, op := range ops[:k] {
		switch op.Kind {
		case "mkdir":
			f := get(op.Path)
			f.isDir, f.created, f.exists = true, true, o.EarlyDirent
			if op.Note == "all" {
				f.exists = true // MkdirAll of scratch roots: treated as pre-existing
			}
		case "create":
			f := get(op.Path)
			f.created, f.exists = true, o.EarlyDirent
			f.durable, f.pending = nil, nil
		case "write":
			f := get(op.Path)
			f.pending = append(f.pending, op)
		case "truncate":
			f := get(op.Path)
			f.pending = append(f.pending, op)
		case "fsync", "fdatasync":
			f := get(op.Path)
			f.exists = true
			for _, w := range f.pending {
				f.durable = applyOp(f.durable, w, -1)
			}
			f.pending = nil
		case "syncdir":
			if f, ok := files[op.Path]; ok {
				f.exists = true
			}
			for p, x := range files {
				if filepath.Dir(p) == op.Path {
					x.exists = true
				}
			}
		case "link":
			// hard link: both names refer to one inode (one shared file state)
			files[op.To] = get(op.Path)
		case "remove":
			delete(files, op.Path)
		case "removeall":
			for p := range files {
				if p == op.Path || strings.HasPrefix(p, op.Path+"/") {
					delete(files, p)
				}
			}
		case "rename":
			for p, f := range files {
				if p == op.Path {
					files[op.To] = f
					delete(files, p)
				} else if strings.HasPrefix(p, op.Path+"/") {
					files[op.To+p[len(op.Path):]] = f
					delete(files, p)
				}
			}
		}
	}
	return files
}

func applyOp(content []byte, op vos.Op, n int) []byte {
	if op.Kind == "truncate" {
		if int(op.Off) < len(content) {
			return content[:op.Off]
		}
		return append(content, make([]byte, int(op.Off)-len(content))...)
	}
	if n < 0 {
		n = len(op.Data)
	}
	return applyWrite(content, op, n)
}

type choice struct {
	n    int // number of pending writes fully applied
	torn int // bytes of the next one applied (0 = none)
	hole int // 1 + index of one earlier pending write that did NOT reach the disk although later ones did (0 = none)
}

func choicesFor(f *fileState, o Options) []choice {
	var cs []choice
	for n := len(f.pending); n >= 0; n-- { // all applied first (process kill), then shorter prefixes
		cs = append(cs, choice{n, 0, 0})
		if o.Holes {
			for j := 0; j+1 < n; j++ {
				if f.pending[j].Kind == "write" {
					cs = append(cs, choice{n, 0, j + 1})
				}
			}
		}
		if o.Torn && n < len(f.pending) && f.pending[n].Kind == "write" && len(f.pending[n].Data) > 1 {
			l := len(f.pending[n].Data)
			cs = append(cs, choice{n, l / 2, 0})
			for b := 512; b < l; b += 512 {
				if b != l/2 {
					cs = append(cs, choice{n, b, 0})
				}
			}
		}
	}
	return cs
}

// Image is one materialisable crash image.
type Image struct {
	Point  int               // crash after ops[0:Point]
	Marks  []string          // harness markers seen before the crash point
	Files  map[string][]byte // path (as recorded) -> content
	Dirs   []string
	Desc   string // per-file "applied/pending+torn" description
	Hash   [32]byte
	Capped bool
	LastOp string
}

type Stats struct {
	Points, Images, Distinct int
	CapsHit                  int
}

// Enumerate calls visit for every distinct image of every crash point of the journal. visit runs on the
// caller's goroutine; return false to stop.
func Enumerate(ops []vos.Op, o Options, seen map[[32]byte]bool, visit func(img *Image) bool) Stats {
	var st Stats
	if o.MaxPerPoint == 0 {
		o.MaxPerPoint = 4096
	}
	for k := 0; k <= len(ops); k++ {
		if k > 0 && ops[k-1].Kind == "mark" {
			// the marker itself changes nothing on disk, but acknowledgements change the obligations: keep it
		}
		st.Points++
		marks := append([]string{}, o.Marks...)
		for _, op := range ops[:k] {
			if op.Kind == "mark" {
				marks = append(marks, op.Note)
			}
		}
		files := stateAt(ops, k, o)
		var names []string
		for p := range files {
			names = append(names, p)
		}
		sort.Strings(names)
		var lists [][]choice
		total := 1
		for _, p := range names {
			f := files[p]
			cs := []choice{{0, 0, 0}}
			if !f.isDir && f.exists {
				cs = choicesFor(f, o)
			}
			lists = append(lists, cs)
			if total <= o.MaxPerPoint {
				total *= len(cs)
			}
		}
		capped := false
		if total > o.MaxPerPoint {
			total = o.MaxPerPoint
			capped = true
			st.CapsHit++
		}
		idx := make([]int, len(names))
		last := ""
		if k > 0 {
			last = ops[k-1].Kind + " " + filepath.Base(ops[k-1].Path)
		}
		for it := 0; it < total; it++ {
			img := &Image{Point: k, Marks: marks, Files: map[string][]byte{}, Capped: capped, LastOp: last}
			h := sha256.New()
			for i, p := range names {
				f := files[p]
				if !f.exists {
					continue
				}
				if f.isDir {
					img.Dirs = append(img.Dirs, p)
					h.Write([]byte("D" + p))
					continue
				}
				c := lists[i][idx[i]]
				content := append([]byte{}, f.durable...)
				for j := 0; j < c.n; j++ {
					if j+1 == c.hole {
						continue
					}
					content = applyOp(content, f.pending[j], -1)
				}
				if c.torn > 0 {
					content = applyOp(content, f.pending[c.n], c.torn)
				}
				img.Files[p] = content
				h.Write([]byte("F" + p))
				h.Write(content)
				if len(f.pending) > 0 {
					hole := ""
					if c.hole > 0 {
						hole = fmt.Sprintf("-w%d", c.hole-1)
					}
					img.Desc += fmt.Sprintf("%s:%d/%d+%d%s ", filepath.Base(filepath.Dir(p))+"/"+filepath.Base(p), c.n, len(f.pending), c.torn, hole)
				}
			}
			h.Write([]byte(strings.Join(marks, "|")))
			copy(img.Hash[:], h.Sum(nil))
			st.Images++
			if !seen[img.Hash] {
				seen[img.Hash] = true
				st.Distinct++
				if !visit(img) {
					return st
				}
			}
			for i := 0; i < len(idx); i++ {
				idx[i]++
				if idx[i] < len(lists[i]) {
					break
				}
				idx[i] = 0
			}
		}
	}
	return st
}

// Materialise writes the image under dst, mapping the recorded root directory live to dst.
func (img *Image) Materialise(live, dst string) error {
	os.RemoveAll(dst)
	if err := os.MkdirAll(dst, 0755); err != nil {
		return err
	}
	m := func(p string) string {
		if p == live {
			return dst
		}
		return dst + strings.TrimPrefix(p, live)
	}
	for _, d := range img.Dirs {
		if !strings.HasPrefix(d, live) {
			continue
		}
		if err := os.MkdirAll(m(d), 0755); err != nil {
			return err
		}
	}
	for p, c := range img.Files {
		if !strings.HasPrefix(p, live) {
			continue
		}
		np := m(p)
		// a file whose directory entry is durable implies its ancestors are
		if err := os.MkdirAll(filepath.Dir(np), 0755); err != nil {
			return err
		}
		if err := os.WriteFile(np, c, 0644); err != nil {
			return err
		}
	}
	return nil
}
