package main

import (
	"fmt"
	"os"
	"runtime"
	"runtime/pprof"
	"time"

	"github.com/codenotary/immudb/embedded/logger"
	"github.com/codenotary/immudb/embedded/store"
)

func sopts() *store.Options {
	return store.DefaultOptions().WithLogger(logger.NewMemoryLoggerWithLevel(logger.LogError)).
		WithFileSize(1 << 14).WithMaxTxEntries(8).WithMaxKeyLen(32).WithMaxValueLen(64).WithMaxConcurrency(2).WithMaxIOConcurrency(1).
		WithMaxActiveTransactions(4).WithTxLogCacheSize(4).WithVLogCacheSize(0).WithWriteBufferSize(1024).
		WithAHTOptions(store.DefaultAHTOptions().WithWriteBufferSize(1024).WithSyncThld(4)).WithSynced(false).
		WithIndexOptions(store.DefaultIndexOptions().WithFlushBufferSize(1024).WithCacheSize(16).WithMaxNodeSize(512))
}

func main() {
	runtime.MemProfileRate = 1
	d, _ := os.MkdirTemp("/dev/shm", "probe")
	defer os.RemoveAll(d)
	st, err := store.Open(d, sopts())
	if err != nil {
		panic(err)
	}
	st.Close()
	var ms runtime.MemStats
	runtime.ReadMemStats(&ms)
	a := ms.TotalAlloc
	t := time.Now()
	for i := 0; i < 20; i++ {
		st, err = store.Open(d, sopts())
		if err != nil {
			panic(err)
		}
		st.Close()
	}
	runtime.ReadMemStats(&ms)
	fmt.Println("per open:", (ms.TotalAlloc-a)/20, "bytes", time.Since(t)/20)
	f, _ := os.Create("/tmp/mem.prof")
	pprof.Lookup("allocs").WriteTo(f, 0)
	f.Close()
}
