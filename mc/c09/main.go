// C09 — corruption of stored data is detected, never served as valid.
//
// Space (enumerated completely, no sampling): small real stores built with embedded/store (3 transactions:
// multi-entry and single-entry txs, tx metadata (extra, truncatedUpto), KV metadata (deleted / non-indexable /
// expirable), an empty value, a 1-byte value, values crossing a chunk boundary; file size 256 => tx log and value logs have
// several chunks) in the configurations plain / flate value logs x MaxIOConcurrency 1 / 2 and embedded values.
// Sites = every byte of every committed tx-log record (embedded: the whole committed tx-log range incl. the
// embedded values) and every byte of every referenced value-log range (flate: length prefix + compressed bytes).
// Alteration operators per site: every single-bit flip, byte <- 00, byte <- FF, byte <- ^b (distinct results only);
// thorough tier additionally every pair of bit flips whose bytes are less than 8 bytes apart in the same log and
// not both inside opaque fields (digests, value bytes). Quick tier: plain-io1, embedded, flate-io1 completely,
// plain-io2 for vLen / vOff / value-log bytes; index rebuilt. Thorough: all 5 configurations, rebuilt and persisted index.
//
// Each alteration is patched into a private copy of the store directory and the store is then read through
//
//	Open (multi-indexing mode: no indexer yet), ReadTx, ReadValue of every entry, ReadTxHeader, ReadTxEntry of every
//	key, NewTxReader ascending and descending over the whole range, ExportTx, DualProof(i,j)+VerifyDualProof for all
//	i<=j, then InitIndexing, WaitForIndexingUpto, Get / GetWithFilters(no filter) + Resolve of every key
//
// with the index directory removed (index rebuilt from the altered log by InitIndexing after the reads) and, thorough
// tier, also with the index that was persisted before the alteration.
//
// Oracle (only what the property states): every observation is an error OR exactly the pristine observation
// (ids, header fields incl. Alh, keys, metadata, value hashes, value lengths, values, exported bytes, proofs).
// With a rebuilt index that stopped at tx k (tx k+1 unreadable) Get is compared with the pristine Get at k.
// Never a panic (also not in a store goroutine: when a read panics, the index part runs in a child process: a
// panicking indexer goroutine kills the process), never a hang (a sweep takes milliseconds; > 60 s three times in a row =
// hang; a mutex left locked by a returning API call is detected directly and confirmed by 3 real 60 s waits).
// NOT compared: the physical locator vOff, error texts, anything timing related.
package main

import (
	"bytes"
	"compress/flate"
	"context"
	"crypto/sha256"
	"encoding/binary"
	"encoding/gob"
	"encoding/hex"
	"encoding/json"
	"errors"
	"flag"
	"fmt"
	"io"
	"os"
	"os/exec"
	"path/filepath"
	"reflect"
	"runtime"
	"runtime/pprof"
	"runtime/debug"
	"sort"
	"strings"
	"sync"
	"sync/atomic"
	"time"
	"unsafe"

	"github.com/codenotary/immudb/embedded/appendable"
	"github.com/codenotary/immudb/embedded/logger"
	"github.com/codenotary/immudb/embedded/store"
	"verif/mc/lib"
)

const (
	fileSize     = 256
	maxTxEntries = 4
	maxKeyLen    = 8
	nTx          = 3
	heavyAlloc   = 32 << 20 // predicted allocation that sends an alteration to a child process
)

var (
	debugFDs    = os.Getenv("C09_DEBUG") != ""
	failedOpens atomic.Int64
	ballast     []byte
	c           *lib.Check
	hangCap     = 60 * time.Second
	nolog       = logger.NewSimpleLoggerWithLevel("c09", io.Discard, logger.LogError)
)

type cfg struct {
	Name     string
	Flate    bool
	Embedded bool
	IO       int
	VCache   bool // value-log cache enabled, and the sweep starts with unchecked (skipIntegrityCheck) exports of every tx
}

var allCfgs = []cfg{
	{"plain-io1", false, false, 1, false}, {"embedded", false, true, 1, false}, {"flate-io1", true, false, 1, false},
	{"plain-io2", false, false, 2, false}, {"plain-io1-vcache", false, false, 1, true}, {"flate-io2", true, false, 2, false},
}

func options(cf cfg) *store.Options {
	comp := appendable.NoCompression
	if cf.Flate {
		comp = appendable.FlateCompression
	}
	vcache := 0
	if cf.VCache {
		vcache = 16
	}
	return store.DefaultOptions().WithSynced(false).WithLogger(nolog).WithFileSize(fileSize).WithVLogCacheSize(vcache).
		WithMaxConcurrency(2).WithMaxIOConcurrency(cf.IO).WithMaxTxEntries(maxTxEntries).WithMaxKeyLen(maxKeyLen).
		WithMaxValueLen(1024).WithWriteBufferSize(1024).WithTxLogCacheSize(2).WithMaxActiveTransactions(4).
		WithMaxWaitees(4).WithCompressionFormat(comp).WithEmbeddedValues(cf.Embedded).WithMultiIndexing(true).
		WithTimeFunc(func() time.Time { return time.Unix(1_700_000_000, 0) }).
		WithIndexOptions(store.DefaultIndexOptions().WithCacheSize(16).WithFlushBufferSize(4096).WithMaxActiveSnapshots(4)).
		WithAHTOptions(store.DefaultAHTOptions().WithWriteBufferSize(1024).WithSyncThld(4))
}

// ---------- the history ----------

type kv struct {
	key  string
	val  []byte
	kind int // 0 plain, 1 deleted, 2 non-indexable, 3 expirable
}

func noise(seed byte, n int) []byte { // deterministic, incompressible
	var out []byte
	h := sha256.Sum256([]byte{seed})
	for len(out) < n {
		out = append(out, h[:]...)
		h = sha256.Sum256(h[:])
	}
	return out[:n]
}

var history = [nTx][]kv{
	{{"k1", []byte("one"), 0}, {"k2", nil, 0}, {"k3", noise(3, 130), 0}},
	{{"k1", []byte("uno-2"), 0}, {"k2", nil, 1}, {"k4", []byte("hidden"), 2}, {"k3", noise(7, 130), 3}},
	{{"k5", []byte("x"), 0}},
}
var allKeys = []string{"k1", "k2", "k3", "k4", "k5", "k9"}

func txMetadata(t int) *store.TxMetadata {
	switch t {
	case 1:
		md := store.NewTxMetadata()
		md.WithExtra([]byte("xtra"))
		return md
	case 2:
		md := store.NewTxMetadata().WithTruncatedTxID(1)
		md.WithExtra([]byte("e3"))
		return md
	}
	return nil
}

type Obs map[string]string

type pristine struct {
	cf      cfg
	master  string            // directory never opened again
	files   map[string][]byte // relative path -> content of the master
	getAt   [nTx + 1]Obs
	reads   Obs // pristine observations of everything but the index
	alh     [nTx + 1][sha256.Size]byte
	sites   []site
	regions []region
	entries []entryPos
	hash    string
	saved   string // file holding the above for child processes
}

var scratchRoot string

func harnessBug(f string, a ...any) {
	fmt.Fprintf(os.Stderr, "HARNESS ERROR: "+f+"\n", a...)
	if scratchRoot != "" {
		os.RemoveAll(scratchRoot)
	}
	os.Exit(2)
}

func build(cf cfg, dir string) *pristine {
	p := &pristine{cf: cf, master: dir}
	os.MkdirAll(filepath.Dir(dir), 0755)
	st, err := store.Open(dir, options(cf))
	if err != nil {
		harnessBug("build open: %v", err)
	}
	if err := st.InitIndexing(&store.IndexSpec{}); err != nil {
		harnessBug("build: %v", err)
	}
	p.getAt[0] = Obs{}
	getObs(st, p.getAt[0])
	for t, kvs := range history {
		tx, err := st.NewTx(context.Background(), store.DefaultTxOptions())
		if err != nil {
			harnessBug("newtx: %v", err)
		}
		if md := txMetadata(t); md != nil {
			tx.WithMetadata(md)
		}
		for _, e := range kvs {
			var md *store.KVMetadata
			switch e.kind {
			case 1:
				md = store.NewKVMetadata()
				md.AsDeleted(true)
			case 2:
				md = store.NewKVMetadata()
				md.AsNonIndexable(true)
			case 3:
				md = store.NewKVMetadata()
				md.ExpiresAt(time.Date(2100, 1, 1, 0, 0, 0, 0, time.UTC))
			}
			if err := tx.Set([]byte(e.key), md, e.val); err != nil {
				harnessBug("set: %v", err)
			}
		}
		if _, err := tx.Commit(context.Background()); err != nil {
			harnessBug("commit: %v", err)
		}
		if err := st.WaitForIndexingUpto(context.Background(), uint64(t+1)); err != nil {
			harnessBug("wait: %v", err)
		}
		p.getAt[t+1] = Obs{}
		getObs(st, p.getAt[t+1])
	}
	if err := st.FlushIndexes(0, true); err != nil {
		harnessBug("flush: %v", err)
	}
	if err := st.Close(); err != nil {
		harnessBug("close: %v", err)
	}
	p.files = readTree(dir)
	h := sha256.New()
	var names []string
	for n := range p.files {
		names = append(names, n)
	}
	sort.Strings(names)
	for _, n := range names {
		if strings.HasPrefix(n, "tx/") || strings.HasPrefix(n, "val_") || strings.HasPrefix(n, "commit/") {
			h.Write([]byte(n)) // data part only: the appendable header serialises a Go map (order varies)
			h.Write(p.files[n][4+binary.BigEndian.Uint32(p.files[n]):])
		}
	}
	p.hash = hex.EncodeToString(h.Sum(nil)[:8])
	p.layout()
	return p
}

func readTree(dir string) map[string][]byte {
	out := map[string][]byte{}
	filepath.Walk(dir, func(path string, info os.FileInfo, err error) error {
		if err == nil && info.Mode().IsRegular() {
			rel, _ := filepath.Rel(dir, path)
			b, err := os.ReadFile(path)
			if err != nil {
				harnessBug("read %s: %v", path, err)
			}
			out[rel] = b
		}
		return nil
	})
	return out
}

func writeTree(dir string, files map[string][]byte, only string) {
	for rel, b := range files {
		if only != "" && !strings.HasPrefix(rel, only) {
			continue
		}
		p := filepath.Join(dir, rel)
		os.MkdirAll(filepath.Dir(p), 0755)
		if err := os.WriteFile(p, b, 0644); err != nil {
			harnessBug("write %s: %v", p, err)
		}
	}
}

// ---------- layout: committed byte ranges and their classification ----------

type site struct {
	Log   string // "tx", "val_0", ...
	Chunk int
	In    int // offset inside the chunk's data part
	file  string
	phys  int64
	orig  byte
	reg   int
}

func (s site) off() int { return s.Chunk*fileSize + s.In }

type region struct {
	Field string
	Tx    int // 1-based
	Entry int // -1 for header fields
}

type entryPos struct { // where vLen / vOff of an entry live in the tx log (logical offsets)
	tx, entry  int
	vLen, vOff int
}

// chunkData returns the data part (header stripped) of chunk i of a log, and the header length.
func (p *pristine) chunkData(log, ext string, i int) ([]byte, int, string, bool) {
	rel := fmt.Sprintf("%s/%08d.%s", log, i, ext)
	b, ok := p.files[rel]
	if !ok {
		return nil, 0, rel, false
	}
	hl := 4 + int(binary.BigEndian.Uint32(b))
	return b[hl:], hl, rel, true
}

// linear returns the logical image of a log whose entries are split at chunk boundaries (plain logs).
func (p *pristine) linear(log, ext string) []byte {
	var out []byte
	for i := 0; ; i++ {
		d, _, _, ok := p.chunkData(log, ext, i)
		if !ok {
			return out
		}
		if len(out) != i*fileSize {
			harnessBug("%s: chunk %d does not start at a multiple of the file size", log, i)
		}
		out = append(out, d...)
	}
}

func (p *pristine) layout() {
	cl := p.linear("commit", "txi")
	if len(cl) != nTx*44 {
		harnessBug("commit log holds %d bytes, want %d", len(cl), nTx*44)
	}
	txl := p.linear("tx", "tx")
	type span struct {
		log      string
		from, to int // logical, for plain logs
		reg      int
		flate    bool
	}
	var spans []span
	add := func(log string, from, n int, f string, tx, entry int) {
		p.regions = append(p.regions, region{f, tx, entry})
		spans = append(spans, span{log, from, from + n, len(p.regions) - 1, false})
	}
	prevEnd := 0
	for t := 1; t <= nTx; t++ {
		off := int(binary.BigEndian.Uint64(cl[(t-1)*44:]))
		size := int(binary.BigEndian.Uint32(cl[(t-1)*44+8:]))
		if p.cf.Embedded {
			add("tx", prevEnd, 2, "evLen", t, -1)
		} else if off != prevEnd {
			harnessBug("tx %d starts at %d, previous record ended at %d", t, off, prevEnd)
		}
		i := off
		for _, f := range []struct {
			n string
			l int
		}{{"hdr.ID", 8}, {"hdr.Ts", 8}, {"hdr.BlTxID", 8}, {"hdr.BlRoot", 32}, {"hdr.PrevAlh", 32}, {"hdr.Version", 2}, {"hdr.mdLen", 2}} {
			add("tx", i, f.l, f.n, t, -1)
			i += f.l
		}
		mdLen := int(binary.BigEndian.Uint16(txl[i-2:]))
		if mdLen > 0 {
			add("tx", i, mdLen, "hdr.md", t, -1)
			i += mdLen
		}
		add("tx", i, 4, "hdr.NEntries", t, -1)
		n := int(binary.BigEndian.Uint32(txl[i:]))
		i += 4
		if n != len(history[t-1]) {
			harnessBug("tx %d: %d entries in the log, %d in the history", t, n, len(history[t-1]))
		}
		for e := 0; e < n; e++ {
			add("tx", i, 2, "kv.mdLen", t, e)
			kmd := int(binary.BigEndian.Uint16(txl[i:]))
			i += 2
			if kmd > 0 {
				add("tx", i, kmd, "kv.md", t, e)
				i += kmd
			}
			add("tx", i, 2, "kLen", t, e)
			kl := int(binary.BigEndian.Uint16(txl[i:]))
			i += 2
			add("tx", i, kl, "key", t, e)
			i += kl
			add("tx", i, 4, "vLen", t, e)
			add("tx", i+4, 8, "vOff", t, e)
			p.entries = append(p.entries, entryPos{t, e, i, i + 4})
			vLen := int(binary.BigEndian.Uint32(txl[i:]))
			vOff := binary.BigEndian.Uint64(txl[i+4:])
			i += 12
			add("tx", i, 32, "hVal", t, e)
			i += 32
			if vLen != len(history[t-1][e].val) {
				harnessBug("tx %d entry %d: vLen %d", t, e, vLen)
			}
			if vLen == 0 {
				continue
			}
			id, vo := int(vOff>>56), int(vOff&(1<<55-1))
			switch {
			case p.cf.Embedded:
				add("tx", vo, vLen, "value", t, e)
			case !p.cf.Flate:
				add(fmt.Sprintf("val_%d", id-1), vo, vLen, "value", t, e)
			default:
				log := fmt.Sprintf("val_%d", id-1)
				d, _, _, ok := p.chunkData(log, "val", vo/fileSize)
				if !ok || vo%fileSize+4 > len(d) {
					harnessBug("tx %d entry %d: value offset %d outside %s", t, e, vo, log)
				}
				clen := int(binary.BigEndian.Uint32(d[vo%fileSize:]))
				p.regions = append(p.regions, region{"clen", t, e})
				spans = append(spans, span{log, vo, vo + 4, len(p.regions) - 1, true})
				p.regions = append(p.regions, region{"cvalue", t, e})
				spans = append(spans, span{log, vo + 4, vo + 4 + clen, len(p.regions) - 1, true})
			}
		}
		add("tx", i, 32, "alh", t, -1)
		i += 32
		if i != off+size {
			harnessBug("tx %d: parsed %d bytes, commit log says %d", t, i-off, size)
		}
		prevEnd = i
	}
	seen := map[string]bool{}
	for _, sp := range spans {
		ext := "val"
		if sp.log == "tx" {
			ext = "tx"
		}
		for o := sp.from; o < sp.to; o++ {
			ch, in := o/fileSize, o%fileSize
			if sp.flate { // a compressed entry is never split: it continues in the chunk it starts in
				ch, in = sp.from/fileSize, sp.from%fileSize+(o-sp.from)
			}
			d, hl, rel, ok := p.chunkData(sp.log, ext, ch)
			if !ok || in >= len(d) {
				harnessBug("%s offset %d (%s) is outside the files", sp.log, o, p.regions[sp.reg].Field)
			}
			k := fmt.Sprintf("%s/%d/%d", sp.log, ch, in)
			if seen[k] {
				harnessBug("site %s classified twice", k)
			}
			seen[k] = true
			p.sites = append(p.sites, site{sp.log, ch, in, rel, int64(hl + in), d[in], sp.reg})
		}
	}
	sort.SliceStable(p.sites, func(a, b int) bool {
		x, y := p.sites[a], p.sites[b]
		if x.Log != y.Log {
			return x.Log < y.Log
		}
		if x.Chunk != y.Chunk {
			return x.Chunk < y.Chunk
		}
		return x.In < y.In
	})
	if !p.cf.Embedded && prevEnd != len(txl) {
		harnessBug("tx log holds %d bytes, committed %d", len(txl), prevEnd)
	}
}

// ---------- observations ----------

func mdBytes(md interface{ Bytes() []byte }) string {
	if v := reflect.ValueOf(md); !v.IsValid() || v.IsNil() {
		return ""
	}
	return hex.EncodeToString(md.Bytes())
}

func encHdr(h *store.TxHeader) string {
	return fmt.Sprintf("id=%d ts=%d bl=%d blroot=%x prev=%x ver=%d md=%s n=%d eh=%x alh=%x",
		h.ID, h.Ts, h.BlTxID, h.BlRoot, h.PrevAlh, h.Version, mdBytes(h.Metadata), h.NEntries, h.Eh, h.Alh())
}

func encEntry(e *store.TxEntry) string {
	return fmt.Sprintf("{key=%x md=%s hval=%x}", e.Key(), mdBytes(e.Metadata()), e.HVal())
}

func encTx(tx *store.Tx) (string, string) {
	s, l := encHdr(tx.Header()), ""
	for _, e := range tx.Entries() {
		s += " " + encEntry(e)
		l += fmt.Sprintf("%d,", e.VLen())
	}
	return s, l
}

func encDual(p *store.DualProof) string {
	s := fmt.Sprintf("src=%s tgt=%s incl=%x cons=%x blalh=%x last=%x", encHdr(p.SourceTxHeader), encHdr(p.TargetTxHeader),
		p.InclusionProof, p.ConsistencyProof, p.TargetBlTxAlh, p.LastInclusionProof)
	if p.LinearProof != nil {
		s += fmt.Sprintf(" lin=%d-%d:%x", p.LinearProof.SourceTxID, p.LinearProof.TargetTxID, p.LinearProof.Terms)
	}
	if p.LinearAdvanceProof != nil {
		s += fmt.Sprintf(" adv=%x/%x", p.LinearAdvanceProof.LinearProofTerms, p.LinearAdvanceProof.InclusionProofs)
	}
	return s
}

// sweeper performs the read sweep of one opened store copy.
type sweeper struct {
	p            *pristine
	obs          Obs
	panicked     bool
	noUnchecked  bool // skip the unchecked exports (altered length fields: an unchecked read may allocate GiBs, which is not this property's subject)
	readPanicked bool // a read API panicked: the readable prefix ended there, not at an unreadable tx
	cur          *atomic.Value
	leaked       []string // API calls that returned with ImmuStore._valBsMux still locked
}

// call records one observation: "ok:<content>", "err:<text>" or "panic:<text>". Returns true on ok.
func (s *sweeper) call(key string, f func() (string, error)) bool {
	if s.panicked {
		return false
	}
	if s.cur != nil {
		s.cur.Store(key)
	}
	var r string
	var err error
	if pn := lib.Catch(func() { r, err = f() }); pn != "" {
		s.obs[key] = "panic:" + pn
		s.panicked = true
		return false
	}
	if err != nil {
		s.obs[key] = "err:" + err.Error()
		return false
	}
	s.obs[key] = "ok:" + r
	return true
}

func valBsMux(st *store.ImmuStore) *sync.Mutex {
	f := reflect.ValueOf(st).Elem().FieldByName("_valBsMux")
	if !f.IsValid() || f.Type() != reflect.TypeOf(sync.Mutex{}) {
		return nil
	}
	return (*sync.Mutex)(unsafe.Pointer(f.UnsafeAddr()))
}

func getObs(st *store.ImmuStore, obs Obs) { (&sweeper{obs: obs}).gets(st) }

func (s *sweeper) gets(st *store.ImmuStore) {
	for _, k := range allKeys {
		for _, api := range []string{"Get", "GetWithFilters"} {
			var ref store.ValueRef
			ok := s.call(api+"#"+k, func() (string, error) {
				var err error
				if api == "Get" {
					ref, err = st.Get(context.Background(), []byte(k))
				} else {
					ref, err = st.GetWithFilters(context.Background(), []byte(k))
				}
				if err != nil {
					return "", err
				}
				return fmt.Sprintf("tx=%d hc=%d txmd=%s kvmd=%s hval=%x", ref.Tx(), ref.HC(), mdBytes(ref.TxMetadata()), mdBytes(ref.KVMetadata()), ref.HVal()), nil
			})
			if ok {
				s.obs[api+".vLen#"+k] = fmt.Sprintf("ok:%d", ref.Len())
			}
			if ok && api != "Get" { // (Get returns the same reference or hides it: resolved once)
				s.call(api+".Resolve#"+k, func() (string, error) {
					v, err := ref.Resolve()
					return hex.EncodeToString(v), err
				})
			}
		}
	}
}

// sweep: Open (indexing not started: multi-indexing mode), every read API, then InitIndexing, wait for the index
// and Get. withIndex=false stops before InitIndexing. Returns the number of leading txs ReadTx could read
// (-1: Open failed) — the index is expected to reach exactly that tx (or nTx when it was persisted).
func (s *sweeper) sweep(dir string, persisted, indexAfterPanic bool, afterReads func(readable int)) (readable int) {
	var st *store.ImmuStore
	if !s.call("Open#", func() (string, error) {
		var err error
		st, err = store.Open(dir, options(s.p.cf))
		return "", err
	}) {
		afterReads(-1)
		// a failed Open does not close the appendables it opened: their descriptors are only released by finalizers
		if failedOpens.Add(1)%8 == 0 {
			for i := 0; i < 3 && openFDs() > 400; i++ {
				runtime.GC()
				time.Sleep(5 * time.Millisecond) // (the finalizer goroutine closes them)
			}
		}
		return -1
	}
	defer lib.Catch(func() { st.Close() })
	tx := store.NewTx(maxTxEntries, maxKeyLen)
	if s.p.cf.VCache && !s.noUnchecked {
		// what an unchecked read returns is not constrained by the property, but it must not influence the checked reads that follow
		for t := 1; t <= nTx; t++ {
			s.call(fmt.Sprintf("UncheckedExportTx#%d", t), func() (string, error) {
				_, err := st.ExportTx(uint64(t), false, true, tx)
				return "", err
			})
			if mux := valBsMux(st); mux != nil && !s.panicked {
				mux.TryLock()
				mux.Unlock()
			}
		}
	}
	prefix := true
	for t := 1; t <= nTx; t++ {
		var vl string
		ok := s.call(fmt.Sprintf("ReadTx#%d", t), func() (r string, err error) {
			if err = st.ReadTx(uint64(t), false, tx); err == nil {
				r, vl = encTx(tx)
			}
			return
		})
		if ok {
			s.obs[fmt.Sprintf("ReadTx.vLen#%d", t)] = "ok:" + vl
			for i, e := range tx.Entries() {
				s.call(fmt.Sprintf("ReadValue#%d/%d", t, i), func() (string, error) {
					v, err := st.ReadValue(e)
					return hex.EncodeToString(v), err
				})
			}
		}
		if ok && prefix {
			readable = t
		} else {
			prefix = false
		}
	}
	hdrs := make([]*store.TxHeader, nTx+1)
	for t := 1; t <= nTx; t++ {
		s.call(fmt.Sprintf("ReadTxHeader#%d", t), func() (string, error) {
			h, err := st.ReadTxHeader(uint64(t), false, false)
			if err != nil {
				return "", err
			}
			hdrs[t] = h
			return encHdr(h), nil
		})
		for _, e := range history[t-1] {
			var ent *store.TxEntry
			ok := s.call(fmt.Sprintf("ReadTxEntry#%d/%s", t, e.key), func() (string, error) {
				en, h, err := st.ReadTxEntry(uint64(t), []byte(e.key), false)
				if err != nil {
					return "", err
				}
				ent = en
				return encEntry(en) + " " + encHdr(h), nil
			})
			if ok { // (ReadValue of this entry would repeat ReadValue#t/i: same parser, same bytes)
				s.obs[fmt.Sprintf("ReadTxEntry.vLen#%d/%s", t, e.key)] = fmt.Sprintf("ok:%d", ent.VLen())
			}
		}
	}
	for _, desc := range []bool{false, true} {
		name, first := "TxReader.asc", uint64(1)
		if desc {
			name, first = "TxReader.desc", nTx
		}
		var r *store.TxReader
		if !s.call(name+"#new", func() (string, error) {
			var err error
			r, err = st.NewTxReader(first, desc, tx)
			return "", err
		}) {
			continue
		}
		for i := 0; i <= nTx; i++ { // the read after the last tx must report the end
			if !s.call(fmt.Sprintf("%s#%d", name, i), func() (string, error) {
				rtx, err := r.Read()
				if i == nTx && errors.Is(err, store.ErrNoMoreEntries) {
					return "end", nil
				}
				if err != nil {
					return "", err
				}
				e, _ := encTx(rtx)
				return e, nil
			}) {
				break
			}
		}
	}
	mux := valBsMux(st)
	for t := 1; t <= nTx; t++ {
		key := fmt.Sprintf("ExportTx#%d", t)
		s.call(key, func() (string, error) {
			b, err := st.ExportTx(uint64(t), false, false, tx)
			return hex.EncodeToString(b), err
		})
		if mux != nil && !s.panicked {
			if !mux.TryLock() {
				s.leaked = append(s.leaked, key) // reported by the caller once confirmed by real waits
			}
			mux.Unlock() // (unlocking what ExportTx left locked lets the sweep continue)
		}
	}
	for i := 1; i <= nTx; i++ {
		for j := i; j <= nTx; j++ {
			if hdrs[i] == nil || hdrs[j] == nil {
				continue
			}
			s.call(fmt.Sprintf("DualProof#%d-%d", i, j), func() (string, error) {
				pr, err := st.DualProof(hdrs[i], hdrs[j])
				if err != nil {
					return "", err
				}
				return fmt.Sprintf("%s verifies=%v", encDual(pr), store.VerifyDualProof(pr, uint64(i), uint64(j), s.p.alh[i], s.p.alh[j])), nil
			})
		}
	}
	afterReads(readable)
	readPanicked := s.panicked
	s.readPanicked = readPanicked
	if s.panicked {
		if !indexAfterPanic {
			return readable
		}
		s.panicked = false // child process: go on, an indexer goroutine hitting the same panic kills the process
	}
	upto := readable
	if persisted {
		upto = nTx
	}
	if s.call("InitIndexing#", func() (string, error) { return "", st.InitIndexing(&store.IndexSpec{}) }) &&
		s.call("WaitForIndexingUpto#", func() (string, error) {
			ctx, cancel := context.WithTimeout(context.Background(), hangCap+10*time.Second)
			defer cancel()
			return "", st.WaitForIndexingUpto(ctx, uint64(upto))
		}) {
		if readPanicked && upto < nTx {
			// let the indexer reach the tx whose read panicked before going on: either the process dies now (reported by
			// the parent) or the indexer survives that tx; never a crash at an arbitrary later moment
			ctx, cancel := context.WithTimeout(context.Background(), 5*time.Second)
			st.WaitForIndexingUpto(ctx, uint64(upto+1))
			cancel()
		}
		s.gets(st)
	}
	return readable
}

// ---------- alterations ----------

type patch struct {
	Site int    `json:"site"`
	New  byte   `json:"new"`
	Op   string `json:"op"`
}

type alteration []patch // 1 or 2 patches

func (p *pristine) altString(a alteration) string {
	var parts []string
	for _, x := range a {
		s := p.sites[x.Site]
		parts = append(parts, fmt.Sprintf("%s+%d:%s", s.Log, s.off(), x.Op))
	}
	return strings.Join(parts, ",")
}

func (p *pristine) singles(si int) []alteration {
	b := p.sites[si].orig
	var out []alteration
	seen := map[byte]bool{b: true}
	add := func(n byte, op string) {
		if !seen[n] {
			seen[n] = true
			out = append(out, alteration{{si, n, op}})
		}
	}
	for i := 0; i < 8; i++ {
		add(b^(1<<i), fmt.Sprintf("flip%d", i))
	}
	add(0x00, "set00")
	add(0xFF, "setFF")
	add(^b, "inv")
	return out
}

// opaque: fields that the store only hashes or compares as a whole (digests, value bytes).
func opaque(field string) bool {
	switch field {
	case "alh", "hVal", "hdr.BlRoot", "hdr.PrevAlh", "value", "cvalue":
		return true
	}
	return false
}

// pairs: two bit flips, the first one in site si, the second one in the same byte (higher bit) or in a following
// site of the same log less than 8 bytes away; pairs with both bytes in opaque fields are left out.
func (p *pristine) pairs(si int) []alteration {
	var out []alteration
	s := p.sites[si]
	op := opaque(p.regions[s.reg].Field)
	for i := 0; i < 8 && !op; i++ {
		for j := i + 1; j < 8; j++ {
			out = append(out, alteration{{si, s.orig ^ (1 << i) ^ (1 << j), fmt.Sprintf("flip%d+%d", i, j)}})
		}
	}
	for sj := si + 1; sj < len(p.sites); sj++ {
		t := p.sites[sj]
		if t.Log != s.Log || t.off()-s.off() >= 8 || t.off() < s.off() {
			break
		}
		if op && opaque(p.regions[t.reg].Field) {
			continue
		}
		for i := 0; i < 8; i++ {
			for j := 0; j < 8; j++ {
				out = append(out, alteration{{si, s.orig ^ (1 << i), fmt.Sprintf("flip%d", i)}, {sj, t.orig ^ (1 << j), fmt.Sprintf("flip%d", j)}})
			}
		}
	}
	return out
}

// predictAlloc: the largest buffer a read will allocate because of the alteration: vLen of an entry and — compressed
// value logs — every length prefix the (real) read loop will come across: a value shorter than requested is
// "continued" at the following offset, whose bytes are then taken as a length prefix. Only used to decide WHERE
// the alteration is run (child process with the collector off), never by the oracle.
func (p *pristine) predictAlloc(a alteration) int64 {
	chunk := func(log string, ch int) ([]byte, bool) { // data part of a chunk, after patching
		ext := "val"
		if log == "tx" {
			ext = "tx"
		}
		d, _, _, ok := p.chunkData(log, ext, ch)
		if !ok {
			return nil, false
		}
		for _, x := range a {
			if s := p.sites[x.Site]; s.Log == log && s.Chunk == ch {
				d = append([]byte{}, d...)
				for _, y := range a {
					if t := p.sites[y.Site]; t.Log == log && t.Chunk == ch {
						d[t.In] = y.New
					}
				}
				break
			}
		}
		return d, true
	}
	txInt := func(off, n int) uint64 { // big-endian integer at a logical offset of the (plain) tx log
		var v uint64
		for i := 0; i < n; i++ {
			d, ok := chunk("tx", (off+i)/fileSize)
			if !ok {
				return 0
			}
			v = v<<8 | uint64(d[(off+i)%fileSize])
		}
		return v
	}
	var max int64
	for _, e := range p.entries {
		vLen := int64(txInt(e.vLen, 4))
		if vLen > max {
			max = vLen
		}
		if !p.cf.Flate || vLen == 0 {
			continue
		}
		vo := txInt(e.vOff, 8)
		id, off := int(vo>>56), int64(vo&(1<<55-1))
		if id < 1 || id > p.cf.IO {
			continue
		}
		log := fmt.Sprintf("val_%d", id-1)
		for r := int64(0); r < vLen; { // multiapp.ReadAt over singleapp.ReadAt (compressed)
			o := off + r
			if o/fileSize > 1<<20 {
				break
			}
			d, ok := chunk(log, int(o/fileSize))
			in := int(o % fileSize)
			if !ok || in+4 > len(d) {
				break
			}
			clen := int64(binary.BigEndian.Uint32(d[in:]))
			if clen > max {
				max = clen
			}
			if int64(in)+4+clen > int64(len(d)) {
				break
			}
			out, _ := io.ReadAll(flate.NewReader(bytes.NewReader(d[in+4 : in+4+int(clen)])))
			n := int64(len(out))
			if n > vLen-r {
				n = vLen - r
			}
			if n == 0 {
				break
			}
			r += n
		}
	}
	return max
}

func (p *pristine) heavy(a alteration) bool { return p.predictAlloc(a) >= heavyAlloc }

// worker owns a private copy of the store.
type worker struct {
	p     *pristine
	root  string
	dir   string
	n     int
	child *childProc
}

func newWorker(p *pristine, root string) *worker {
	w := &worker{p: p, root: root}
	w.fresh()
	return w
}

func (w *worker) fresh() {
	w.n++
	w.dir = filepath.Join(w.root, fmt.Sprintf("c%d", w.n), "s")
	writeTree(w.dir, w.p.files, "")
}

func (w *worker) patch(a alteration, restore bool) {
	for _, x := range a {
		s := w.p.sites[x.Site]
		f, err := os.OpenFile(filepath.Join(w.dir, s.file), os.O_RDWR, 0)
		if err != nil {
			harnessBug("patch: %v", err)
		}
		b := x.New
		if restore {
			b = s.orig
		}
		if _, err := f.WriteAt([]byte{b}, s.phys); err != nil {
			harnessBug("patch: %v", err)
		}
		f.Close()
	}
}

// selfCheck: the logs of the private copy are still byte-identical to the master.
func (w *worker) selfCheck() {
	for rel, b := range w.p.files {
		if strings.HasPrefix(rel, "tx/") || strings.HasPrefix(rel, "val_") || strings.HasPrefix(rel, "commit/") {
			if got, err := os.ReadFile(filepath.Join(w.dir, rel)); err != nil || !bytes.Equal(got, b) {
				harnessBug("%s: private copy of %s changed during the run (err=%v)", w.p.cf.Name, rel, err)
			}
		}
	}
}

type outcome struct {
	Evals     int64           `json:"evals"`
	Detected  bool            `json:"detected"`
	Example   string          `json:"example"` // one detecting observation
	Viol      []lib.Violation `json:"viol"`
	Leaks     []lib.Violation `json:"leaks"`      // hang candidates (mutex left locked); reported once confirmed
	NeedChild bool            `json:"need_child"` // a read panicked: the index part must run in a child process
	Partial   bool            `json:"partial"`    // child: written before the index part started
}

type replay struct {
	Cfg     string     `json:"cfg"`
	Alt     alteration `json:"alt"`
	AltDesc string     `json:"alt_desc"`
	Index   string     `json:"index"`
	Hash    string     `json:"store_hash"`
}

func (p *pristine) describe(a alteration) (field string, tx, entry int) {
	var fs []string
	for _, x := range a {
		r := p.regions[p.sites[x.Site].reg]
		if len(fs) == 0 || fs[len(fs)-1] != r.Field {
			fs = append(fs, r.Field)
		}
		tx, entry = r.Tx, r.Entry
	}
	return strings.Join(fs, "+"), tx, entry
}

// guarded runs f under the hang cap. false: f did not return in time (its goroutine is abandoned).
func openFDs() int {
	es, _ := os.ReadDir("/proc/self/fd")
	return len(es)
}

func guarded(f func()) bool {
	done := make(chan struct{})
	go func() { defer close(done); f() }()
	t := time.NewTimer(hangCap)
	defer t.Stop()
	select {
	case <-done:
		return true
	case <-t.C:
		return false
	}
}

func short(s string, n int) string {
	if len(s) > n {
		return s[:n] + "…"
	}
	return s
}

func apiOf(key string) string { return key[:strings.IndexByte(key, '#')] }

// compare applies the oracle to the observations made so far (want: pristine observations of the same calls).
func (p *pristine) compare(a alteration, want, got Obs, mode string, leaked []string, out *outcome) {
	field, tx, entry := p.describe(a)
	where := fmt.Sprintf("field=%s cfg=%s tx=%d entry=%d alt=%s index=%s", field, p.cf.Name, tx, entry, p.altString(a), mode)
	rp := replay{p.cf.Name, a, p.altString(a), mode, p.hash}
	byAPI := map[string][]string{}
	keys := make([]string, 0, len(want))
	for k := range want {
		keys = append(keys, k)
	}
	sort.Strings(keys)
	changed := false
	for _, k := range keys {
		out.Evals++
		w, g := want[k], got[k]
		if strings.HasPrefix(k, "Unchecked") && !strings.HasPrefix(g, "panic:") {
			continue
		}
		switch {
		case strings.HasPrefix(g, "panic:"):
			out.Viol = append(out.Viol, lib.Violation{Sig: fmt.Sprintf("panic api=%s %s", apiOf(k), where),
				Detail: fmt.Sprintf("%s panicked after the alteration: %s", k, short(g[6:], 1200)), Replay: rp})
			out.NeedChild, out.Detected = true, true
		case g == "" || strings.HasPrefix(g, "err:"): // an error, or not reached because an earlier call failed: fine
			if strings.HasPrefix(w, "ok:") {
				if out.Detected = true; g != "" && out.Example == "" {
					out.Example = k + " -> " + short(g, 200)
				}
			}
		case g != w:
			changed = true
			d := 0 // show both from (a little before) the first difference
			for d < len(w) && d < len(g) && w[d] == g[d] {
				d++
			}
			if d = d - 24; d < 0 || len(w) < 300 {
				d = 0
			}
			byAPI[apiOf(k)] = append(byAPI[apiOf(k)], fmt.Sprintf("%s: pristine [%d:]%s, now [%d:]%s", k, d, short(w[d:], 300), d, short(g[d:], 300)))
		}
	}
	for k := range got {
		if _, ok := want[k]; !ok && !changed { // (a pristine error that became a success brings its sub-observations)
			harnessBug("observation %s has no pristine counterpart", k)
		}
	}
	for api, ds := range byAPI {
		part := ""
		if i := strings.IndexByte(api, '.'); i >= 0 && !strings.HasPrefix(api, "TxReader") {
			api, part = api[:i], " out="+api[i+1:]
		}
		out.Viol = append(out.Viol, lib.Violation{Sig: fmt.Sprintf("silent-change api=%s %s%s", api, where, part),
			Detail: "no error, but the result differs from the committed content:\n" + strings.Join(ds, "\n"), Replay: rp})
	}
	for _, k := range leaked {
		out.Leaks = append(out.Leaks, lib.Violation{Sig: fmt.Sprintf("hang api=ExportTx %s", where),
			Detail: fmt.Sprintf("%s returned (%s) with ImmuStore._valBsMux still locked: every later ExportTx on this store blocks forever", k, short(got[k], 200)), Replay: rp})
	}
}

// want returns the pristine observations for a sweep whose index reaches tx upto.
func (p *pristine) want(upto int, withIndex bool) Obs {
	w := Obs{}
	for k, v := range p.reads {
		w[k] = v
	}
	if withIndex && upto >= 0 {
		w["InitIndexing#"], w["WaitForIndexingUpto#"] = "ok:", "ok:"
		for k, v := range p.getAt[upto] {
			w[k] = v
		}
	}
	return w
}

// run executes one alteration on the worker's private copy. mode "rebuilt": no index directory (the index is
// rebuilt from the altered logs); "persisted": the index directory written before the alteration.
func (w *worker) run(a alteration, mode string, indexAfterPanic bool, partial func(outcome)) outcome {
	p := w.p
	for attempt := 1; ; attempt++ {
		out := &outcome{}
		var cur atomic.Value
		cur.Store("?")
		ok := guarded(func() {
			w.patch(a, false)
			if mode == "rebuilt" {
				os.RemoveAll(filepath.Join(w.dir, "index"))
			}
			s := &sweeper{p: p, obs: Obs{}, cur: &cur, noUnchecked: a != nil && p.heavy(a)}
			readable := s.sweep(w.dir, mode == "persisted", indexAfterPanic, func(r int) {
				if partial != nil {
					po := outcome{Partial: true}
					p.compare(a, p.want(r, false), s.obs, mode, s.leaked, &po)
					partial(po)
				}
			})
			upto := readable
			if mode == "persisted" && readable >= 0 {
				upto = nTx
			}
			_, indexed := s.obs["InitIndexing#"]
			if s.readPanicked && indexed && mode == "rebuilt" {
				// the sweep stopped counting readable txs at the panic, but the indexer may read further: the index is
				// compared with the pristine index at whichever tx it consistently corresponds to
				for u := upto; u < nTx; u++ {
					tmp := &outcome{}
					p.compare(a, p.want(u, true), s.obs, mode, nil, tmp)
					silent := false
					for _, v := range tmp.Viol {
						silent = silent || strings.HasPrefix(v.Sig, "silent-change api=Get")
					}
					if !silent {
						break
					}
					upto = u + 1
				}
			}
			p.compare(a, p.want(upto, indexed), s.obs, mode, s.leaked, out)
			if mode == "rebuilt" {
				os.RemoveAll(filepath.Join(w.dir, "index"))
			}
			w.patch(a, true)
		})
		if ok {
			return *out
		}
		// the sweep did not return within the cap: abandon this copy (the goroutine may still use it)
		w.fresh()
		if attempt == 3 {
			field, tx, entry := p.describe(a)
			return outcome{Detected: true, Viol: []lib.Violation{{Sig: fmt.Sprintf("hang api=%s field=%s cfg=%s tx=%d entry=%d alt=%s index=%s", apiOf(fmt.Sprint(cur.Load())+"#"), field, p.cf.Name, tx, entry, p.altString(a), mode),
				Detail: fmt.Sprintf("the read sweep did not return within %v in 3 out of 3 attempts; last API call started: %v", hangCap, cur.Load()), Replay: replay{p.cf.Name, a, p.altString(a), mode, p.hash}}}}
		}
	}
}

// ---------- preparation of a configuration: store, layout, pristine observations ----------

func cfgByName(n string) cfg {
	for _, cf := range allCfgs {
		if cf.Name == n {
			return cf
		}
	}
	harnessBug("unknown configuration %q", n)
	return cfg{}
}

func prepare(cf cfg, root string) *pristine {
	p := build(cf, filepath.Join(root, "master", "s"))
	w := newWorker(p, filepath.Join(root, "p"))
	var first Obs
	for i := 0; i < 4; i++ { // sweep 0 only yields the Alh values; sweeps 1..3 (persisted, rebuilt, persisted) must agree
		s := &sweeper{p: p, obs: Obs{}}
		if i == 2 {
			os.RemoveAll(filepath.Join(w.dir, "index"))
		}
		if r := s.sweep(w.dir, i != 2, false, func(int) {}); r != nTx || s.panicked || len(s.leaked) > 0 {
			harnessBug("%s: pristine sweep: readable=%d panicked=%v leaked=%v %v", cf.Name, r, s.panicked, s.leaked, s.obs)
		}
		if i == 2 {
			os.RemoveAll(filepath.Join(w.dir, "index"))
			writeTree(w.dir, p.files, "index/")
		}
		switch {
		case i == 0:
			for t := 1; t <= nTx; t++ { // the accumulated hashes a client would hold
				o := s.obs[fmt.Sprintf("ReadTxHeader#%d", t)]
				hex.Decode(p.alh[t][:], []byte(o[strings.LastIndex(o, "alh=")+4:]))
			}
		case i == 1:
			first = s.obs
		case !reflect.DeepEqual(first, s.obs):
			for k, v := range first {
				if s.obs[k] != v {
					fmt.Fprintf(os.Stderr, "%s:\n  1st %s\n  now %s\n", k, short(v, 300), short(s.obs[k], 300))
				}
			}
			harnessBug("%s: pristine sweep %d differs from sweep 1 (%d vs %d observations)", cf.Name, i, len(first), len(s.obs))
		}
	}
	p.reads = Obs{}
	for k, v := range first {
		switch {
		case strings.HasPrefix(k, "Get"):
			if v != p.getAt[nTx][k] {
				harnessBug("%s: %s after reopen = %s, before close = %s", cf.Name, k, v, p.getAt[nTx][k])
			}
			continue
		case k == "InitIndexing#" || k == "WaitForIndexingUpto#":
			continue
		case !strings.HasPrefix(v, "ok:"):
			harnessBug("%s: pristine observation %s = %s", cf.Name, k, v)
		case strings.HasPrefix(k, "DualProof") && !strings.HasSuffix(v, "verifies=true"):
			harnessBug("%s: pristine dual proof %s does not verify", cf.Name, k)
		}
		p.reads[k] = v
	}
	for _, mode := range []string{"rebuilt", "persisted"} {
		if out := w.run(nil, mode, false, nil); len(out.Viol) > 0 || out.Detected {
			harnessBug("%s: unaltered store, index %s: %+v", cf.Name, mode, out)
		}
	}
	w.selfCheck()
	p.saved = filepath.Join(root, "pristine.gob")
	f, err := os.Create(p.saved)
	if err != nil || gob.NewEncoder(f).Encode(savedPristine{p.files, p.reads, p.getAt, p.alh, p.hash}) != nil || f.Close() != nil {
		harnessBug("cannot save the pristine state: %v", err)
	}
	return p
}

type savedPristine struct {
	Files map[string][]byte
	Reads Obs
	GetAt [nTx + 1]Obs
	Alh   [nTx + 1][sha256.Size]byte
	Hash  string
}

// ---------- child processes (collector off: large buffers stay untouched; isolate process-level crashes) ----------

type childInit struct {
	Cfg      string `json:"cfg"`
	Pristine string `json:"pristine"`
	Scratch  string `json:"scratch"`
}

type childReq struct {
	Alt  alteration `json:"alt"`
	Mode string     `json:"mode"`
}

func childMain(arg string) {
	var in childInit
	if err := json.Unmarshal([]byte(arg), &in); err != nil {
		harnessBug("child: %v", err)
	}
	var sp savedPristine
	f, err := os.Open(in.Pristine)
	if err != nil || gob.NewDecoder(f).Decode(&sp) != nil {
		harnessBug("child: cannot load %s: %v", in.Pristine, err)
	}
	f.Close()
	p := &pristine{cf: cfgByName(in.Cfg), files: sp.Files, reads: sp.Reads, getAt: sp.GetAt, alh: sp.Alh, hash: sp.Hash}
	p.layout()
	debug.SetGCPercent(-1) // every large buffer comes fresh from the OS and is never touched; the parent recycles the process
	w := newWorker(p, filepath.Join(in.Scratch, "w"))
	enc, dec := json.NewEncoder(os.Stdout), json.NewDecoder(os.Stdin)
	for {
		var rq childReq
		if dec.Decode(&rq) != nil {
			os.Exit(0)
		}
		enc.Encode(w.run(rq.Alt, rq.Mode, true, func(po outcome) { enc.Encode(po) }))
		debug.FreeOSMemory() // (16 children holding the buffers of 64 heavy alterations each exhausted the machine's memory)
	}
}

type childProc struct {
	cmd     *exec.Cmd
	in      io.WriteCloser
	out     *json.Decoder
	errb    bytes.Buffer
	scratch string
	served  int
}

func (ch *childProc) stop() {
	ch.in.Close()
	ch.cmd.Wait()
	os.RemoveAll(ch.scratch)
}

// runChild returns the outcome of the alteration executed in the worker's child process (a crash of the child
// is a violation). The child is replaced after a crash and after 64 alterations (its heap only grows).
// at most 2 alterations with large predicted allocations (up to 2 x 4 GiB each) run at the same time
var heavySem = make(chan struct{}, 2)

func (w *worker) runChild(a alteration, mode string) outcome {
	heavySem <- struct{}{}
	defer func() { <-heavySem }()
	return w.runChildOnce(a, mode, false)
}

func (w *worker) runChildOnce(a alteration, mode string, retried bool) outcome {
	p := w.p
	if w.child != nil && w.child.served >= 64 {
		w.child.stop()
		w.child = nil
	}
	if w.child == nil {
		ch := &childProc{scratch: lib.Scratch("c09child")}
		arg, _ := json.Marshal(childInit{p.cf.Name, p.saved, ch.scratch})
		ch.cmd = exec.Command(os.Args[0], "-child", string(arg))
		ch.in, _ = ch.cmd.StdinPipe()
		so, _ := ch.cmd.StdoutPipe()
		ch.cmd.Stderr = &ch.errb
		if err := ch.cmd.Start(); err != nil {
			harnessBug("cannot start a child process: %v", err)
		}
		ch.out = json.NewDecoder(so)
		w.child = ch
	}
	ch := w.child
	ch.served++
	if err := json.NewEncoder(ch.in).Encode(childReq{a, mode}); err != nil {
		if retried {
			harnessBug("child request: %v (%s)", err, short(ch.errb.String(), 2000))
		}
		// the child died after it had answered the previous request: start a new one
		c.Add("child_died_between_requests", 1)
		c.Sample(map[string]any{"child_died_between_requests": short(ch.errb.String(), 600)})
		ch.stop()
		w.child = nil
		return w.runChildOnce(a, mode, true)
	}
	var last *outcome
	for {
		var o outcome
		if err := ch.out.Decode(&o); err != nil {
			break
		}
		last = &o
		if !o.Partial {
			return o
		}
	}
	ch.stop()
	w.child = nil
	msg := ch.errb.String()
	i := strings.Index(msg, "panic:")
	if i < 0 {
		i = strings.Index(msg, "fatal error:")
	}
	if i < 0 {
		harnessBug("child failed: %s", short(msg, 3000))
	}
	out, api := outcome{}, "read-sweep"
	if last != nil {
		out, api = *last, "index"
	}
	field, tx, entry := p.describe(a)
	out.Detected = true
	out.Viol = append(out.Viol, lib.Violation{Sig: fmt.Sprintf("crash api=%s field=%s cfg=%s tx=%d entry=%d alt=%s index=%s", api, field, p.cf.Name, tx, entry, p.altString(a), mode),
		Detail: "the process died (a panic in a goroutine of the store cannot be recovered by the caller): " + short(msg[i:], 1500), Replay: replay{p.cf.Name, a, p.altString(a), mode, p.hash}})
	return out
}

// ---------- hang confirmation ----------

type hangProbe struct {
	start    time.Time
	armed    [3]atomic.Bool
	returned [3]atomic.Bool
}

var (
	probeOnce sync.Once
	probe     *hangProbe
)

// confirmHang: three independent real executions: provoke the leak, call ExportTx again and see whether it ever returns.
func confirmHang(p *pristine, a alteration, root string) {
	probe = &hangProbe{start: time.Now()}
	for n := 0; n < 3; n++ {
		go func() {
			w := newWorker(p, filepath.Join(root, fmt.Sprintf("probe%d", n)))
			w.patch(a, false)
			st, err := store.Open(w.dir, options(p.cf))
			if err != nil {
				return
			}
			tx, mux := store.NewTx(maxTxEntries, maxKeyLen), valBsMux(st)
			for t := 1; t <= nTx; t++ {
				st.ExportTx(uint64(t), false, false, tx)
				if !mux.TryLock() {
					probe.armed[n].Store(true)
					st.ExportTx(1, false, false, store.NewTx(maxTxEntries, maxKeyLen)) // expected never to return
					probe.returned[n].Store(true)
					return
				}
				mux.Unlock()
			}
		}()
	}
}

// ---------- main ----------

func main() {
	child := flag.String("child", "", "internal: run one alteration in a child process")
	dump := flag.String("dump", "", "internal: build the stores of all configurations under this directory and describe them")
	flag.Parse()
	if *child != "" {
		childMain(*child)
	}
	if *dump != "" {
		for _, cf := range allCfgs {
			p := prepare(cf, filepath.Join(*dump, cf.Name))
			n := map[string]int{}
			for _, s := range p.sites {
				n[s.Log+":"+p.regions[s.reg].Field]++
			}
			fmt.Printf("%s hash=%s sites=%d observations=%d+%d\n   %v\n", cf.Name, p.hash, len(p.sites), len(p.reads), len(p.getAt[nTx])+2, n)
			for i, s := range p.sites {
				if r := p.regions[s.reg]; i == 0 || p.sites[i-1].reg != s.reg {
					fmt.Printf("   site %4d %s+%d %s tx=%d entry=%d\n", i, s.Log, s.off(), r.Field, r.Tx, r.Entry)
				}
			}
			w := newWorker(p, filepath.Join(*dump, cf.Name, "timing"))
			t0 := time.Now()
			for i := 0; i < 20; i++ {
				w.run(nil, "rebuilt", false, nil)
			}
			t1 := time.Now()
			for i := 0; i < 20; i++ {
				w.run(nil, "persisted", false, nil)
			}
			fmt.Printf("   rebuilt sweep %v, persisted sweep %v\n", t1.Sub(t0)/20, time.Since(t1)/20)
		}
		os.Exit(0)
	}
	c = lib.New("C09", "exploration", 140*time.Second, 25*time.Minute)
	c.Assume("SHA-256 collision resistance; alterations restricted to the committed tx-log records and the referenced value-log ranges (commit log, hash tree and index files are not altered)")
	c.Assume("physical value locators (vOff) and error texts are not compared; expirable entries expire in 2100")
	if v := os.Getenv("C09_WORKERS"); v != "" {
		fmt.Sscan(v, &c.Workers)
	}
	ballast = make([]byte, 16<<20) // never touched: raises the heap goal a little (thousands of short-lived stores per second)
	root := lib.Scratch("c09")
	scratchRoot = root

	if c.ReplayPath != "" {
		var r replay
		c.LoadReplay(&r)
		p := prepare(cfgByName(r.Cfg), filepath.Join(root, r.Cfg))
		if p.hash != r.Hash {
			fmt.Printf("note: the store built now (%s) differs from the recorded one (%s)\n", p.hash, r.Hash)
		}
		rw := newWorker(p, filepath.Join(root, "replay"))
		out := rw.runChild(r.Alt, r.Index)
		if rw.child != nil {
			rw.child.stop()
		}
		for _, v := range append(out.Viol, out.Leaks...) {
			c.Violate(v)
		}
		c.AddEvals(out.Evals)
		os.RemoveAll(root)
		c.Finish("replay of "+p.altString(r.Alt)+" index "+r.Index, false)
	}

	// quick: single alterations, rebuilt index: plain-io1, embedded, flate-io1, plain-io1-vcache completely, plain-io2 restricted to vLen, vOff
	// and the value logs. thorough: 6 configurations completely: single alterations with rebuilt and with persisted index,
	// then pairs of bit flips with rebuilt index.
	type phase struct {
		name, mode string
		pairs      bool
	}
	cfgs, phases := allCfgs[:5], []phase{{"single", "rebuilt", false}}
	if c.Thorough() {
		cfgs, phases = allCfgs, []phase{{"single", "rebuilt", false}, {"single", "persisted", false}, {"pair", "rebuilt", true}}
	}
	if v := os.Getenv("C09_CFGS"); v != "" {
		cfgs = nil
		for _, n := range strings.Split(v, ",") {
			cfgs = append(cfgs, cfgByName(n))
		}
	}
	var sampled sync.Map
	var leakMu sync.Mutex
	var leaks []lib.Violation
	ps := map[string]*pristine{}
	for _, ph := range phases { // a phase is finished for every configuration before the next one starts
		for _, cf := range cfgs {
			tag := ph.name + "_" + ph.mode + "_" + cf.Name
			if c.Expired() {
				c.CapHit("time budget: not started: " + tag)
				continue
			}
			p := ps[cf.Name]
			if p == nil {
				p = prepare(cf, filepath.Join(root, cf.Name))
				ps[cf.Name] = p
				c.Set("sites_"+cf.Name, len(p.sites))
				c.Set("observations_per_sweep_"+cf.Name, len(p.reads)+len(p.getAt[nTx])+2)
			}
			workers := make(chan *worker, c.Workers)
			for i := 0; i < c.Workers; i++ {
				workers <- newWorker(p, filepath.Join(root, cf.Name, fmt.Sprintf("w%d-%s-%s", i, ph.name, ph.mode)))
			}
			nSites, restricted := len(p.sites), !c.Thorough() && cf.IO == 2
			var skipped atomic.Int64
			c.ParallelFor(nSites, func(si int) {
				if restricted && p.sites[si].Log == "tx" && !strings.HasPrefix(p.regions[p.sites[si].reg].Field, "v") {
					return // quick tier, MaxIOConcurrency 2: only what selects and holds the values (vLen, vOff, value logs)
				}
				if c.Expired() {
					skipped.Add(1)
					return
				}
				w := <-workers // (a site whose alterations were only partly run when the budget expired counts as not run)
				defer func() { workers <- w }()
				alts := p.singles(si)
				if ph.pairs {
					alts = p.pairs(si)
				}
				field := p.regions[p.sites[si].reg].Field
				for n, a := range alts {
					if c.Expired() {
						if n > 0 {
							skipped.Add(1)
						}
						return
					}
					var out outcome
					if p.heavy(a) {
						out = w.runChild(a, ph.mode)
						c.Add("alterations_run_in_child_process", 1)
					} else if out = w.run(a, ph.mode, false, nil); out.NeedChild {
						// a read panicked (caught): the index part runs where a panicking indexer goroutine cannot kill the check
						co := w.runChild(a, ph.mode)
						out.Viol = append(out.Viol, co.Viol...)
						c.Add("alterations_run_in_child_process", 1)
					}
					if debugFDs {
						fmt.Printf("DEBUG fds=%d after %s detected=%v ex=%s\n", openFDs(), p.altString(a), out.Detected, out.Example)
					}
					c.AddEvals(out.Evals)
					for _, v := range out.Viol {
						c.Violate(v)
					}
					if len(out.Leaks) > 0 {
						probeOnce.Do(func() { confirmHang(p, a, root) })
						leakMu.Lock()
						leaks = append(leaks, out.Leaks...)
						leakMu.Unlock()
					}
					c.Add("alterations_"+tag, 1)
					switch {
					case len(out.Viol)+len(out.Leaks) > 0:
						c.Add("alterations_violating", 1)
						c.Add("violating_by_field_"+field, 1)
					case out.Detected:
						c.Add("alterations_detected", 1)
						if _, dup := sampled.LoadOrStore(field, true); !dup && strings.Contains("hdr.Ts key kLen hVal alh value cvalue hdr.NEntries", field) {
							c.Sample(map[string]any{"detected": p.altString(a), "cfg": cf.Name, "field": field, "first_error": out.Example})
						}
					default:
						c.Add("alterations_tolerated_all_reads_equal_pristine", 1)
						c.Add("tolerated_by_field_"+field, 1)
					}
					if out.Detected || len(out.Viol)+len(out.Leaks) > 0 {
						c.Distinct(tag + "/" + p.altString(a))
					}
				}
			})
			for i := 0; i < c.Workers; i++ {
				w := <-workers
				w.selfCheck()
				if w.child != nil {
					w.child.stop()
				}
			}
			if n := skipped.Load(); n > 0 {
				c.CapHit(fmt.Sprintf("time budget: %s: %d of %d sites not run", tag, n, nSites))
			}
		}
	}
	if probe != nil {
		if d := hangCap - time.Since(probe.start); d > 0 {
			time.Sleep(d)
		}
		blocked := 0
		for n := 0; n < 3; n++ {
			if probe.armed[n].Load() && !probe.returned[n].Load() {
				blocked++
			}
		}
		c.Set("hang_confirmations_blocked_longer_than_cap", blocked)
		if blocked == 3 {
			for _, v := range leaks {
				c.Violate(v)
			}
		} else {
			c.CapHit(fmt.Sprintf("ExportTx left its mutex locked in %d cases but only %d of 3 real follow-up calls blocked for %v", len(leaks), blocked, hangCap))
		}
	}
	if pf := os.Getenv("C09_HEAPPROF"); pf != "" { // debugging aid
		runtime.GC()
		if f, err := os.Create(pf); err == nil {
			pprof.WriteHeapProfile(f)
			f.Close()
		}
		fmt.Fprintf(os.Stderr, "goroutines at the end: %d\n", runtime.NumGoroutine())
	}
	os.RemoveAll(root) // (Finish exits the process: deferred calls do not run)
	c.Finish("every alteration (operators: 8 bit flips, 00, FF, ^b per byte; thorough: + every pair of bit flips less than 8 bytes apart) of every committed "+
		"tx-log byte and every referenced value-log byte, per configuration; each followed by Open and the full read sweep (index rebuilt from the altered logs; "+
		"thorough: also with the index persisted before the alteration); every observation must be an error or equal the pristine one. "+
		"evaluations = compared observations; distinct = alterations detected by at least one read", !c.Expired())
}
