// C09 — corruption of stored data is detected, never served as valid.
//
// Space (enumerated completely, no sampling): small real stores built with embedded/store (4 transactions:
// multi-entry txs, tx metadata (extra, truncatedUpto), KV metadata (deleted / non-indexable / expirable), an
// empty value, a 1-byte value, values crossing a chunk boundary; file size 256 => tx log and value logs have
// several chunks) in the configurations plain / flate value logs x MaxIOConcurrency 1 / 2 and embedded values.
// Sites = every byte of every committed tx-log record (embedded: the whole committed tx-log range incl. the
// embedded values) and every byte of every referenced value-log range (flate: length prefix + compressed bytes).
// Alteration operators per site: every single-bit flip, byte <- 00, byte <- FF, byte <- ^b (distinct results only);
// thorough tier additionally every pair of bit flips whose bytes are less than 8 bytes apart in the same log.
//
// Each alteration is patched into a private copy of the store directory and the store is then read through
//   Open, ReadTx, ReadTxHeader, ReadTxEntry, ReadValue (entries of ReadTx and of ReadTxEntry), NewTxReader
//   ascending and descending over the whole range, ExportTx, DualProof(i,j)+VerifyDualProof for all i<=j,
//   WaitForIndexingUpto + Get / GetWithFilters(no filter) + Resolve of every key
// once with the index that was persisted before the alteration and once with the index directory removed
// (index rebuilt from the altered log).
//
// Oracle (only what the property states): every observation is an error OR exactly the pristine observation
// (ids, header fields incl. Alh, keys, metadata, value hashes, value lengths, values, exported bytes, proofs).
// With a rebuilt index that stopped at tx k (tx k+1 unreadable) Get is compared with the pristine Get at k.
// Never a panic (also not in a store goroutine: alterations that make a read panic are re-run in a child
// process for the rebuild variant), never a hang (a sweep takes milliseconds; > 60 s three times in a row =
// hang; a mutex left locked by a returning API call is detected directly and confirmed by 3 real 60 s waits).
// NOT compared: the physical locator vOff, error texts, anything timing related.
package main

import (
	"bytes"
	"errors"
	"context"
	"crypto/sha256"
	"encoding/binary"
	"encoding/hex"
	"encoding/json"
	"flag"
	"fmt"
	"io"
	"os"
	"os/exec"
	"path/filepath"
	"reflect"
	"runtime"
	"runtime/debug"
	"runtime/pprof"
	"sort"
	"strings"
	"sync"
	"sync/atomic"
	"time"
	"unsafe"

	"github.com/codenotary/immudb/embedded/appendable"
	"github.com/codenotary/immudb/embedded/logger"
	"github.com/codenotary/immudb/embedded/store"
	"verif/mc/lib"
)

const (
	fileSize     = 256
	maxTxEntries = 4
	maxKeyLen    = 8
	nTx          = 4
	heavyAlloc   = 32 << 20 // predicted allocation that sends an alteration to a child process
)

var (
	ballast []byte
	c       *lib.Check
	hangCap = 60 * time.Second
	nolog   = logger.NewSimpleLoggerWithLevel("c09", io.Discard, logger.LogError)
)

type cfg struct {
	Name     string
	Flate    bool
	Embedded bool
	IO       int
}

var allCfgs = []cfg{
	{"plain-io1", false, false, 1}, {"embedded", false, true, 1}, {"flate-io1", true, false, 1},
	{"plain-io2", false, false, 2}, {"flate-io2", true, false, 2},
}

func options(cf cfg) *store.Options {
	comp := appendable.NoCompression
	if cf.Flate {
		comp = appendable.FlateCompression
	}
	return store.DefaultOptions().WithSynced(false).WithLogger(nolog).WithFileSize(fileSize).
		WithMaxConcurrency(2).WithMaxIOConcurrency(cf.IO).WithMaxTxEntries(maxTxEntries).WithMaxKeyLen(maxKeyLen).
		WithMaxValueLen(1024).WithWriteBufferSize(1024).WithTxLogCacheSize(2).WithMaxActiveTransactions(4).
		WithMaxWaitees(4).WithCompressionFormat(comp).WithEmbeddedValues(cf.Embedded).
		WithTimeFunc(func() time.Time { return time.Unix(1_700_000_000, 0) }).
		WithIndexOptions(store.DefaultIndexOptions().WithCacheSize(16).WithFlushBufferSize(4096).WithMaxActiveSnapshots(4)).
		WithAHTOptions(store.DefaultAHTOptions().WithWriteBufferSize(1024).WithSyncThld(4))
}

// ---------- the history ----------

type kv struct {
	key  string
	val  []byte
	kind int // 0 plain, 1 deleted, 2 non-indexable, 3 expirable
}

func noise(seed byte, n int) []byte { // deterministic, incompressible
	var out []byte
	h := sha256.Sum256([]byte{seed})
	for len(out) < n {
		out = append(out, h[:]...)
		h = sha256.Sum256(h[:])
	}
	return out[:n]
}

var history = [nTx][]kv{
	{{"k1", []byte("one"), 0}, {"k2", nil, 0}, {"k3", noise(3, 130), 0}},
	{{"k1", []byte("uno-2"), 0}, {"k2", nil, 1}, {"k4", []byte("hidden"), 2}},
	{{"k3", noise(7, 130), 3}, {"k5", []byte("x"), 0}},
	{{"k1", []byte("final"), 0}},
}
var allKeys = []string{"k1", "k2", "k3", "k4", "k5", "k9"}

func txMetadata(t int) *store.TxMetadata {
	switch t {
	case 1:
		md := store.NewTxMetadata()
		md.WithExtra([]byte("xtra"))
		return md
	case 3:
		md := store.NewTxMetadata().WithTruncatedTxID(1)
		md.WithExtra([]byte("e4"))
		return md
	}
	return nil
}

type Obs map[string]string

type pristine struct {
	cf      cfg
	master  string           // directory never opened again
	files   map[string][]byte // relative path -> content of the master
	getAt   [nTx + 1]Obs
	keep    Obs
	rebuilt Obs
	alh     [nTx + 1][sha256.Size]byte
	sites   []site
	regions []region
	entries []entryPos
	hash    string
}

func harnessBug(f string, a ...any) {
	fmt.Fprintf(os.Stderr, "HARNESS ERROR: "+f+"\n", a...)
	os.Exit(2)
}

func build(cf cfg, dir string) *pristine {
	p := &pristine{cf: cf, master: dir}
	os.MkdirAll(filepath.Dir(dir), 0755)
	st, err := store.Open(dir, options(cf))
	if err != nil {
		harnessBug("build open: %v", err)
	}
	p.getAt[0] = Obs{}
	getObs(st, p.getAt[0], "")
	for t, kvs := range history {
		tx, err := st.NewTx(context.Background(), store.DefaultTxOptions())
		if err != nil {
			harnessBug("newtx: %v", err)
		}
		if md := txMetadata(t); md != nil {
			tx.WithMetadata(md)
		}
		for _, e := range kvs {
			var md *store.KVMetadata
			switch e.kind {
			case 1:
				md = store.NewKVMetadata()
				md.AsDeleted(true)
			case 2:
				md = store.NewKVMetadata()
				md.AsNonIndexable(true)
			case 3:
				md = store.NewKVMetadata()
				md.ExpiresAt(time.Date(2100, 1, 1, 0, 0, 0, 0, time.UTC))
			}
			if err := tx.Set([]byte(e.key), md, e.val); err != nil {
				harnessBug("set: %v", err)
			}
		}
		if _, err := tx.Commit(context.Background()); err != nil {
			harnessBug("commit: %v", err)
		}
		if err := st.WaitForIndexingUpto(context.Background(), uint64(t+1)); err != nil {
			harnessBug("wait: %v", err)
		}
		p.getAt[t+1] = Obs{}
		getObs(st, p.getAt[t+1], "")
	}
	if err := st.FlushIndexes(0, true); err != nil {
		harnessBug("flush: %v", err)
	}
	if err := st.Close(); err != nil {
		harnessBug("close: %v", err)
	}
	p.files = readTree(dir)
	h := sha256.New()
	var names []string
	for n := range p.files {
		names = append(names, n)
	}
	sort.Strings(names)
	for _, n := range names {
		if strings.HasPrefix(n, "tx/") || strings.HasPrefix(n, "val_") || strings.HasPrefix(n, "commit/") {
			h.Write([]byte(n)) // data part only: the appendable header serialises a Go map (order varies)
			h.Write(p.files[n][4+binary.BigEndian.Uint32(p.files[n]):])
		}
	}
	p.hash = hex.EncodeToString(h.Sum(nil)[:8])
	p.layout()
	return p
}

func readTree(dir string) map[string][]byte {
	out := map[string][]byte{}
	filepath.Walk(dir, func(path string, info os.FileInfo, err error) error {
		if err == nil && info.Mode().IsRegular() {
			rel, _ := filepath.Rel(dir, path)
			b, err := os.ReadFile(path)
			if err != nil {
				harnessBug("read %s: %v", path, err)
			}
			out[rel] = b
		}
		return nil
	})
	return out
}

func writeTree(dir string, files map[string][]byte, only string) {
	for rel, b := range files {
		if only != "" && !strings.HasPrefix(rel, only) {
			continue
		}
		p := filepath.Join(dir, rel)
		os.MkdirAll(filepath.Dir(p), 0755)
		if err := os.WriteFile(p, b, 0644); err != nil {
			harnessBug("write %s: %v", p, err)
		}
	}
}

// ---------- layout: committed byte ranges and their classification ----------

type site struct {
	Log   string // "tx", "val_0", ...
	Chunk int
	In    int // offset inside the chunk's data part
	file  string
	phys  int64
	orig  byte
	reg   int
}

func (s site) off() int { return s.Chunk*fileSize + s.In }

type region struct {
	Field string
	Tx    int // 1-based
	Entry int // -1 for header fields
}

type entryPos struct { // where vLen / vOff of an entry live in the tx log (logical offsets)
	tx, entry  int
	vLen, vOff int
}

// chunkData returns the data part (header stripped) of chunk i of a log, and the header length.
func (p *pristine) chunkData(log, ext string, i int) ([]byte, int, string, bool) {
	rel := fmt.Sprintf("%s/%08d.%s", log, i, ext)
	b, ok := p.files[rel]
	if !ok {
		return nil, 0, rel, false
	}
	hl := 4 + int(binary.BigEndian.Uint32(b))
	return b[hl:], hl, rel, true
}

// linear returns the logical image of a log whose entries are split at chunk boundaries (plain logs).
func (p *pristine) linear(log, ext string) []byte {
	var out []byte
	for i := 0; ; i++ {
		d, _, _, ok := p.chunkData(log, ext, i)
		if !ok {
			return out
		}
		if len(out) != i*fileSize {
			harnessBug("%s: chunk %d does not start at a multiple of the file size", log, i)
		}
		out = append(out, d...)
	}
}

func (p *pristine) layout() {
	cl := p.linear("commit", "txi")
	if len(cl) != nTx*44 {
		harnessBug("commit log holds %d bytes, want %d", len(cl), nTx*44)
	}
	txl := p.linear("tx", "tx")
	type span struct {
		log      string
		from, to int // logical, for plain logs
		reg      int
		flate    bool
	}
	var spans []span
	add := func(log string, from, n int, f string, tx, entry int) {
		p.regions = append(p.regions, region{f, tx, entry})
		spans = append(spans, span{log, from, from + n, len(p.regions) - 1, false})
	}
	prevEnd := 0
	for t := 1; t <= nTx; t++ {
		off := int(binary.BigEndian.Uint64(cl[(t-1)*44:]))
		size := int(binary.BigEndian.Uint32(cl[(t-1)*44+8:]))
		if p.cf.Embedded {
			add("tx", prevEnd, 2, "evLen", t, -1)
		} else if off != prevEnd {
			harnessBug("tx %d starts at %d, previous record ended at %d", t, off, prevEnd)
		}
		i := off
		for _, f := range []struct {
			n string
			l int
		}{{"hdr.ID", 8}, {"hdr.Ts", 8}, {"hdr.BlTxID", 8}, {"hdr.BlRoot", 32}, {"hdr.PrevAlh", 32}, {"hdr.Version", 2}, {"hdr.mdLen", 2}} {
			add("tx", i, f.l, f.n, t, -1)
			i += f.l
		}
		mdLen := int(binary.BigEndian.Uint16(txl[i-2:]))
		if mdLen > 0 {
			add("tx", i, mdLen, "hdr.md", t, -1)
			i += mdLen
		}
		add("tx", i, 4, "hdr.NEntries", t, -1)
		n := int(binary.BigEndian.Uint32(txl[i:]))
		i += 4
		if n != len(history[t-1]) {
			harnessBug("tx %d: %d entries in the log, %d in the history", t, n, len(history[t-1]))
		}
		for e := 0; e < n; e++ {
			add("tx", i, 2, "kv.mdLen", t, e)
			kmd := int(binary.BigEndian.Uint16(txl[i:]))
			i += 2
			if kmd > 0 {
				add("tx", i, kmd, "kv.md", t, e)
				i += kmd
			}
			add("tx", i, 2, "kLen", t, e)
			kl := int(binary.BigEndian.Uint16(txl[i:]))
			i += 2
			add("tx", i, kl, "key", t, e)
			i += kl
			add("tx", i, 4, "vLen", t, e)
			add("tx", i+4, 8, "vOff", t, e)
			p.entries = append(p.entries, entryPos{t, e, i, i + 4})
			vLen := int(binary.BigEndian.Uint32(txl[i:]))
			vOff := binary.BigEndian.Uint64(txl[i+4:])
			i += 12
			add("tx", i, 32, "hVal", t, e)
			i += 32
			if vLen != len(history[t-1][e].val) {
				harnessBug("tx %d entry %d: vLen %d", t, e, vLen)
			}
			if vLen == 0 {
				continue
			}
			id, vo := int(vOff>>56), int(vOff&(1<<55-1))
			switch {
			case p.cf.Embedded:
				add("tx", vo, vLen, "value", t, e)
			case !p.cf.Flate:
				add(fmt.Sprintf("val_%d", id-1), vo, vLen, "value", t, e)
			default:
				log := fmt.Sprintf("val_%d", id-1)
				d, _, _, ok := p.chunkData(log, "val", vo/fileSize)
				if !ok || vo%fileSize+4 > len(d) {
					harnessBug("tx %d entry %d: value offset %d outside %s", t, e, vo, log)
				}
				clen := int(binary.BigEndian.Uint32(d[vo%fileSize:]))
				p.regions = append(p.regions, region{"clen", t, e})
				spans = append(spans, span{log, vo, vo + 4, len(p.regions) - 1, true})
				p.regions = append(p.regions, region{"cvalue", t, e})
				spans = append(spans, span{log, vo + 4, vo + 4 + clen, len(p.regions) - 1, true})
			}
		}
		add("tx", i, 32, "alh", t, -1)
		i += 32
		if i != off+size {
			harnessBug("tx %d: parsed %d bytes, commit log says %d", t, i-off, size)
		}
		prevEnd = i
	}
	seen := map[string]bool{}
	for _, sp := range spans {
		ext := "val"
		if sp.log == "tx" {
			ext = "tx"
		}
		for o := sp.from; o < sp.to; o++ {
			ch, in := o/fileSize, o%fileSize
			if sp.flate { // a compressed entry is never split: it continues in the chunk it starts in
				ch, in = sp.from/fileSize, sp.from%fileSize+(o-sp.from)
			}
			d, hl, rel, ok := p.chunkData(sp.log, ext, ch)
			if !ok || in >= len(d) {
				harnessBug("%s offset %d (%s) is outside the files", sp.log, o, p.regions[sp.reg].Field)
			}
			k := fmt.Sprintf("%s/%d/%d", sp.log, ch, in)
			if seen[k] {
				harnessBug("site %s classified twice", k)
			}
			seen[k] = true
			p.sites = append(p.sites, site{sp.log, ch, in, rel, int64(hl + in), d[in], sp.reg})
		}
	}
	sort.SliceStable(p.sites, func(a, b int) bool {
		x, y := p.sites[a], p.sites[b]
		if x.Log != y.Log {
			return x.Log < y.Log
		}
		if x.Chunk != y.Chunk {
			return x.Chunk < y.Chunk
		}
		return x.In < y.In
	})
	if !p.cf.Embedded && prevEnd != len(txl) {
		harnessBug("tx log holds %d bytes, committed %d", len(txl), prevEnd)
	}
}

// ---------- observations ----------

func mdBytes(md interface{ Bytes() []byte }) string {
	if v := reflect.ValueOf(md); !v.IsValid() || v.IsNil() {
		return ""
	}
	return hex.EncodeToString(md.Bytes())
}

func encHdr(h *store.TxHeader) string {
	return fmt.Sprintf("id=%d ts=%d bl=%d blroot=%x prev=%x ver=%d md=%s n=%d eh=%x alh=%x",
		h.ID, h.Ts, h.BlTxID, h.BlRoot, h.PrevAlh, h.Version, mdBytes(h.Metadata), h.NEntries, h.Eh, h.Alh())
}

func encEntry(e *store.TxEntry) string {
	return fmt.Sprintf("{key=%x md=%s hval=%x}", e.Key(), mdBytes(e.Metadata()), e.HVal())
}

func encTx(tx *store.Tx) (string, string) {
	s, l := encHdr(tx.Header()), ""
	for _, e := range tx.Entries() {
		s += " " + encEntry(e)
		l += fmt.Sprintf("%d,", e.VLen())
	}
	return s, l
}

func encDual(p *store.DualProof) string {
	s := fmt.Sprintf("src=%s tgt=%s incl=%x cons=%x blalh=%x last=%x", encHdr(p.SourceTxHeader), encHdr(p.TargetTxHeader),
		p.InclusionProof, p.ConsistencyProof, p.TargetBlTxAlh, p.LastInclusionProof)
	if p.LinearProof != nil {
		s += fmt.Sprintf(" lin=%d-%d:%x", p.LinearProof.SourceTxID, p.LinearProof.TargetTxID, p.LinearProof.Terms)
	}
	if p.LinearAdvanceProof != nil {
		s += fmt.Sprintf(" adv=%x/%x", p.LinearAdvanceProof.LinearProofTerms, p.LinearAdvanceProof.InclusionProofs)
	}
	return s
}

// sweeper performs the read sweep of one opened store copy.
type sweeper struct {
	p        *pristine
	obs      Obs
	panicked bool
	cur      *atomic.Value
	leaked   []string // API calls that returned with ImmuStore._valBsMux still locked
}

// call records one observation: "ok:<content>", "err:<text>" or "panic:<text>". Returns true on ok.
func (s *sweeper) call(key string, f func() (string, error)) bool {
	if s.panicked {
		return false
	}
	if s.cur != nil {
		s.cur.Store(key)
	}
	var r string
	var err error
	if pn := lib.Catch(func() { r, err = f() }); pn != "" {
		s.obs[key] = "panic:" + pn
		s.panicked = true
		return false
	}
	if err != nil {
		s.obs[key] = "err:" + err.Error()
		return false
	}
	s.obs[key] = "ok:" + r
	return true
}

func valBsMux(st *store.ImmuStore) *sync.Mutex {
	f := reflect.ValueOf(st).Elem().FieldByName("_valBsMux")
	if !f.IsValid() || f.Type() != reflect.TypeOf(sync.Mutex{}) {
		return nil
	}
	return (*sync.Mutex)(unsafe.Pointer(f.UnsafeAddr()))
}

func getObs(st *store.ImmuStore, obs Obs, suffix string) {
	s := &sweeper{obs: obs}
	s.gets(st, suffix)
}

func (s *sweeper) gets(st *store.ImmuStore, suffix string) {
	for _, k := range allKeys {
		for _, api := range []string{"Get", "GetWithFilters"} {
			var ref store.ValueRef
			ok := s.call(fmt.Sprintf("%s%s#%s", api, suffix, k), func() (string, error) {
				var err error
				if api == "Get" {
					ref, err = st.Get(context.Background(), []byte(k))
				} else {
					ref, err = st.GetWithFilters(context.Background(), []byte(k))
				}
				if err != nil {
					return "", err
				}
				return fmt.Sprintf("tx=%d hc=%d txmd=%s kvmd=%s hval=%x", ref.Tx(), ref.HC(), mdBytes(ref.TxMetadata()), mdBytes(ref.KVMetadata()), ref.HVal()), nil
			})
			if ok {
				s.obs[fmt.Sprintf("%s%s.vLen#%s", api, suffix, k)] = fmt.Sprintf("ok:%d", ref.Len())
				s.call(fmt.Sprintf("%s%s.Resolve#%s", api, suffix, k), func() (string, error) {
					v, err := ref.Resolve()
					return hex.EncodeToString(v), err
				})
			}
		}
	}
}

// sweepKeep: full read sweep with the index directory as it is. Returns the number of leading readable txs.
func (s *sweeper) sweepKeep(dir string) (readable int) {
	var st *store.ImmuStore
	if !s.call("Open#", func() (string, error) {
		var err error
		st, err = store.Open(dir, options(s.p.cf))
		return "", err
	}) {
		return -1
	}
	defer lib.Catch(func() { st.Close() })
	tx := store.NewTx(maxTxEntries, maxKeyLen)
	prefix := true
	for t := 1; t <= nTx; t++ {
		var vl string
		ok := s.call(fmt.Sprintf("ReadTx#%d", t), func() (r string, err error) {
			if err = st.ReadTx(uint64(t), false, tx); err == nil {
				r, vl = encTx(tx)
			}
			return
		})
		if ok {
			s.obs[fmt.Sprintf("ReadTx.vLen#%d", t)] = "ok:" + vl
			for i, e := range tx.Entries() {
				s.call(fmt.Sprintf("ReadValue#%d/%d", t, i), func() (string, error) {
					v, err := st.ReadValue(e)
					return hex.EncodeToString(v), err
				})
			}
		}
		if ok && prefix {
			readable = t
		} else {
			prefix = false
		}
	}
	hdrs := make([]*store.TxHeader, nTx+1)
	for t := 1; t <= nTx; t++ {
		s.call(fmt.Sprintf("ReadTxHeader#%d", t), func() (string, error) {
			h, err := st.ReadTxHeader(uint64(t), false, false)
			if err != nil {
				return "", err
			}
			hdrs[t] = h
			return encHdr(h), nil
		})
		for _, e := range history[t-1] {
			var ent *store.TxEntry
			ok := s.call(fmt.Sprintf("ReadTxEntry#%d/%s", t, e.key), func() (string, error) {
				en, h, err := st.ReadTxEntry(uint64(t), []byte(e.key), false)
				if err != nil {
					return "", err
				}
				ent = en
				return encEntry(en) + " " + encHdr(h), nil
			})
			if ok {
				s.obs[fmt.Sprintf("ReadTxEntry.vLen#%d/%s", t, e.key)] = fmt.Sprintf("ok:%d", ent.VLen())
				s.call(fmt.Sprintf("ReadValue#%d/%s", t, e.key), func() (string, error) {
					v, err := st.ReadValue(ent)
					return hex.EncodeToString(v), err
				})
			}
		}
	}
	for _, desc := range []bool{false, true} {
		name, first := "TxReader.asc", uint64(1)
		if desc {
			name, first = "TxReader.desc", nTx
		}
		var r *store.TxReader
		if !s.call(name+"#new", func() (string, error) {
			var err error
			r, err = st.NewTxReader(first, desc, tx)
			return "", err
		}) {
			continue
		}
		for i := 0; i <= nTx; i++ { // the read after the last tx must report the end
			if !s.call(fmt.Sprintf("%s#%d", name, i), func() (string, error) {
				rtx, err := r.Read()
				if i == nTx && errors.Is(err, store.ErrNoMoreEntries) {
					return "end", nil
				}
				if err != nil {
					return "", err
				}
				e, _ := encTx(rtx)
				return e, nil
			}) {
				break
			}
		}
	}
	mux := valBsMux(st)
	for t := 1; t <= nTx; t++ {
		key := fmt.Sprintf("ExportTx#%d", t)
		s.call(key, func() (string, error) {
			b, err := st.ExportTx(uint64(t), false, false, tx)
			return hex.EncodeToString(b), err
		})
		if mux != nil && !s.panicked {
			if mux.TryLock() {
				mux.Unlock()
			} else {
				s.leaked = append(s.leaked, key)
				mux.Unlock() // so that the sweep can continue; the violation is reported by the caller
			}
		}
	}
	for i := 1; i <= nTx; i++ {
		for j := i; j <= nTx; j++ {
			if hdrs[i] == nil || hdrs[j] == nil {
				continue
			}
			s.call(fmt.Sprintf("DualProof#%d-%d", i, j), func() (string, error) {
				pr, err := st.DualProof(hdrs[i], hdrs[j])
				if err != nil {
					return "", err
				}
				return fmt.Sprintf("%s verifies=%v", encDual(pr), store.VerifyDualProof(pr, uint64(i), uint64(j), s.p.alh[i], s.p.alh[j])), nil
			})
		}
	}
	s.index(st, nTx, "")
	return readable
}

func (s *sweeper) index(st *store.ImmuStore, upto int, suffix string) {
	if s.call("WaitForIndexingUpto"+suffix+"#", func() (string, error) {
		ctx, cancel := context.WithTimeout(context.Background(), hangCap+10*time.Second)
		defer cancel()
		return "", st.WaitForIndexingUpto(ctx, uint64(upto))
	}) {
		s.gets(st, suffix)
	}
}

// sweepRebuilt: the index directory was removed; the index is rebuilt from the (altered) logs up to tx k.
func (s *sweeper) sweepRebuilt(dir string, k int) {
	var st *store.ImmuStore
	if !s.call("Open.rebuild#", func() (string, error) {
		var err error
		st, err = store.Open(dir, options(s.p.cf))
		return "", err
	}) {
		return
	}
	defer lib.Catch(func() { st.Close() })
	s.index(st, k, ".rebuild")
}

// ---------- alterations ----------

type patch struct {
	Site int  `json:"site"`
	New  byte `json:"new"`
	Op   string `json:"op"`
}

type alteration []patch // 1 or 2 patches

func (p *pristine) altString(a alteration) string {
	var parts []string
	for _, x := range a {
		s := p.sites[x.Site]
		parts = append(parts, fmt.Sprintf("%s+%d:%s", s.Log, s.off(), x.Op))
	}
	return strings.Join(parts, ",")
}

func (p *pristine) singles(si int) []alteration {
	b := p.sites[si].orig
	var out []alteration
	seen := map[byte]bool{b: true}
	add := func(n byte, op string) {
		if !seen[n] {
			seen[n] = true
			out = append(out, alteration{{si, n, op}})
		}
	}
	for i := 0; i < 8; i++ {
		add(b^(1<<i), fmt.Sprintf("flip%d", i))
	}
	add(0x00, "set00")
	add(0xFF, "setFF")
	add(^b, "inv")
	return out
}

// pairs: two bit flips, the first one in site si, the second one in the same byte (higher bit) or in a following
// site of the same log less than 8 bytes away.
func (p *pristine) pairs(si int) []alteration {
	var out []alteration
	s := p.sites[si]
	for i := 0; i < 8; i++ {
		for j := i + 1; j < 8; j++ {
			out = append(out, alteration{{si, s.orig ^ (1 << i) ^ (1 << j), fmt.Sprintf("flip%d+%d", i, j)}})
		}
	}
	for sj := si + 1; sj < len(p.sites); sj++ {
		t := p.sites[sj]
		if t.Log != s.Log || t.off()-s.off() >= 8 || t.off() < s.off() {
			break
		}
		for i := 0; i < 8; i++ {
			for j := 0; j < 8; j++ {
				out = append(out, alteration{{si, s.orig ^ (1 << i), fmt.Sprintf("flip%d", i)}, {sj, t.orig ^ (1 << j), fmt.Sprintf("flip%d", j)}})
			}
		}
	}
	return out
}

// predictAlloc: the largest buffer a read will allocate because of the alteration (vLen of an entry, length
// prefix of a compressed value at the entry's — possibly altered — offset). Only used to decide WHERE the
// alteration is run (child process with the collector off), never by the oracle.
func (p *pristine) predictAlloc(a alteration) int64 {
	get := func(log string, off, n int) (uint64, bool) { // big-endian integer at a logical offset, after patching
		var v uint64
		for i := 0; i < n; i++ {
			ch, in := (off+i)/fileSize, (off+i)%fileSize
			if log != "tx" && p.cf.Flate {
				ch, in = off/fileSize, off%fileSize+i
			}
			ext := "val"
			if log == "tx" {
				ext = "tx"
			}
			d, _, _, ok := p.chunkData(log, ext, ch)
			if !ok || in >= len(d) {
				return 0, false
			}
			b := d[in]
			for _, x := range a {
				if s := p.sites[x.Site]; s.Log == log && s.Chunk == ch && s.In == in {
					b = x.New
				}
			}
			v = v<<8 | uint64(b)
		}
		return v, true
	}
	var max int64
	for _, e := range p.entries {
		if v, ok := get("tx", e.vLen, 4); ok && int64(v) > max {
			max = int64(v)
		}
		if p.cf.Flate {
			vo, _ := get("tx", e.vOff, 8)
			id, off := int(vo>>56), int64(vo&(1<<55-1))
			if id >= 1 && id <= p.cf.IO && off < 1<<30 {
				if v, ok := get(fmt.Sprintf("val_%d", id-1), int(off), 4); ok && int64(v) > max {
					max = int64(v)
				}
			}
		}
	}
	return max
}

// worker owns a private copy of the store.
type worker struct {
	p    *pristine
	root string
	dir  string
	n    int
}

func newWorker(p *pristine, root string) *worker {
	w := &worker{p: p, root: root}
	w.fresh()
	return w
}

func (w *worker) fresh() {
	w.n++
	w.dir = filepath.Join(w.root, fmt.Sprintf("c%d", w.n), "s")
	writeTree(w.dir, w.p.files, "")
}

func (w *worker) patch(a alteration, restore bool) {
	for _, x := range a {
		s := w.p.sites[x.Site]
		f, err := os.OpenFile(filepath.Join(w.dir, s.file), os.O_RDWR, 0)
		if err != nil {
			harnessBug("patch: %v", err)
		}
		b := x.New
		if restore {
			b = s.orig
		}
		if _, err := f.WriteAt([]byte{b}, s.phys); err != nil {
			harnessBug("patch: %v", err)
		}
		f.Close()
	}
}

// selfCheck: the logs of the private copy are still byte-identical to the master.
func (w *worker) selfCheck() {
	for rel, b := range w.p.files {
		if strings.HasPrefix(rel, "tx/") || strings.HasPrefix(rel, "val_") || strings.HasPrefix(rel, "commit/") {
			if got, err := os.ReadFile(filepath.Join(w.dir, rel)); err != nil || !bytes.Equal(got, b) {
				harnessBug("%s: private copy of %s changed during the run (err=%v)", w.p.cf.Name, rel, err)
			}
		}
	}
}

type outcome struct {
	Evals     int64           `json:"evals"`
	Detected  bool            `json:"detected"`
	Changed   bool            `json:"changed"`
	Viol      []lib.Violation `json:"viol"`
	Leaks     []lib.Violation `json:"leaks"` // hang candidates (mutex left locked); reported once confirmed
	NeedChild bool            `json:"need_child"` // a read panicked: the rebuild variant must run in a child process
	Readable  int             `json:"readable"`
	Done      []string        `json:"done"`
}

type replay struct {
	Cfg     string     `json:"cfg"`
	Alt     alteration `json:"alt"`
	AltDesc string     `json:"alt_desc"`
	Hash    string     `json:"store_hash"`
}

func (p *pristine) describe(a alteration) (field string, tx, entry int) {
	var fs []string
	for _, x := range a {
		r := p.regions[p.sites[x.Site].reg]
		if len(fs) == 0 || fs[len(fs)-1] != r.Field {
			fs = append(fs, r.Field)
		}
		tx, entry = r.Tx, r.Entry
	}
	return strings.Join(fs, "+"), tx, entry
}

// guarded runs f under the hang cap. ok=false: f did not return in time (its goroutine is abandoned).
func guarded(f func()) bool {
	done := make(chan struct{})
	go func() { defer close(done); f() }()
	t := time.NewTimer(hangCap)
	defer t.Stop()
	select {
	case <-done:
		return true
	case <-t.C:
		return false
	}
}

func short(s string, n int) string {
	if len(s) > n {
		return s[:n] + "…"
	}
	return s
}

// compare applies the oracle to one sweep.
func (p *pristine) compare(a alteration, want, got Obs, variant string, leaked []string, out *outcome) {
	field, tx, entry := p.describe(a)
	where := fmt.Sprintf("field=%s cfg=%s tx=%d entry=%d alt=%s idx=%s", field, p.cf.Name, tx, entry, p.altString(a), variant)
	rp := replay{p.cf.Name, a, p.altString(a), p.hash}
	byAPI := map[string][]string{}
	keys := make([]string, 0, len(want))
	for k := range want {
		keys = append(keys, k)
	}
	sort.Strings(keys)
	for _, k := range keys {
		out.Evals++
		w, g := want[k], got[k]
		switch {
		case strings.HasPrefix(g, "panic:"):
			api := k[:strings.IndexByte(k, '#')]
			out.Viol = append(out.Viol, lib.Violation{Sig: fmt.Sprintf("panic api=%s %s", api, where),
				Detail: fmt.Sprintf("%s panicked after the alteration: %s", k, short(g[6:], 1200)), Replay: rp})
			out.NeedChild = true
			out.Detected = true
		case g == "" || strings.HasPrefix(g, "err:"): // not reached because an earlier call failed, or an error: fine
			if strings.HasPrefix(w, "ok:") {
				out.Detected = true
			}
		case g != w:
			out.Changed = true
			byAPI[k[:strings.IndexByte(k, '#')]] = append(byAPI[k[:strings.IndexByte(k, '#')]], fmt.Sprintf("%s: pristine %s, now %s", k, short(w, 300), short(g, 300)))
		}
	}
	for k := range got {
		if _, ok := want[k]; !ok && !out.Changed { // (a pristine error that became a success brings its sub-observations)
			harnessBug("observation %s has no pristine counterpart", k)
		}
	}
	for api, ds := range byAPI {
		part := ""
		if i := strings.IndexByte(api, '.'); i >= 0 && !strings.HasPrefix(api, "TxReader") {
			api, part = api[:i], " out="+api[i+1:]
		}
		out.Viol = append(out.Viol, lib.Violation{Sig: fmt.Sprintf("silent-change api=%s %s%s", api, where, part),
			Detail: "no error, but the result differs from the committed content:\n" + strings.Join(ds, "\n"), Replay: rp})
	}
	for _, k := range leaked {
		out.Leaks = append(out.Leaks, lib.Violation{Sig: fmt.Sprintf("hang api=ExportTx %s", where),
			Detail: fmt.Sprintf("%s returned (%s) with ImmuStore._valBsMux still locked: every later ExportTx on this store blocks forever", k, short(got[k], 200)), Replay: rp})
	}
}

// run executes one alteration (keep: full sweep with the persisted index; rebuild: index rebuilt up to the
// number of leading readable txs, k when keep is not run) on the worker's private copy.
func (w *worker) run(a alteration, keep, rebuild bool, k int) outcome {
	p := w.p
	for attempt := 1; ; attempt++ {
		out := &outcome{Readable: k}
		var cur atomic.Value
		cur.Store("?")
		ok := guarded(func() {
			w.patch(a, false)
			if keep {
				s := &sweeper{p: p, obs: Obs{}, cur: &cur}
				out.Readable = s.sweepKeep(w.dir)
				p.compare(a, p.keep, s.obs, "keep", s.leaked, out)
				out.Done = append(out.Done, "keep")
			}
			if rebuild && !out.NeedChild && out.Readable >= 0 {
				os.Rename(filepath.Join(w.dir, "index"), filepath.Join(w.dir, "index.keep"))
				s := &sweeper{p: p, obs: Obs{}, cur: &cur}
				s.sweepRebuilt(w.dir, out.Readable)
				want := Obs{"Open.rebuild#": "ok:", "WaitForIndexingUpto.rebuild#": "ok:"}
				for kk, v := range p.getAt[out.Readable] {
					i := strings.IndexByte(kk, '#')
					j := strings.IndexByte(kk, '.')
					if j < 0 || j > i {
						j = i
					}
					want[kk[:j]+".rebuild"+kk[j:]] = v
				}
				p.compare(a, want, s.obs, fmt.Sprintf("rebuilt(upto=%d)", out.Readable), nil, out)
				os.RemoveAll(filepath.Join(w.dir, "index"))
				os.Rename(filepath.Join(w.dir, "index.keep"), filepath.Join(w.dir, "index"))
				out.Done = append(out.Done, "rebuild")
			}
			w.patch(a, true)
		})
		if ok {
			return *out
		}
		// the sweep did not return within the cap: abandon this copy (the goroutine may still use it)
		w.fresh()
		if attempt == 3 {
			field, tx, entry := p.describe(a)
			api := fmt.Sprint(cur.Load())
			if i := strings.IndexByte(api, '#'); i > 0 {
				api = api[:i]
			}
			return outcome{Detected: true, Viol: []lib.Violation{{Sig: fmt.Sprintf("hang api=%s field=%s cfg=%s tx=%d entry=%d alt=%s", api, field, p.cf.Name, tx, entry, p.altString(a)),
				Detail: fmt.Sprintf("the read sweep did not return within %v in 3 out of 3 attempts; last API call started: %v", hangCap, cur.Load()), Replay: replay{p.cf.Name, a, p.altString(a), p.hash}}}}
		}
	}
}

// ---------- child process (collector off; isolates process-level crashes) ----------

type childReq struct {
	Cfg     string     `json:"cfg"`
	Alt     alteration `json:"alt"`
	Hash    string     `json:"hash"`
	Scratch string     `json:"scratch"`
	Keep    bool       `json:"keep"`
	Rebuild bool       `json:"rebuild"`
	K       int        `json:"k"`
}

func cfgByName(n string) cfg {
	for _, cf := range allCfgs {
		if cf.Name == n {
			return cf
		}
	}
	harnessBug("unknown configuration %q", n)
	return cfg{}
}

func prepare(cf cfg, root string) *pristine {
	p := build(cf, filepath.Join(root, "master", "s"))
	w := newWorker(p, filepath.Join(root, "p"))
	// pristine observations; taken twice: they must be reproducible
	for i := 0; i < 3; i++ { // sweep 0 only yields the Alh values, sweeps 1 and 2 must agree
		s := &sweeper{p: p, obs: Obs{}}
		if r := s.sweepKeep(w.dir); r != nTx || s.panicked || len(s.leaked) > 0 {
			harnessBug("%s: pristine sweep: readable=%d panicked=%v leaked=%v %v", cf.Name, r, s.panicked, s.leaked, s.obs)
		}
		if i == 1 {
			p.keep = s.obs
		} else if i == 0 {
			for t := 1; t <= nTx; t++ { // the accumulated hashes a client would hold
				var h [sha256.Size]byte
				o := s.obs[fmt.Sprintf("ReadTxHeader#%d", t)]
				hex.Decode(h[:], []byte(o[strings.LastIndex(o, "alh=")+4:]))
				p.alh[t] = h
			}
		} else if !reflect.DeepEqual(p.keep, s.obs) {
			for k, v := range p.keep {
				if s.obs[k] != v {
					fmt.Fprintf(os.Stderr, "%s:\n  1st %s\n  2nd %s\n", k, short(v, 300), short(s.obs[k], 300))
				}
			}
			harnessBug("%s: pristine sweep is not reproducible (%d vs %d observations)", cf.Name, len(p.keep), len(s.obs))
		}
	}
	for k, v := range p.keep {
		isGet := strings.HasPrefix(k, "Get")
		if !strings.HasPrefix(v, "ok:") && !isGet {
			harnessBug("%s: pristine observation %s = %s", cf.Name, k, v)
		}
		if strings.HasPrefix(k, "DualProof") && !strings.HasSuffix(v, "verifies=true") {
			harnessBug("%s: pristine dual proof %s does not verify", cf.Name, k)
		}
		if isGet && v != p.getAt[nTx][k] {
			harnessBug("%s: %s after reopen = %s, before close = %s", cf.Name, k, v, p.getAt[nTx][k])
		}
	}
	// the rebuilt index must reproduce the live one
	out := w.run(nil, false, true, nTx)
	if len(out.Viol) > 0 || len(out.Done) != 1 {
		harnessBug("%s: pristine rebuild differs: %+v", cf.Name, out)
	}
	w.selfCheck()
	return p
}

func childMain(arg string) {
	var rq childReq
	if err := json.Unmarshal([]byte(arg), &rq); err != nil {
		harnessBug("child: %v", err)
	}
	p := prepare(cfgByName(rq.Cfg), rq.Scratch)
	if p.hash != rq.Hash {
		harnessBug("child: store build is not deterministic (%s vs %s)", p.hash, rq.Hash)
	}
	debug.SetGCPercent(-1) // every large buffer comes fresh from the OS and is never touched
	w := newWorker(p, filepath.Join(rq.Scratch, "w"))
	enc := json.NewEncoder(os.Stdout)
	k := rq.K
	if rq.Keep {
		out := w.run(rq.Alt, true, false, 0)
		out.NeedChild = false
		k = out.Readable
		enc.Encode(out)
	}
	if rq.Rebuild {
		out := w.run(rq.Alt, false, true, k)
		enc.Encode(out)
	}
	os.Exit(0)
}

func (p *pristine) runChild(a alteration, keep, rebuild bool, k int) (outs []outcome) {
	scratch := lib.Scratch("c09child")
	defer os.RemoveAll(scratch)
	rq, _ := json.Marshal(childReq{p.cf.Name, a, p.hash, scratch, keep, rebuild, k})
	ctx, cancel := context.WithTimeout(context.Background(), 8*hangCap)
	defer cancel()
	cmd := exec.CommandContext(ctx, os.Args[0], "-child", string(rq))
	var so, se bytes.Buffer
	cmd.Stdout, cmd.Stderr = &so, &se
	err := cmd.Run()
	dec := json.NewDecoder(&so)
	for {
		var o outcome
		if dec.Decode(&o) != nil {
			break
		}
		outs = append(outs, o)
	}
	want := 0
	if keep {
		want++
	}
	if rebuild {
		want++
	}
	if err == nil && len(outs) == want {
		return outs
	}
	msg := se.String()
	if i := strings.Index(msg, "panic:"); i >= 0 || strings.Contains(msg, "fatal error:") {
		if i < 0 {
			i = strings.Index(msg, "fatal error:")
		}
		field, tx, entry := p.describe(a)
		api, variant := "read-sweep", "keep"
		if len(outs) == want-1 && rebuild {
			api, variant = "index-rebuild", "rebuilt"
		}
		outs = append(outs, outcome{Detected: true, Viol: []lib.Violation{{Sig: fmt.Sprintf("crash api=%s field=%s cfg=%s tx=%d entry=%d alt=%s idx=%s", api, field, p.cf.Name, tx, entry, p.altString(a), variant),
			Detail: "the process died (a panic in a goroutine of the store cannot be recovered by the caller): " + short(msg[i:], 1500), Replay: replay{p.cf.Name, a, p.altString(a), p.hash}}}})
		return outs
	}
	harnessBug("child failed: %v\nstdout: %s\nstderr: %s", err, so.String(), short(msg, 3000))
	return nil
}

// ---------- hang confirmation ----------

type hangProbe struct {
	start    time.Time
	returned [3]atomic.Bool
	armed    [3]atomic.Bool
}

var (
	probeOnce sync.Once
	probe     *hangProbe
)

// confirmHang: three independent real executions: provoke the leak, call ExportTx again and see whether it ever returns.
func confirmHang(p *pristine, a alteration, root string) {
	probe = &hangProbe{start: time.Now()}
	for n := 0; n < 3; n++ {
		go func() {
			w := newWorker(p, filepath.Join(root, fmt.Sprintf("probe%d", n)))
			w.patch(a, false)
			st, err := store.Open(w.dir, options(p.cf))
			if err != nil {
				return
			}
			tx := store.NewTx(maxTxEntries, maxKeyLen)
			mux := valBsMux(st)
			for t := 1; t <= nTx; t++ {
				st.ExportTx(uint64(t), false, false, tx)
				if !mux.TryLock() {
					probe.armed[n].Store(true)
					st.ExportTx(1, false, false, store.NewTx(maxTxEntries, maxKeyLen)) // expected never to return
					probe.returned[n].Store(true)
					return
				}
				mux.Unlock()
			}
		}()
	}
}

// ---------- main ----------

type tally struct {
	mu    sync.Mutex
	leaks []lib.Violation
}

func main() {
	child := flag.String("child", "", "internal: run one alteration in a child process")
	dump := flag.String("dump", "", "internal: build the stores of all configurations under this directory and describe them")
	flag.Parse()
	if *dump != "" {
		for _, cf := range allCfgs {
			p := prepare(cf, filepath.Join(*dump, cf.Name))
			fmt.Printf("%s hash=%s sites=%d observations=%d\n", cf.Name, p.hash, len(p.sites), len(p.keep))
			n := map[string]int{}
			for _, s := range p.sites {
				n[s.Log+":"+p.regions[s.reg].Field]++
			}
			fmt.Println("  ", n)
			w := newWorker(p, filepath.Join(*dump, cf.Name, "timing"))
			t0 := time.Now()
			for i := 0; i < 20; i++ {
				w.run(nil, true, false, 0)
			}
			t1 := time.Now()
			for i := 0; i < 20; i++ {
				w.run(nil, false, true, nTx)
			}
			t2 := time.Now()
			a := alteration{{100, p.sites[100].orig ^ 1, "flip0"}}
			for i := 0; i < 20; i++ {
				w.run(a, true, true, 0)
			}
			fmt.Printf("   keep sweep %v, rebuild sweep %v, detected alteration both %v\n", t1.Sub(t0)/20, t2.Sub(t1)/20, time.Since(t2)/20)
		}
		os.Exit(0)
	}
	if *child != "" {
		childMain(*child)
	}
	if pf := os.Getenv("C09_PROF"); pf != "" {
		f, _ := os.Create(pf)
		pprof.StartCPUProfile(f)
		defer pprof.StopCPUProfile()
		runtime.MemProfileRate = 4096
		go func() {
			time.Sleep(25 * time.Second)
			pprof.StopCPUProfile()
			f.Close()
			mf, _ := os.Create(pf + ".mem")
			pprof.Lookup("allocs").WriteTo(mf, 0)
			mf.Close()
			os.Exit(0)
		}()
	}
	c = lib.New("C09", "exploration", 100*time.Second, 25*time.Minute)
	c.Assume("SHA-256 collision resistance; alterations restricted to the committed tx-log records and the referenced value-log ranges (commit log, hash tree and index files are not altered)")
	c.Assume("physical value locators (vOff) and error texts are not compared; expirable entries expire in 2100")
	if v := os.Getenv("C09_WORKERS"); v != "" {
		fmt.Sscan(v, &c.Workers)
	}
	// thousands of short-lived stores per second: collect by heap size, not by growth ratio (the live heap is tiny)
	ballast = make([]byte, 256<<20) // never touched: only raises the heap goal so that freed spans stay resident and are reused
	root := lib.Scratch("c09")
	defer os.RemoveAll(root)

	if c.ReplayPath != "" {
		var r replay
		c.LoadReplay(&r)
		p := prepare(cfgByName(r.Cfg), filepath.Join(root, r.Cfg))
		if p.hash != r.Hash {
			fmt.Printf("note: the store built now (%s) differs from the recorded one (%s)\n", p.hash, r.Hash)
		}
		for _, out := range p.runChild(r.Alt, true, true, 0) {
			for _, v := range append(out.Viol, out.Leaks...) {
				c.Violate(v)
			}
			c.AddEvals(out.Evals)
		}
		c.Finish("replay of "+p.altString(r.Alt), false)
	}

	cfgs := allCfgs[:4]
	if c.Thorough() {
		cfgs = allCfgs
	}
	var tl tally
	type phase struct {
		name  string
		pairs bool
	}
	phases := []phase{{"single", false}}
	if c.Thorough() {
		phases = append(phases, phase{"pair", true})
	}
	ps := map[string]*pristine{}
	for _, ph := range phases { // all single alterations of all configurations first, then the pairs
		for _, cf := range cfgs {
			if c.Expired() {
				c.CapHit(fmt.Sprintf("time budget: %s alterations of configuration %s not started", ph.name, cf.Name))
				continue
			}
			p := ps[cf.Name]
			if p == nil {
				p = prepare(cf, filepath.Join(root, cf.Name))
				ps[cf.Name] = p
				c.Set("sites_"+cf.Name, len(p.sites))
				c.Set("pristine_observations_"+cf.Name, len(p.keep)+len(p.getAt[nTx])+2)
			}
			workers := make(chan *worker, c.Workers)
			for i := 0; i < c.Workers; i++ {
				workers <- newWorker(p, filepath.Join(root, cf.Name, fmt.Sprintf("w%d-%s", i, ph.name)))
			}
			var skipped atomic.Int64
			nSites := len(p.sites)
			if v := os.Getenv("C09_SITES"); v != "" {
				fmt.Sscan(v, &nSites)
			}
			c.ParallelFor(nSites, func(si int) {
				if c.Expired() {
					skipped.Add(1)
					return
				}
				w := <-workers
				defer func() { workers <- w }()
				alts := p.singles(si)
				if ph.pairs {
					alts = p.pairs(si)
				}
				field := p.regions[p.sites[si].reg].Field
				for _, a := range alts {
					var outs []outcome
					if p.predictAlloc(a) >= heavyAlloc {
						outs = p.runChild(a, true, true, 0)
						c.Add("alterations_run_in_child_process", 1)
					} else {
						o := w.run(a, true, true, 0)
						outs = []outcome{o}
						if o.NeedChild {
							outs = append(outs, p.runChild(a, false, true, o.Readable)...)
							c.Add("alterations_run_in_child_process", 1)
						}
					}
					var detected, changed bool
					nv := 0
					for _, o := range outs {
						c.AddEvals(o.Evals)
						detected = detected || o.Detected
						changed = changed || o.Changed
						for _, v := range o.Viol {
							c.Violate(v)
							nv++
						}
						if len(o.Leaks) > 0 {
							probeOnce.Do(func() { confirmHang(p, a, root) })
							tl.mu.Lock()
							tl.leaks = append(tl.leaks, o.Leaks...)
							tl.mu.Unlock()
							nv++
						}
					}
					c.Add("alterations_"+ph.name+"_"+cf.Name, 1)
					switch {
					case nv > 0:
						c.Add("alterations_violating", 1)
						c.Add("violating_by_field_"+field, 1)
					case detected:
						c.Add("alterations_detected", 1)
					default:
						c.Add("alterations_tolerated_all_reads_equal_pristine", 1)
						c.Add("tolerated_by_field_"+field, 1)
						if ph.name == "single" {
							c.Sample(map[string]any{"tolerated": p.altString(a), "cfg": cf.Name, "field": field})
						}
					}
					if detected || nv > 0 {
						c.Distinct(cf.Name + "/" + p.altString(a))
					}
				}
			})
			for i := 0; i < c.Workers; i++ {
				(<-workers).selfCheck()
			}
			if n := skipped.Load(); n > 0 {
				c.CapHit(fmt.Sprintf("time budget: %s alterations of %d of %d sites of configuration %s not run", ph.name, n, len(p.sites), cf.Name))
			}
		}
	}
	if probe != nil {
		if d := hangCap - time.Since(probe.start); d > 0 {
			time.Sleep(d)
		}
		blocked := 0
		for n := 0; n < 3; n++ {
			if probe.armed[n].Load() && !probe.returned[n].Load() {
				blocked++
			}
		}
		c.Set("hang_confirmations_blocked_longer_than_cap", blocked)
		if blocked == 3 {
			for _, v := range tl.leaks {
				c.Violate(v)
			}
		} else {
			c.CapHit(fmt.Sprintf("ExportTx left its mutex locked in %d cases but only %d of 3 real follow-up calls blocked for %v", len(tl.leaks), blocked, hangCap))
		}
	}
	c.Finish("every alteration (operators: 8 bit flips, 00, FF, ^b per byte; thorough: + every pair of bit flips less than 8 bytes apart) of every committed "+
		"tx-log byte and every referenced value-log byte, per configuration; each followed by the full read sweep with the persisted and with a rebuilt index; "+
		"every observation must be an error or equal the pristine one. evaluations = compared observations; distinct = alterations detected by at least one read", !c.Expired())
}
